/* e_vg - Tie-B engine for C08 (Vgroups): real Vgroup API against the Lean model `H4.VGroup` + a C shadow graph.
 *
 * The V-layer sources are compiled INTO this engine (so that the static `vunpackvg` is reachable and a mutated
 * copy can be substituted with -DVGP_C=... / -DVG_C=...); everything below them comes from the library build.
 *
 * One case is one of
 *   history   random history on a fresh file: Vattach(-1,"w"), Vattach(ref,"r"/"w"), Vsetname/Vsetclass (len 0..300),
 *             Vaddtagref (duplicates allowed), Vinsert of Vgroups/Vdatas by handle, Vdeletetagref, Vsetattr,
 *             Vdelete, VSdelete, Vdetach, Vend/Hclose/Hopen/Vstart, and the queries Vntagrefs/Vinqtagref/
 *             Vgettagrefs/Vgettagref/Vnrefs/Vgetname/Vgetclass/Vgetnamelen/Vgetclassnamelen/Vgetid/Vgetnext/
 *             VSgetid/Vlone/VSlone/Vfind/Vfindclass; raw DFTAG_VG bytes (Hgetelement) -> `diskrec`;
 *             some cases grow one group across 64/128/256(/512) members;
 *   codec     vpackvg on hand-built VGROUP structs -> `packrec` (result: record bytes and the version vpackvg leaves in
 *             vg->version; the model driver also runs the vpackvg TRANSLATED from vgp.c on the same arguments, a difference
 *             shows as ` GEN=`); vunpackvg on records written by an independent
 *             writer in this file (versions 2,3,4, >4, negative; flags; attribute lists; NULs inside names) -> `unpackrec`;
 *             vunpackvg on ARBITRARY bytes (such a record intact, truncated, bit-flipped, with 16-bit fields forced to 0xffff / 0x8000,
 *             a negative nattrs, or plain noise) -> `unpackvg <hex> => <fields> | refused`.  vunpackvg has no length check: the record
 *             sits between two PROT_NONE guard regions (at the end of the readable window; at its start when len < 5, because the
 *             function begins with &buf[len-5]) and the call runs in a forked child, so that an access outside buf[0..len) kills the
 *             child instead of reading stale bytes; a dead child and a FAIL return are both printed as `refused` (the model's `none`).
 *             The Lean driver also runs the TRANSLATED vunpackvg (H4.Gen.Fn.Vgp3) on the same bytes (` GEN=` on a difference: its
 *             fields, or its ub / FAIL exactly when the real call was refused);
 *   external  a DFTAG_VG record written with Hputelement by the independent writer, then loaded by Vstart -> `putrec`;
 *   limits    (cases 7,8 mod 50): a Vgroup filled to MAX_REF = 65535 members refuses further Vaddtagref/Vinsert and keeps
 *             its members (in memory, on disk, after reopen); Vlone/VSlone with a Vgroup and a Vdata whose ref is 65535.
 *             (Both were defects of /repo until dc883d2 / dcf9aab: uint16 nvelt wrap, flag arrays one entry short.)
 *   probe     (case 9 mod 50, unless argv[4] == "noprobe"): rewrite of a version-4 record whose flags word is 0
 *             (packer and unpacker disagree on the layout).  Compiled with -DFIXED3 (library with the proposed fix)
 *             it is an ordinary positive test and the model is told so (`T vg config fixed3 1`).
 * T lines (engine `vg`): see lean/H4/Driver/VGroup.lean.  Refs handed out by Hnewref are INPUTS of the model.
 * Oracles (model-independent): the shadow graph below (ordered member lists, names, classes, attribute counts,
 * sets of Vgroups/Vdatas, lone sets, iteration order) is compared with every API answer.
 */
#ifndef VGP_C
#define VGP_C "hdf/src/vgp.c" /* resolved through -I<REPO> */
#endif
#ifndef VG_C
#define VG_C "hdf/src/vg.c"
#endif
#include VGP_C
#include VG_C
#include "hk.h"
#include <sys/mman.h>
#include <sys/wait.h>
#include <fcntl.h>

#define MAXG 64
#define MAXV 64
#define NSLOT 8
#define MAXMEM 70000
#define NAMEMAX 400

typedef struct {
    int     live, ref, n, nattach, nattrs;
    int     has_name, has_cls; /* 0 = never set */
    int     namelen, clslen;
    uint8_t name[NAMEMAX], cls[NAMEMAX];
    uint16 *tag, *rf; /* MAXMEM each */
} SG;
static SG  sg[MAXG];
static int nsg;
static int vds[MAXV], nvds; /* live vdata refs */
static struct { int live; int32 vkey; int gi; int w; } slot[NSLOT];
static int     probes_on = 1;
static int32   tbuf[MAXMEM], rbuf2[MAXMEM];
static uint8_t bigbuf[MAXMEM * 4 + 4096];
static char    namebuf[70000];
static int     attr_serial;

static SG *sg_by_ref(int ref)
{
    for (int i = 0; i < nsg; i++)
        if (sg[i].live && sg[i].ref == ref) return &sg[i];
    return NULL;
}
static int vd_exists(int ref)
{
    for (int i = 0; i < nvds; i++)
        if (vds[i] == ref) return 1;
    return 0;
}
static void vd_remove(int ref)
{
    for (int i = 0; i < nvds; i++)
        if (vds[i] == ref) { vds[i] = vds[--nvds]; return; }
}
static SG *sg_new(int ref)
{
    for (int i = 0; i < MAXG; i++)
        if (!sg[i].live) {
            SG *g = &sg[i];
            if (!g->tag) { g->tag = malloc(MAXMEM * sizeof(uint16)); g->rf = malloc(MAXMEM * sizeof(uint16)); }
            g->live = 1; g->ref = ref; g->n = 0; g->nattach = 0; g->nattrs = 0; g->has_name = g->has_cls = 0; g->namelen = g->clslen = 0;
            if (i >= nsg) nsg = i + 1;
            return g;
        }
    return NULL;
}
static int cmp_int(const void *a, const void *b) { return *(const int *)a - *(const int *)b; }
static int sorted_grefs(int *out)
{
    int n = 0;
    for (int i = 0; i < nsg; i++)
        if (sg[i].live) out[n++] = sg[i].ref;
    qsort(out, (size_t)n, sizeof(int), cmp_int);
    return n;
}
static int is_member_anywhere(int tag, int ref)
{
    for (int i = 0; i < nsg; i++)
        if (sg[i].live)
            for (int j = 0; j < sg[i].n; j++)
                if (sg[i].tag[j] == tag && sg[i].rf[j] == ref) return 1;
    return 0;
}
static void print_pairs32(const int32 *t, const int32 *r, int n)
{
    if (n <= 0) { fputs("-", stdout); return; }
    for (int i = 0; i < n; i++) printf("%s%d:%d", i ? "," : "", (int)t[i], (int)r[i]);
}
static void print_pairs16(const uint16 *t, const uint16 *r, int n)
{
    if (n <= 0) { fputs("-", stdout); return; }
    for (int i = 0; i < n; i++) printf("%s%d:%d", i ? "," : "", (int)t[i], (int)r[i]);
}
static void print_ints(const int32 *a, int n)
{
    if (n <= 0) { fputs("-", stdout); return; }
    for (int i = 0; i < n; i++) printf("%s%d", i ? "," : "", (int)a[i]);
}

/* ------------------------------------------------------------------ file handling */
static int32       fid = FAIL;
static const char *path;

static int open_file(int create)
{
    fid = Hopen(path, create ? DFACC_CREATE : DFACC_RDWR, (int16)(hk_chance(50) ? 0 : hk_range(4, 40)));
    if (fid == FAIL) { hk_fail("vg-open", "Hopen create=%d", create); return -1; }
    if (Vstart(fid) == FAIL) { hk_fail("vg-vstart", "Vstart"); Hclose(fid); fid = FAIL; return -1; }
    return 0;
}
static void close_file(void)
{
    if (fid == FAIL) return;
    if (Vend(fid) == FAIL) hk_fail("vg-vend", "Vend");
    if (Hclose(fid) == FAIL) hk_fail("vg-hclose", "Hclose");
    fid = FAIL;
}

/* ------------------------------------------------------------------ checks of one open group against the shadow */
static void check_members(int s, const char *when)
{
    SG   *g = &sg[slot[s].gi];
    int32 n = Vntagrefs(slot[s].vkey);
    if (n != g->n) { hk_fail("vg-count", "%s: Vntagrefs=%d shadow=%d ref=%d", when, (int)n, g->n, g->ref); return; }
    int32 got = Vgettagrefs(slot[s].vkey, tbuf, rbuf2, MAXMEM);
    if (got != g->n) { hk_fail("vg-gettagrefs", "%s: returned %d shadow=%d", when, (int)got, g->n); return; }
    for (int i = 0; i < g->n; i++)
        if (tbuf[i] != g->tag[i] || rbuf2[i] != g->rf[i]) {
            hk_fail("vg-members", "%s: ref=%d member %d is %d:%d shadow %d:%d (n=%d)", when, g->ref, i, (int)tbuf[i], (int)rbuf2[i], g->tag[i], g->rf[i], g->n);
            return;
        }
}
static void check_names(int s, const char *when)
{
    SG    *g = &sg[slot[s].gi];
    uint16 l = 9999;
    if (Vgetnamelen(slot[s].vkey, &l) == FAIL || l != g->namelen) hk_fail("vg-namelen", "%s: Vgetnamelen=%d shadow=%d", when, l, g->namelen);
    namebuf[0] = 1;
    if (Vgetname(slot[s].vkey, namebuf) == FAIL || strlen(namebuf) != (size_t)g->namelen || memcmp(namebuf, g->name, (size_t)g->namelen))
        hk_fail("vg-name", "%s: Vgetname differs (len %d, shadow %d) ref=%d", when, (int)strlen(namebuf), g->namelen, g->ref);
    if (Vgetclassnamelen(slot[s].vkey, &l) == FAIL || l != g->clslen) hk_fail("vg-classlen", "%s: Vgetclassnamelen=%d shadow=%d", when, l, g->clslen);
    namebuf[0] = 1;
    if (Vgetclass(slot[s].vkey, namebuf) == FAIL || strlen(namebuf) != (size_t)g->clslen || memcmp(namebuf, g->cls, (size_t)g->clslen))
        hk_fail("vg-class", "%s: Vgetclass differs ref=%d", when, g->ref);
    int na = Vnattrs(slot[s].vkey);
    if (na != g->nattrs) hk_fail("vg-nattrs", "%s: Vnattrs=%d shadow=%d", when, na, g->nattrs);
}

/* ------------------------------------------------------------------ queries (T line + shadow oracle) */
static int pick_live_slot(void)
{
    int c[NSLOT], n = 0;
    for (int i = 0; i < NSLOT; i++)
        if (slot[i].live) c[n++] = i;
    return n ? c[hk_range(0, n - 1)] : -1;
}
static int pick_free_slot(void)
{
    int c[NSLOT], n = 0;
    for (int i = 0; i < NSLOT; i++)
        if (!slot[i].live) c[n++] = i;
    return n ? c[hk_range(0, n - 1)] : -1;
}
static int pick_gref(void) /* ref of a live shadow group, or -1 */
{
    int r[MAXG], n = sorted_grefs(r);
    return n ? r[hk_range(0, n - 1)] : -1;
}

static void q_ntagrefs(int s)
{
    int32 n = Vntagrefs(slot[s].vkey);
    printf("T vg ntagrefs %d => %d\n", s, (int)n);
    if (n != sg[slot[s].gi].n) hk_fail("vg-count", "Vntagrefs=%d shadow=%d", (int)n, sg[slot[s].gi].n);
}
static void pick_pair(SG *g, int *t, int *r)
{
    if (g->n > 0 && hk_chance(70)) { int i = (int)hk_range(0, g->n - 1); *t = g->tag[i]; *r = g->rf[i]; }
    else { static const int T[] = {DFTAG_VG, DFTAG_VH, 1000, 1001, 720, 0, 65535}; *t = HK_PICK(T); *r = (int)hk_range(0, 12); }
}
static void q_inq(int s)
{
    SG *g = &sg[slot[s].gi];
    int t, r; pick_pair(g, &t, &r);
    int res = Vinqtagref(slot[s].vkey, t, r);
    printf("T vg inq %d %d %d => %d\n", s, t, r, res);
    int want = 0;
    for (int i = 0; i < g->n; i++) if (g->tag[i] == t && g->rf[i] == r) want = 1;
    if (res != want) hk_fail("vg-inq", "Vinqtagref(%d,%d)=%d shadow=%d", t, r, res, want);
    int32 nr = Vnrefs(slot[s].vkey, t);
    printf("T vg nrefs %d %d => %d\n", s, t, (int)nr);
    want = 0;
    for (int i = 0; i < g->n; i++) if (g->tag[i] == t) want++;
    if (nr != want) hk_fail("vg-nrefs", "Vnrefs(%d)=%d shadow=%d", t, (int)nr, want);
}
static void q_gettagrefs(int s)
{
    SG *g = &sg[slot[s].gi];
    int n;
    switch ((int)hk_range(0, 4)) {
        case 0: n = 0; break;
        case 1: n = g->n; break;
        case 2: n = g->n + (int)hk_range(1, 5); break;
        case 3: n = g->n > 0 ? (int)hk_range(0, g->n) : 1; break;
        default: n = MAXMEM; break;
    }
    int32 got = Vgettagrefs(slot[s].vkey, tbuf, rbuf2, n);
    printf("T vg gettagrefs %d %d => ", s, n); print_pairs32(tbuf, rbuf2, got); printf("\n");
    int want = n < g->n ? n : g->n;
    if (got != want) hk_fail("vg-gettagrefs", "n=%d returned %d shadow %d", n, (int)got, want);
    else for (int i = 0; i < want; i++)
        if (tbuf[i] != g->tag[i] || rbuf2[i] != g->rf[i]) { hk_fail("vg-members", "gettagrefs member %d differs", i); break; }
    /* single index */
    int which = (int)hk_range(-1, g->n + 1);
    int32 t = -7, r = -7;
    int   res = Vgettagref(slot[s].vkey, which, &t, &r);
    printf("T vg gettagref %d %d => ", s, which);
    if (res == FAIL) printf("fail\n"); else printf("%d:%d\n", (int)t, (int)r);
    if ((which >= 0 && which < g->n) != (res != FAIL)) hk_fail("vg-gettagref", "which=%d n=%d res=%d", which, g->n, res);
    else if (res != FAIL && (t != g->tag[which] || r != g->rf[which])) hk_fail("vg-members", "gettagref %d differs", which);
}
static void q_names(int s)
{
    uint16 l = 9999;
    int32  res;
    res = Vgetname(slot[s].vkey, namebuf);
    printf("T vg getname %d => ", s); if (res == FAIL) printf("fail"); else hk_hex(namebuf, strlen(namebuf)); printf("\n");
    res = Vgetnamelen(slot[s].vkey, &l);
    printf("T vg getnamelen %d => ", s); if (res == FAIL) printf("fail\n"); else printf("%d\n", l);
    res = Vgetclass(slot[s].vkey, namebuf);
    printf("T vg getclass %d => ", s); if (res == FAIL) printf("fail"); else hk_hex(namebuf, strlen(namebuf)); printf("\n");
    res = Vgetclassnamelen(slot[s].vkey, &l);
    printf("T vg getclasslen %d => ", s); if (res == FAIL) printf("fail\n"); else printf("%d\n", l);
    check_names(s, "query");
}
static void q_getid_walk(void)
{
    int refs[MAXG], n = sorted_grefs(refs), k = 0;
    int32 id = -1;
    for (;;) {
        int32 nx = Vgetid(fid, id);
        printf("T vg getid %d => ", (int)id); if (nx == FAIL) printf("fail\n"); else printf("%d\n", (int)nx);
        if (nx == FAIL) break;
        if (k >= n || refs[k] != nx) { hk_fail("vg-iter", "Vgetid walk step %d gives %d, shadow %d (of %d)", k, (int)nx, k < n ? refs[k] : -1, n); return; }
        k++; id = nx;
        if (k > MAXG + 2) { hk_fail("vg-iter", "Vgetid walk does not terminate"); return; }
    }
    if (k != n) hk_fail("vg-iter", "Vgetid walk visited %d of %d vgroups", k, n);
    /* a ref that is not a vgroup */
    int bogus = (int)hk_range(0, 70000);
    if (!sg_by_ref(bogus)) {
        int32 nx = Vgetid(fid, bogus);
        printf("T vg getid %d => ", bogus); if (nx == FAIL) printf("fail\n"); else printf("%d\n", (int)nx);
        if (nx != FAIL) hk_fail("vg-iter", "Vgetid(%d) of a non-vgroup = %d", bogus, (int)nx);
    }
}
static void q_vsgetid_walk(void)
{
    int v[MAXV], n = nvds, k = 0;
    memcpy(v, vds, sizeof(int) * (size_t)n);
    qsort(v, (size_t)n, sizeof(int), cmp_int);
    int32 id = -1;
    for (;;) {
        int32 nx = VSgetid(fid, id);
        printf("T vg vsgetid %d => ", (int)id); if (nx == FAIL) printf("fail\n"); else printf("%d\n", (int)nx);
        if (nx == FAIL) break;
        if (k >= n || v[k] != nx) { hk_fail("vs-iter", "VSgetid walk step %d gives %d, shadow %d", k, (int)nx, k < n ? v[k] : -1); return; }
        k++; id = nx;
        if (k > MAXV + 2) return;
    }
    if (k != n) hk_fail("vs-iter", "VSgetid walk visited %d of %d vdatas", k, n);
}
static void q_getnext(int s)
{
    SG *g = &sg[slot[s].gi];
    int id;
    if (hk_chance(30) || g->n == 0) id = -1;
    else if (hk_chance(80)) id = g->rf[hk_range(0, g->n - 1)];
    else id = (int)hk_range(0, 20);
    int32 nx = Vgetnext(slot[s].vkey, id);
    printf("T vg getnext %d %d => ", s, id); if (nx == FAIL) printf("fail\n"); else printf("%d\n", (int)nx);
    /* oracle only on the clean case: all members are vgroups/vdatas with pairwise distinct refs */
    int clean = 1;
    for (int i = 0; i < g->n && clean; i++) {
        if (g->tag[i] != DFTAG_VG && g->tag[i] != DFTAG_VH) clean = 0;
        for (int j = 0; j < i && clean; j++) if (g->rf[j] == g->rf[i]) clean = 0;
        if (g->rf[i] == 65535) clean = 0;
    }
    if (clean) {
        int want = FAIL;
        if (id == -1) want = g->n ? g->rf[0] : FAIL;
        else for (int i = 0; i + 1 < g->n; i++) if (g->rf[i] == id) want = g->rf[i + 1];
        if (nx != want) hk_fail("vg-getnext", "Vgetnext(%d)=%d shadow %d", id, (int)nx, want);
    }
}
static void q_lone(void)
{
    static int32 ids[70000];
    int          refs[MAXG], n = sorted_grefs(refs), k = 0;
    int32        got = Vlone(fid, ids, 70000);
    printf("T vg vlone => "); if (got == FAIL) printf("fail"); else print_ints(ids, got); printf("\n");
    for (int i = 0; i < n; i++)
        if (!is_member_anywhere(DFTAG_VG, refs[i])) {
            if (k >= got || ids[k] != refs[i]) { hk_fail("vg-lone", "Vlone entry %d is %d, shadow %d (count %d)", k, k < got ? (int)ids[k] : -1, refs[i], (int)got); k = -1; break; }
            k++;
        }
    if (k >= 0 && k != got) hk_fail("vg-lone", "Vlone count %d shadow %d", (int)got, k);
    /* small asize: count is still the total */
    if (got > 1) { int32 g2 = Vlone(fid, ids, 1); if (g2 != got) hk_fail("vg-lone", "Vlone(asize=1)=%d, full=%d", (int)g2, (int)got); }

    int v[MAXV]; n = nvds; k = 0;
    memcpy(v, vds, sizeof(int) * (size_t)n);
    qsort(v, (size_t)n, sizeof(int), cmp_int);
    got = VSlone(fid, ids, 70000);
    printf("T vg vslone => "); if (got == FAIL) printf("fail"); else print_ints(ids, got); printf("\n");
    for (int i = 0; i < n; i++)
        if (!is_member_anywhere(DFTAG_VH, v[i])) {
            if (k >= got || ids[k] != v[i]) { hk_fail("vs-lone", "VSlone entry %d is %d, shadow %d (count %d)", k, k < got ? (int)ids[k] : -1, v[i], (int)got); k = -1; break; }
            k++;
        }
    if (k >= 0 && k != got) hk_fail("vs-lone", "VSlone count %d shadow %d", (int)got, k);
}
static void q_find(void)
{
    uint8_t q[NAMEMAX + 1];
    int     ql = 0, byclass = hk_chance(40);
    int     refs[MAXG], n = sorted_grefs(refs);
    if (n && hk_chance(75)) {
        SG *g = sg_by_ref(refs[hk_range(0, n - 1)]);
        if (byclass) { ql = g->clslen; memcpy(q, g->cls, (size_t)ql); } else { ql = g->namelen; memcpy(q, g->name, (size_t)ql); }
    }
    else { ql = (int)hk_range(0, 3); for (int i = 0; i < ql; i++) q[i] = (uint8_t)hk_range('a', 'c'); }
    q[ql] = 0;
    int32 r = byclass ? Vfindclass(fid, (char *)q) : Vfind(fid, (char *)q);
    printf("T vg %s ", byclass ? "findclass" : "find"); hk_hex(q, (size_t)ql); printf(" => %d\n", (int)r);
    if (ql > 0) { /* the empty string is not a name: see REPORT (NULL vs "" differs across reopen) */
        int want = 0;
        for (int i = 0; i < n && !want; i++) {
            SG *g = sg_by_ref(refs[i]);
            if (byclass ? (g->has_cls && g->clslen == ql && !memcmp(g->cls, q, (size_t)ql)) : (g->has_name && g->namelen == ql && !memcmp(g->name, q, (size_t)ql))) want = refs[i];
        }
        if (r != want) hk_fail("vg-find", "%s = %d shadow %d", byclass ? "Vfindclass" : "Vfind", (int)r, want);
    }
}
static void q_diskrec(int ref)
{
    int32 len = Hlength(fid, DFTAG_VG, (uint16)ref);
    printf("T vg diskrec %d => ", ref);
    if (len == FAIL) { printf("fail\n"); return; }
    if (len > (int32)sizeof bigbuf) { printf("toolong\n"); return; }
    if (Hgetelement(fid, DFTAG_VG, (uint16)ref, bigbuf) != len) { printf("fail\n"); hk_fail("vg-getelement", "ref=%d", ref); return; }
    hk_hex(bigbuf, (size_t)len); printf("\n");
}

/* ------------------------------------------------------------------ mutations */
static void gen_name(uint8_t *b, int *len)
{
    static const int L[] = {0, 1, 2, 5, 12, 63, 64, 65, 100, 255, 256, 300};
    int n = hk_chance(60) ? (int)hk_range(0, 6) : HK_PICK(L);
    int small = hk_chance(60);
    for (int i = 0; i < n; i++) b[i] = small ? (uint8_t)hk_range('a', 'c') : (uint8_t)hk_range(1, 255);
    b[n] = 0; *len = n;
}
static int make_vdata(void)
{
    int32 vs = VSattach(fid, -1, "w");
    if (vs == FAIL) { hk_fail("vs-create", "VSattach(-1)"); return -1; }
    int  ref = VSQueryref(vs);
    char nm[32]; snprintf(nm, sizeof nm, "vd%d", ref);
    int32 d[3] = {1, 2, 3};
    if (VSsetname(vs, nm) == FAIL || VSfdefine(vs, "a", DFNT_INT32, 1) == FAIL || VSsetfields(vs, "a") == FAIL ||
        VSwrite(vs, (uint8 *)d, (int32)hk_range(1, 3), FULL_INTERLACE) == FAIL)
        hk_fail("vs-create", "define/write ref=%d", ref);
    if (VSdetach(vs) == FAIL) hk_fail("vs-create", "VSdetach");
    if (vd_exists(ref) || sg_by_ref(ref) || ref <= 0) hk_fail("vs-ref-fresh", "new vdata got ref %d which is in use", ref);
    if (nvds < MAXV) vds[nvds++] = ref;
    printf("T vg vsnew %d => ok\n", ref);
    return ref;
}
static void m_new(void)
{
    int s = pick_free_slot();
    int live = 0; for (int i = 0; i < nsg; i++) live += sg[i].live;
    if (s < 0 || live >= MAXG - 1) return;
    int32 vk = Vattach(fid, -1, "w");
    if (vk == FAIL) { hk_fail("vg-create", "Vattach(-1,w)"); return; }
    int ref = VQueryref(vk);
    if (ref <= 0 || sg_by_ref(ref) || vd_exists(ref)) hk_fail("vg-ref-fresh", "new vgroup got ref %d which is in use", ref);
    SG *g = sg_new(ref);
    g->nattach = 1;
    slot[s].live = 1; slot[s].vkey = vk; slot[s].gi = (int)(g - sg); slot[s].w = 1;
    printf("T vg new %d %d => %d\n", s, ref, ref);
    hk_stat("op_new", 1);
}
static void m_attach(void)
{
    int s = pick_free_slot();
    if (s < 0) return;
    int ref = pick_gref();
    if (ref < 0 || hk_chance(8)) { ref = (int)hk_range(1, 60); }
    int   w = hk_chance(60);
    SG   *g = sg_by_ref(ref);
    int32 vk = Vattach(fid, ref, w ? "w" : "r");
    printf("T vg attach %d %d %s => ", s, ref, w ? "w" : "r");
    if (vk == FAIL) printf("fail\n"); else printf("%d\n", (int)VQueryref(vk));
    if ((vk != FAIL) != (g != NULL)) { hk_fail("vg-attach", "Vattach(%d)=%d but shadow %s", ref, (int)vk, g ? "has it" : "does not have it"); if (vk != FAIL) Vdetach(vk); return; }
    if (vk == FAIL) return;
    g->nattach++;
    slot[s].live = 1; slot[s].vkey = vk; slot[s].gi = (int)(g - sg); slot[s].w = w;
    check_members(s, "after attach"); check_names(s, "after attach");
    hk_stat("op_attach", 1);
}
static void m_detach(int s)
{
    if (s < 0) {
        /* stale handle: a slot that is not live but had a key before */
        for (int i = 0; i < NSLOT; i++)
            if (!slot[i].live && slot[i].vkey > 0) {
                int32 r = Vdetach(slot[i].vkey);
                printf("T vg detach %d => %s\n", i, r == FAIL ? "fail" : "ok");
                if (r != FAIL) hk_fail("vg-stale", "Vdetach of a stale handle succeeded");
                return;
            }
        return;
    }
    int32 r = Vdetach(slot[s].vkey);
    printf("T vg detach %d => %s\n", s, r == FAIL ? "fail" : "ok");
    if (r == FAIL) hk_fail("vg-detach", "Vdetach failed");
    sg[slot[s].gi].nattach--;
    slot[s].live = 0;
    hk_stat("op_detach", 1);
}
static void m_setname(int s, int cls)
{
    SG     *g = &sg[slot[s].gi];
    uint8_t b[NAMEMAX + 1]; int len;
    gen_name(b, &len);
    int32 r = cls ? Vsetclass(slot[s].vkey, (char *)b) : Vsetname(slot[s].vkey, (char *)b);
    printf("T vg %s %d ", cls ? "setclass" : "setname", s); hk_hex(b, (size_t)len); printf(" => %s\n", r == FAIL ? "fail" : "ok");
    if (r == FAIL) { if (slot[s].w) hk_fail("vg-setname", "%s failed on a write handle", cls ? "Vsetclass" : "Vsetname"); }
    else if (cls) { g->has_cls = 1; g->clslen = len; memcpy(g->cls, b, (size_t)len); }
    else { g->has_name = 1; g->namelen = len; memcpy(g->name, b, (size_t)len); }
    check_names(s, "after set");
    hk_stat(len > 64 ? "name_gt64" : "name_le64", 1);
}
static void pick_newmember(int *t, int *r)
{
    static const int T[] = {DFTAG_VG, DFTAG_VH, DFTAG_VG, DFTAG_VH, 1000, 1001, 720, 302, 0, 65535};
    *t = HK_PICK(T);
    int k = (int)hk_range(0, 9);
    if (k < 3) { int g = pick_gref(); *r = g > 0 ? g : 1; }
    else if (k < 5 && nvds) *r = vds[hk_range(0, nvds - 1)];
    else if (k < 8) *r = (int)hk_range(0, 10);
    else if (k < 9) *r = (int)hk_range(0, 65535);
    else *r = 65535;
}
static void m_addtagref(int s)
{
    SG *g = &sg[slot[s].gi];
    int t, r; pick_newmember(&t, &r);
    if (g->n >= MAXMEM - 1) return;
    int32 res = Vaddtagref(slot[s].vkey, t, r);
    printf("T vg addtagref %d %d %d => ", s, t, r); if (res == FAIL) printf("fail\n"); else printf("%d\n", (int)res);
    if (g->n >= 65535) { if (res != FAIL) hk_fail("vg-full", "Vaddtagref into a vgroup with 65535 members returned %d", (int)res); return; }
    /* since 6287f87 a vgroup that is not attached for writing is refused (exact access tracking: the Lean model; here: a write handle must work) */
    if (res == FAIL && !slot[s].w) { hk_stat("op_add_refused_r", 1); return; }
    g->tag[g->n] = (uint16)t; g->rf[g->n] = (uint16)r; g->n++;
    if (res != g->n) hk_fail("vg-add", "Vaddtagref returned %d, shadow count %d", (int)res, g->n);
    hk_stat("op_add", 1);
}
static void m_insert(int s)
{
    SG *g = &sg[slot[s].gi];
    if (g->n >= MAXMEM - 1) return;
    if (hk_chance(50)) { /* a vgroup by handle */
        int s2 = pick_live_slot();
        if (hk_chance(5)) { for (int i = 0; i < NSLOT; i++) if (!slot[i].live) { s2 = i; break; } }
        int32 key2 = slot[s2].live ? slot[s2].vkey : (slot[s2].vkey > 0 ? slot[s2].vkey : 0x30000fff /* VGIDGROUP, unused */);
        int32 res = Vinsert(slot[s].vkey, key2);
        printf("T vg insertvg %d %d => ", s, s2); if (res == FAIL) printf("fail\n"); else printf("%d\n", (int)res);
        if (!slot[s2].live) { if (res != FAIL) hk_fail("vg-insert", "Vinsert of a stale handle succeeded"); return; }
        int r2 = sg[slot[s2].gi].ref, dup = 0;
        for (int i = 0; i < g->n; i++) if (g->tag[i] == DFTAG_VG && g->rf[i] == r2) dup = 1;
        if (dup) { if (res != FAIL) hk_fail("vg-insert-dup", "Vinsert accepted a duplicate link"); return; }
        if (g->n >= 65535) { if (res != FAIL) hk_fail("vg-full", "Vinsert into a full vgroup returned %d", (int)res); return; }
        if (res == FAIL) { if (slot[s].w) hk_fail("vg-insert", "Vinsert(vg) failed on a write handle"); return; }
        if (res != g->n) hk_fail("vg-insert", "Vinsert returned position %d, shadow %d", (int)res, g->n);
        g->tag[g->n] = DFTAG_VG; g->rf[g->n] = (uint16)r2; g->n++;
    }
    else {
        int vr = (nvds && !hk_chance(6)) ? vds[hk_range(0, nvds - 1)] : (int)hk_range(1, 60);
        int32 vs = VSattach(fid, vr, "r");
        if ((vs != FAIL) != vd_exists(vr)) hk_fail("vs-attach", "VSattach(%d)=%d shadow %d", vr, (int)vs, vd_exists(vr));
        if (vs == FAIL) { printf("T vg insertvs %d %d => fail\n", s, vr); return; }
        int32 res = Vinsert(slot[s].vkey, vs);
        VSdetach(vs);
        printf("T vg insertvs %d %d => ", s, vr); if (res == FAIL) printf("fail\n"); else printf("%d\n", (int)res);
        int dup = 0;
        for (int i = 0; i < g->n; i++) if (g->tag[i] == DFTAG_VH && g->rf[i] == vr) dup = 1;
        if (dup) { if (res != FAIL) hk_fail("vg-insert-dup", "Vinsert accepted a duplicate vdata link"); return; }
        if (res == FAIL) { if (slot[s].w) hk_fail("vg-insert", "Vinsert(vs) failed on a write handle"); return; }
        if (res != g->n) hk_fail("vg-insert", "Vinsert returned position %d, shadow %d", (int)res, g->n);
        g->tag[g->n] = DFTAG_VH; g->rf[g->n] = (uint16)vr; g->n++;
    }
    hk_stat("op_insert", 1);
}
static void m_deltagref(int s)
{
    SG *g = &sg[slot[s].gi];
    int t, r; pick_pair(g, &t, &r);
    int32 res = Vdeletetagref(slot[s].vkey, t, r);
    printf("T vg deltagref %d %d %d => %s\n", s, t, r, res == FAIL ? "fail" : "ok");
    int at = -1;
    for (int i = 0; i < g->n && at < 0; i++) if (g->tag[i] == t && g->rf[i] == r) at = i;
    if (res == FAIL && !slot[s].w) { hk_stat("op_del_refused_r", 1); return; }   /* 6287f87: refused on a vgroup not attached for writing */
    if ((at >= 0) != (res != FAIL)) { hk_fail("vg-del", "Vdeletetagref(%d,%d)=%d shadow index %d", t, r, (int)res, at); return; }
    if (at >= 0) {
        memmove(g->tag + at, g->tag + at + 1, sizeof(uint16) * (size_t)(g->n - at - 1));
        memmove(g->rf + at, g->rf + at + 1, sizeof(uint16) * (size_t)(g->n - at - 1));
        g->n--;
    }
    hk_stat("op_del", 1);
}
static void m_setattr(int s)
{
    SG   *g = &sg[slot[s].gi];
    char  nm[32]; snprintf(nm, sizeof nm, "att%d", attr_serial++);
    int32 val = 42;
    if (nvds >= MAXV - 1) return;
    int   res = Vsetattr(slot[s].vkey, nm, DFNT_INT32, 1, &val);
    int   vsref = 0;
    if (res != FAIL) {
        vginstance_t *v = (vginstance_t *)HAatom_object(slot[s].vkey);
        vsref = v->vg->alist[v->vg->nattrs - 1].aref;
        if (vd_exists(vsref) || sg_by_ref(vsref)) hk_fail("vs-ref-fresh", "attribute vdata got ref %d which is in use", vsref);
        vds[nvds++] = vsref; g->nattrs++;
    }
    else if (slot[s].w) {
        /* legitimate only if an attribute vdata of this group was deleted meanwhile */
        vginstance_t *v = (vginstance_t *)HAatom_object(slot[s].vkey);
        int gone = 0;
        for (int i = 0; i < v->vg->nattrs; i++) if (!vd_exists(v->vg->alist[i].aref)) gone = 1;
        if (!gone) hk_fail("vg-setattr", "Vsetattr failed on a write handle");
    }
    printf("T vg setattr %d %d => %s\n", s, vsref, res == FAIL ? "fail" : "ok");
    check_names(s, "after setattr");
    hk_stat("op_setattr", 1);
}
static void m_vdelete(void)
{
    int ref = pick_gref();
    SG *g = ref > 0 ? sg_by_ref(ref) : NULL;
    if (g && g->nattach > 0) g = NULL, ref = -1; /* deleting an attached vgroup frees memory still referenced by the handle */
    if (!g || hk_chance(10)) { ref = (int)hk_range(1, 70); g = sg_by_ref(ref); if (g && g->nattach > 0) return; }
    int32 res = Vdelete(fid, ref);
    printf("T vg vdelete %d => %s\n", ref, res == FAIL ? "fail" : "ok");
    if ((res != FAIL) != (g != NULL)) hk_fail("vg-delete", "Vdelete(%d)=%d shadow %s", ref, (int)res, g ? "has it" : "does not have it");
    if (g) g->live = 0;
    hk_stat("op_vdelete", 1);
}
static void m_vsdelete(void)
{
    int ref = (nvds && !hk_chance(10)) ? vds[hk_range(0, nvds - 1)] : (int)hk_range(1, 70);
    int ex = vd_exists(ref);
    int32 res = VSdelete(fid, ref);
    printf("T vg vsdelete %d => %s\n", ref, res == FAIL ? "fail" : "ok");
    if ((res != FAIL) != ex) hk_fail("vs-delete", "VSdelete(%d)=%d shadow %d", ref, (int)res, ex);
    if (ex) vd_remove(ref);
    hk_stat("op_vsdelete", 1);
}
static void detach_all(void)
{
    for (int i = 0; i < NSLOT; i++) if (slot[i].live) m_detach(i);
}
static void full_check(const char *when)
{
    /* every shadow group, through a fresh read handle */
    int refs[MAXG], n = sorted_grefs(refs);
    for (int i = 0; i < n; i++) {
        int s = pick_free_slot();
        if (s < 0) break;
        SG   *g = sg_by_ref(refs[i]);
        int32 vk = Vattach(fid, refs[i], "r");
        printf("T vg attach %d %d r => ", s, refs[i]); if (vk == FAIL) printf("fail\n"); else printf("%d\n", (int)VQueryref(vk));
        if (vk == FAIL) { hk_fail("vg-lost", "%s: vgroup %d cannot be attached", when, refs[i]); continue; }
        slot[s].live = 1; slot[s].vkey = vk; slot[s].gi = (int)(g - sg); slot[s].w = 0; g->nattach++;
        check_members(s, when); check_names(s, when);
        q_gettagrefs(s); q_names(s);
        if (hk_chance(50)) q_getnext(s);
        m_detach(s);
        q_diskrec(refs[i]);
    }
    q_getid_walk(); q_vsgetid_walk(); q_lone();
    for (int i = 0; i < 3; i++) q_find();
    /* DD-level count agrees (Hfind walk; Hnumber is avoided: it over-reads odd-sized DD blocks, a C12 finding) */
    if (!strcmp(when, "after-reopen")) {
        uint16 ft = 0, fr = 0; int32 fo = 0, fl = 0; int nd = 0;
        while (Hfind(fid, DFTAG_VG, DFREF_WILDCARD, &ft, &fr, &fo, &fl, DF_FORWARD) != FAIL) {
            nd++;
            if (!sg_by_ref(fr)) hk_fail("vg-ddset", "%s: DFTAG_VG element ref %d is not a shadow vgroup", when, fr);
            if (nd > MAXG + 5) break;
        }
        if (nd != n) hk_fail("vg-ddcount", "%s: %d DFTAG_VG elements, shadow %d vgroups", when, nd, n);
    }
}
static void do_reopen(void)
{
    detach_all();
    close_file();
    if (open_file(0) < 0) return;
    printf("T vg reopen => ok\n");
    hk_stat("op_reopen", 1);
    full_check("after-reopen");
}

static void reset_state(void)
{
    for (int i = 0; i < MAXG; i++) sg[i].live = 0;
    nsg = 0; nvds = 0; attr_serial = 0;
    for (int i = 0; i < NSLOT; i++) slot[i].live = 0, slot[i].vkey = 0;
}

static void history_case(int k)
{
    int big = hk_chance(25); /* one group is driven across the 64/128/256 growth steps */
    int steps = (int)hk_range(10, 90);
    if (open_file(1) < 0) return;
    int nv0 = (int)hk_range(0, 3);
    for (int i = 0; i < nv0; i++) make_vdata();
    m_new();
    for (int st = 0; st < steps && fid != FAIL; st++) {
        int s = pick_live_slot();
        int a = (int)hk_range(0, 99);
        if (s < 0) { if (hk_chance(50)) m_new(); else m_attach(); continue; }
        if (a < 8) m_new();
        else if (a < 16) m_attach();
        else if (a < 26) m_detach(hk_chance(4) ? -1 : s);
        else if (a < 31) m_setname(s, 0);
        else if (a < 36) m_setname(s, 1);
        else if (a < 50) m_addtagref(s);
        else if (a < 60) m_insert(s);
        else if (a < 69) m_deltagref(s);
        else if (a < 72) m_setattr(s);
        else if (a < 75) m_vdelete();
        else if (a < 77) m_vsdelete();
        else if (a < 80) make_vdata();
        else if (a < 83) do_reopen();
        else if (a < 86) q_lone();
        else if (a < 88) { q_getid_walk(); q_vsgetid_walk(); }
        else if (a < 91) q_find();
        else if (a < 93) q_gettagrefs(s);
        else if (a < 95) { q_inq(s); q_ntagrefs(s); }
        else if (a < 97) q_names(s);
        else if (a < 98) q_getnext(s);
        else { int r = pick_gref(); if (r > 0) q_diskrec(r); }
        if (big && st == steps / 2 && (s = pick_live_slot()) >= 0) {
            static const int targets[] = {63, 64, 65, 127, 128, 129, 130, 255, 256, 257, 300, 513};
            int target = HK_PICK(targets);
            /* growth needs a handle whose vgroup is attached for writing (adds through a read attachment are refused since 6287f87) */
            for (int tries = 0; tries < 8 && !slot[s].w; tries++) { int s2 = pick_live_slot(); if (s2 >= 0) s = s2; }
            while (sg[slot[s].gi].n < target) { int before = sg[slot[s].gi].n; m_addtagref(s); if (sg[slot[s].gi].n == before) break; }
            check_members(s, "after growth");
            q_gettagrefs(s);
            for (int j = 0; j < 6; j++) m_deltagref(s);
            check_members(s, "after growth+delete");
            hk_stat("big_groups", 1);
        }
        if (s >= 0 && slot[s].live && hk_chance(35)) check_members(s, "step");
    }
    if (fid == FAIL) return;
    full_check("end-of-session");
    do_reopen();
    if (fid != FAIL && hk_chance(40)) { /* a second session on the reopened file */
        for (int st = 0; st < 12; st++) {
            int s = pick_live_slot();
            if (s < 0) { m_attach(); continue; }
            switch ((int)hk_range(0, 5)) {
                case 0: m_addtagref(s); break;
                case 1: m_deltagref(s); break;
                case 2: m_setname(s, hk_chance(50)); break;
                case 3: m_new(); break;
                case 4: m_insert(s); break;
                default: m_detach(s); break;
            }
        }
        do_reopen();
    }
    detach_all();
    close_file();
    if (k < 2) printf("SAMPLE history steps=%d big=%d groups=%d vdatas=%d\n", steps, big, nsg, nvds);
}

/* ------------------------------------------------------------------ independent record writer */
typedef struct {
    int      n; uint16 tag[6000], rf[6000];
    int      has_name, namelen; uint8_t name[NAMEMAX];
    int      has_cls, clslen; uint8_t cls[NAMEMAX];
    uint16   extag, exref, version, more;
    uint32_t flags; int nattrs; uint16 at[8], ar[8];
} REC;
static uint8_t *put16(uint8_t *p, unsigned v) { *p++ = (uint8_t)(v >> 8); *p++ = (uint8_t)v; return p; }
static uint8_t *put32(uint8_t *p, uint32_t v) { *p++ = (uint8_t)(v >> 24); *p++ = (uint8_t)(v >> 16); *p++ = (uint8_t)(v >> 8); *p++ = (uint8_t)v; return p; }
/* layout per the HDF specification of DFTAG_VG; writes flags/attrs iff version == 4 */
static int rec_write(const REC *r, uint8_t *buf)
{
    uint8_t *p = buf;
    p = put16(p, (unsigned)r->n);
    for (int i = 0; i < r->n; i++) p = put16(p, r->tag[i]);
    for (int i = 0; i < r->n; i++) p = put16(p, r->rf[i]);
    p = put16(p, (unsigned)r->namelen); memcpy(p, r->name, (size_t)r->namelen); p += r->namelen;
    p = put16(p, (unsigned)r->clslen); memcpy(p, r->cls, (size_t)r->clslen); p += r->clslen;
    p = put16(p, r->extag); p = put16(p, r->exref);
    if (r->version == 4) {
        p = put32(p, r->flags);
        if (r->flags & 1) { p = put32(p, (uint32_t)r->nattrs); for (int i = 0; i < r->nattrs; i++) { p = put16(p, r->at[i]); p = put16(p, r->ar[i]); } }
    }
    p = put16(p, r->version); p = put16(p, r->more);
    *p++ = 0;
    return (int)(p - buf);
}
static void rec_random(REC *r, int allow_nul, int maxn)
{
    static const int N[] = {0, 0, 1, 2, 3, 5, 63, 64, 65, 128, 255, 256, 300};
    memset(r, 0, sizeof *r);
    r->n = hk_chance(10) ? (int)hk_range(0, maxn) : HK_PICK(N);
    if (r->n > maxn) r->n = maxn;
    for (int i = 0; i < r->n; i++) { r->tag[i] = (uint16)(hk_chance(50) ? (hk_chance(50) ? DFTAG_VG : DFTAG_VH) : hk_range(0, 65535)); r->rf[i] = (uint16)(hk_chance(70) ? hk_range(0, 9) : hk_range(0, 65535)); }
    int l; gen_name(r->name, &l); r->namelen = l; r->has_name = l > 0 || hk_chance(50);
    gen_name(r->cls, &l); r->clslen = l; r->has_cls = l > 0 || hk_chance(50);
    if (allow_nul && r->namelen > 1 && hk_chance(25)) r->name[hk_range(0, r->namelen - 1)] = 0;
    if (allow_nul && r->clslen > 1 && hk_chance(25)) r->cls[hk_range(0, r->clslen - 1)] = 0;
    r->extag = (uint16)(hk_chance(60) ? 0 : hk_range(0, 65535)); r->exref = (uint16)(hk_chance(60) ? 0 : hk_range(0, 65535));
    static const int V[] = {3, 3, 3, 4, 4, 4, 2, 0, 5, 7, 0xffff, 0x8000, 0x7fff};
    r->version = (uint16)HK_PICK(V);
    r->more = (uint16)(hk_chance(70) ? 0 : hk_range(0, 65535));
    static const uint32_t F[] = {0, 1, 1, 1, 2, 3, 0x80000001u, 0xfffffffeu};
    r->flags = HK_PICK(F);
    r->nattrs = (int)hk_range(0, 6);
    for (int i = 0; i < r->nattrs; i++) { r->at[i] = (uint16)(hk_chance(70) ? DFTAG_VH : hk_range(0, 65535)); r->ar[i] = (uint16)hk_range(0, 65535); }
}
static void print_name_tok(int has, const uint8_t *b, int len)
{
    if (!has) fputs("null", stdout); else hk_hex(b, (size_t)len);
}
static void print_vgstruct(const VGROUP *vg)
{
    print_pairs16(vg->tag, vg->ref, vg->nvelt); putchar(' ');
    if (vg->vgname) hk_hex(vg->vgname, strlen(vg->vgname)); else fputs("null", stdout);
    putchar(' ');
    if (vg->vgclass) hk_hex(vg->vgclass, strlen(vg->vgclass)); else fputs("null", stdout);
    printf(" %u %u %u %u %u ", vg->extag, vg->exref, (unsigned)(uint16)vg->version, (unsigned)(uint16)vg->more, (unsigned)vg->flags);
    if (vg->nattrs <= 0 || !vg->alist) fputs("-", stdout);
    else for (int i = 0; i < vg->nattrs; i++) printf("%s%d:%d", i ? "," : "", vg->alist[i].atag, vg->alist[i].aref);
}
static void free_vgstruct(VGROUP *vg)
{
    free(vg->tag); free(vg->ref); free(vg->vgname); free(vg->vgclass); free(vg->alist);
    VIrelease_vgroup_node(vg);
}
/* ------------------------------------------------------------------ vunpackvg on arbitrary bytes, between guard pages */
enum { UG_GUARD = 1 << 20, UG_WIN = 1 << 17 };
static uint8_t *ug_map;
static void unpackvg_guarded(const uint8_t *rec, int len)
{
    if (!ug_map) {
        ug_map = mmap(NULL, UG_GUARD + UG_WIN + UG_GUARD, PROT_NONE, MAP_PRIVATE | MAP_ANONYMOUS, -1, 0);
        if (ug_map == MAP_FAILED || mprotect(ug_map + UG_GUARD, UG_WIN, PROT_READ | PROT_WRITE)) { hk_fail("vg-unpackvg-setup", "mmap"); ug_map = NULL; return; }
    }
    /* every access behind the record hits the rear guard; &buf[len-5] with len < 5 hits the front guard */
    uint8_t *p = len >= 5 ? ug_map + UG_GUARD + UG_WIN - len : ug_map + UG_GUARD;
    memcpy(p, rec, (size_t)len);
    fflush(stdout);
    pid_t pid = fork();
    if (pid < 0) { hk_fail("vg-unpackvg-setup", "fork"); return; }
    if (pid == 0) {
        int dn = open("/dev/null", O_WRONLY);
        if (dn >= 0) dup2(dn, 2);
        VGROUP *vg = VIget_vgroup_node();
        int     res = vunpackvg(vg, p, len);
        printf("T vg unpackvg "); hk_hex(rec, (size_t)len); printf(" => ");
        if (res == FAIL) printf("refused"); else print_vgstruct(vg);
        printf("\n");
        fflush(stdout);
        _exit(0);
    }
    int st = 0;
    waitpid(pid, &st, 0);
    if (WIFEXITED(st) && WEXITSTATUS(st) == 0) hk_stat("unpackvg_returned", 1);
    else { printf("T vg unpackvg "); hk_hex(rec, (size_t)len); printf(" => refused\n"); hk_stat("unpackvg_outside_buf", 1); }
}
static void unpackvg_round(REC *r, uint8_t *buf)
{
    rec_random(r, 1, hk_chance(15) ? 300 : 12);
    int kind = (int)hk_range(0, 7);
    if (kind == 6) { r->version = 4; r->flags |= 1; }
    int len = rec_write(r, buf);
    switch (kind) {
        case 0: break; /* intact */
        case 1: len = (int)hk_range(0, len); break; /* truncated anywhere */
        case 2: for (int i = (int)hk_range(1, 3); i > 0 && len > 0; i--) buf[hk_range(0, len - 1)] ^= (uint8_t)(1u << hk_range(0, 7)); break;
        case 3: len = (int)hk_range(len > 12 ? len - 12 : 0, len); /* the tail cut: version / more come from other bytes */
                if (len > 0 && hk_chance(50)) buf[hk_range(0, len - 1)] ^= (uint8_t)(1u << hk_range(0, 7));
                break;
        case 4: len = (int)hk_range(0, 40); for (int i = 0; i < len; i++) buf[i] = hk_chance(50) ? hk_byte() : (uint8_t)hk_range(0, 4); break; /* noise */
        case 5: if (len >= 2) { /* a 16-bit field forced to an extreme value */
                    static const unsigned X[] = {0xffff, 0x8000, 0x7fff, 0x0100, 0x0004, 0x0000};
                    int at = (int)hk_range(0, len - 2) & ~1; put16(buf + at, X[hk_range(0, 5)]);
                }
                break;
        case 6: { /* nattrs negative or huge */
                    static const uint32_t NA[] = {0xffffffffu, 0x80000000u, 0x7fffffffu, 0x00010000u};
                    int at = len - 5 - 4 * r->nattrs - 4;
                    if (at >= 0) put32(buf + at, NA[hk_range(0, 3)]);
                }
                break;
        default: if (len > 5) { /* the last five bytes (version, more, pad) moved: a stale tail */
                    int cut = (int)hk_range(1, 4); memmove(buf + len - 5 - cut, buf + len - 5, 5); len -= cut;
                 }
                 break;
    }
    unpackvg_guarded(buf, len);
}

static void codec_case(int k)
{
    static REC     r;
    static uint8_t buf[6000 * 4 + 3000];
    int            rounds = (int)hk_range(3, 10);
    for (int it = 0; it < rounds; it++) {
        /* (a) unpack a record produced by the independent writer */
        rec_random(&r, 1, 1500);
        int     len = rec_write(&r, buf);
        VGROUP *vg = VIget_vgroup_node();
        int     res = vunpackvg(vg, buf, len);
        printf("T vg unpackrec "); hk_hex(buf, (size_t)len); printf(" => ");
        if (res == FAIL) printf("fail"); else print_vgstruct(vg);
        printf("\n");
        if (res != FAIL && (int16)r.version <= 4) { /* oracle: the writer's fields come back (names up to their first NUL) */
            int bad = vg->nvelt != r.n;
            for (int i = 0; i < r.n && !bad; i++) bad = vg->tag[i] != r.tag[i] || vg->ref[i] != r.rf[i];
            size_t nl = strnlen((char *)r.name, (size_t)r.namelen), cl = strnlen((char *)r.cls, (size_t)r.clslen);
            if (r.namelen == 0) bad |= vg->vgname != NULL; else bad |= !vg->vgname || strlen(vg->vgname) != nl || memcmp(vg->vgname, r.name, nl);
            if (r.clslen == 0) bad |= vg->vgclass != NULL; else bad |= !vg->vgclass || strlen(vg->vgclass) != cl || memcmp(vg->vgclass, r.cls, cl);
            bad |= vg->extag != r.extag || vg->exref != r.exref || (uint16)vg->version != r.version || (uint16)vg->more != r.more;
            if (r.version == 4) {
                bad |= vg->flags != r.flags;
                if (r.flags & 1) { bad |= vg->nattrs != r.nattrs; for (int i = 0; i < r.nattrs && !bad; i++) bad = vg->alist[i].atag != r.at[i] || vg->alist[i].aref != r.ar[i]; }
            }
            if (bad) hk_fail("vg-unpack", "vunpackvg does not return the fields of a version-%d record (n=%d namelen=%d)", (int)(int16)r.version, r.n, r.namelen);
        }
        free_vgstruct(vg);
        hk_stat("codec_unpack", 1);

        /* (b) pack a hand-built VGROUP */
        rec_random(&r, 0, 1500);
        VGROUP g; memset(&g, 0, sizeof g);
        g.nvelt = (uint16)r.n; g.tag = r.tag; g.ref = r.rf; g.msize = r.n > 64 ? r.n : 64;
        r.name[r.namelen] = 0; r.cls[r.clslen] = 0;
        g.vgname = r.has_name ? (char *)r.name : NULL; g.vgclass = r.has_cls ? (char *)r.cls : NULL;
        g.extag = r.extag; g.exref = r.exref; g.version = (int16)r.version; g.more = (int16)r.more;
        g.flags = hk_chance(50) ? 0 : r.flags;
        vg_attr_t al[8]; for (int i = 0; i < r.nattrs; i++) { al[i].atag = r.at[i]; al[i].aref = r.ar[i]; }
        g.nattrs = (g.flags & 1) ? r.nattrs : (hk_chance(50) ? 0 : r.nattrs); g.alist = g.nattrs ? al : NULL;
        printf("T vg packrec "); print_pairs16(g.tag, g.ref, g.nvelt); putchar(' ');
        print_name_tok(r.has_name, r.name, r.namelen); putchar(' '); print_name_tok(r.has_cls, r.cls, r.clslen);
        printf(" %u %u %u %u %u ", g.extag, g.exref, (unsigned)(uint16)g.version, (unsigned)(uint16)g.more, (unsigned)g.flags);
        if (g.nattrs == 0) fputs("-", stdout); else for (int i = 0; i < g.nattrs; i++) printf("%s%d:%d", i ? "," : "", al[i].atag, al[i].aref);
        int32 size = 0;
        int16 v0 = g.version;
        vpackvg(&g, buf, &size);
        printf(" => "); hk_hex(buf, (size_t)size); printf(" %u\n", (unsigned)(uint16)g.version); /* record, version left in memory */
        /* oracle: C-side round trip for groups that the format can represent */
        int repr = g.version <= 4 && ((g.version == 4) == (g.flags != 0)); /* g.version as left by vpackvg */
        if (repr) {
            VGROUP *u = VIget_vgroup_node();
            if (vunpackvg(u, buf, size) == FAIL) hk_fail("vg-roundtrip", "vunpackvg fails on vpackvg output");
            else {
                int bad = u->nvelt != g.nvelt;
                for (int i = 0; i < g.nvelt && !bad; i++) bad = u->tag[i] != g.tag[i] || u->ref[i] != g.ref[i];
                bad |= (r.namelen == 0) ? (u->vgname != NULL) : (!u->vgname || strcmp(u->vgname, (char *)r.name));
                bad |= (r.clslen == 0) ? (u->vgclass != NULL) : (!u->vgclass || strcmp(u->vgclass, (char *)r.cls));
                bad |= u->extag != g.extag || u->exref != g.exref || u->more != g.more || u->version != g.version || u->flags != g.flags;
                if (g.flags & 1) { bad |= u->nattrs != g.nattrs; for (int i = 0; i < g.nattrs && !bad; i++) bad = u->alist[i].atag != al[i].atag || u->alist[i].aref != al[i].aref; }
                if (bad) hk_fail("vg-roundtrip", "vunpackvg(vpackvg(g)) differs from g (n=%d version=%d flags=%u)", g.nvelt, v0, (unsigned)g.flags);
            }
            free_vgstruct(u);
        }
        hk_stat("codec_pack", 1);

        /* (c) vunpackvg on arbitrary bytes */
        for (int j = (int)hk_range(2, 6); j > 0; j--) unpackvg_round(&r, buf);
    }
    if (k < 6) printf("SAMPLE codec rounds=%d\n", rounds);
}

/* a record written by the independent writer, loaded by the library */
static void external_case(int k, int probe_wrap)
{
    static REC r;
    if (open_file(1) < 0) return;
    rec_random(&r, 1, 1500);
    if ((int16)r.version > 4 || (int16)r.version < 2) r.version = 3; /* unknown versions leave a vgroup without arrays */
    if (r.version == 4 && (r.flags & 1)) r.flags &= ~1u;            /* attribute vdatas would have to exist */
#ifndef FIXED3
    if (r.version == 4 && r.flags == 0) r.flags = 2;                /* version 4 without flags: see probe_v4_noflags */
#endif
    uint16 ref = Hnewref(fid);
    int    len;
    static uint16 *bt, *br;
    static uint8_t *bb;
    if (probe_wrap) {
        /* 65530 members already on disk */
        int n = 65530;
        if (!bt) { bt = malloc(70000 * 2); br = malloc(70000 * 2); bb = malloc(70000 * 4 + 100); }
        uint8_t *p = bb;
        p = put16(p, (unsigned)n);
        for (int i = 0; i < n; i++) { bt[i] = 1000; p = put16(p, 1000); }
        for (int i = 0; i < n; i++) { br[i] = (uint16)(i % 60000 + 1); p = put16(p, br[i]); }
        p = put16(p, 1); *p++ = 'g'; p = put16(p, 0); p = put16(p, 0); p = put16(p, 0); p = put16(p, 3); p = put16(p, 0); *p++ = 0;
        len = (int)(p - bb);
        if (Hputelement(fid, DFTAG_VG, ref, bb, len) != len) { hk_fail("vg-put", "Hputelement"); return; }
        printf("T vg putrec %d ", ref); hk_hex(bb, (size_t)len); printf(" => ok\n");
    }
    else {
        len = rec_write(&r, bigbuf);
        if (Hputelement(fid, DFTAG_VG, ref, bigbuf, len) != len) { hk_fail("vg-put", "Hputelement"); return; }
        printf("T vg putrec %d ", ref); hk_hex(bigbuf, (size_t)len); printf(" => ok\n");
    }
    close_file();
    if (open_file(0) < 0) return;
    printf("T vg reopen => ok\n");
    SG *g = sg_new(ref);
    if (probe_wrap) {
        g->n = 65530; memcpy(g->tag, bt, 65530 * 2); memcpy(g->rf, br, 65530 * 2);
        g->has_name = 1; g->namelen = 1; g->name[0] = 'g';
    }
    else {
        g->n = r.n; memcpy(g->tag, r.tag, sizeof(uint16) * (size_t)r.n); memcpy(g->rf, r.rf, sizeof(uint16) * (size_t)r.n);
        g->namelen = (int)strnlen((char *)r.name, (size_t)r.namelen); memcpy(g->name, r.name, (size_t)g->namelen); g->has_name = r.namelen > 0;
        g->clslen = (int)strnlen((char *)r.cls, (size_t)r.clslen); memcpy(g->cls, r.cls, (size_t)g->clslen); g->has_cls = r.clslen > 0;
    }
    int32 vk = Vattach(fid, ref, "w");
    printf("T vg attach 0 %d w => ", ref); if (vk == FAIL) printf("fail\n"); else printf("%d\n", (int)VQueryref(vk));
    if (vk == FAIL) { hk_fail("vg-lost", "externally written vgroup %d cannot be attached", ref); close_file(); return; }
    slot[0].live = 1; slot[0].vkey = vk; slot[0].gi = (int)(g - sg); slot[0].w = 1; g->nattach = 1;
    check_members(0, "external"); check_names(0, "external");
    if (probe_wrap) {
        /* 65530 members on disk: five more fit, then the vgroup is full (MAX_REF members) */
        for (int i = 0; i < 8; i++) {
            int32 res = Vaddtagref(vk, 2000, i + 1);
            printf("T vg addtagref 0 2000 %d => ", i + 1); if (res == FAIL) printf("fail\n"); else printf("%d\n", (int)res);
            if (g->n < 65535) { g->tag[g->n] = 2000; g->rf[g->n] = (uint16)(i + 1); g->n++; if (res != g->n) hk_fail("vg-add", "Vaddtagref returned %d, shadow %d", (int)res, g->n); }
            else if (res != FAIL) hk_fail("vg-full", "Vaddtagref number %d returned %d", 65531 + i, (int)res);
            int32 cnt = Vntagrefs(vk);
            printf("T vg ntagrefs 0 => %d\n", (int)cnt);
            if (cnt != g->n) hk_fail("vg-nvelt-wrap", "after Vaddtagref number %d Vntagrefs=%d, shadow %d: members lost", 65531 + i, (int)cnt, g->n);
        }
        { /* Vinsert of a vgroup into the full one */
            m_new();
            int s2 = -1; for (int i = 1; i < NSLOT; i++) if (slot[i].live) s2 = i;
            if (s2 > 0) {
                int32 res = Vinsert(vk, slot[s2].vkey);
                printf("T vg insertvg 0 %d => ", s2); if (res == FAIL) printf("fail\n"); else printf("%d\n", (int)res);
                if (res != FAIL) hk_fail("vg-full", "Vinsert into a full vgroup returned %d", (int)res);
            }
        }
        check_members(0, "full vgroup");
        m_deltagref(0); m_addtagref(0); m_addtagref(0); /* one slot is freed, refilled, full again */
        check_members(0, "full vgroup after delete+add");
        detach_all();
        q_diskrec(ref);
        do_reopen(); /* attaches every vgroup, compares all 65535 members with the shadow and with the model */
        hk_stat("full_vgroup", 1);
    }
    else {
        q_gettagrefs(0); q_names(0); q_getnext(0);
        for (int i = 0; i < 5; i++) { if (hk_chance(50)) m_addtagref(0); else m_deltagref(0); }
        if (hk_chance(50)) m_setname(0, hk_chance(50));
        check_members(0, "external+edits");
        m_detach(0);
        q_diskrec(ref);
        do_reopen();
    }
    detach_all();
    close_file();
    if (k < 8) printf("SAMPLE external n=%d version=%d probe=%d\n", g->n, r.version, probe_wrap);
}

/* Vlone / VSlone at the top of the ref range: a Vgroup and a Vdata whose ref is 65535 (written as elements, then loaded) */
static void lone_65535_case(void)
{
    static REC r;
    if (open_file(1) < 0) return;
    int vr = make_vdata(); /* a real vdata whose header and data are then copied to ref 65535 */
    if (vr < 0) { close_file(); return; }
    int32 l1 = Hlength(fid, DFTAG_VH, (uint16)vr), l2 = Hlength(fid, DFTAG_VS, (uint16)vr);
    static uint8_t b1[4096], b2[4096];
    if (l1 <= 0 || l1 > 4096 || l2 <= 0 || l2 > 4096 || Hgetelement(fid, DFTAG_VH, (uint16)vr, b1) != l1 || Hgetelement(fid, DFTAG_VS, (uint16)vr, b2) != l2) { hk_fail("vs-create", "cannot copy vdata"); close_file(); return; }
    if (Hputelement(fid, DFTAG_VH, 65535, b1, l1) != l1 || Hputelement(fid, DFTAG_VS, 65535, b2, l2) != l2) { hk_fail("vg-put", "Hputelement ref 65535"); close_file(); return; }
    memset(&r, 0, sizeof r);
    r.namelen = 3; memcpy(r.name, "top", 3); r.version = 3;
    int len = rec_write(&r, bigbuf);
    if (Hputelement(fid, DFTAG_VG, 65535, bigbuf, len) != len) { hk_fail("vg-put", "Hputelement"); close_file(); return; }
    printf("T vg putrec 65535 "); hk_hex(bigbuf, (size_t)len); printf(" => ok\n");
    printf("T vg vsnew 65535 => ok\n");
    close_file();
    if (open_file(0) < 0) return;
    printf("T vg reopen => ok\n");
    SG *g = sg_new(65535); g->has_name = 1; g->namelen = 3; memcpy(g->name, "top", 3);
    vds[nvds++] = 65535;
    q_lone();            /* both 65535 objects are lone */
    q_getid_walk(); q_vsgetid_walk();
    m_new();             /* Hnewref with ref 65535 in use */
    int s0 = pick_live_slot();
    if (s0 >= 0) {
        int32 res = Vaddtagref(slot[s0].vkey, DFTAG_VG, 65535);
        printf("T vg addtagref %d %d 65535 => %d\n", s0, DFTAG_VG, (int)res);
        sg[slot[s0].gi].tag[0] = DFTAG_VG; sg[slot[s0].gi].rf[0] = 65535; sg[slot[s0].gi].n = 1;
        q_lone();        /* vgroup 65535 is a member now, vdata 65535 still lone */
        res = Vaddtagref(slot[s0].vkey, DFTAG_VH, 65535);
        printf("T vg addtagref %d %d 65535 => %d\n", s0, DFTAG_VH, (int)res);
        sg[slot[s0].gi].tag[1] = DFTAG_VH; sg[slot[s0].gi].rf[1] = 65535; sg[slot[s0].gi].n = 2;
        q_lone();
        check_members(s0, "lone-65535");
    }
    do_reopen();
    detach_all();
    close_file();
    hk_stat("lone_65535", 1);
}

/* A version-4 record whose flags word is 0 (legal on disk; this library never writes one itself).  vpackvg omits the
 * flags word when flags == 0 but keeps version 4, vunpackvg expects the word whenever version == 4: after ONE rewrite
 * by the library the next Vstart takes version/more for the flags and, `more` being odd, an attribute count and list
 * from beyond the record. */
static void probe_v4_noflags(void)
{
    static REC r;
    if (open_file(1) < 0) return;
    memset(&r, 0, sizeof r);
    r.n = 2; r.tag[0] = DFTAG_VG; r.rf[0] = 7; r.tag[1] = 1000; r.rf[1] = 8;
    r.namelen = 1; r.name[0] = 'p'; r.version = 4; r.flags = 0; r.more = 1;
    uint16 ref = Hnewref(fid);
    int    len = rec_write(&r, bigbuf);
    if (Hputelement(fid, DFTAG_VG, ref, bigbuf, len) != len) { hk_fail("vg-put", "Hputelement"); return; }
    printf("T vg putrec %d ", ref); hk_hex(bigbuf, (size_t)len); printf(" => ok\n");
    close_file();
    if (open_file(0) < 0) return;
    printf("T vg reopen => ok\n");
    SG *g = sg_new(ref);
    g->n = 2; g->tag[0] = DFTAG_VG; g->rf[0] = 7; g->tag[1] = 1000; g->rf[1] = 8; g->has_name = 1; g->namelen = 1; g->name[0] = 'p';
    int32 vk = Vattach(fid, ref, "w");
    printf("T vg attach 0 %d w => %d\n", ref, vk == FAIL ? -1 : (int)VQueryref(vk));
    if (vk == FAIL) { hk_fail("vg-lost", "cannot attach"); close_file(); return; }
    slot[0].live = 1; slot[0].vkey = vk; slot[0].gi = (int)(g - sg); slot[0].w = 1; g->nattach = 1;
    check_members(0, "v4-noflags loaded"); check_names(0, "v4-noflags loaded");
    int32 res = Vaddtagref(vk, 1001, 9);
    printf("T vg addtagref 0 1001 9 => %d\n", (int)res);
    g->tag[2] = 1001; g->rf[2] = 9; g->n = 3;
    m_detach(0);
    q_diskrec(ref);
    fflush(stdout);
#ifdef FIXED3
    /* library with the fix: the rewritten record carries its (zero) flags word and loads like any other */
    do_reopen();
    detach_all();
    close_file();
#else
    /* the model's vunpackvg reports "reads outside the record" for what is on disk now; no T line for this reopen */
    if (Vend(fid) == FAIL) hk_fail("vg-vend", "Vend");
    if (Hclose(fid) == FAIL) hk_fail("vg-hclose", "Hclose");
    fid = Hopen(path, DFACC_RDWR, 0);
    if (fid == FAIL) { hk_fail("vg-open", "reopen"); return; }
    if (Vstart(fid) == FAIL) { hk_fail("vg-v4-noflags", "Vstart fails on a vgroup record this library wrote itself (version 4, flags 0)"); Hclose(fid); fid = FAIL; return; }
    vk = Vattach(fid, ref, "r");
    if (vk == FAIL) hk_fail("vg-v4-noflags", "cannot attach the rewritten vgroup");
    else {
        vginstance_t *v = (vginstance_t *)HAatom_object(vk);
        if (v->vg->flags != 0 || v->vg->nattrs != 0 || Vntagrefs(vk) != 3)
            hk_fail("vg-v4-noflags", "rewritten version-4 vgroup reads back with flags=0x%x nattrs=%d members=%d (written: flags=0, no attributes, 3 members)",
                    (unsigned)v->vg->flags, (int)v->vg->nattrs, (int)Vntagrefs(vk));
        Vdetach(vk);
    }
    Vend(fid); Hclose(fid); fid = FAIL;
#endif
}

static void run_case(int k)
{
    path = hk_tmp("v.hdf");
    reset_state();
#ifdef FIXED3
    printf("T vg config fixed3 1 => ok\n");
    if (k % 50 == 9) { printf("INFO v4-noflags (fixed library)\n"); probe_v4_noflags(); return; }
#else
    if (probes_on && k % 50 == 9) { printf("INFO probe v4-noflags\n"); probe_v4_noflags(); return; }
#endif
    if (k % 50 == 7) { printf("INFO full vgroup (65535 members)\n"); external_case(k, 1); return; }
    if (k % 50 == 8) { printf("INFO lone with ref 65535\n"); lone_65535_case(); return; }
    int kind = (int)hk_range(0, 9);
    if (kind < 2) codec_case(k);
    else if (kind < 3) external_case(k, 0);
    else history_case(k);
}

int main(int argc, char **argv)
{
    if (argc > 4 && !strcmp(argv[4], "noprobe")) probes_on = 0;
    return hk_main(argc, argv, "vg");
}
