/* e_conv - Tie-B engine for C06 (DFKconvert: byte order, strides, in-place).
 *  T conv cv <nt> <num> <so> <ss> <dO> <ds> <hex memory before> => <hex memory after> | fail
 * One memory block holds source (at so) and destination (at dO); in-place calls have so == dO.
 * Oracles (model-independent): element-wise expected result from the type's documented byte order,
 * untouched gaps, write-then-read round trip, exhaustive 2^8/2^16 patterns (every case 0 mod 50),
 * optional 2^32 sweep (argv[4] = 1, thorough tier), raw file bytes of SDS data vs values.
 */
#include "mfhdf.h"
#include "hk.h"

static const int32 BASE[] = {DFNT_UCHAR8, DFNT_CHAR8, DFNT_INT8, DFNT_UINT8, DFNT_INT16, DFNT_UINT16,
                             DFNT_INT32, DFNT_UINT32, DFNT_FLOAT32, DFNT_FLOAT64};
static const int32 FLAV[] = {0, DFNT_NATIVE, DFNT_LITEND};
static int sweep32 = 0;

/* documented byte order: standard = big-endian file image, little-endian/native = host order (host is LE) */
static int should_swap(int32 nt) { return (nt & (DFNT_NATIVE | DFNT_LITEND)) == 0 && DFKNTsize(nt | DFNT_NATIVE) > 1; }

static void structured(uint8_t *p, int esz, int k)
{
    /* byte lanes distinct so that any lane mix-up is visible; special float patterns */
    static const uint8_t pat[][8] = {
        {0x00, 0x00, 0xc0, 0x7f, 0, 0, 0, 0},             /* float32 NaN with payload (LE) */
        {0x01, 0x00, 0x00, 0x00, 0x00, 0x00, 0xf8, 0x7f}, /* float64 NaN payload */
        {0x01, 0x00, 0x00, 0x00, 0, 0, 0, 0},             /* denormal */
        {0xff, 0xff, 0xff, 0xff, 0xff, 0xff, 0xff, 0xff},
        {0x00, 0x00, 0x00, 0x80, 0x00, 0x00, 0x00, 0x80}, /* sign bits */
    };
    if (k % 4 == 0) memcpy(p, pat[hk_range(0, 4)], (size_t)esz);
    else if (k % 4 == 1) { uint8_t b = hk_byte(); for (int i = 0; i < esz; i++) p[i] = (uint8_t)(b + 17 * i + 1); }
    else for (int i = 0; i < esz; i++) p[i] = hk_byte();
}

static void exhaustive16(void)
{
    static uint16_t in[65536], out[65536], back[65536];
    for (int f = 0; f < 3; f++) {
        int32 nt = DFNT_UINT16 | FLAV[f];
        for (int v = 0; v < 65536; v++) in[v] = (uint16_t)v;
        if (DFKconvert(in, out, nt, 65536, DFACC_WRITE, 0, 0) == FAIL) { hk_fail("conv-fail", "uint16 sweep"); return; }
        for (int v = 0; v < 65536; v++) {
            uint16_t want = should_swap(nt) ? (uint16_t)((v >> 8) | (v << 8)) : (uint16_t)v;
            if (out[v] != want) { hk_fail("conv-value", "uint16 flavour %d value %d -> %04x want %04x", f, v, out[v], want); return; }
        }
        if (DFKconvert(out, back, nt, 65536, DFACC_READ, 0, 0) == FAIL || memcmp(in, back, sizeof in)) { hk_fail("conv-roundtrip", "uint16 flavour %d", f); return; }
        static uint8_t i8[256], o8[256];
        for (int v = 0; v < 256; v++) i8[v] = (uint8_t)v;
        if (DFKconvert(i8, o8, DFNT_UINT8 | FLAV[f], 256, DFACC_WRITE, 0, 0) == FAIL || memcmp(i8, o8, 256)) hk_fail("conv-value", "uint8 flavour %d", f);
    }
    hk_stat("exhaustive16", 1);
}

static void sweep_32(void)
{
    enum { CH = 1 << 20 };
    uint32_t *in = malloc(CH * 4), *out = malloc(CH * 4);
    for (int f = 0; f < 3; f++)
        for (int t = 0; t < 2; t++) {
            int32 nt = (t ? DFNT_FLOAT32 : DFNT_UINT32) | FLAV[f];
            for (uint64_t base = 0; base < (1ULL << 32); base += CH) {
                for (uint32_t i = 0; i < CH; i++) in[i] = (uint32_t)(base + i);
                if (DFKconvert(in, out, nt, CH, DFACC_WRITE, 0, 0) == FAIL) { hk_fail("conv-fail", "32-bit sweep"); goto done; }
                for (uint32_t i = 0; i < CH; i++) {
                    uint32_t v = in[i], want = should_swap(nt) ? __builtin_bswap32(v) : v;
                    if (out[i] != want) { hk_fail("conv-value", "32-bit nt %d value %08x -> %08x", (int)nt, v, out[i]); goto done; }
                }
            }
        }
    hk_stat("sweep32_types", 6);
done:
    free(in); free(out);
}

/* data stored under each flavour: raw file bytes have the designated order and read back as the same values */
static void file_bytes(int k)
{
    const char *path = hk_tmp("cv.hdf");
    int32 base = HK_PICK(BASE), nt = base | HK_PICK(FLAV);
    int esz = DFKNTsize(nt | DFNT_NATIVE), n = (int)hk_range(1, 40);
    uint8_t vals[40 * 8], back[40 * 8], raw[40 * 8 + 8];
    for (int i = 0; i < n; i++) structured(vals + i * esz, esz, i + k);
    int32 sd = SDstart(path, DFACC_CREATE), dim = n, start = 0;
    int32 sds = SDcreate(sd, "v", nt, 1, &dim);
    if (SDwritedata(sds, &start, NULL, &dim, vals) == FAIL) { hk_fail("conv-sdwrite", "nt %d", (int)nt); SDend(sd); return; }
    SDendaccess(sds); SDend(sd);
    sd = SDstart(path, DFACC_READ); sds = SDselect(sd, 0);
    if (SDreaddata(sds, &start, NULL, &dim, back) == FAIL || memcmp(vals, back, (size_t)(n * esz))) hk_fail("conv-file-roundtrip", "nt %d", (int)nt);
    SDendaccess(sds); SDend(sd);
    int32 fid = Hopen(path, DFACC_READ, 0); uint16 ft = 0, fr = 0; int32 off, len;
    if (Hfind(fid, DFTAG_SD, DFREF_WILDCARD, &ft, &fr, &off, &len, DF_FORWARD) == FAIL || len != n * esz || Hgetelement(fid, DFTAG_SD, fr, raw) != len) hk_fail("conv-file-raw", "nt %d len %d", (int)nt, (int)len);
    else
        for (int i = 0; i < n; i++)
            for (int b = 0; b < esz; b++) {
                uint8_t want = should_swap(nt) ? vals[i * esz + esz - 1 - b] : vals[i * esz + b];
                if (raw[i * esz + b] != want) { hk_fail("conv-file-order", "nt %d element %d byte %d", (int)nt, i, b); i = n; break; }
            }
    Hclose(fid);
    hk_stat("file_bytes", 1);
}

static void run_case(int k)
{
    if (k % 50 == 0) { exhaustive16(); if (sweep32 && k == 0) sweep_32(); return; }
    if (k % 7 == 3) { file_bytes(k); return; }
    int32 nt = HK_PICK(BASE) | HK_PICK(FLAV);
    int esz = DFKNTsize(nt | DFNT_NATIVE);
    int num = (int)hk_range(hk_chance(4) ? 0 : 1, 17);
    int mode = (int)hk_range(0, 3); /* 0 contiguous out-of-place, 1 strided out-of-place, 2 in-place contiguous, 3 in-place strided */
    int ss = 0, ds = 0, so, dO, L;
    int n1 = num ? num : 1;
    if (mode == 1) { ss = esz + (int)hk_range(0, 5); ds = esz + (int)hk_range(0, 5); }
    if (mode == 3) { ss = ds = esz + (int)hk_range(0, 5); }
    int sspan = (n1 - 1) * (ss ? ss : esz) + esz, dspan = (n1 - 1) * (ds ? ds : esz) + esz;
    if (mode >= 2) { so = dO = (int)hk_range(0, 3); L = so + sspan + (int)hk_range(0, 3); }
    else if (hk_chance(50)) { so = (int)hk_range(0, 3); dO = so + sspan + (int)hk_range(0, 3); L = dO + dspan + (int)hk_range(0, 3); }
    else { dO = (int)hk_range(0, 3); so = dO + dspan + (int)hk_range(0, 3); L = so + sspan + (int)hk_range(0, 3); }
    uint8_t *mem = malloc((size_t)L + 8), *orig = malloc((size_t)L + 8);
    for (int i = 0; i < L; i++) mem[i] = hk_byte();
    for (int i = 0; i < n1; i++) structured(mem + so + i * (ss ? ss : esz), esz, i + k);
    memcpy(orig, mem, (size_t)L);
    int16 acc = hk_chance(50) ? DFACC_READ : DFACC_WRITE;
    intn r = DFKconvert(mem + so, mem + dO, nt, num, acc, ss, ds);
    printf("T conv cv %d %d %d %d %d %d ", (int)nt, num, so, ss, dO, ds); hk_hex(orig, (size_t)L); printf(" => ");
    if (r == FAIL) printf("fail\n"); else { hk_hex(mem, (size_t)L); printf("\n"); }
    hk_stat(mode == 0 ? "mode_contig" : mode == 1 ? "mode_strided" : mode == 2 ? "mode_inplace" : "mode_inplace_strided", 1);
    if (num == 0) { if (r != FAIL) hk_fail("conv-zero-accepted", "num_elm 0 accepted"); goto out; }
    if (r == FAIL) { hk_fail("conv-fail", "nt %d num %d mode %d", (int)nt, num, mode); goto out; }
    /* independent oracle */
    {
        uint8_t *want = malloc((size_t)L);
        memcpy(want, orig, (size_t)L);
        for (int i = 0; i < num; i++)
            for (int b = 0; b < esz; b++)
                want[dO + i * (ds ? ds : esz) + b] = orig[so + i * (ss ? ss : esz) + (should_swap(nt) ? esz - 1 - b : b)];
        if (memcmp(want, mem, (size_t)L)) hk_fail("conv-value", "nt %d num %d mode %d ss %d ds %d", (int)nt, num, mode, ss, ds);
        free(want);
    }
    /* round trip back through the opposite direction, out of place contiguous */
    if (mode == 0) {
        uint8_t *back = malloc((size_t)num * esz + 8);
        if (DFKconvert(mem + dO, back, nt, num, acc == DFACC_READ ? DFACC_WRITE : DFACC_READ, 0, 0) == FAIL || memcmp(back, orig + so, (size_t)num * esz)) hk_fail("conv-roundtrip", "nt %d num %d", (int)nt, num);
        free(back);
    }
    if (k < 6) printf("SAMPLE nt=%d num=%d mode=%d ss=%d ds=%d\n", (int)nt, num, mode, ss, ds);
out:
    free(mem); free(orig);
}

int main(int argc, char **argv)
{
    if (argc > 4) sweep32 = atoi(argv[4]);
    return hk_main(argc, argv, "conv");
}
