/* e_comp - Tie-B engine for C05 (lossless coders through hcomp.c).
 * One case = one compressed element in a fresh file:
 *   coder in {RLE, NONE, SKPHUFF(skip 1..9, sometimes 10..40), DEFLATE(0..9)}; data from structured generators;
 *   written through a random partition into Hwrite calls; optional full rewrite from the start;
 *   raw DFTAG_COMPRESSED bytes fetched and (RLE) handed to the Lean model:  T rle enc <data> => <raw>
 *   and the raw bytes decoded by the model:                                 T rle dec <raw>  => <data>
 * Besides the random generators, skipping-Huffman elements (and now and then the other coders) get the structured families of
 * harness/skpgen.h on every lane (ramps, gapped ramps repeated, sorted / reverse-sorted alphabets, hill-climbed adversaries):
 * codes of more than 32, 64 and 96 bits.  STAT max_skphuff_code_bits = longest code of the run (a maximum), skphuff_codes_* =
 * bytes coded with that many bits (measured on the replica).
 * Oracles (implementation only): every read, under random partitions and forward/backward seeks, in the
 * writing session, and after close/reopen, equals the shadow copy; HCPgetdatasize sizes equal what is stored.
 */
#include "hdf.h"
#include "hfile_priv.h"
#include "hcomp.h"
#include "hk.h"
#include "skpgen.h" /* replica of the skipping-Huffman code tree: structured input families that drive the trees deep, code-length STATs */

#define MAXLEN 70000
static uint8_t data[MAXLEN], data2[MAXLEN], rbuf[MAXLEN + 16], raw[4 * MAXLEN + 1024];
static long maxlen = 2048;

static int gen_data(uint8_t *d, int cap)
{
    int kind = (int)hk_range(0, 9);
    int n = 0, target;
    switch ((int)hk_range(0, 5)) {
        case 0: target = (int)hk_range(0, 8); break;
        case 1: target = (int)hk_range(120, 140); break;
        case 2: target = (int)hk_range(250, 270); break;
        default: target = (int)hk_range(0, cap); break;
    }
    if (target > cap) target = cap;
    while (n < target) {
        int len, i;
        uint8_t v = hk_byte();
        switch (kind) {
            case 0: /* long runs around the limits */
            {
                static const int L[] = {1, 2, 3, 4, 126, 127, 128, 129, 130, 131, 132, 255, 256, 257, 260, 261, 400};
                len = HK_PICK(L);
                for (i = 0; i < len && n < target; i++) d[n++] = v;
                break;
            }
            case 1: /* pseudo-runs of 2 and mixes */
                len = (int)hk_range(1, 3);
                for (i = 0; i < len && n < target; i++) d[n++] = v;
                break;
            case 2: /* incompressible */
                d[n++] = v; break;
            case 3: /* tiny alphabet */
                d[n++] = (uint8_t)(v & 1); break;
            case 4: /* alternation abab / aabaab */
                d[n++] = (uint8_t)((n % 3 == 2) ? 9 : 7); break;
            case 5: /* mix blocks at 126..130 distinct bytes then a run */
                len = (int)hk_range(124, 132);
                for (i = 0; i < len && n < target; i++) d[n++] = (uint8_t)(i * 7 + v);
                len = (int)hk_range(0, 5);
                for (i = 0; i < len && n < target; i++) d[n++] = v;
                break;
            case 6: /* all zero */
                d[n++] = 0; break;
            case 7: /* slow ramp (16-bit-like lanes for skphuff) */
                d[n++] = (uint8_t)((n & 1) ? (n >> 4) : 0); break;
            default: /* random run lengths */
                len = (int)hk_range(1, (hk_chance(20) ? 300 : 6));
                for (i = 0; i < len && n < target; i++) d[n++] = v;
                break;
        }
    }
    return n;
}

static int write_partition(int32 aid, const uint8_t *d, int n)
{
    int pos = 0;
    int style = (int)hk_range(0, 3);
    if (n == 0 && hk_chance(50)) return 0;
    while (pos < n || (n == 0 && pos == 0)) {
        int len;
        switch (style) {
            case 0: len = n - pos; break;
            case 1: len = (int)hk_range(1, 7); break;
            case 2: len = (int)hk_range(1, 300); break;
            default: len = (int)hk_range(0, n - pos); break;
        }
        if (len > n - pos) len = n - pos;
        if (len == 0 && n > 0 && style != 3) len = 1;
        if (len == 0) { if (n == 0) break; continue; } /* zero-length transfers are outside the property */
        int32 r = Hwrite(aid, len, d + pos);
        if (r != len) { hk_fail("comp-write", "Hwrite(len=%d)=%d at pos %d of %d", len, (int)r, pos, n); return -1; }
        pos += len;
        if (n == 0) break;
    }
    return 0;
}

/* read the whole element back through a random partition with seeks; compare with shadow */
static void read_check(int32 fid, uint16 tag, uint16 ref, const uint8_t *d, int n, const char *when, const char *coder)
{
    int32 aid = Hstartread(fid, tag, ref);
    if (aid == FAIL) { hk_fail("comp-startread", "%s %s n=%d", coder, when, n); return; }
    int32 len = -1, posn = -1; int16 spec = 0;
    if (Hinquire(aid, NULL, NULL, NULL, &len, NULL, &posn, NULL, &spec) == FAIL || len != n)
        hk_fail("comp-length", "%s %s Hinquire length=%d expected %d", coder, when, (int)len, n);
    int steps = (int)hk_range(1, 12), s;
    int pos = 0;
    for (s = 0; s < steps; s++) {
        int act = (int)hk_range(0, 9);
        if (act < 3 && n > 0) { /* seek anywhere (forward or backward) */
            int to = (int)hk_range(0, n - 1);
            if (hk_chance(30)) to = (int)hk_range(0, pos > 0 ? pos : 0);
            if (Hseek(aid, to, DF_START) == FAIL) { hk_fail("comp-seek", "%s %s seek to %d of %d", coder, when, to, n); break; }
            pos = to;
        }
        int want = (int)hk_range(0, hk_chance(30) ? n : 40);
        if (want > n - pos) want = n - pos;
        if (want == 0) continue;
        memset(rbuf, 0xA5, (size_t)want + 8);
        int32 r = Hread(aid, want, rbuf);
        if (r != want) { hk_fail("comp-read-count", "%s %s Hread(%d)@%d=%d n=%d", coder, when, want, pos, (int)r, n); break; }
        if (memcmp(rbuf, d + pos, (size_t)want) != 0) {
            int i; for (i = 0; i < want && rbuf[i] == d[pos + i]; i++) {}
            hk_fail("comp-read-data", "%s %s read@%d len %d differs at +%d (got %02x want %02x) n=%d", coder, when, pos, want, i, rbuf[i], d[pos + i], n);
            break;
        }
        if (rbuf[want] != 0xA5) { hk_fail("comp-read-overrun", "%s %s", coder, when); break; }
        pos += want;
    }
    /* final: whole element from 0 */
    if (n > 0) {
        if (Hseek(aid, 0, DF_START) == FAIL) hk_fail("comp-seek", "%s %s rewind", coder, when);
        else {
            int32 r = Hread(aid, n, rbuf);
            if (r != n || memcmp(rbuf, d, (size_t)n) != 0) hk_fail("comp-read-data", "%s %s whole read r=%d n=%d", coder, when, (int)r, n);
        }
    }
    Hendaccess(aid);
}

static void run_case(int k)
{
    const char *path = hk_tmp("c.hdf");
    comp_info cinfo; model_info minfo;
    comp_coder_t coder;
    char cname[32];
    int pick = (int)hk_range(0, 9);
    long fails0 = hk_nfail; /* oracle failures before this case */
    memset(&cinfo, 0, sizeof cinfo); memset(&minfo, 0, sizeof minfo);
    if (pick < 5) { coder = COMP_CODE_RLE; strcpy(cname, "rle"); }
    else if (pick < 6) { coder = COMP_CODE_NONE; strcpy(cname, "none"); }
    else if (pick < 8) { coder = COMP_CODE_SKPHUFF; cinfo.skphuff.skp_size = hk_chance(85) ? (int)hk_range(1, 9) : (int)hk_range(10, 40); sprintf(cname, "skphuff%d", cinfo.skphuff.skp_size); }
    else { coder = COMP_CODE_DEFLATE; cinfo.deflate.level = (int)hk_range(0, 9); sprintf(cname, "deflate%d", cinfo.deflate.level); }

    /* structured families: for skipping Huffman on its own lanes (long enough for the trees to get deep, whatever maxlen is),
       for the other coders as 1..4-byte-wide values */
    int structured = coder == COMP_CODE_SKPHUFF ? hk_chance(40) : hk_chance(6);
    int lanes = coder == COMP_CODE_SKPHUFF ? cinfo.skphuff.skp_size : (int)hk_range(1, 4);
    int n = structured ? (int)skp_gen_structured(data, 521L * lanes, lanes, coder == COMP_CODE_SKPHUFF && hk_chance(50), NULL) : gen_data(data, (int)maxlen);
    if (structured) hk_stat("structured_cases", 1);
    uint16 tag = (uint16)hk_range(1000, 1010), ref = (uint16)hk_range(1, 5);
    printf("INFO coder=%s n=%d\n", cname, n);
    int32 fid = Hopen(path, DFACC_CREATE, (int16)(hk_chance(50) ? 0 : hk_range(4, 20)));
    if (fid == FAIL) { hk_fail("comp-open", "Hopen create"); return; }
    /* sometimes the element pre-exists uncompressed (HCcreate then converts it) */
    int preexist = hk_chance(20) && n > 0;
    if (preexist) {
        if (Hputelement(fid, tag, ref, data, n) != n) { hk_fail("comp-put", "Hputelement"); Hclose(fid); return; }
    }
    int32 aid = HCcreate(fid, tag, ref, COMP_MODEL_STDIO, &minfo, coder, &cinfo);
    if (aid == FAIL) { hk_fail("comp-create", "HCcreate %s", cname); Hclose(fid); return; }
    if (!preexist) { if (write_partition(aid, data, n) < 0) { Hendaccess(aid); Hclose(fid); return; } }
    if (Hendaccess(aid) == FAIL) hk_fail("comp-endaccess", "%s n=%d", cname, n);
    hk_stat(cname[0] == 'r' ? "coder_rle" : cname[0] == 'n' ? "coder_none" : cname[0] == 's' ? "coder_skphuff" : "coder_deflate", 1);
    hk_stat("bytes", n);

    const uint8_t *cur = data; int curn = n;
    read_check(fid, tag, ref, cur, curn, "same-session", cname);

    /* optional full rewrite from the start with different content (>= old length is required by the coders) */
    if (hk_chance(35)) {
        int n2 = structured ? (int)skp_gen_structured(data2, 521L * lanes, lanes, coder == COMP_CODE_SKPHUFF && hk_chance(50), NULL) : gen_data(data2, (int)maxlen);
        if (structured && n2 > 0) for (; n2 < n; n2++) data2[n2] = data2[n2 - 1] ^ (uint8_t)n2; /* a rewrite has to cover the old length */
        if (n2 >= n && n2 > 0) { /* a zero-length Hwrite is refused by design (same rule as for the first write) */
            int32 a2 = Hstartwrite(fid, tag, ref, n2);
            if (a2 == FAIL) hk_fail("comp-startwrite", "%s rewrite", cname);
            else {
                /* the coders accept a rewrite only as ONE call from offset 0 covering at least the old length */
                int32 w = Hwrite(a2, n2, data2);
                if (w != n2) hk_fail("comp-rewrite", "%s Hwrite(%d)=%d old n=%d", cname, n2, (int)w, n);
                cur = data2; curn = n2;
                if (Hendaccess(a2) == FAIL) hk_fail("comp-endaccess", "%s rewrite", cname);
                hk_stat("rewrites", 1);
                read_check(fid, tag, ref, cur, curn, "after-rewrite", cname);
            }
        }
    }

    if (coder == COMP_CODE_SKPHUFF) { /* how deep did the trees get (replica; the element now holds cur[0..curn)) */
        skp_lens sl;
        skp_measure(cur, curn, cinfo.skphuff.skp_size, &sl, NULL);
        hk_stat("max_skphuff_code_bits", sl.maxbits);
        if (sl.n33) hk_stat("skphuff_codes_33_64", sl.n33);
        if (sl.n65) hk_stat("skphuff_codes_65_96", sl.n65);
        if (sl.n97) hk_stat("skphuff_codes_97_128", sl.n97);
        if (sl.n129) hk_stat("skphuff_codes_gt128", sl.n129);
        if (sl.maxbits > 64) hk_stat("skphuff_cases_code_gt64", 1);
    }
    /* sizes + raw compressed bytes */
    int32 csz = -1, osz = -1;
    if (HCPgetdatasize(fid, tag, ref, &csz, &osz) == FAIL) hk_fail("comp-getdatasize", "%s", cname);
    else if (osz != curn) hk_fail("comp-origsize", "%s HCPgetdatasize orig=%d expected %d", cname, (int)osz, curn);
    /* locate the DFTAG_COMPRESSED element: the only one in this file */
    {
        uint16 ft = 0, fr = 0; int32 foff = 0, flen = 0;
        if (Hfind(fid, DFTAG_COMPRESSED, DFREF_WILDCARD, &ft, &fr, &foff, &flen, DF_FORWARD) == FAIL) {
            if (!(curn == 0)) hk_fail("comp-noraw", "%s no DFTAG_COMPRESSED element n=%d", cname, curn);
        }
        else {
            if (flen < 0) flen = 0; /* created but never written: descriptor still has INVALID_LENGTH */
            if (csz != -1 && csz != flen) hk_fail("comp-compsize", "%s HCPgetdatasize comp=%d stored=%d", cname, (int)csz, (int)flen);
            if (coder == COMP_CODE_RLE && flen <= (int32)sizeof raw && cur == data) {
                int32 g = flen > 0 ? Hgetelement(fid, DFTAG_COMPRESSED, fr, raw) : 0;
                if (g != flen) hk_fail("comp-getraw", "Hgetelement=%d len=%d", (int)g, (int)flen);
                else {
                    printf("T rle enc "); hk_hex(cur, (size_t)curn); printf(" => "); hk_hex(raw, (size_t)flen); printf("\n");
                    printf("T rle dec "); hk_hex(raw, (size_t)flen); printf(" => "); hk_hex(cur, (size_t)curn); printf("\n");
                }
            }
        }
    }
    if (Hclose(fid) == FAIL) hk_fail("comp-close", "%s", cname);

    /* reopen read/write and only READ through a handle that has write access (what SDreaddata does on a file opened DFACC_RDWR):
       one read that stops anywhere - inside a run, inside a literal packet, at the end -, optionally after a seek, then Hendaccess.
       Nothing was written, so nothing may change (C05: returns exactly the stream written; C14: no change requested) */
    if (curn > 0 && hk_chance(60)) {
        fid = Hopen(path, DFACC_RDWR, 0);
        if (fid == FAIL) { hk_fail("comp-reopen", "%s rdwr", cname); return; }
        int32 a3 = Hstartaccess(fid, tag, ref, DFACC_RDWR);
        if (a3 == FAIL) hk_fail("comp-startaccess-rdwr", "%s n=%d", cname, curn);
        else {
            int from = hk_chance(50) ? 0 : (int)hk_range(0, curn - 1);
            int want = (int)hk_range(1, curn - from);
            if (from > 0 && Hseek(a3, from, DF_START) == FAIL) hk_fail("comp-seek", "%s rdwr seek %d of %d", cname, from, curn);
            else {
                int32 r = Hread(a3, want, rbuf);
                if (r != want || memcmp(rbuf, cur + from, (size_t)want) != 0) hk_fail("comp-read-data", "%s rdwr handle read@%d len %d of %d r=%d", cname, from, want, curn, (int)r);
            }
            if (Hendaccess(a3) == FAIL) hk_fail("comp-endaccess", "%s rdwr reader", cname);
            hk_stat("rdwr_partial_reads", 1);
        }
        if (Hclose(fid) == FAIL) hk_fail("comp-close", "%s after rdwr read", cname);
        fid = Hopen(path, DFACC_READ, 0);
        if (fid == FAIL) { hk_fail("comp-reopen", "%s", cname); return; }
        { int32 g = Hgetelement(fid, tag, ref, rbuf);
          /* stated only when the element read back right so far in this case: otherwise it was wrong before this session */
          if (hk_nfail == fails0 && (g != curn || memcmp(rbuf, cur, (size_t)curn) != 0)) hk_fail("comp-read-only-session-changed-data", "%s: after a read through a write-access handle and Hendaccess the element differs (g=%d n=%d)", cname, (int)g, curn); }
        Hclose(fid);
    }

    /* reopen read-only */
    fid = Hopen(path, DFACC_READ, 0);
    if (fid == FAIL) { hk_fail("comp-reopen", "%s", cname); return; }
    read_check(fid, tag, ref, cur, curn, "after-reopen", cname);
    if (curn > 0) {
        int32 g = Hgetelement(fid, tag, ref, rbuf);
        if (g != curn || memcmp(rbuf, cur, (size_t)curn) != 0) hk_fail("comp-getelement", "%s after reopen g=%d n=%d", cname, (int)g, curn);
    }
    Hclose(fid);
    if (k < 3) { printf("SAMPLE coder=%s n=%d preexist=%d first16=", cname, n, preexist); hk_hex(data, n < 16 ? (size_t)n : 16); printf("\n"); }
}

int main(int argc, char **argv)
{
    if (argc > 4) maxlen = atol(argv[4]);
    if (maxlen > MAXLEN) maxlen = MAXLEN;
    return hk_main(argc, argv, "comp");
}
