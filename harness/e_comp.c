/* e_comp - Tie-B engine for C05 (lossless coders through hcomp.c).
 * One case = one compressed element in a fresh file:
 *   coder in {RLE, NONE, SKPHUFF(skip 1..9, sometimes 10..40), DEFLATE(0..9)}; data from structured generators;
 *   written through a random partition into Hwrite calls; optional full rewrite from the start;
 *   raw DFTAG_COMPRESSED bytes fetched and (RLE) handed to the Lean model:  T rle enc <data> => <raw>
 *   and the raw bytes decoded by the model:                                 T rle dec <raw>  => <data>
 * Besides the random generators, skipping-Huffman elements (and now and then the other coders) get the structured families of
 * harness/skpgen.h on every lane (ramps, gapped ramps repeated, sorted / reverse-sorted alphabets, hill-climbed adversaries):
 * codes of more than 32, 64 and 96 bits.  STAT max_skphuff_code_bits = longest code of the run (a maximum), skphuff_codes_* =
 * bytes coded with that many bits (measured on the replica).
 * Oracles (implementation only): every read, under random partitions and forward/backward seeks, in the
 * writing session, and after close/reopen, equals the shadow copy; HCPgetdatasize sizes equal what is stored.
 *
 * MIXED SESSIONS (session_case, about a third of the cases, every coder - RLE, none, skipping Huffman, deflate, and the n-bit coder with
 *   the whole value selected, i.e. the identity projection, in whole-value transfers): ONE access id with write access carries a whole history of
 *   sequential writes (appends), backward / forward seeks, partial reads and finally Hendaccess, in any order.  The data is built from
 *   segments (runs, non-repeating stretches, noise) whose lengths sit on the coders' limits (run-length packets of 127..131 / 259..261 /
 *   390 bytes, literal packets of 126..130 / 255..258, skip-size multiples, the 4096-byte buffers of the deflate coder and of bit I/O);
 *   writes END on segment boundaries (or one byte off) most of the time, so the coder is left exactly at / just before / just after a
 *   forced flush when the access id turns to reading; reads stop inside a segment, on its boundary, or at the end.  A second session
 *   (Hstartwrite on the existing element, in the same Hopen or after reopening read/write) seeks to the end and appends, again mixed
 *   with seeks and reads.  Oracles: every read inside a session returns the bytes written so far (comp-session-read), no in-scope
 *   operation fails (comp-session-op), the length reported is the number of bytes written (comp-length), and after Hendaccess the
 *   element is exactly the byte stream written (comp-session-stored; then read_check in the same Hopen and after reopening).
 *   RLE: the history and the resulting DFTAG_COMPRESSED bytes go to the Lean session model:
 *        T rle sess <raw before|-> <op,op,...> => <raw after> <bytes delivered by the reads>      op = w<hex> | s<offset> | r<count>
 *   (`e` = Hendaccess is implied at the end), which replays it on the functions TRANSLATED from crle.c (H4.Gen.Fn.Crle) - see
 *   lean/H4/Driver/Rle.lean, theorem H4.Props.C05RleSess.session_roundtrip.
 */
#include "hdf.h"
#include "hfile_priv.h"
#include "hcomp.h"
#include "hk.h"
#include "skpgen.h" /* replica of the skipping-Huffman code tree: structured input families that drive the trees deep, code-length STATs */

#define MAXLEN 70000
static uint8_t data[MAXLEN], data2[MAXLEN], rbuf[MAXLEN + 16], raw[4 * MAXLEN + 1024];
static long maxlen = 2048;

static int gen_data(uint8_t *d, int cap)
{
    int kind = (int)hk_range(0, 9);
    int n = 0, target;
    switch ((int)hk_range(0, 5)) {
        case 0: target = (int)hk_range(0, 8); break;
        case 1: target = (int)hk_range(120, 140); break;
        case 2: target = (int)hk_range(250, 270); break;
        default: target = (int)hk_range(0, cap); break;
    }
    if (target > cap) target = cap;
    while (n < target) {
        int len, i;
        uint8_t v = hk_byte();
        switch (kind) {
            case 0: /* long runs around the limits */
            {
                static const int L[] = {1, 2, 3, 4, 126, 127, 128, 129, 130, 131, 132, 255, 256, 257, 260, 261, 400};
                len = HK_PICK(L);
                for (i = 0; i < len && n < target; i++) d[n++] = v;
                break;
            }
            case 1: /* pseudo-runs of 2 and mixes */
                len = (int)hk_range(1, 3);
                for (i = 0; i < len && n < target; i++) d[n++] = v;
                break;
            case 2: /* incompressible */
                d[n++] = v; break;
            case 3: /* tiny alphabet */
                d[n++] = (uint8_t)(v & 1); break;
            case 4: /* alternation abab / aabaab */
                d[n++] = (uint8_t)((n % 3 == 2) ? 9 : 7); break;
            case 5: /* mix blocks at 126..130 distinct bytes then a run */
                len = (int)hk_range(124, 132);
                for (i = 0; i < len && n < target; i++) d[n++] = (uint8_t)(i * 7 + v);
                len = (int)hk_range(0, 5);
                for (i = 0; i < len && n < target; i++) d[n++] = v;
                break;
            case 6: /* all zero */
                d[n++] = 0; break;
            case 7: /* slow ramp (16-bit-like lanes for skphuff) */
                d[n++] = (uint8_t)((n & 1) ? (n >> 4) : 0); break;
            default: /* random run lengths */
                len = (int)hk_range(1, (hk_chance(20) ? 300 : 6));
                for (i = 0; i < len && n < target; i++) d[n++] = v;
                break;
        }
    }
    return n;
}

static int write_partition(int32 aid, const uint8_t *d, int n)
{
    int pos = 0;
    int style = (int)hk_range(0, 3);
    if (n == 0 && hk_chance(50)) return 0;
    while (pos < n || (n == 0 && pos == 0)) {
        int len;
        switch (style) {
            case 0: len = n - pos; break;
            case 1: len = (int)hk_range(1, 7); break;
            case 2: len = (int)hk_range(1, 300); break;
            default: len = (int)hk_range(0, n - pos); break;
        }
        if (len > n - pos) len = n - pos;
        if (len == 0 && n > 0 && style != 3) len = 1;
        if (len == 0) { if (n == 0) break; continue; } /* zero-length transfers are outside the property */
        int32 r = Hwrite(aid, len, d + pos);
        if (r != len) { hk_fail("comp-write", "Hwrite(len=%d)=%d at pos %d of %d", len, (int)r, pos, n); return -1; }
        pos += len;
        if (n == 0) break;
    }
    return 0;
}

static int sess_gran = 1; /* every transfer and seek of a session is a multiple of this many bytes (n-bit coder: whole values) */
static int gr_up(int x) { return (x + sess_gran - 1) / sess_gran * sess_gran; }
static int gr_down(int x) { return x / sess_gran * sess_gran; }

/* read the whole element back through a random partition with seeks; compare with shadow */
static void read_check(int32 fid, uint16 tag, uint16 ref, const uint8_t *d, int n, const char *when, const char *coder)
{
    int32 aid = Hstartread(fid, tag, ref);
    if (aid == FAIL) { hk_fail("comp-startread", "%s %s n=%d", coder, when, n); return; }
    int32 len = -1, posn = -1; int16 spec = 0;
    if (Hinquire(aid, NULL, NULL, NULL, &len, NULL, &posn, NULL, &spec) == FAIL || len != n)
        hk_fail("comp-length", "%s %s Hinquire length=%d expected %d", coder, when, (int)len, n);
    int steps = (int)hk_range(1, 12), s;
    int pos = 0;
    for (s = 0; s < steps; s++) {
        int act = (int)hk_range(0, 9);
        if (act < 3 && n > 0) { /* seek anywhere (forward or backward) */
            int to = (int)hk_range(0, n - 1);
            if (hk_chance(30)) to = (int)hk_range(0, pos > 0 ? pos : 0);
            to = gr_down(to);
            if (Hseek(aid, to, DF_START) == FAIL) { hk_fail("comp-seek", "%s %s seek to %d of %d", coder, when, to, n); break; }
            pos = to;
        }
        int want = (int)hk_range(0, hk_chance(30) ? n : 40);
        want = gr_down(want);
        if (want > n - pos) want = n - pos;
        if (want == 0) continue;
        memset(rbuf, 0xA5, (size_t)want + 8);
        int32 r = Hread(aid, want, rbuf);
        if (r != want) { hk_fail("comp-read-count", "%s %s Hread(%d)@%d=%d n=%d", coder, when, want, pos, (int)r, n); break; }
        if (memcmp(rbuf, d + pos, (size_t)want) != 0) {
            int i; for (i = 0; i < want && rbuf[i] == d[pos + i]; i++) {}
            hk_fail("comp-read-data", "%s %s read@%d len %d differs at +%d (got %02x want %02x) n=%d", coder, when, pos, want, i, rbuf[i], d[pos + i], n);
            break;
        }
        if (rbuf[want] != 0xA5) { hk_fail("comp-read-overrun", "%s %s", coder, when); break; }
        pos += want;
    }
    /* final: whole element from 0 */
    if (n > 0) {
        if (Hseek(aid, 0, DF_START) == FAIL) hk_fail("comp-seek", "%s %s rewind", coder, when);
        else {
            int32 r = Hread(aid, n, rbuf);
            if (r != n || memcmp(rbuf, d, (size_t)n) != 0) hk_fail("comp-read-data", "%s %s whole read r=%d n=%d", coder, when, (int)r, n);
        }
    }
    Hendaccess(aid);
}

/* ------------------------------------------------------------------------------------------------------------------------------
 * mixed sessions on ONE access id (see the header comment)
 * ------------------------------------------------------------------------------------------------------------------------------ */
#define MAXSEG 8192
static int seg_end[MAXSEG]; /* seg_end[i] = offset just behind segment i */
static int nseg;

/* append segments to d[from..) until `target` bytes; lengths sit on the coders' limits */
static int gen_segments(uint8_t *d, int from, int target, int lanes)
{
    static const int RL[] = {1, 2, 3, 4, 5, 126, 127, 128, 129, 131, 132, 259, 261, 391};
    static const int RX[] = {130, 130, 130, 260, 390}; /* the run-length coder is forced to flush exactly at the end of such a run */
    static const int ML[] = {1, 2, 3, 4, 125, 126, 127, 129, 130, 131, 255, 257, 258};
    static const int MX[] = {128, 128, 128, 256, 384}; /* ... and of such a literal stretch */
    int n = from, lastkind = -1;
    while (n < target && nseg < MAXSEG) {
        int len, i, kind = (int)hk_range(0, 9), lim = (int)hk_range(0, 99);
        uint8_t prev = n > 0 ? d[n - 1] : 0, v = hk_byte();
        if (v == prev && !hk_chance(10)) v = (uint8_t)(v + 1 + hk_range(0, 200)); /* a run usually starts with a new value */
        if (lastkind >= 4 && lastkind < 8 && kind >= 4 && kind < 8 && hk_chance(80)) kind = 0; /* two literal stretches in a row merge: mostly alternate */
        lastkind = kind;
        if (kind < 4) { /* run */
            len = lim < 45 ? HK_PICK(RX) : lim < 75 ? HK_PICK(RL) : (int)hk_range(1, 300);
            for (i = 0; i < len; i++) d[n + i] = v;
        }
        else if (kind < 8) { /* non-repeating stretch: neighbours always differ */
            int step = 1 + 2 * (int)hk_range(0, 40);
            len = lim < 45 ? HK_PICK(MX) : lim < 75 ? HK_PICK(ML) : (int)hk_range(1, 300);
            for (i = 0; i < len; i++) d[n + i] = (uint8_t)(v + i * step);
        }
        else if (kind == 8) { /* noise over a tiny alphabet: pseudo-runs of two, short runs */
            len = (int)hk_range(1, 40);
            for (i = 0; i < len; i++) d[n + i] = (uint8_t)(v + (hk_next() % 3));
        }
        else { /* whole values of `lanes` bytes, or up to just below / on / above the next multiple of 4096 (buffers of deflate and of bit I/O) */
            if (hk_chance(50)) {
                len = lanes * (int)hk_range(1, 6);
                for (i = 0; i < len; i++) d[n + i] = (uint8_t)((i % lanes) ? v : i / lanes);
            }
            else {
                len = (n / 4096 + 1) * 4096 + (int)hk_range(-1, 1) - n;
                if (len <= 0) len = 1;
                for (i = 0; i < len && n + i < target; i++) d[n + i] = (uint8_t)((i & 7) ? (i >> 5) : v);
            }
        }
        if (len > target - n) len = target - n;
        n += len;
        seg_end[nseg++] = n;
    }
    return n;
}

/* offset of a segment boundary near `pos` (at or behind it), `skip` boundaries further */
static int boundary_after(int pos, int skip)
{
    int i;
    for (i = 0; i < nseg; i++)
        if (seg_end[i] > pos) { i += skip; if (i >= nseg) i = nseg - 1; return seg_end[i]; }
    return nseg ? seg_end[nseg - 1] : 0;
}

typedef struct { char *s; size_t n, cap; } sbuf;
static void sb_need(sbuf *b, size_t more) { if (b->n + more + 1 > b->cap) { b->cap = (b->n + more + 1) * 2; b->s = realloc(b->s, b->cap); if (!b->s) abort(); } }
static void sb_str(sbuf *b, const char *t) { size_t l = strlen(t); sb_need(b, l); memcpy(b->s + b->n, t, l + 1); b->n += l; }
static void sb_hex(sbuf *b, const uint8_t *p, size_t n) { static const char H[] = "0123456789abcdef"; size_t i; sb_need(b, 2 * n); for (i = 0; i < n; i++) { b->s[b->n++] = H[p[i] >> 4]; b->s[b->n++] = H[p[i] & 15]; } b->s[b->n] = 0; }
static void sb_op(sbuf *b, char c, long v) { char t[32]; sprintf(t, "%s%c%ld", b->n ? "," : "", c, v); sb_str(b, t); }

/* One session through `aid` (write access).  *written = bytes the element holds (all of them equal d[0..*written)), *posn = position of
   the access id.  Appends up to d[0..goal), mixed with seeks and reads.  Returns -1 when an operation failed (already reported). */
static int session_ops(int32 aid, const uint8_t *d, int goal, int *written, int *posn, sbuf *script, sbuf *reads, const char *cname, const char *when)
{
    int steps = (int)hk_range(2, 14), s, w = *written, p = *posn;
    int deflate = cname[0] == 'd';
    int after_write = 0; /* the previous operation was a write: the coder is in whatever state the end of that write left it in */
    int reading = w > 0; /* the access id has been used for reading / seeking backward since the last write (or was opened on existing data) */
    int must_write = (w == 0 && goal > 0); /* the first operation on a new element is a write */
    for (s = 0; s < steps; s++) {
        int act = (int)hk_range(0, 99);
        if ((must_write || act < 45) && w < goal) { /* ---- append: the position has to be the end of the data (sequential writing) */
            if (p != w) {
                if (hk_chance(70)) { /* forward seek to the end */
                    if (Hseek(aid, w, DF_START) == FAIL) { hk_fail("comp-session-op", "%s %s Hseek to the end %d (from %d) failed", cname, when, w, p); goto bad; }
                    sb_op(script, 's', w);
                }
                else { /* read up to the end */
                    int32 r = Hread(aid, w - p, rbuf);
                    sb_op(script, 'r', w - p);
                    reading = 1;
                    if (r != w - p) { hk_fail("comp-session-op", "%s %s Hread(%d)@%d=%d of %d", cname, when, w - p, p, (int)r, w); goto bad; }
                    sb_hex(reads, rbuf, (size_t)r);
                    if (memcmp(rbuf, d + p, (size_t)(w - p)) != 0) { hk_fail("comp-session-read", "%s %s read up to the end @%d len %d differs from the bytes written", cname, when, p, w - p); goto bad; }
                }
                p = w;
            }
            int end, sel = (int)hk_range(0, 9);
            if (sel < 6) end = boundary_after(w, (int)hk_range(0, 3));          /* exactly on a segment boundary */
            else if (sel < 8) end = boundary_after(w, (int)hk_range(0, 2)) + (hk_chance(50) ? 1 : -1); /* one byte off */
            else end = w + (int)hk_range(1, 300);
            if (s == steps - 1 && hk_chance(50)) end = goal;
            end = hk_chance(50) ? gr_up(end) : gr_down(end);
            if (end > goal) end = goal;
            if (end <= w) end = w + sess_gran;
            int32 r = Hwrite(aid, end - w, d + w);
            if (deflate && reading && w > 0) {
                /* deflate, append after the coder left write mode (known finding comp-deflate-append-after-read: HCPcdeflate_write restarts the
                   deflater and rewinds the stream, the appended bytes replace the element; a later seek then inflates on the deflate context).
                   A refusal is acceptable (nothing written); an accepted append is read back at once, through a BACKWARD seek, which is safe */
                hk_stat("deflate_appends_after_read", 1);
                if (r == FAIL) { hk_stat("deflate_appends_after_read_refused", 1); reading = 1; goal = w; continue; }
                if (r == end - w) {
                    int32 g = Hseek(aid, 0, DF_START) == FAIL ? FAIL : Hread(aid, end, rbuf);
                    if (g != end || memcmp(rbuf, d, (size_t)end) != 0) {
                        int i; for (i = 0; i < end && g == end && rbuf[i] == d[i]; i++) {}
                        hk_fail("comp-deflate-append-after-read", "%s %s: %d bytes appended at %d after the access id had been used for reading: reading back %d bytes gives %d, first difference at %d", cname, when, end - w, w, end, (int)g, i);
                        w = end; goto bad;
                    }
                    w = p = end; must_write = 0; reading = 1;
                    hk_stat("session_writes", 1);
                    continue;
                }
            }
            if (r != end - w) { hk_fail("comp-session-op", "%s %s Hwrite(%d)@%d=%d", cname, when, end - w, w, (int)r); goto bad; }
            sb_str(script, script->n ? ",w" : "w"); sb_hex(script, d + w, (size_t)(end - w));
            w = p = end; must_write = 0; reading = 0; after_write = 1;
            hk_stat("session_writes", 1);
            continue;
        }
        if (w == 0) continue;
        /* ---- seek and / or read */
        int kind = (int)hk_range(0, 9), to = -1;
        if (after_write && hk_chance(60)) kind = (int)hk_range(0, 3); /* the writer turns round: seek back and read */
        after_write = 0;
        if (kind < 5) { /* backward (or to the same place) */
            int t = (int)hk_range(0, 9);
            to = t < 4 ? 0 : t < 7 ? boundary_after((int)hk_range(0, p > 0 ? p - 1 : 0), 0) + (int)hk_range(-1, 1) : (int)hk_range(0, p);
            if (to > p) to = p;
            if (to < 0) to = 0;
        }
        else if (kind < 7) to = (int)hk_range(p, w); /* forward */
        if (to >= 0) {
            to = gr_down(to);
            if (Hseek(aid, to, DF_START) == FAIL) { hk_fail("comp-session-op", "%s %s Hseek to %d (from %d, %d written) failed", cname, when, to, p, w); goto bad; }
            sb_op(script, 's', to);
            if (to < p) { hk_stat("session_backward_seeks", 1); reading = 1; }
            p = to;
        }
        if (kind == 4 || kind == 6 || p >= w) continue; /* seek only */
        int want, t = (int)hk_range(0, 9);
        if (t < 4) want = (int)hk_range(1, 60);                                     /* stops somewhere, often inside a segment */
        else if (t < 6) want = boundary_after(p, (int)hk_range(0, 2)) - p + (int)hk_range(-1, 1); /* on / next to a boundary */
        else if (t < 8) want = (int)hk_range(1, w - p);
        else want = w - p;                                                          /* up to the end */
        want = hk_chance(50) ? gr_up(want) : gr_down(want);
        if (want > w - p) want = w - p;
        if (want < sess_gran) want = sess_gran;
        memset(rbuf, 0xA5, (size_t)want + 8);
        int32 r = Hread(aid, want, rbuf);
        sb_op(script, 'r', want);
        reading = 1;
        if (r != want) { hk_fail("comp-session-op", "%s %s Hread(%d)@%d=%d (%d written)", cname, when, want, p, (int)r, w); goto bad; }
        sb_hex(reads, rbuf, (size_t)want);
        if (memcmp(rbuf, d + p, (size_t)want) != 0) {
            int i; for (i = 0; i < want && rbuf[i] == d[p + i]; i++) {}
            hk_fail("comp-session-read", "%s %s read@%d len %d through the writing access id differs at +%d (got %02x want %02x), %d written", cname, when, p, want, i, rbuf[i], d[p + i], w);
            goto bad;
        }
        if (rbuf[want] != 0xA5) { hk_fail("comp-read-overrun", "%s %s session", cname, when); goto bad; }
        p += want;
        hk_stat(p < w ? "session_partial_reads" : "session_reads_to_end", 1);
        if (p < w && hk_chance(25)) break; /* Hendaccess with the reader stopped inside the data */
    }
    *written = w; *posn = p;
    return 0;
bad:
    *written = w; *posn = p;
    return -1;
}

/* after Hendaccess of a session: the element is exactly d[0..n); RLE: hand history and stored bytes to the model */
static void session_after(int32 fid, uint16 tag, uint16 ref, comp_coder_t coder, const uint8_t *d, int n, const uint8_t *raw0, int32 raw0len,
                          sbuf *script, sbuf *reads, const char *cname, const char *when, int32 *rawlen)
{
    int32 g; /* (the length reported is checked by read_check: comp-length) */
    memset(rbuf, 0x5A, (size_t)n + 8);
    g = n > 0 ? Hgetelement(fid, tag, ref, rbuf) : 0;
    if (g != n || memcmp(rbuf, d, (size_t)n) != 0) {
        int i; for (i = 0; i < n && rbuf[i] == d[i]; i++) {}
        hk_fail("comp-session-stored", "%s %s: after Hendaccess the element is not the byte stream written (Hgetelement=%d, %d written, first difference at %d)", cname, when, (int)g, n, i);
    }
    int32 csz = -1, osz = -1;
    if (HCPgetdatasize(fid, tag, ref, &csz, &osz) == FAIL) hk_fail("comp-getdatasize", "%s %s", cname, when);
    else if (osz != n) hk_fail("comp-origsize", "%s %s HCPgetdatasize orig=%d expected %d", cname, when, (int)osz, n);
    uint16 ft = 0, fr = 0; int32 foff = 0, flen = 0;
    *rawlen = 0;
    if (Hfind(fid, DFTAG_COMPRESSED, DFREF_WILDCARD, &ft, &fr, &foff, &flen, DF_FORWARD) == FAIL) { hk_fail("comp-noraw", "%s %s no DFTAG_COMPRESSED element n=%d", cname, when, n); return; }
    if (flen < 0) flen = 0;
    if (csz != -1 && csz != flen) hk_fail("comp-compsize", "%s %s HCPgetdatasize comp=%d stored=%d", cname, when, (int)csz, (int)flen);
    if (coder == COMP_CODE_RLE && flen <= (int32)sizeof raw) {
        g = flen > 0 ? Hgetelement(fid, DFTAG_COMPRESSED, fr, raw) : 0;
        if (g != flen) { hk_fail("comp-getraw", "Hgetelement=%d len=%d", (int)g, (int)flen); return; }
        *rawlen = flen;
        if (n <= 3000 && reads->n <= 16000) { /* the translated functions work on linked lists: a call costs O(n^2) in the model */
            printf("T rle sess "); hk_hex(raw0, (size_t)raw0len); printf(" %s => ", script->n ? script->s : "-"); hk_hex(raw, (size_t)flen);
            printf(" %s\n", reads->n ? reads->s : "-");
        }
        printf("T rle dec "); hk_hex(raw, (size_t)flen); printf(" => "); hk_hex(d, (size_t)n); printf("\n");
    }
}

static void session_case(int k, comp_coder_t coder, comp_info *cinfo, const char *cname)
{
    const char *path = hk_tmp("c.hdf");
    model_info minfo;
    static uint8_t raw0[sizeof raw];
    sbuf script = {0, 0, 0}, reads = {0, 0, 0};
    int lanes = coder == COMP_CODE_SKPHUFF ? cinfo->skphuff.skp_size : (int)hk_range(1, 4);
    int cap = (int)maxlen, goal, t = (int)hk_range(0, 9);
    memset(&minfo, 0, sizeof minfo);
    if (hk_chance(8) && cap < 9000) cap = 9000; /* now and then across the 4096-byte buffers whatever the tier */
    goal = t < 2 ? (int)hk_range(1, 40) : t < 7 ? (int)hk_range(100, cap < 1500 ? cap : 1500) : (int)hk_range(1, cap);
    nseg = 0;
    goal = gr_up(goal);
    goal = gen_segments(data, 0, goal, lanes);
    uint16 tag = (uint16)hk_range(1000, 1010), ref = (uint16)hk_range(1, 5);
    printf("INFO session coder=%s goal=%d segments=%d\n", cname, goal, nseg);
    hk_stat("session_cases", 1);
    int32 fid = Hopen(path, DFACC_CREATE, (int16)(hk_chance(50) ? 0 : hk_range(4, 20)));
    if (fid == FAIL) { hk_fail("comp-open", "Hopen create"); return; }
    int32 aid = HCcreate(fid, tag, ref, COMP_MODEL_STDIO, &minfo, coder, cinfo);
    if (aid == FAIL) { hk_fail("comp-create", "HCcreate %s", cname); Hclose(fid); return; }
    int n = 0, posn = 0;
    int32 rawlen = 0;
    int ok = session_ops(aid, data, goal, &n, &posn, &script, &reads, cname, "session-1") == 0;
    if (Hendaccess(aid) == FAIL) hk_fail("comp-endaccess", "%s session-1 n=%d", cname, n);
    hk_stat("bytes", n);
    if (ok) {
        session_after(fid, tag, ref, coder, data, n, raw0, 0, &script, &reads, cname, "session-1", &rawlen);
        read_check(fid, tag, ref, data, n, "after-session-1", cname);
    }
    /* a second session on the existing element: Hstartwrite, seek to the end, append - in the same Hopen or after reopening read/write */
    if (ok && hk_chance(55)) {
        if (hk_chance(50)) {
            if (Hclose(fid) == FAIL) hk_fail("comp-close", "%s session-1", cname);
            fid = Hopen(path, DFACC_RDWR, 0);
            if (fid == FAIL) { hk_fail("comp-reopen", "%s rdwr", cname); goto out; }
        }
        int goal2 = gr_up(n + (int)hk_range(0, hk_chance(70) ? 300 : (cap < 2000 ? cap : 2000)));
        if (goal2 > MAXLEN) goal2 = gr_down(MAXLEN);
        if (goal2 < goal) goal2 = goal;
        goal2 = gen_segments(data, goal, goal2, lanes);
        memcpy(raw0, raw, (size_t)rawlen);
        script.n = reads.n = 0;
        aid = hk_chance(50) ? Hstartwrite(fid, tag, ref, n) : Hstartaccess(fid, tag, ref, DFACC_RDWR);
        if (aid == FAIL) hk_fail("comp-startwrite", "%s session-2 n=%d", cname, n);
        else {
            posn = 0;
            int n1 = n;
            ok = session_ops(aid, data, goal2, &n, &posn, &script, &reads, cname, "session-2") == 0;
            if (Hendaccess(aid) == FAIL) hk_fail("comp-endaccess", "%s session-2 n=%d", cname, n);
            hk_stat("session_second", 1);
            if (n > n1) hk_stat("session_second_appends", 1);
            if (ok) {
                int32 rl2 = 0;
                session_after(fid, tag, ref, coder, data, n, raw0, coder == COMP_CODE_RLE ? rawlen : 0, &script, &reads, cname, "session-2", &rl2);
                read_check(fid, tag, ref, data, n, "after-session-2", cname);
            }
        }
    }
    if (Hclose(fid) == FAIL) hk_fail("comp-close", "%s", cname);
    if (ok) {
        fid = Hopen(path, DFACC_READ, 0);
        if (fid == FAIL) { hk_fail("comp-reopen", "%s", cname); goto out; }
        read_check(fid, tag, ref, data, n, "after-reopen", cname);
        if (n > 0) {
            int32 g = Hgetelement(fid, tag, ref, rbuf);
            if (g != n || memcmp(rbuf, data, (size_t)n) != 0) hk_fail("comp-getelement", "%s session after reopen g=%d n=%d", cname, (int)g, n);
        }
        Hclose(fid);
    }
    if (k < 3) printf("SAMPLE session coder=%s n=%d script=%.60s\n", cname, n, script.s ? script.s : "-");
out:
    free(script.s); free(reads.s);
}

static void run_case(int k)
{
    const char *path = hk_tmp("c.hdf");
    comp_info cinfo; model_info minfo;
    comp_coder_t coder;
    char cname[32];
    int pick = (int)hk_range(0, 9);
    long fails0 = hk_nfail; /* oracle failures before this case */
    sess_gran = 1;
    memset(&cinfo, 0, sizeof cinfo); memset(&minfo, 0, sizeof minfo);
    if (pick < 5) { coder = COMP_CODE_RLE; strcpy(cname, "rle"); }
    else if (pick < 6) { coder = COMP_CODE_NONE; strcpy(cname, "none"); }
    else if (pick < 8) { coder = COMP_CODE_SKPHUFF; cinfo.skphuff.skp_size = hk_chance(85) ? (int)hk_range(1, 9) : (int)hk_range(10, 40); sprintf(cname, "skphuff%d", cinfo.skphuff.skp_size); }
    else { coder = COMP_CODE_DEFLATE; cinfo.deflate.level = (int)hk_range(0, 9); sprintf(cname, "deflate%d", cinfo.deflate.level); }

    if (hk_chance(35)) { /* mixed session on one access id */
        sess_gran = 1;
        if (hk_chance(10)) { /* the n-bit coder with the whole value selected (the projection is the identity): whole-value transfers */
            static const int32 NT[] = {DFNT_UINT8, DFNT_INT8, DFNT_UINT16, DFNT_INT16, DFNT_UINT32, DFNT_INT32};
            int32 nt = HK_PICK(NT);
            sess_gran = DFKNTsize(nt);
            coder = COMP_CODE_NBIT;
            memset(&cinfo, 0, sizeof cinfo);
            cinfo.nbit.nt = nt; cinfo.nbit.sign_ext = (int)hk_range(0, 1); cinfo.nbit.fill_one = (int)hk_range(0, 1);
            cinfo.nbit.start_bit = 8 * sess_gran - 1; cinfo.nbit.bit_len = 8 * sess_gran;
            sprintf(cname, "nbit%d", sess_gran);
        }
        session_case(k, coder, &cinfo, cname);
        return;
    }

    /* structured families: for skipping Huffman on its own lanes (long enough for the trees to get deep, whatever maxlen is),
       for the other coders as 1..4-byte-wide values */
    int structured = coder == COMP_CODE_SKPHUFF ? hk_chance(40) : hk_chance(6);
    int lanes = coder == COMP_CODE_SKPHUFF ? cinfo.skphuff.skp_size : (int)hk_range(1, 4);
    int n = structured ? (int)skp_gen_structured(data, 521L * lanes, lanes, coder == COMP_CODE_SKPHUFF && hk_chance(50), NULL) : gen_data(data, (int)maxlen);
    if (structured) hk_stat("structured_cases", 1);
    uint16 tag = (uint16)hk_range(1000, 1010), ref = (uint16)hk_range(1, 5);
    printf("INFO coder=%s n=%d\n", cname, n);
    int32 fid = Hopen(path, DFACC_CREATE, (int16)(hk_chance(50) ? 0 : hk_range(4, 20)));
    if (fid == FAIL) { hk_fail("comp-open", "Hopen create"); return; }
    /* sometimes the element pre-exists uncompressed (HCcreate then converts it) */
    int preexist = hk_chance(20) && n > 0;
    if (preexist) {
        if (Hputelement(fid, tag, ref, data, n) != n) { hk_fail("comp-put", "Hputelement"); Hclose(fid); return; }
    }
    int32 aid = HCcreate(fid, tag, ref, COMP_MODEL_STDIO, &minfo, coder, &cinfo);
    if (aid == FAIL) { hk_fail("comp-create", "HCcreate %s", cname); Hclose(fid); return; }
    if (!preexist) { if (write_partition(aid, data, n) < 0) { Hendaccess(aid); Hclose(fid); return; } }
    if (Hendaccess(aid) == FAIL) hk_fail("comp-endaccess", "%s n=%d", cname, n);
    hk_stat(cname[0] == 'r' ? "coder_rle" : cname[0] == 'n' ? "coder_none" : cname[0] == 's' ? "coder_skphuff" : "coder_deflate", 1);
    hk_stat("bytes", n);

    const uint8_t *cur = data; int curn = n;
    read_check(fid, tag, ref, cur, curn, "same-session", cname);

    /* optional full rewrite from the start with different content (>= old length is required by the coders) */
    if (hk_chance(35)) {
        int n2 = structured ? (int)skp_gen_structured(data2, 521L * lanes, lanes, coder == COMP_CODE_SKPHUFF && hk_chance(50), NULL) : gen_data(data2, (int)maxlen);
        if (structured && n2 > 0) for (; n2 < n; n2++) data2[n2] = data2[n2 - 1] ^ (uint8_t)n2; /* a rewrite has to cover the old length */
        if (n2 >= n && n2 > 0) { /* a zero-length Hwrite is refused by design (same rule as for the first write) */
            int32 a2 = Hstartwrite(fid, tag, ref, n2);
            if (a2 == FAIL) hk_fail("comp-startwrite", "%s rewrite", cname);
            else {
                /* the coders accept a rewrite only as ONE call from offset 0 covering at least the old length */
                int32 w = Hwrite(a2, n2, data2);
                if (w != n2) hk_fail("comp-rewrite", "%s Hwrite(%d)=%d old n=%d", cname, n2, (int)w, n);
                cur = data2; curn = n2;
                if (Hendaccess(a2) == FAIL) hk_fail("comp-endaccess", "%s rewrite", cname);
                hk_stat("rewrites", 1);
                read_check(fid, tag, ref, cur, curn, "after-rewrite", cname);
            }
        }
    }

    if (coder == COMP_CODE_SKPHUFF) { /* how deep did the trees get (replica; the element now holds cur[0..curn)) */
        skp_lens sl;
        skp_measure(cur, curn, cinfo.skphuff.skp_size, &sl, NULL);
        hk_stat("max_skphuff_code_bits", sl.maxbits);
        if (sl.n33) hk_stat("skphuff_codes_33_64", sl.n33);
        if (sl.n65) hk_stat("skphuff_codes_65_96", sl.n65);
        if (sl.n97) hk_stat("skphuff_codes_97_128", sl.n97);
        if (sl.n129) hk_stat("skphuff_codes_gt128", sl.n129);
        if (sl.maxbits > 64) hk_stat("skphuff_cases_code_gt64", 1);
    }
    /* sizes + raw compressed bytes */
    int32 csz = -1, osz = -1;
    if (HCPgetdatasize(fid, tag, ref, &csz, &osz) == FAIL) hk_fail("comp-getdatasize", "%s", cname);
    else if (osz != curn) hk_fail("comp-origsize", "%s HCPgetdatasize orig=%d expected %d", cname, (int)osz, curn);
    /* locate the DFTAG_COMPRESSED element: the only one in this file */
    {
        uint16 ft = 0, fr = 0; int32 foff = 0, flen = 0;
        if (Hfind(fid, DFTAG_COMPRESSED, DFREF_WILDCARD, &ft, &fr, &foff, &flen, DF_FORWARD) == FAIL) {
            if (!(curn == 0)) hk_fail("comp-noraw", "%s no DFTAG_COMPRESSED element n=%d", cname, curn);
        }
        else {
            if (flen < 0) flen = 0; /* created but never written: descriptor still has INVALID_LENGTH */
            if (csz != -1 && csz != flen) hk_fail("comp-compsize", "%s HCPgetdatasize comp=%d stored=%d", cname, (int)csz, (int)flen);
            if (coder == COMP_CODE_RLE && flen <= (int32)sizeof raw && cur == data) {
                int32 g = flen > 0 ? Hgetelement(fid, DFTAG_COMPRESSED, fr, raw) : 0;
                if (g != flen) hk_fail("comp-getraw", "Hgetelement=%d len=%d", (int)g, (int)flen);
                else {
                    printf("T rle enc "); hk_hex(cur, (size_t)curn); printf(" => "); hk_hex(raw, (size_t)flen); printf("\n");
                    printf("T rle dec "); hk_hex(raw, (size_t)flen); printf(" => "); hk_hex(cur, (size_t)curn); printf("\n");
                }
            }
        }
    }
    if (Hclose(fid) == FAIL) hk_fail("comp-close", "%s", cname);

    /* reopen read/write and only READ through a handle that has write access (what SDreaddata does on a file opened DFACC_RDWR):
       one read that stops anywhere - inside a run, inside a literal packet, at the end -, optionally after a seek, then Hendaccess.
       Nothing was written, so nothing may change (C05: returns exactly the stream written; C14: no change requested) */
    if (curn > 0 && hk_chance(60)) {
        fid = Hopen(path, DFACC_RDWR, 0);
        if (fid == FAIL) { hk_fail("comp-reopen", "%s rdwr", cname); return; }
        int32 a3 = Hstartaccess(fid, tag, ref, DFACC_RDWR);
        if (a3 == FAIL) hk_fail("comp-startaccess-rdwr", "%s n=%d", cname, curn);
        else {
            int from = hk_chance(50) ? 0 : (int)hk_range(0, curn - 1);
            int want = (int)hk_range(1, curn - from);
            if (from > 0 && Hseek(a3, from, DF_START) == FAIL) hk_fail("comp-seek", "%s rdwr seek %d of %d", cname, from, curn);
            else {
                int32 r = Hread(a3, want, rbuf);
                if (r != want || memcmp(rbuf, cur + from, (size_t)want) != 0) hk_fail("comp-read-data", "%s rdwr handle read@%d len %d of %d r=%d", cname, from, want, curn, (int)r);
            }
            if (Hendaccess(a3) == FAIL) hk_fail("comp-endaccess", "%s rdwr reader", cname);
            hk_stat("rdwr_partial_reads", 1);
        }
        if (Hclose(fid) == FAIL) hk_fail("comp-close", "%s after rdwr read", cname);
        fid = Hopen(path, DFACC_READ, 0);
        if (fid == FAIL) { hk_fail("comp-reopen", "%s", cname); return; }
        { int32 g = Hgetelement(fid, tag, ref, rbuf);
          /* stated only when the element read back right so far in this case: otherwise it was wrong before this session */
          if (hk_nfail == fails0 && (g != curn || memcmp(rbuf, cur, (size_t)curn) != 0)) hk_fail("comp-read-only-session-changed-data", "%s: after a read through a write-access handle and Hendaccess the element differs (g=%d n=%d)", cname, (int)g, curn); }
        Hclose(fid);
    }

    /* reopen read-only */
    fid = Hopen(path, DFACC_READ, 0);
    if (fid == FAIL) { hk_fail("comp-reopen", "%s", cname); return; }
    read_check(fid, tag, ref, cur, curn, "after-reopen", cname);
    if (curn > 0) {
        int32 g = Hgetelement(fid, tag, ref, rbuf);
        if (g != curn || memcmp(rbuf, cur, (size_t)curn) != 0) hk_fail("comp-getelement", "%s after reopen g=%d n=%d", cname, (int)g, curn);
    }
    Hclose(fid);
    if (k < 3) { printf("SAMPLE coder=%s n=%d preexist=%d first16=", cname, n, preexist); hk_hex(data, n < 16 ? (size_t)n : 16); printf("\n"); }
}

int main(int argc, char **argv)
{
    if (argc > 4) maxlen = atol(argv[4]);
    if (maxlen > MAXLEN) maxlen = MAXLEN;
    return hk_main(argc, argv, "comp");
}
