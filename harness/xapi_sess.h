/* xapi_sess.h - C15 engine part: objects whose life spans SEVERAL sessions (included by e_xapi.c after xapi_sd.h / xapi_nc.h).
 *
 * One file, 2..4 sessions.  Session 0 creates the variables through SD or through the netCDF-style calls, each of them
 * with no data, with part of its data, or complete.  Every later session reopens the file (SDstart DFACC_RDWR or
 * ncopen NC_WRITE) and usually does ONE thing only: gives a variable its first data, overwrites a hyperslab, appends
 * records, sets an attribute, attaches a dimension scale, compresses + fills a variable, creates a variable, or only reads.
 * After EVERY session the whole file is read through SD, the nc calls, DFSD, the Vgroup view and the raw NDGs and each
 * view is compared with the shadow copy (keys `xapi-sess-<reader>:<what>`); bytes the library chose itself (fill values
 * of elements never written) are learnt from SD once and must then be the same in every other view and after every later session.
 * The session semantics (which close flushes which record) is outside the Lean model: implementation-side oracles; the
 * DFTAG_SDD records found after each session are still sent to the model as `T xapi sdd sd` / `T xapi sddrd` lines. */

#define XS_MAXATTR 3
typedef struct { char name[24]; int32 nt; int cnt; uint8_t val[48]; } XAttr;
typedef struct {
    int     nattr; XAttr a[XS_MAXATTR];
    int     elem;               /* the variable has a data element: data was written at least once */
    int     read_rw;            /* read in a session opened for writing while it had no data element */
    int     comp;               /* compressed (data is then always written whole) */
    int     cap0;               /* record variable: the most records this case will ever write */
    int     scale_of[XMAXRANK]; /* index + 1 of the coordinate variable that holds the scale of dimension d */
    char    dimname[XMAXRANK][40];
    uint8_t known[XMAXBYTES];   /* 1: byte written by the case, 2: learnt from SD (library's fill), 0: not yet seen */
} XSess;
static XSess xs[XMAXVAR];
static XAttr xs_gatt; static int xs_gatt_set;
static int xs_nrec; /* record variables in the file */
typedef struct { int is_nc; int32 sd; int nc; } XOpen;

static const int32 XS_SD_NTS[] = {DFNT_UINT8, DFNT_INT8, DFNT_INT16, DFNT_UINT16, DFNT_INT32, DFNT_UINT32, DFNT_FLOAT32, DFNT_FLOAT64, DFNT_CHAR8};
static int xs_ncmap(int32 nt) { for (int m = 0; m < 6; m++) if (NCMAP[m].hdf == nt) return m; return -1; }
static int xs_recbytes(const XVar *v) { int n = v->sz; for (int d = 1; d < v->rank; d++) n *= v->dims[d]; return n; }
static void xs_recount(XVar *v) { v->nelem = 1; for (int d = 0; d < v->rank; d++) v->nelem *= v->dims[d]; v->nbytes = v->nelem * v->sz; }

/* a row-major slab (start, edge) of src goes into the shadow copy; a record variable grows first */
static void xs_slab_put(int j, const int32 *start, const int32 *edge, const uint8_t *src)
{
    XVar *v = &xv[j]; int32 idx[XMAXRANK] = {0}; int n = 1;
    if (v->unlimited && start[0] + edge[0] > v->dims[0]) { v->dims[0] = start[0] + edge[0]; xs_recount(v); }
    for (int d = 0; d < v->rank; d++) n *= edge[d];
    for (int e = 0; e < n; e++) {
        int lin = 0;
        for (int d = 0; d < v->rank; d++) lin = lin * v->dims[d] + start[d] + idx[d];
        memcpy(v->data + lin * v->sz, src + e * v->sz, (size_t)v->sz); memset(xs[j].known + lin * v->sz, 1, (size_t)v->sz);
        for (int d = v->rank - 1; d >= 0; d--) { if (++idx[d] < edge[d]) break; idx[d] = 0; }
    }
    xs[j].elem = 1; v->unwritten = 0;
}
/* whole = 1: everything (record variable: `recs` records from the current end); else a random hyperslab of what exists */
static int xs_gen_slab(const XVar *v, int whole, int recs, int32 *start, int32 *edge)
{
    int n = 1;
    for (int d = 0; d < v->rank; d++) {
        if (d == 0 && v->unlimited && recs > 0) { start[0] = v->dims[0]; edge[0] = recs; }
        else if (whole) { start[d] = 0; edge[d] = v->dims[d]; }
        else { start[d] = (int32)hk_range(0, v->dims[d] - 1); edge[d] = (int32)hk_range(1, v->dims[d] - start[d]); }
        n *= edge[d];
    }
    return n;
}
static int xs_write(XOpen *o, int j, const int32 *start, const int32 *edge, const uint8_t *buf, const char *what)
{
    XVar *v = &xv[j];
    if (o->is_nc) {
        long st[XMAXRANK], ed[XMAXRANK]; int vid = ncvarid(o->nc, v->name), n = 1;
        for (int d = 0; d < v->rank; d++) { st[d] = start[d]; ed[d] = edge[d]; n *= edge[d]; }
        int r = vid < 0 ? -1 : (n == 1 && hk_chance(50)) ? ncvarput1(o->nc, vid, st, buf) : ncvarput(o->nc, vid, st, ed, (void *)buf);
        if (r < 0) { hk_fail("xapi-sess:write", "ncvarput %s of %s (type %d rank %d)", what, v->name, (int)v->nt, (int)v->rank); return -1; }
    }
    else {
        int32 idx = SDnametoindex(o->sd, v->name), sds = idx == FAIL ? FAIL : SDselect(o->sd, idx);
        if (sds == FAIL || SDwritedata(sds, (int32 *)start, NULL, (int32 *)edge, (void *)buf) == FAIL) { hk_fail("xapi-sess:write", "SDwritedata %s of %s (type %d rank %d)", what, v->name, (int)v->nt, (int)v->rank); if (sds != FAIL) SDendaccess(sds); return -1; }
        if (SDendaccess(sds) == FAIL) hk_fail("xapi-sess:write", "SDendaccess %s", v->name);
    }
    return 0;
}
/* data for variable j in this session: how = 0 whole (record variable: some records), 1 hyperslab of what exists, 2 append records */
static void xs_put_data(XOpen *o, int j, int how, const char *what)
{
    XVar *v = &xv[j]; int32 st[XMAXRANK], ed[XMAXRANK]; uint8_t buf[XMAXBYTES]; int recs = 0;
    if (v->unlimited && how != 1) { int left = xs[j].cap0 - v->dims[0]; if (left <= 0) return; recs = (int)hk_range(1, left); }
    int n = xs_gen_slab(v, how != 1, recs, st, ed);
    if (n <= 0) return;
    for (int i = 0; i < n * v->sz; i++) buf[i] = hk_byte();
    if (xs_write(o, j, st, ed, buf, what) == 0) { xs_slab_put(j, st, ed, buf); hk_stat(what, 1); }
}
static void xs_gen_attr(XAttr *a, const char *name, int32 nt, int cnt)
{
    memset(a, 0, sizeof *a); snprintf(a->name, sizeof a->name, "%s", name); a->nt = nt; a->cnt = cnt;
    if (nt == DFNT_CHAR8) for (int i = 0; i < cnt; i++) a->val[i] = (uint8_t)hk_range('a', 'z');
    else for (int i = 0; i < cnt * DFKNTsize(nt); i++) a->val[i] = hk_byte();
}
/* set (new or replaced) attribute `name` of variable j (j < 0: of the file) */
static void xs_set_attr(XOpen *o, int j, const char *name, int32 nt, int cnt, int replace_only)
{
    XAttr *slot = NULL, na;
    if (j < 0) { if (xs_gatt_set) slot = &xs_gatt; }
    else for (int i = 0; i < xs[j].nattr; i++) if (!strcmp(xs[j].a[i].name, name)) slot = &xs[j].a[i];
    if (replace_only) { if (!slot) return; nt = slot->nt; cnt = slot->cnt; } /* the nc calls replace a value outside define mode only at the same size */
    if (o->is_nc && xs_ncmap(nt) < 0) return;
    xs_gen_attr(&na, name, nt, cnt);
    if (o->is_nc) {
        int vid = j < 0 ? NC_GLOBAL : ncvarid(o->nc, xv[j].name);
        if ((j >= 0 && vid < 0) || ncattput(o->nc, vid, name, NCMAP[xs_ncmap(nt)].nc, cnt, na.val) < 0) { hk_fail("xapi-sess:write", "ncattput %s", name); return; }
    }
    else {
        int32 id = o->sd;
        if (j >= 0) { int32 idx = SDnametoindex(o->sd, xv[j].name); id = idx == FAIL ? FAIL : SDselect(o->sd, idx); }
        int r = id == FAIL ? FAIL : SDsetattr(id, name, nt, cnt, na.val);
        if (j >= 0 && id != FAIL) SDendaccess(id);
        if (r == FAIL) { hk_fail("xapi-sess:write", "SDsetattr %s", name); return; }
    }
    if (j < 0) { xs_gatt = na; xs_gatt_set = 1; }
    else if (slot) *slot = na;
    else if (xs[j].nattr < XS_MAXATTR) xs[j].a[xs[j].nattr++] = na;
    hk_stat(replace_only ? "sess_attr_replaced" : "sess_attr_set", 1);
}
static void xs_new_shadow(int j, int32 nt, int maxrank, int unlimited, const char *stem)
{
    XVar *v = &xv[j]; memset(v, 0, sizeof *v); memset(&xs[j], 0, sizeof xs[j]);
    v->nt = nt; v->sz = DFKNTsize(nt);
    gen_shape(v, maxrank, 400);
    snprintf(v->name, sizeof v->name, "%s%d_%d", stem, case_no, j);
    for (int d = 0; d < v->rank; d++) snprintf(xs[j].dimname[d], sizeof xs[j].dimname[d], "d%d_%d_%d", case_no, j, d);
    if (unlimited) { v->unlimited = 1; xs[j].cap0 = v->dims[0]; v->dims[0] = 0; xs_nrec++; }
    xs_recount(v); v->unwritten = 1;
}
/* SD: one new variable (any session); dimensions named; optionally compressed (then filled at once) */
static int xs_sd_newvar(XOpen *o, int allow_comp)
{
    if (nxv >= XMAXVAR - 3) return -1;
    int j = nxv; XVar *v = &xv[j];
    xs_new_shadow(j, HK_PICK(XS_SD_NTS), 4, hk_chance(xs_nrec > 0 ? 60 : 20), "sv"); /* record variables come in families: each has its own record count */
    int32 cd[XMAXRANK]; memcpy(cd, v->dims, sizeof cd); if (v->unlimited) cd[0] = SD_UNLIMITED;
    int32 sds = SDcreate(o->sd, v->name, v->nt, v->rank, cd);
    if (sds == FAIL) { hk_fail("xapi-sess:write", "SDcreate"); return -1; }
    nxv++;
    for (int d = 0; d < v->rank; d++) if (SDsetdimname(SDgetdimid(sds, d), xs[j].dimname[d]) == FAIL) hk_fail("xapi-sess:write", "SDsetdimname");
    if (allow_comp && !v->unlimited && hk_chance(15)) {
        comp_info ci; memset(&ci, 0, sizeof ci); ci.deflate.level = 6;
        if (SDsetcompress(sds, hk_chance(50) ? COMP_CODE_RLE : COMP_CODE_DEFLATE, &ci) == FAIL) hk_fail("xapi-sess:write", "SDsetcompress"); else xs[j].comp = 1;
    }
    SDendaccess(sds);
    hk_stat("sess_sd_created", 1);
    return j;
}
/* SD: a scale for dimension d of variable j = a new coordinate variable (one more data set for the old interface) */
static void xs_sd_scale(XOpen *o, int j, int d)
{
    XVar *v = &xv[j];
    if (nxv >= XMAXVAR || xs[j].scale_of[d] || (d == 0 && v->unlimited) || v->iscoord) return;
    int32 idx = SDnametoindex(o->sd, v->name), sds = idx == FAIL ? FAIL : SDselect(o->sd, idx), dimid = sds == FAIL ? FAIL : SDgetdimid(sds, d);
    if (dimid == FAIL) { hk_fail("xapi-sess:write", "SDgetdimid"); if (sds != FAIL) SDendaccess(sds); return; }
    int c = nxv; XVar *cv = &xv[c]; memset(cv, 0, sizeof *cv); memset(&xs[c], 0, sizeof xs[c]);
    cv->iscoord = 1; cv->nt = v->nt; cv->sz = v->sz; cv->rank = 1; cv->dims[0] = v->dims[d]; xs_recount(cv);
    snprintf(cv->name, sizeof cv->name, "%s", xs[j].dimname[d]); snprintf(xs[c].dimname[0], sizeof xs[c].dimname[0], "%s", xs[j].dimname[d]);
    for (int i = 0; i < cv->nbytes; i++) cv->data[i] = hk_byte();
    memset(xs[c].known, 1, (size_t)cv->nbytes);
    if (SDsetdimscale(dimid, v->dims[d], v->nt, cv->data) == FAIL) hk_fail("xapi-sess:write", "SDsetdimscale");
    else { nxv++; xs[c].elem = 1; xs[j].scale_of[d] = c + 1; hk_stat("sess_scale_set", 1); }
    SDendaccess(sds);
}

/* ------------------------------------------------------------------------------------------------ the readers */
static void xs_read_sd(const char *path, int sess)
{
    int32 sd = SDstart(path, DFACC_READ), nds = 0, ngat = 0;
    if (sd == FAIL) { hk_fail("xapi-sess-sd:open", "SDstart after session %d", sess); return; }
    SDfileinfo(sd, &nds, &ngat);
    if (nds != nxv) hk_fail("xapi-sess-sd:count", "SD shows %d variables after session %d, %d exist", (int)nds, sess, nxv);
    if (ngat != xs_gatt_set) hk_fail("xapi-sess-sd:attr", "SD shows %d file attributes after session %d, %d set", (int)ngat, sess, xs_gatt_set);
    for (int j = 0; j < nxv; j++) {
        XVar *v = &xv[j];
        int32 idx = SDnametoindex(sd, v->name), sds = idx == FAIL ? FAIL : SDselect(sd, idx);
        if (sds == FAIL) { hk_fail("xapi-sess-sd:missing", "SD does not find %s after session %d", v->name, sess); continue; }
        v->ref = (int)SDidtoref(sds);
        char nm[H4_MAX_NC_NAME + 1]; int32 rank = -1, dims[H4_MAX_VAR_DIMS], nt = -1, na = -1, start[XMAXRANK] = {0};
        if (SDgetinfo(sds, nm, &rank, dims, &nt, &na) == FAIL) { hk_fail("xapi-sess-sd:info", "SDgetinfo %s", v->name); SDendaccess(sds); continue; }
        int ok = rank == v->rank && nt == v->nt;
        if (rank != v->rank) hk_fail("xapi-sess-sd:dims", "%s rank %d, created with %d (session %d)", v->name, (int)rank, (int)v->rank, sess);
        else for (int d = 0; d < rank; d++) if (dims[d] != v->dims[d]) { hk_fail("xapi-sess-sd:dims", "%s dim %d is %d, shadow %d (session %d)", v->name, d, (int)dims[d], (int)v->dims[d], sess); ok = 0; break; }
        if (nt != v->nt) hk_fail("xapi-sess-sd:type", "%s number type %d, created with %d (session %d)", v->name, (int)nt, (int)v->nt, sess);
        if ((SDiscoordvar(sds) != 0) != (v->iscoord != 0)) hk_fail("xapi-sess-sd:coordvar", "%s: SDiscoordvar = %d (session %d)", v->name, (int)SDiscoordvar(sds), sess);
        if (na != xs[j].nattr) hk_fail("xapi-sess-sd:attr", "%s has %d attributes, %d set (session %d)", v->name, (int)na, xs[j].nattr, sess);
        if (ok && v->nbytes > 0) {
            uint8_t buf[XMAXBYTES + 8]; memset(buf, 0xA5, sizeof buf);
            if (SDreaddata(sds, start, NULL, v->dims, buf) == FAIL) hk_fail("xapi-sess-sd:data", "SDreaddata %s failed (session %d)", v->name, sess);
            else {
                int bad = -1;
                for (int i = 0; i < v->nbytes; i++) { if (!xs[j].known[i]) { v->data[i] = buf[i]; xs[j].known[i] = 2; } else if (buf[i] != v->data[i] && bad < 0) bad = i; }
                if (bad >= 0) hk_fail("xapi-sess-sd:data", "%s: byte %d is %02x, %s %02x (session %d, nt %d rank %d)", v->name, bad, buf[bad], xs[j].known[bad] == 2 ? "was (never written)" : "written", v->data[bad], sess, (int)nt, (int)rank);
                if (buf[v->nbytes] != 0xA5) hk_fail("xapi-sess-sd:data", "SDreaddata wrote past the data of %s", v->name);
            }
        }
        for (int i = 0; i < xs[j].nattr; i++) {
            XAttr *a = &xs[j].a[i]; int32 ai = SDfindattr(sds, a->name), ant = 0, acnt = 0; char an[H4_MAX_NC_NAME + 1]; uint8_t ab[128];
            if (ai == FAIL || SDattrinfo(sds, ai, an, &ant, &acnt) == FAIL || acnt * DFKNTsize(ant) > (int)sizeof ab || SDreadattr(sds, ai, ab) == FAIL) hk_fail("xapi-sess-sd:attr", "attribute %s of %s not readable (session %d)", a->name, v->name, sess);
            else if (ant != a->nt || acnt != a->cnt || memcmp(ab, a->val, (size_t)(a->cnt * DFKNTsize(a->nt)))) hk_fail("xapi-sess-sd:attr", "attribute %s of %s: type %d count %d, set type %d count %d, or other values (session %d)", a->name, v->name, (int)ant, (int)acnt, (int)a->nt, a->cnt, sess);
        }
        for (int d = 0; d < v->rank && ok; d++) {
            int32 dimid = SDgetdimid(sds, d), size = 0, dnt = 0, dna = 0; char dn[H4_MAX_NC_NAME + 1] = ""; uint8_t sb[64 * 8];
            if (dimid == FAIL || SDdiminfo(dimid, dn, &size, &dnt, &dna) == FAIL) { hk_fail("xapi-sess-sd:dimname", "SDdiminfo %s dim %d (session %d)", v->name, d, sess); continue; }
            if (strcmp(dn, xs[j].dimname[d])) hk_fail("xapi-sess-sd:dimname", "%s dim %d is named '%s', given '%s' (session %d)", v->name, d, dn, xs[j].dimname[d], sess);
            if (!xs[j].scale_of[d]) { if (dnt != 0 && !v->iscoord) hk_fail("xapi-sess-sd:scale", "%s dim %d has a scale of type %d, none was set (session %d)", v->name, d, (int)dnt, sess); continue; }
            XVar *cv = &xv[xs[j].scale_of[d] - 1];
            if (dnt != cv->nt || size != cv->dims[0]) { hk_fail("xapi-sess-sd:scale", "scale of %s dim %d: type %d size %d, set type %d size %d (session %d)", v->name, d, (int)dnt, (int)size, (int)cv->nt, (int)cv->dims[0], sess); continue; }
            if (SDgetdimscale(dimid, sb) == FAIL) hk_fail("xapi-sess-sd:scale", "SDgetdimscale %s dim %d failed (session %d)", v->name, d, sess);
            else if (memcmp(sb, cv->data, (size_t)cv->nbytes)) hk_fail("xapi-sess-sd:scale", "scale values of %s dim %d differ from the coordinate variable (session %d)", v->name, d, sess);
        }
        SDendaccess(sds);
    }
    if (xs_gatt_set) {
        XAttr *a = &xs_gatt; int32 ai = SDfindattr(sd, a->name), ant = 0, acnt = 0; char an[H4_MAX_NC_NAME + 1]; uint8_t ab[128];
        if (ai == FAIL || SDattrinfo(sd, ai, an, &ant, &acnt) == FAIL || acnt * DFKNTsize(ant) > (int)sizeof ab || SDreadattr(sd, ai, ab) == FAIL) hk_fail("xapi-sess-sd:attr", "file attribute not readable (session %d)", sess);
        else if (ant != a->nt || acnt != a->cnt || memcmp(ab, a->val, (size_t)(a->cnt * DFKNTsize(a->nt)))) hk_fail("xapi-sess-sd:attr", "file attribute differs (session %d)", sess);
    }
    SDend(sd);
}

static void xs_read_nc(const char *path, int sess)
{
    int id = ncopen(path, NC_NOWRITE);
    if (id < 0) { hk_fail("xapi-sess-nc:open", "ncopen after session %d", sess); return; }
    for (int j = 0; j < nxv; j++) {
        XVar *v = &xv[j];
        int vid = ncvarid(id, v->name);
        if (vid < 0) { hk_fail("xapi-sess-nc:missing", "ncvarid does not find %s after session %d", v->name, sess); continue; }
        char nm[H4_MAX_NC_NAME + 1]; nc_type ty = 0; int nd = -1, dimids[H4_MAX_VAR_DIMS], na = -1;
        if (ncvarinq(id, vid, nm, &ty, &nd, dimids, &na) < 0) { hk_fail("xapi-sess-nc:missing", "ncvarinq %s", v->name); continue; }
        int ok = nd == v->rank;
        if (!ok) hk_fail("xapi-sess-nc:dims", "%s ndims %d, created with %d (session %d)", v->name, nd, (int)v->rank, sess);
        else for (int d = 0; d < nd; d++) {
            char dn[H4_MAX_NC_NAME + 1] = ""; long len = -1;
            if (ncdiminq(id, dimids[d], dn, &len) < 0 || strcmp(dn, xs[j].dimname[d])) { hk_fail("xapi-sess-nc:dims", "%s dimension %d seen as '%s', named '%s' (session %d)", v->name, d, dn, xs[j].dimname[d], sess); ok = 0; }
            /* every record variable of an SD file has its own record count; the nc calls know one count per file */
            else if (d == 0 && v->unlimited && xs_nrec > 1 ? len < v->dims[0] : len != v->dims[d]) { hk_fail("xapi-sess-nc:dims", "%s dimension %d has length %ld, shadow %d (session %d)", v->name, d, len, (int)v->dims[d], sess); ok = 0; }
        }
        if (ty != nc_of_hdf(v->nt)) { hk_fail("xapi-sess-nc:type", "%s nc type %d for HDF type %d (session %d)", v->name, (int)ty, (int)v->nt, sess); ok = 0; }
        if (na != xs[j].nattr) hk_fail("xapi-sess-nc:attr", "%s has %d attributes, %d set (session %d)", v->name, na, xs[j].nattr, sess);
        if (ok && v->nbytes > 0) {
            long start[XMAXRANK] = {0}, count[XMAXRANK]; uint8_t buf[XMAXBYTES + 8]; memset(buf, 0xA5, sizeof buf);
            for (int d = 0; d < nd; d++) count[d] = v->dims[d];
            if (nctypelen(ty) != v->sz) hk_fail("xapi-sess-nc:data", "nctypelen(%d) = %d, element size %d", (int)ty, nctypelen(ty), v->sz);
            else if (ncvarget(id, vid, start, count, buf) < 0) hk_fail("xapi-sess-nc:data", "ncvarget %s failed (session %d, type %d rank %d)", v->name, sess, (int)ty, nd);
            else if (memcmp(buf, v->data, (size_t)v->nbytes)) hk_fail("xapi-sess-nc:data", "%s: values differ from what SD shows (session %d, nc type %d rank %d, %s)", v->name, sess, (int)ty, nd, xs[j].elem ? "has data" : "never written");
            else if (buf[v->nbytes] != 0xA5) hk_fail("xapi-sess-nc:data", "ncvarget wrote past the data of %s", v->name);
        }
        hk_stat("sess_nc_read", 1);
    }
    if (ncclose(id) < 0) hk_fail("xapi-sess-nc:close", "ncclose");
}

static void xs_read_dfsd(const char *path, int sess)
{
    int seen[XMAXVAR] = {0};
    DFSDclear(); DFSDrestart();
    int n = DFSDndatasets((char *)path);
    if (n != nxv) hk_fail("xapi-sess-dfsd:count", "DFSDndatasets = %d after session %d, %d variables exist", n, sess, nxv);
    for (int k = 0; k < n; k++) {
        int rank = -1; int32 dims[64], nt = -1;
        if (DFSDgetdims(path, &rank, dims, 64) == FAIL) { hk_fail("xapi-sess-dfsd:info", "DFSDgetdims failed at data set %d of %d (session %d)", k, n, sess); break; }
        int ref = (int)DFSDlastref(), j;
        for (j = 0; j < nxv; j++) if (xv[j].ref == ref) break;
        if (j == nxv) { hk_fail("xapi-sess-dfsd:count", "data set %d has ref %d, which SD gives to no variable (session %d)", k, ref, sess); continue; }
        if (seen[j]++) { hk_fail("xapi-sess-dfsd:count", "%s (ref %d) is delivered twice (session %d)", xv[j].name, ref, sess); continue; }
        XVar *v = &xv[j]; int ok = rank == v->rank;
        if (!ok) hk_fail("xapi-sess-dfsd:dims", "%s rank %d, created with %d (session %d)", v->name, rank, (int)v->rank, sess);
        else for (int d = 0; d < rank; d++) if (dims[d] != v->dims[d]) { hk_fail("xapi-sess-dfsd:dims", "%s dim %d is %d, SD shows %d (session %d)", v->name, d, (int)dims[d], (int)v->dims[d], sess); ok = 0; break; }
        if (DFSDgetNT(&nt) == FAIL || nt != v->nt) { hk_fail("xapi-sess-dfsd:type", "%s number type %d, created with %d (session %d)", v->name, (int)nt, (int)v->nt, sess); ok = 0; }
        if (!ok || v->nbytes == 0) continue;
        uint8_t buf[XMAXBYTES + 8]; memset(buf, 0xA5, sizeof buf);
        if (DFSDgetdata(path, rank, v->dims, buf) == FAIL) {
            /* a variable without data element has nothing the old interface could deliver: it refuses */
            if (!xs[j].elem) hk_stat("sess_dfsd_unwritten_refused", 1);
            else hk_fail("xapi-sess-dfsd:data", "DFSDgetdata fails for %s (ref %d) after session %d: SD delivers its values, DFSD finds no data", v->name, ref, sess);
        }
        else if (memcmp(buf, v->data, (size_t)v->nbytes)) hk_fail("xapi-sess-dfsd:data", "%s: values differ from what SD shows (session %d, nt %d rank %d, %s)", v->name, sess, (int)nt, rank, xs[j].elem ? "has data" : "never written");
        else if (buf[v->nbytes] != 0xA5) hk_fail("xapi-sess-dfsd:data", "DFSDgetdata wrote past the data of %s", v->name);
        hk_stat("sess_dfsd_read", 1);
    }
    for (int j = 0; j < nxv && n == nxv; j++) if (!seen[j]) hk_fail("xapi-sess-dfsd:count", "%s (ref %d) is not among the %d data sets DFSD delivers (session %d)", xv[j].name, xv[j].ref, n, sess);
    /* direct access by reference number */
    if (nxv > 0) {
        XVar *v = &xv[hk_range(0, nxv - 1)]; int rank = -1; int32 dims[64];
        if (DFSDreadref((char *)path, (uint16)v->ref) == FAIL || DFSDgetdims(path, &rank, dims, 64) == FAIL) hk_fail("xapi-sess-dfsd:info", "DFSDreadref(%d)/DFSDgetdims fails for %s (session %d)", v->ref, v->name, sess);
        else if (rank != v->rank || (rank > 0 && dims[rank - 1] != v->dims[rank - 1])) hk_fail("xapi-sess-dfsd:dims", "DFSDreadref(%d): rank %d last dim %d, %s has rank %d (session %d)", v->ref, rank, rank > 0 ? (int)dims[rank - 1] : -1, v->name, (int)v->rank, sess);
    }
    DFSDclear(); DFSDrestart();
}

/* the two descriptions SD keeps of one variable - its Vgroup and its NDG - name the same data element and dimension record */
static void xs_read_groups(const char *path, int sess)
{
    int32 fid = Hopen(path, DFACC_READ, 0);
    if (fid == FAIL) { hk_fail("xapi-sess-ndg:open", "Hopen"); return; }
    Vstart(fid);
    for (int j = 0; j < nxv; j++) {
        XVar *v = &xv[j]; int32 vref = -1, vg = FAIL;
        while ((vref = Vgetid(fid, vref)) != FAIL) {
            char nm[VGNAMELENMAX + 1] = "", cl[VGNAMELENMAX + 1] = "";
            if ((vg = Vattach(fid, vref, "r")) == FAIL) continue;
            Vgetname(vg, nm); Vgetclass(vg, cl);
            if (!strcmp(cl, _HDF_VARIABLE) && !strcmp(nm, v->name)) break;
            Vdetach(vg); vg = FAIL;
        }
        if (vg == FAIL) continue; /* reported by vgroup_view_sd */
        int vg_sd = 0, vg_sdd = 0, vg_ndg = 0, n = Vntagrefs(vg);
        for (int i = 0; i < n; i++) { int32 t, r; if (Vgettagref(vg, i, &t, &r) == FAIL) continue; if (t == DFTAG_SD) vg_sd = r; else if (t == DFTAG_SDD) vg_sdd = r; else if (t == DFTAG_NDG) vg_ndg = r; }
        Vdetach(vg);
        if (vg_ndg != v->ref) hk_fail("xapi-sess-ndg:ref", "Vgroup of %s names NDG %d, SDidtoref gives %d (session %d)", v->name, vg_ndg, v->ref, sess);
        int32 gid = DFdiread(fid, DFTAG_NDG, (uint16)v->ref); uint16 t, r; int g_sd = 0, g_sdd = 0;
        if (gid == FAIL) { hk_fail("xapi-sess-ndg:missing", "no NDG %d for %s (session %d)", v->ref, v->name, sess); continue; }
        while (DFdiget(gid, &t, &r) == SUCCEED) { if (t == DFTAG_SD) g_sd = r; else if (t == DFTAG_SDD) g_sdd = r; }
        if (g_sd != vg_sd) hk_fail("xapi-sess-ndg:data-ref", "%s after session %d: its Vgroup names data element %d, its NDG %d (%s)", v->name, sess, vg_sd, g_sd, xs[j].elem ? "has data" : "never written");
        if (g_sdd != vg_sdd) hk_fail("xapi-sess-ndg:sdd-ref", "%s after session %d: its Vgroup names dimension record %d, its NDG %d", v->name, sess, vg_sdd, g_sdd);
        v->noraw = 0;
        /* root cause: hdf_xdr_NCvdata reaches hdf_get_data for a READ too, which allocates a data ref in every file that is not read-only */
        if (vg_sd != 0 && !xs[j].elem && xs[j].read_rw) { v->noraw = 1; hk_fail("xapi-sess-vg:read-in-write-session-allocates-data-ref", "%s after session %d: never written, only read in a session opened for writing; its Vgroup and NDG now name data element %d (length %d)", v->name, sess, vg_sd, (int)Hlength(fid, DFTAG_SD, (uint16)vg_sd)); }
        else if ((vg_sd != 0) != (xs[j].elem != 0)) hk_fail("xapi-sess-vg:data-ref", "%s after session %d: %s, its Vgroup names data element %d", v->name, sess, xs[j].elem ? "has data" : "never written", vg_sd);
        else if (vg_sd && Hexist(fid, DFTAG_SD, (uint16)vg_sd) == FAIL) hk_fail("xapi-sess-vg:data-ref", "%s after session %d: data element %d named by its Vgroup does not exist", v->name, sess, vg_sd);
    }
    Vend(fid);
    Hclose(fid);
}

static void xs_verify(const char *path, int sess)
{
    xs_read_sd(path, sess); /* first: it learns the library's own fill bytes, the other views must show the same */
    xs_read_nc(path, sess);
    xs_read_dfsd(path, sess);
    xs_read_groups(path, sess);
    vgroup_view_sd(path);
    for (int j = 0; j < nxv; j++) if (xv[j].ref > 0) check_ndg_raw(path, &xv[j], "xapi-sess-ndg", "sd");
    hk_stat("sess_verified", 1);
}

/* ------------------------------------------------------------------------------------------------ session 0 */
static void xs_initial_data(XOpen *o, int j)
{
    int st = (int)hk_range(0, 99);
    if (xs[j].comp) { xs_put_data(o, j, 0, "sess_first_data_same_session"); return; }
    if (st < 45) { hk_stat("sess_created_empty", 1); return; }
    if (st < 65 && !xv[j].unlimited) { xs_put_data(o, j, 1, "sess_first_data_same_session"); return; } /* part of it: the rest is the library's fill */
    xs_put_data(o, j, 0, "sess_first_data_same_session");
    if (xv[j].unlimited && hk_chance(50)) xs_put_data(o, j, 2, "sess_append_same_session");
}
static int xs_create_sd(const char *path)
{
    XOpen o = {0, SDstart(path, DFACC_CREATE), -1};
    if (o.sd == FAIL) { hk_fail("xapi-sess:write", "SDstart create"); return -1; }
    int nv = (int)hk_range(1, 4);
    for (int i = 0; i < nv; i++) {
        int j = xs_sd_newvar(&o, 1);
        if (j < 0) continue;
        if (hk_chance(40)) xs_set_attr(&o, j, "long_name", DFNT_CHAR8, (int)hk_range(1, 30), 0);
        if (hk_chance(25)) xs_set_attr(&o, j, "vattr", xv[j].nt, (int)hk_range(1, 3), 0);
        xs_initial_data(&o, j);
        for (int d = 0; d < xv[j].rank; d++) if (hk_chance(12)) xs_sd_scale(&o, j, d);
    }
    if (hk_chance(60)) xs_set_attr(&o, -1, "title", DFNT_CHAR8, (int)hk_range(1, 30), 0);
    if (SDend(o.sd) == FAIL) { hk_fail("xapi-sess:write", "SDend of session 0"); return -1; }
    return 0;
}
static int xs_create_nc(const char *path)
{
    XOpen o = {1, FAIL, nccreate(path, NC_CLOBBER)};
    if (o.nc < 0) { hk_fail("xapi-sess:write", "nccreate"); return -1; }
    int nv = (int)hk_range(1, 4);
    for (int j = 0; j < nv; j++) {
        int m = (int)hk_range(0, 5), dimids[XMAXRANK]; XVar *v = &xv[j];
        xs_new_shadow(j, NCMAP[m].hdf, 4, xs_nrec == 0 && hk_chance(25), "nv");
        for (int d = 0; d < v->rank; d++) if ((dimids[d] = ncdimdef(o.nc, xs[j].dimname[d], d == 0 && v->unlimited ? NC_UNLIMITED : (long)v->dims[d])) < 0) hk_fail("xapi-sess:write", "ncdimdef");
        if (ncvardef(o.nc, v->name, NCMAP[m].nc, (int)v->rank, dimids) < 0) { hk_fail("xapi-sess:write", "ncvardef"); if (v->unlimited) xs_nrec--; break; }
        nxv++;
        if (hk_chance(40)) xs_set_attr(&o, j, "long_name", DFNT_CHAR8, (int)hk_range(1, 30), 0);
        if (hk_chance(25)) xs_set_attr(&o, j, "vattr", v->nt, (int)hk_range(1, 3), 0);
        hk_stat("sess_nc_created", 1);
    }
    if (hk_chance(60)) xs_set_attr(&o, -1, "title", DFNT_CHAR8, (int)hk_range(1, 30), 0);
    if (ncendef(o.nc) < 0) hk_fail("xapi-sess:write", "ncendef");
    for (int j = 0; j < nxv; j++) xs_initial_data(&o, j);
    if (ncclose(o.nc) < 0) { hk_fail("xapi-sess:write", "ncclose of session 0"); return -1; }
    return 0;
}

/* ------------------------------------------------------------------------------------------------ later sessions */
enum { XA_FIRST, XA_OVER, XA_APPEND, XA_ATTR, XA_SCALE, XA_NEWVAR, XA_COMPRESS, XA_READ, XA_NKINDS };
static const char *const XA_NAME[] = {"first-data", "overwrite", "append", "attribute", "scale", "new-variable", "compress+fill", "read-only"};
static int xs_pick(int (*pred)(int))
{
    int c[XMAXVAR], n = 0;
    for (int j = 0; j < nxv; j++) if (pred(j)) c[n++] = j;
    return n ? c[hk_range(0, n - 1)] : -1;
}
static int xp_noelem(int j) { return !xs[j].elem && (xv[j].unlimited ? xs[j].cap0 > 0 : xv[j].nbytes > 0); }
static int xp_over(int j) { return xs[j].elem && !xs[j].comp && xv[j].nbytes > 0; }
static int xp_append(int j) { return xv[j].unlimited && xs[j].elem && xv[j].dims[0] < xs[j].cap0; }
static int xp_any(int j) { (void)j; return 1; }
static int xp_hasattr(int j) { return xs[j].nattr > 0; }
static int xp_scalable(int j) { if (xv[j].iscoord) return 0; for (int d = xv[j].unlimited ? 1 : 0; d < xv[j].rank; d++) if (!xs[j].scale_of[d]) return 1; return 0; }
static int xp_compressible(int j) { return !xs[j].elem && !xv[j].unlimited && !xv[j].iscoord && xv[j].nbytes > 0; }

static void xs_action(XOpen *o, int act, char *log, size_t logsz)
{
    int j;
    size_t l = strlen(log); snprintf(log + l, logsz - l, " %s", XA_NAME[act]);
    switch (act) {
        case XA_FIRST: if ((j = xs_pick(xp_noelem)) >= 0) xs_put_data(o, j, hk_chance(65) || xv[j].unlimited ? 0 : 1, "sess_first_data_later_session"); break;
        case XA_OVER: if ((j = xs_pick(xp_over)) >= 0) xs_put_data(o, j, 1, "sess_overwrite_later_session"); break;
        case XA_APPEND: if ((j = xs_pick(xp_append)) >= 0) xs_put_data(o, j, 2, "sess_append_later_session"); break;
        case XA_ATTR:
            if (o->is_nc) { if (xs_gatt_set && hk_chance(30)) xs_set_attr(o, -1, "title", 0, 0, 1); else if ((j = xs_pick(xp_hasattr)) >= 0) xs_set_attr(o, j, xs[j].a[hk_range(0, xs[j].nattr - 1)].name, 0, 0, 1); }
            else if (hk_chance(25)) xs_set_attr(o, -1, "title", DFNT_CHAR8, (int)hk_range(1, 30), 0);
            else if ((j = xs_pick(xp_any)) >= 0) { if (hk_chance(50)) xs_set_attr(o, j, "long_name", DFNT_CHAR8, (int)hk_range(1, 30), 0); else xs_set_attr(o, j, "vattr", xv[j].nt, (int)hk_range(1, 3), 0); }
            break;
        case XA_SCALE: if (!o->is_nc && (j = xs_pick(xp_scalable)) >= 0) { int d; do d = (int)hk_range(0, xv[j].rank - 1); while (xs[j].scale_of[d] || (d == 0 && xv[j].unlimited)); xs_sd_scale(o, j, d); } break;
        case XA_NEWVAR: if (!o->is_nc && (j = xs_sd_newvar(o, 0)) >= 0 && hk_chance(50)) xs_put_data(o, j, 0, "sess_first_data_same_session"); break;
        case XA_COMPRESS:
            if (!o->is_nc && (j = xs_pick(xp_compressible)) >= 0) {
                int32 idx = SDnametoindex(o->sd, xv[j].name), sds = idx == FAIL ? FAIL : SDselect(o->sd, idx);
                comp_info ci; memset(&ci, 0, sizeof ci); ci.deflate.level = 6;
                if (sds == FAIL || SDsetcompress(sds, hk_chance(50) ? COMP_CODE_RLE : COMP_CODE_DEFLATE, &ci) == FAIL) {
                    /* consequence of the same root cause: the empty descriptor a read left behind makes SDsetcompress refuse the data set */
                    if (sds != FAIL && xs[j].read_rw) hk_fail("xapi-sess-vg:read-in-write-session-allocates-data-ref", "SDsetcompress refuses %s, never written but read in a session opened for writing", xv[j].name);
                    else hk_fail("xapi-sess:write", "SDsetcompress in a later session");
                    if (sds != FAIL) SDendaccess(sds);
                }
                else { xs[j].comp = 1; SDendaccess(sds); xs_put_data(o, j, 0, "sess_compress_fill_later_session"); }
            }
            break;
        default: /* only reading in a session opened for writing: nothing in the file may look different afterwards */
            if ((j = xs_pick(xp_any)) >= 0 && xv[j].nbytes > 0) {
                XVar *v = &xv[j]; uint8_t buf[XMAXBYTES];
                if (!xs[j].elem) xs[j].read_rw = 1;
                if (o->is_nc) { long st[XMAXRANK] = {0}, ed[XMAXRANK]; for (int d = 0; d < v->rank; d++) ed[d] = v->dims[d]; int vid = ncvarid(o->nc, v->name); if (vid < 0 || ncvarget(o->nc, vid, st, ed, buf) < 0) hk_fail("xapi-sess-nc:data", "ncvarget %s in a write session", v->name); }
                else {
                    int32 idx = SDnametoindex(o->sd, v->name), sds = idx == FAIL ? FAIL : SDselect(o->sd, idx), st[XMAXRANK] = {0};
                    if (sds == FAIL || SDreaddata(sds, st, NULL, v->dims, buf) == FAIL) hk_fail("xapi-sess-sd:data", "SDreaddata %s in a write session", v->name);
                    if (sds != FAIL && hk_chance(50)) for (int d = 0; d < v->rank; d++) if (xs[j].scale_of[d]) { uint8_t sb[64 * 8]; SDgetdimscale(SDgetdimid(sds, d), sb); }
                    if (sds != FAIL) SDendaccess(sds);
                }
                hk_stat("sess_read_in_write_session", 1);
            }
            break;
    }
}

/* ------------------------------------------------------------------------------------------------ a DFSD file that grows
 * Session 0 writes one data set with DFSDputdata; every later session either appends a data set the DFSD way (DFSDadddata, or
 * the slab calls), or opens the file through SD for writing and overwrites a hyperslab of an existing data set, or only reads.
 * After every session: SD and DFSD views by position, raw NDG (keys `xapi-sess-dfsdfile-<reader>:<what>`). */
static int xs_dfsd_add(const char *path, int first)
{
    if (nxv >= XMAXVAR) return -1;
    XVar *v = &xv[nxv]; gen_var(v, 4);
    DFSDclear();
    if (DFSDsetNT(v->nt) == FAIL || DFSDsetdims((int)v->rank, v->dims) == FAIL) { hk_fail("xapi-sess:write", "DFSDsetNT/DFSDsetdims"); return -1; }
    if (hk_chance(40)) { v->has_strs = 1; gen_word(v->label, 30); gen_word(v->unit, 12); gen_word(v->format, 8); gen_word(v->coordsys, 12); if (DFSDsetdatastrs(v->label, v->unit, v->format, v->coordsys) == FAIL) hk_fail("xapi-sess:write", "DFSDsetdatastrs"); }
    int r;
    if (!first && hk_chance(35)) { /* the slab calls: whole data set as one slab */
        int32 st[XMAXRANK]; for (int d = 0; d < v->rank; d++) st[d] = 1;
        r = DFSDstartslab(path); if (r != FAIL) r = DFSDwriteslab(st, st, v->dims, v->data); if (r != FAIL) r = DFSDendslab();
        hk_stat("sess_dfsd_slab_added", 1);
    }
    else r = first ? DFSDputdata(path, (int)v->rank, v->dims, v->data) : DFSDadddata(path, (int)v->rank, v->dims, v->data);
    DFSDclear();
    if (r == FAIL) { hk_fail("xapi-sess:write", "DFSD %s failed (rank %d nt %d)", first ? "putdata" : "adddata/slab", (int)v->rank, (int)v->nt); return -1; }
    v->ref = DFSDlastref(); nxv++;
    hk_stat("sess_dfsd_added", 1);
    return 0;
}
static void xs_dfsdfile_verify(const char *path)
{
    read_sd_check(path, "xapi-sess-dfsdfile-sd", 1);
    read_dfsd_check(path, "xapi-sess-dfsdfile-dfsd", 1);
    for (int j = 0; j < nxv; j++) check_ndg_raw(path, &xv[j], "xapi-sess-dfsdfile-raw", "dfsd");
    hk_stat("sess_verified", 1);
}
static void case_sessions_dfsd(void)
{
    const char *path = strdup(cpath("sessd"));
    char log[200] = "dfsd: put"; long fail0 = hk_nfail;
    int nsess = (int)hk_range(2, 4);
    nxv = 0;
    if (xs_dfsd_add(path, 1) < 0) { free((void *)path); return; }
    xs_dfsdfile_verify(path);
    for (int s = 1; s < nsess; s++) {
        int act = (int)hk_range(0, 9);
        size_t l = strlen(log);
        if (act < 4) { snprintf(log + l, sizeof log - l, " | dfsd: add"); xs_dfsd_add(path, 0); }
        else {
            int32 sd = SDstart(path, DFACC_RDWR);
            if (sd == FAIL) { hk_fail("xapi-sess:write", "SDstart RDWR on a DFSD file"); break; }
            int j = (int)hk_range(0, nxv - 1); XVar *v = &xv[j];
            /* the j-th data set proper: SD shows the dimensions of a DFSD file as coordinate variables of their own */
            int32 sds = FAIL, nds = 0, ngat = 0, st[XMAXRANK], ed[XMAXRANK]; uint8_t buf[XMAXBYTES];
            SDfileinfo(sd, &nds, &ngat);
            for (int i = 0, c = 0; i < nds && sds == FAIL; i++) { int32 id = SDselect(sd, i); if (id == FAIL) continue; if (!SDiscoordvar(id) && c++ == j) sds = id; else SDendaccess(id); }
            if (sds == FAIL) hk_fail("xapi-sess:write", "SDselect %d on a DFSD file", j);
            else if (act < 8) {
                snprintf(log + l, sizeof log - l, " | sd: overwrite");
                int n = xs_gen_slab(v, 0, 0, st, ed);
                for (int i = 0; i < n * v->sz; i++) buf[i] = hk_byte();
                if (SDwritedata(sds, st, NULL, ed, buf) == FAIL) hk_fail("xapi-sess:write", "SDwritedata on a data set of a DFSD file");
                else { /* into the shadow */
                    int32 idx[XMAXRANK] = {0};
                    for (int e = 0; e < n; e++) {
                        int lin = 0; for (int d = 0; d < v->rank; d++) lin = lin * v->dims[d] + st[d] + idx[d];
                        memcpy(v->data + lin * v->sz, buf + e * v->sz, (size_t)v->sz);
                        for (int d = v->rank - 1; d >= 0; d--) { if (++idx[d] < ed[d]) break; idx[d] = 0; }
                    }
                    hk_stat("sess_overwrite_later_session", 1);
                }
            }
            else { int32 st0[XMAXRANK] = {0}; snprintf(log + l, sizeof log - l, " | sd: read-only"); if (SDreaddata(sds, st0, NULL, v->dims, buf) == FAIL) hk_fail("xapi-sess-dfsdfile-sd:data", "SDreaddata in a write session"); hk_stat("sess_read_in_write_session", 1); }
            if (sds != FAIL) SDendaccess(sds);
            if (SDend(sd) == FAIL) hk_fail("xapi-sess:write", "SDend on a DFSD file");
        }
        xs_dfsdfile_verify(path);
    }
    if (case_no < 60 || hk_nfail > fail0) printf("SAMPLE sessions created-by=dfsd vars=%d first nt=%d rank=%d history: %s\n", nxv, (int)xv[0].nt, (int)xv[0].rank, log);
    free((void *)path);
}

static void case_sessions_sdnc(void)
{
    const char *path = strdup(cpath("sess"));
    char log[400] = ""; long fail0 = hk_nfail;
    ncopts = 0;
    nxv = 0; xs_nrec = 0; xs_gatt_set = 0;
    int by_nc = hk_chance(40), nsess = (int)hk_range(2, 4);
    if ((by_nc ? xs_create_nc(path) : xs_create_sd(path)) < 0 || nxv == 0) { free((void *)path); return; }
    xs_verify(path, 0);
    for (int s = 1; s < nsess; s++) {
        XOpen o = {hk_chance(40), FAIL, -1};
        if (o.is_nc) o.nc = ncopen(path, NC_WRITE); else o.sd = SDstart(path, DFACC_RDWR);
        if (o.is_nc ? o.nc < 0 : o.sd == FAIL) { hk_fail("xapi-sess:write", "reopening for session %d through %s", s, o.is_nc ? "ncopen" : "SDstart"); break; }
        size_t l = strlen(log); snprintf(log + l, sizeof log - l, " | %s:", o.is_nc ? "nc" : "sd");
        /* most sessions change one thing only: a close that has nothing else to flush must still leave every view complete */
        int nact = hk_chance(70) ? 1 : (int)hk_range(2, 3);
        for (int a = 0; a < nact; a++) {
            int act;
            if (xs_pick(xp_noelem) >= 0 && hk_chance(45)) act = !o.is_nc && xs_pick(xp_compressible) >= 0 && hk_chance(25) ? XA_COMPRESS : XA_FIRST; /* first data, by every route */
            else if (xs_pick(xp_append) >= 0 && hk_chance(xs_nrec > 1 ? 50 : 30)) act = XA_APPEND;
            else act = (int)hk_range(0, XA_NKINDS - 1);
            xs_action(&o, act, log, sizeof log);
        }
        if (o.is_nc ? ncclose(o.nc) < 0 : SDend(o.sd) == FAIL) hk_fail("xapi-sess:write", "closing session %d", s);
        hk_stat(o.is_nc ? "sess_later_nc" : "sess_later_sd", 1);
        xs_verify(path, s);
    }
    if (case_no < 60 || hk_nfail > fail0) printf("SAMPLE sessions created-by=%s vars=%d first nt=%d rank=%d history:%s\n", by_nc ? "nc" : "sd", nxv, (int)xv[0].nt, (int)xv[0].rank, log);
    free((void *)path);
}

static void case_sessions(void) { if (hk_chance(15)) case_sessions_dfsd(); else case_sessions_sdnc(); }
