/* xapi_nc.h - C15 engine part: the netCDF-style calls of mfhdf (nccreate/ncdimdef/ncvardef/ncvarput/ncvarget/ncattput/
 * ncvarinq/ncdiminq; exported as H4_nc*, declared in nc_priv.h) versus the SD calls on the same HDF file. */

static const struct { nc_type nc; int32 hdf; } NCMAP[] = {
    {NC_BYTE, DFNT_INT8}, {NC_CHAR, DFNT_CHAR8}, {NC_SHORT, DFNT_INT16}, {NC_LONG, DFNT_INT32}, {NC_FLOAT, DFNT_FLOAT32}, {NC_DOUBLE, DFNT_FLOAT64}};
static nc_type nc_of_hdf(int32 nt)
{
    switch (nt) {
        case DFNT_INT8: case DFNT_UINT8: return NC_BYTE;
        case DFNT_CHAR8: case DFNT_UCHAR8: return NC_CHAR;
        case DFNT_INT16: case DFNT_UINT16: return NC_SHORT;
        case DFNT_INT32: case DFNT_UINT32: return NC_LONG;
        case DFNT_FLOAT32: return NC_FLOAT;
        default: return NC_DOUBLE;
    }
}

static void case_nc_sd(void)
{
    const char *path = strdup(cpath("nc"));
    char gatt[40]; int gattlen;
    ncopts = 0; /* no exit(), no message on error: results are checked here */
    gen_word(gatt, 30); gattlen = (int)strlen(gatt);
    int nc_writes = hk_chance(50);
    nxv = (int)hk_range(1, 3);
    if (nc_writes) {
        int id = nccreate(path, NC_CLOBBER);
        if (id < 0) { hk_fail("xapi-nc-sd:write", "nccreate"); free((void *)path); return; }
        int varid[XMAXVAR];
        for (int j = 0; j < nxv; j++) {
            XVar *v = &xv[j]; memset(v, 0, sizeof *v);
            int m = (int)hk_range(0, 5);
            v->nt = NCMAP[m].hdf; v->sz = DFKNTsize(v->nt);
            gen_shape(v, 4, 400);
            v->nbytes = v->nelem * v->sz;
            for (int i = 0; i < v->nbytes; i++) v->data[i] = hk_byte();
            snprintf(v->name, sizeof v->name, "ncvar%d_%d", case_no, j);
            int dimids[XMAXRANK];
            for (int d = 0; d < v->rank; d++) { char dn[64]; snprintf(dn, sizeof dn, "d%d_%d_%d", case_no, j, d); dimids[d] = ncdimdef(id, dn, (long)v->dims[d]); if (dimids[d] < 0) hk_fail("xapi-nc-sd:write", "ncdimdef"); }
            varid[j] = ncvardef(id, v->name, NCMAP[m].nc, (int)v->rank, dimids);
            if (varid[j] < 0) { hk_fail("xapi-nc-sd:write", "ncvardef"); continue; }
            if (hk_chance(50)) { v->has_strs = 1; gen_word(v->label, 30); if (ncattput(id, varid[j], "long_name", NC_CHAR, (int)strlen(v->label), v->label) < 0) hk_fail("xapi-nc-sd:write", "ncattput"); }
        }
        if (ncattput(id, NC_GLOBAL, "title", NC_CHAR, gattlen, gatt) < 0) hk_fail("xapi-nc-sd:write", "ncattput global");
        if (ncendef(id) < 0) hk_fail("xapi-nc-sd:write", "ncendef");
        for (int j = 0; j < nxv; j++) {
            XVar *v = &xv[j]; long start[XMAXRANK] = {0}, count[XMAXRANK];
            for (int d = 0; d < v->rank; d++) count[d] = v->dims[d];
            if (varid[j] >= 0 && ncvarput(id, varid[j], start, count, v->data) < 0) hk_fail("xapi-nc-sd:write", "ncvarput (type %d rank %d)", (int)v->nt, (int)v->rank);
            hk_stat("nc_written", 1);
        }
        if (ncclose(id) < 0) hk_fail("xapi-nc-sd:write", "ncclose");
    }
    else {
        int32 sd = SDstart(path, DFACC_CREATE);
        if (sd == FAIL) { hk_fail("xapi-sd-nc:write", "SDstart"); free((void *)path); return; }
        for (int j = 0; j < nxv; j++) {
            XVar *v = &xv[j]; gen_var(v, 4);
            snprintf(v->name, sizeof v->name, "sdvar%d_%d", case_no, j);
            int32 sds = SDcreate(sd, v->name, v->nt, v->rank, v->dims), start[XMAXRANK] = {0};
            if (sds == FAIL) { hk_fail("xapi-sd-nc:write", "SDcreate"); continue; }
            for (int d = 0; d < v->rank; d++) { char dn[64]; snprintf(dn, sizeof dn, "d%d_%d_%d", case_no, j, d); if (SDsetdimname(SDgetdimid(sds, d), dn) == FAIL) hk_fail("xapi-sd-nc:write", "SDsetdimname"); }
            if (hk_chance(50)) { v->has_strs = 1; gen_word(v->label, 30); if (SDsetattr(sds, "long_name", DFNT_CHAR8, (int32)strlen(v->label), v->label) == FAIL) hk_fail("xapi-sd-nc:write", "SDsetattr"); }
            if (SDwritedata(sds, start, NULL, v->dims, v->data) == FAIL) hk_fail("xapi-sd-nc:write", "SDwritedata");
            SDendaccess(sds);
            hk_stat("sd_written", 1);
        }
        if (SDsetattr(sd, "title", DFNT_CHAR8, gattlen, gatt) == FAIL) hk_fail("xapi-sd-nc:write", "SDsetattr global");
        if (SDend(sd) == FAIL) hk_fail("xapi-sd-nc:write", "SDend");
    }
    /* ---- read through SD */
    {
        const char *pair = nc_writes ? "xapi-nc-sd" : "xapi-sd-sd"; char key[64];
        int32 sd = SDstart(path, DFACC_READ);
        if (sd == FAIL) { snprintf(key, sizeof key, "%s:open", pair); hk_fail(key, "SDstart"); }
        else {
            for (int j = 0; j < nxv; j++) {
                XVar *v = &xv[j];
                int32 idx = SDnametoindex(sd, v->name), sds = idx == FAIL ? FAIL : SDselect(sd, idx);
                snprintf(key, sizeof key, "%s:missing", pair);
                if (sds == FAIL) { hk_fail(key, "SD does not find %s", v->name); continue; }
                char nm[H4_MAX_NC_NAME + 1]; int32 rank = -1, dims[H4_MAX_VAR_DIMS], nt = -1, na = 0, start[XMAXRANK] = {0};
                SDgetinfo(sds, nm, &rank, dims, &nt, &na);
                snprintf(key, sizeof key, "%s:dims", pair);
                if (rank != v->rank) hk_fail(key, "rank %d written %d", (int)rank, (int)v->rank);
                else for (int d = 0; d < rank; d++) {
                    char dn[H4_MAX_NC_NAME + 1], wn[64]; int32 sz = 0, dnt = 0, dna = 0;
                    snprintf(wn, sizeof wn, "d%d_%d_%d", case_no, j, d);
                    if (dims[d] != v->dims[d]) hk_fail(key, "dim %d is %d written %d", d, (int)dims[d], (int)v->dims[d]);
                    if (SDdiminfo(SDgetdimid(sds, d), dn, &sz, &dnt, &dna) == FAIL || strcmp(dn, wn) || sz != v->dims[d]) hk_fail(key, "dimension %d seen as '%s' size %d, written '%s' size %d", d, dn, (int)sz, wn, (int)v->dims[d]);
                }
                snprintf(key, sizeof key, "%s:type", pair);
                if (nt != v->nt) hk_fail(key, "number type %d written %d", (int)nt, (int)v->nt);
                if (rank == v->rank && nt == v->nt) {
                    uint8_t buf[XMAXBYTES + 8]; memset(buf, 0xA5, sizeof buf);
                    snprintf(key, sizeof key, "%s:data", pair);
                    if (SDreaddata(sds, start, NULL, v->dims, buf) == FAIL) hk_fail(key, "SDreaddata failed");
                    else if (memcmp(buf, v->data, (size_t)v->nbytes)) hk_fail(key, "values differ (nt %d rank %d)", (int)nt, (int)rank);
                }
                if (v->has_strs) {
                    int32 ai = SDfindattr(sds, "long_name"), ant = 0, acnt = 0; char an[H4_MAX_NC_NAME + 1], ab[128] = "";
                    snprintf(key, sizeof key, "%s:attr", pair);
                    if (ai == FAIL || SDattrinfo(sds, ai, an, &ant, &acnt) == FAIL || SDreadattr(sds, ai, ab) == FAIL) hk_fail(key, "attribute long_name of %s not readable", v->name);
                    else if (ant != DFNT_CHAR8 || acnt != (int32)strlen(v->label) || memcmp(ab, v->label, (size_t)acnt)) hk_fail(key, "long_name of %s: type %d count %d, written '%s'", v->name, (int)ant, (int)acnt, v->label);
                }
                SDendaccess(sds);
            }
            int32 ai = SDfindattr(sd, "title"), ant = 0, acnt = 0; char an[H4_MAX_NC_NAME + 1], ab[128] = "";
            snprintf(key, sizeof key, "%s:attr", pair);
            if (ai == FAIL || SDattrinfo(sd, ai, an, &ant, &acnt) == FAIL || SDreadattr(sd, ai, ab) == FAIL) hk_fail(key, "global attribute not readable");
            else if (acnt != gattlen || memcmp(ab, gatt, (size_t)gattlen)) hk_fail(key, "global attribute differs");
            SDend(sd);
        }
    }
    /* ---- read through the nc calls */
    {
        const char *pair = nc_writes ? "xapi-nc-nc" : "xapi-sd-nc"; char key[64];
        int id = ncopen(path, NC_NOWRITE);
        if (id < 0) { snprintf(key, sizeof key, "%s:open", pair); hk_fail(key, "ncopen"); }
        else {
            for (int j = 0; j < nxv; j++) {
                XVar *v = &xv[j];
                int vid = ncvarid(id, v->name);
                snprintf(key, sizeof key, "%s:missing", pair);
                if (vid < 0) { hk_fail(key, "ncvarid does not find %s", v->name); continue; }
                char nm[H4_MAX_NC_NAME + 1]; nc_type ty = 0; int nd = -1, dimids[H4_MAX_VAR_DIMS], na = 0;
                if (ncvarinq(id, vid, nm, &ty, &nd, dimids, &na) < 0) { hk_fail(key, "ncvarinq"); continue; }
                snprintf(key, sizeof key, "%s:dims", pair);
                int ok = nd == v->rank;
                if (!ok) hk_fail(key, "ndims %d written %d", nd, (int)v->rank);
                else for (int d = 0; d < nd; d++) {
                    char dn[H4_MAX_NC_NAME + 1], wn[64]; long len = -1;
                    snprintf(wn, sizeof wn, "d%d_%d_%d", case_no, j, d);
                    if (ncdiminq(id, dimids[d], dn, &len) < 0 || len != v->dims[d] || strcmp(dn, wn)) { hk_fail(key, "dimension %d seen as '%s' length %ld, written '%s' length %d", d, dn, len, wn, (int)v->dims[d]); ok = 0; }
                }
                snprintf(key, sizeof key, "%s:type", pair);
                if (ty != nc_of_hdf(v->nt)) { hk_fail(key, "nc type %d for HDF type %d", (int)ty, (int)v->nt); ok = 0; }
                if (ok) {
                    long start[XMAXRANK] = {0}, count[XMAXRANK]; uint8_t buf[XMAXBYTES + 8]; memset(buf, 0xA5, sizeof buf);
                    for (int d = 0; d < nd; d++) count[d] = v->dims[d];
                    snprintf(key, sizeof key, "%s:data", pair);
                    if (nctypelen(ty) != v->sz) hk_fail(key, "nctypelen(%d) = %d, element size %d", (int)ty, nctypelen(ty), v->sz);
                    else if (ncvarget(id, vid, start, count, buf) < 0) hk_fail(key, "ncvarget failed (type %d rank %d)", (int)ty, nd);
                    else if (memcmp(buf, v->data, (size_t)v->nbytes)) hk_fail(key, "values differ (nc type %d rank %d)", (int)ty, nd);
                    else if (buf[v->nbytes] != 0xA5) hk_fail(key, "ncvarget wrote past the data");
                    /* one element through ncvarget1 */
                    long co[XMAXRANK]; int lin = 0;
                    for (int d = 0; d < nd; d++) { co[d] = hk_range(0, v->dims[d] - 1); lin = lin * v->dims[d] + (int)co[d]; }
                    uint8_t one[8];
                    if (ncvarget1(id, vid, co, one) < 0 || memcmp(one, v->data + lin * v->sz, (size_t)v->sz)) hk_fail(key, "ncvarget1 differs at linear index %d", lin);
                }
                hk_stat("nc_read", 1);
            }
            if (ncclose(id) < 0) { snprintf(key, sizeof key, "%s:close", pair); hk_fail(key, "ncclose"); }
        }
    }
    if (!nc_writes) vgroup_view_sd(path);
    if (case_no < 40) printf("SAMPLE %s n=%d first nt=%d rank=%d\n", nc_writes ? "nc->sd" : "sd->nc", nxv, (int)xv[0].nt, (int)xv[0].rank);
    free((void *)path);
}
