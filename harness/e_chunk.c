/* e_chunk - Tie-B engine for C04 (chunk address arithmetic of hchunks.c + HMCPseek/HMCPread/HMCPwrite).
 *
 * One case = one chunked element (rank 1..8, boundary-biased dims / chunk dims, nt_size 1/2/4/8) created with the
 * REAL HMCcreate in a fresh file; the DIM_REC array the library built is then used to call the REAL static
 * functions (reached by #include of hchunks.c):
 *   T chunk dimrec <dim> <chunk>                         => <dim_length> <chunk_length> <num_chunks> <last_chunk_length>
 *   T chunk ucis <dims> <cdims> <nt> <sloc>              => <sbi> <spb>          update_chunk_indices_seek
 *   T chunk cnum <dims> <cdims> <sbi>                    => <n>                  calculate_chunk_num
 *   T chunk sic  <dims> <cdims> <nt> <spb>               => <bytes>              calculate_seek_in_chunk
 *   T chunk c2a  <dims> <cdims> <sbi> <spb>              => <arr>                compute_chunk_to_array
 *   T chunk a2s  <dims> <cdims> <nt> <arr>               => <bytes>              compute_array_to_seek
 *   T chunk usp  <dims> <cdims> <nt> <chunk_seek>        => <spb>                update_seek_pos_chunk
 *   T chunk cfc  <dims> <cdims> <nt> <len> <done> <sbi> <spb> => <chunk_size>    calculate_chunk_for_chunk
 *   T chunk cioposn <dims> <cdims> <nt> <origin>         => <posn>               tail of HMCreadChunk/HMCwriteChunk
 *   T chunk walk <dims> <cdims> <nt> <pos> <len>         => pos:chunk:seek:size,...   HMCPread loop replayed with the statics
 * and the element itself is driven through the public API (model keeps posn + chunk store):
 *   T chunk api_new <dims> <cdims> <nt> <fill>           => <total bytes> <number of chunks>
 *   T chunk api_seek <offset> <origin>                   => <posn> | fail
 *   T chunk api_write <hex>                              => <ret> <posn> | fail
 *   T chunk api_read <len>                               => <hex> <posn> | fail
 *   T chunk api_reopen                                   => ok            (Hendaccess [+Hclose/Hopen] + Hstartwrite/Hstartread)
 * <dims> carries 0 for an unlimited dimension exactly as handed to HMCcreate.
 *
 * Implementation-side oracles (no model involved): the element read through Hseek/Hread equals a shadow flat byte
 * array (fill pattern where never written) under random writes/reads at any byte position, small cache sizes
 * (HMCsetMaxcache 1..3), Hendaccess and Hclose/Hopen; element->(chunk,seek) is injective and in range (exhaustive
 * per case when the element is small); array<->chunk round trip; walk pieces tile [pos,pos+len).
 * Unaligned byte positions and lengths are ordinary traffic (the loops honour elem_off = posn % nt_size). "Quirk" cases
 * (12%) add seeks/transfers past the end and negative arguments: a write that does not fit must FAIL and change nothing,
 * reads are clamped. The byte-array oracle is on everywhere; the two repaired defects keep their keys
 * chunk-unaligned-access / chunk-write-past-end so that a regression is reported as a VIOLATION.
 */
#include "hdf.h"
#include "hk.h"
#ifndef HCHUNKS_C
#define HCHUNKS_C "hdf/src/hchunks.c" /* resolved through -I<REPO> (vk.cc_harness) */
#endif
#include HCHUNKS_C

#define MAXR 8
#define MAXBYTES (1 << 16)
static uint8_t shadow[MAXBYTES], wbuf[MAXBYTES], rbuf[MAXBYTES + 16];
static uint8_t seen[MAXBYTES];

static int     rank, nt;
static int32   gd[MAXR], gc[MAXR], ed[MAXR]; /* given dims (0 = unlimited), chunk dims, effective dims */
static char    sdims[128], scdims[128];
static DIM_REC *dd;
static long    total_elems, total_bytes, chunk_elems, chunk_bytes, npages;

static void plist(const int32 *a, int n)
{
    if (n == 0) { fputs("-", stdout); return; }
    for (int i = 0; i < n; i++) printf(i ? ",%d" : "%d", (int)a[i]);
}
static void slist(char *buf, const int32 *a, int n)
{
    char *p = buf;
    for (int i = 0; i < n; i++) p += sprintf(p, i ? ",%d" : "%d", (int)a[i]);
}
#define HDR(op) printf("T chunk %s %s %s ", op, sdims, scdims)

static int32 pick_dim(int maxd)
{
    static const int B[] = {1, 1, 2, 3, 4, 5, 7, 8, 9, 16};
    int32 v = hk_chance(60) ? HK_PICK(B) : (int32)hk_range(1, maxd);
    return v > maxd ? maxd : v;
}
static int32 pick_chunk(int32 d, int maxc)
{
    int32 c;
    switch ((int)hk_range(0, 6)) {
        case 0: c = 1; break;
        case 1: c = d; break;                                   /* equal */
        case 2: c = d + (int32)hk_range(1, 3); break;           /* exceeds the dimension (HMCcreate accepts) */
        case 3: { int t; c = 1; for (t = 0; t < 8; t++) { int32 q = (int32)hk_range(1, d); if (d % q == 0) { c = q; break; } } break; } /* divides */
        case 4: c = (d > 1) ? d - 1 : 1; break;                 /* last chunk of length 1 */
        default: c = (int32)hk_range(1, d); break;              /* mostly does not divide */
    }
    if (c > maxc) c = maxc;
    if (c < 1) c = 1;
    return c;
}

/* exhaustive mode (argv[4] == "exh"): case k enumerates EVERY chunk shape (chunk length 1..extent+1, i.e. including one
 * that exceeds the dimension) of every extent <= 4 (rank 1), <= 4x4 (rank 2) and <= 3x3x2 (rank 3), each with nt 1,2,4
 * (case k: geometry k/3, nt by k%3) */
static int exh = 0;
#define EXH_TOTAL (14 + 14 * 14 + 9 * 9 * 5)
static int exh_pair(int idx, int maxd, int32 *d, int32 *c)
{   /* idx-th (d, c) with 1 <= d <= maxd, 1 <= c <= d + 1 ; returns the number of pairs when idx < 0 */
    int n = 0;
    for (int dd_ = 1; dd_ <= maxd; dd_++)
        for (int cc = 1; cc <= dd_ + 1; cc++) { if (n == idx) { *d = dd_; *c = cc; } n++; }
    return n;
}
static void gen_geometry_exh(int k)
{
    static const int NT[] = {1, 2, 4};
    int g = (k / 3) % EXH_TOTAL;
    nt = NT[k % 3];
    if (g < 14) { rank = 1; exh_pair(g, 4, &ed[0], &gc[0]); }
    else if (g < 14 + 196) { g -= 14; rank = 2; exh_pair(g / 14, 4, &ed[0], &gc[0]); exh_pair(g % 14, 4, &ed[1], &gc[1]); }
    else { g -= 210; rank = 3; exh_pair(g / 45, 3, &ed[0], &gc[0]); exh_pair(g / 5 % 9, 3, &ed[1], &gc[1]); exh_pair(g % 5, 2, &ed[2], &gc[2]); }
    total_elems = 1; chunk_elems = 1; npages = 1;
    for (int i = 0; i < rank; i++) { gd[i] = ed[i]; total_elems *= ed[i]; chunk_elems *= gc[i]; npages *= (ed[i] + gc[i] - 1) / gc[i]; }
    total_bytes = total_elems * nt; chunk_bytes = chunk_elems * nt;
    slist(sdims, gd, rank); slist(scdims, gc, rank);
}

static void gen_geometry(void)
{
    static const int NT[] = {1, 1, 2, 4, 4, 8};
    int budget;
    for (;;) {
        rank = hk_chance(12) ? (int)hk_range(5, 8) : (int)hk_range(1, 4);
        nt   = HK_PICK(NT);
        budget = hk_chance(15) ? 4096 : 400;
        int maxd = rank == 1 ? 64 : rank == 2 ? 20 : rank <= 4 ? 9 : 3;
        total_elems = 1; chunk_elems = 1;
        for (int i = 0; i < rank; i++) {
            ed[i] = pick_dim(maxd);
            gc[i] = pick_chunk(ed[i], maxd + 3);
            gd[i] = ed[i];
            total_elems *= ed[i]; chunk_elems *= gc[i];
        }
        if (hk_chance(5)) { /* unlimited first dimension: dim_length 0 -> library uses the chunk length */
            total_elems = total_elems / ed[0] * gc[0];
            gd[0] = 0; ed[0] = gc[0];
        }
        npages = 1;
        for (int i = 0; i < rank; i++) npages *= (ed[i] + gc[i] - 1) / gc[i];
        if (total_elems * nt <= budget * 4 && total_elems <= budget && chunk_elems * nt <= 8192 && npages * chunk_elems * nt <= MAXBYTES) break;
    }
    total_bytes = total_elems * nt; chunk_bytes = chunk_elems * nt;
    slist(sdims, gd, rank); slist(scdims, gc, rank);
}

/* ------------------------------------------------------------------ function level */
static void do_ucis(int32 sloc, int32 *sbi, int32 *spb)
{
    update_chunk_indices_seek(sloc, rank, nt, sbi, spb, dd);
    HDR("ucis"); printf("%d %d => ", nt, (int)sloc); plist(sbi, rank); putchar(' '); plist(spb, rank); putchar('\n');
}
static int32 do_cnum(int32 *sbi)
{
    int32 n = -1;
    calculate_chunk_num(&n, rank, sbi, dd);
    HDR("cnum"); plist(sbi, rank); printf(" => %d\n", (int)n);
    return n;
}
static int32 do_sic(int32 *spb)
{
    int32 s = -1;
    calculate_seek_in_chunk(&s, rank, nt, spb, dd);
    HDR("sic"); printf("%d ", nt); plist(spb, rank); printf(" => %d\n", (int)s);
    return s;
}
static void do_c2a(int32 *sbi, int32 *spb, int32 *arr)
{
    compute_chunk_to_array(sbi, spb, arr, rank, dd);
    HDR("c2a"); plist(sbi, rank); putchar(' '); plist(spb, rank); printf(" => "); plist(arr, rank); putchar('\n');
}
static int32 do_a2s(int32 *arr)
{
    int32 s = -1;
    compute_array_to_seek(&s, arr, nt, rank, dd);
    HDR("a2s"); printf("%d ", nt); plist(arr, rank); printf(" => %d\n", (int)s);
    return s;
}
static int32 do_cfc(int32 len, int32 done, int32 *sbi, int32 *spb)
{
    int32 cs = 0;
    calculate_chunk_for_chunk(&cs, rank, nt, len, done, sbi, spb, dd);
    HDR("cfc"); printf("%d %d %d ", nt, (int)len, (int)done); plist(sbi, rank); putchar(' '); plist(spb, rank); printf(" => %d\n", (int)cs);
    return cs;
}

static int32 pick_pos(int aligned)
{
    long e;
    switch ((int)hk_range(0, 5)) {
        case 0: e = 0; break;
        case 1: e = total_elems - 1; break;
        case 2: { /* a corner: every index at a chunk / dimension boundary */
            e = 0;
            for (int i = 0; i < rank; i++) {
                long a;
                switch ((int)hk_range(0, 3)) {
                    case 0: a = 0; break;
                    case 1: a = ed[i] - 1; break;
                    case 2: a = (long)gc[i] * hk_range(0, (ed[i] - 1) / gc[i]); break;
                    default: a = (long)gc[i] * hk_range(0, (ed[i] - 1) / gc[i]) + gc[i] - 1; if (a >= ed[i]) a = ed[i] - 1; break;
                }
                e = e * ed[i] + a;
            }
            break;
        }
        default: e = hk_range(0, total_elems - 1); break;
    }
    long p = e * nt;
    if (!aligned) p += hk_range(0, nt - 1);
    return (int32)p;
}

static void unit_ops(void)
{
    int32 sbi[MAXR], spb[MAXR], arr[MAXR], sbi2[MAXR], spb2[MAXR];
    int   n = (int)hk_range(2, 6);
    for (int t = 0; t < n; t++) {
        int32 sloc = pick_pos(hk_chance(70));
        if (hk_chance(8)) sloc += (int32)(total_bytes * hk_range(1, 2)); /* beyond the end: wraps in the slowest dim */
        do_ucis(sloc, sbi, spb);
        int32 cn = do_cnum(sbi), sk = do_sic(spb);
        if (cn < 0 || cn >= npages) hk_fail("chunk-num-range", "chunk_num %d of %d", (int)cn, (int)npages);
        if (sk < 0 || sk + nt > chunk_bytes) hk_fail("chunk-seek-range", "seek %d chunk bytes %d", (int)sk, (int)chunk_bytes);
        do_c2a(sbi, spb, arr);
        int32 us = do_a2s(arr);
        if (sloc < total_bytes) {
            if (us != sloc / nt * nt) hk_fail("chunk-roundtrip", "sloc %d -> array -> seek %d", (int)sloc, (int)us);
            update_chunk_indices_seek(us, rank, nt, sbi2, spb2, dd);
            if (memcmp(sbi, sbi2, sizeof(int32) * rank) || memcmp(spb, spb2, sizeof(int32) * rank)) hk_fail("chunk-roundtrip2", "sloc %d", (int)sloc);
        }
        int32 len = (int32)hk_range(1, total_bytes), done = (int32)hk_range(0, len - 1);
        if (hk_chance(30)) done = 0;
        int32 cs = do_cfc(len, done, sbi, spb);
        if (cs <= 0 || cs > len - done) hk_fail("chunk-piece-range", "chunk_size %d len %d done %d", (int)cs, (int)len, (int)done);
    }
    /* arbitrary (possibly ghost) chunk coordinates */
    for (int t = 0; t < 2; t++) {
        for (int i = 0; i < rank; i++) {
            sbi[i] = (int32)hk_range(0, dd[i].num_chunks - 1);
            if (hk_chance(40)) sbi[i] = dd[i].num_chunks - 1;
            spb[i] = (int32)hk_range(0, gc[i] - 1);
            if (hk_chance(10)) spb[i] = gc[i] + (int32)hk_range(0, 1);
        }
        do_c2a(sbi, spb, arr);
        do_cnum(sbi);
        do_sic(spb);
        int32 len = (int32)hk_range(1, total_bytes);
        do_cfc(len, (int32)hk_range(0, len), sbi, spb);
    }
    /* update_seek_pos_chunk */
    for (int t = 0; t < 2; t++) {
        int32 cseek = (int32)hk_range(0, chunk_bytes + (hk_chance(20) ? chunk_bytes : 0));
        if (t == 0 && hk_chance(50)) cseek = (int32)chunk_bytes;
        update_seek_pos_chunk(cseek, rank, nt, spb, dd);
        HDR("usp"); printf("%d %d => ", nt, (int)cseek); plist(spb, rank); putchar('\n');
    }
    /* position after whole-chunk I/O (HMCreadChunk / HMCwriteChunk tail) */
    {
        int32 origin[MAXR], posn = -1;
        for (int i = 0; i < rank; i++) origin[i] = (int32)hk_range(0, dd[i].num_chunks - 1);
        update_seek_pos_chunk((int32)chunk_bytes, rank, nt, spb, dd);
        compute_chunk_to_array(origin, spb, arr, rank, dd);
        compute_array_to_seek(&posn, arr, nt, rank, dd);
        HDR("cioposn"); printf("%d ", nt); plist(origin, rank); printf(" => %d\n", (int)posn);
    }
    /* exhaustive injectivity of element -> (chunk, seek) for this geometry */
    if (npages * chunk_elems <= MAXBYTES) {
        memset(seen, 0, (size_t)(npages * chunk_elems));
        for (long e = 0; e < total_elems; e++) {
            int32 cn, sk;
            update_chunk_indices_seek((int32)(e * nt), rank, nt, sbi, spb, dd);
            calculate_chunk_num(&cn, rank, sbi, dd);
            calculate_seek_in_chunk(&sk, rank, nt, spb, dd);
            long slot = (long)cn * chunk_elems + sk / nt;
            if (cn < 0 || cn >= npages || sk < 0 || sk % nt || sk / nt >= chunk_elems) { hk_fail("chunk-addr-range", "e=%ld chunk %d seek %d", e, (int)cn, (int)sk); break; }
            if (seen[slot]) { hk_fail("chunk-addr-inj", "e=%ld collides at chunk %d seek %d", e, (int)cn, (int)sk); break; }
            seen[slot] = 1;
        }
        hk_stat("inj_elems", total_elems);
    }
}

/* replay of the HMCPread / HMCPwrite loop with the real static functions */
static void walk_op(int32 pos, int32 len, int check)
{
    int32 sbi[MAXR], spb[MAXR];
    int32 relative_posn = pos, bytes_read = 0, read_len = len, chunk_num, chunk_size, read_seek, elem_off;
    int   first = 1, guard = 0;
    HDR("walk"); printf("%d %d %d => ", nt, (int)pos, (int)len);
    update_chunk_indices_seek(pos, rank, nt, sbi, spb, dd);
    while (bytes_read < read_len) {
        calculate_chunk_num(&chunk_num, rank, sbi, dd);
        elem_off = relative_posn % nt; /* as in the HMCPread/HMCPwrite loops: a transfer may start inside an element */
        calculate_chunk_for_chunk(&chunk_size, rank, nt, read_len + elem_off, bytes_read, sbi, spb, dd);
        chunk_size -= elem_off;
        calculate_seek_in_chunk(&read_seek, rank, nt, spb, dd);
        read_seek += elem_off; /* chk_dptr += read_seek + elem_off */
        if (chunk_size <= 0 || ++guard > 100000) break; /* the library would not terminate */
        printf(first ? "%d:%d:%d:%d" : ",%d:%d:%d:%d", (int)relative_posn, (int)chunk_num, (int)read_seek, (int)chunk_size);
        first = 0;
        if (check && (read_seek < 0 || read_seek + chunk_size > chunk_bytes || chunk_num < 0 || chunk_num >= npages))
            hk_fail("chunk-walk-range", "piece chunk %d seek %d size %d", (int)chunk_num, (int)read_seek, (int)chunk_size);
        bytes_read += chunk_size;
        relative_posn += chunk_size;
        update_chunk_indices_seek(relative_posn, rank, nt, sbi, spb, dd);
    }
    if (first) putchar('-');
    putchar('\n');
    if (bytes_read != read_len) hk_fail("chunk-walk-cover", "pos %d len %d covered %d", (int)pos, (int)len, (int)bytes_read);
    hk_stat("walk_pieces", guard);
}

static void walk_ops(void)
{
    int n = (int)hk_range(2, 5);
    for (int t = 0; t < n; t++) {
        int32 pos = pick_pos(hk_chance(60)), len;
        long  row = (long)gc[rank - 1] * nt, room = total_bytes - pos;
        switch ((int)hk_range(0, 5)) {
            case 0: len = (int32)room; break;
            case 1: len = (int32)(row * hk_range(1, 3)); break;
            case 2: len = (int32)(ed[rank - 1] * nt * hk_range(1, 2)); break;
            case 3: len = (int32)hk_range(1, nt); break;
            default: len = (int32)hk_range(1, room); break;
        }
        if (len > room) len = (int32)room;
        if (len < 1) len = 1;
        walk_op(pos, len, 1);
    }
    if (exh) { /* every start (aligned or not) and every length that stays inside the element */
        for (int32 pos = 0; pos < total_bytes; pos++)
            for (int32 len = 1; len <= total_bytes - pos; len++) walk_op(pos, len, 1);
        hk_stat("exh_geometries", 1);
    }
    if (hk_chance(25)) { /* past the end (the bare walk wraps there; HMCPwrite refuses, HMCPread clamps): model tie only */
        int32 pos = pick_pos(0) + (hk_chance(30) ? (int32)total_bytes : 0);
        walk_op(pos, (int32)hk_range(1, total_bytes + 8), 0);
    }
}

/* ------------------------------------------------------------------ API level */
static int32      fid = FAIL, aid = FAIL;
static const char *path;
static int         quirk; /* also generate seeks/transfers past the end and negative arguments */
#define TAG 1020
#define REF 2

static int32 cur_posn(void)
{
    accrec_t *ar = HAatom_object(aid);
    return ar ? ar->posn : -1;
}
static void api_seek(int32 off, int origin)
{
    int r = Hseek(aid, off, origin);
    printf("T chunk api_seek %d %d => ", (int)off, origin);
    if (r == FAIL) printf("fail\n"); else printf("%d\n", (int)cur_posn());
}
/* full-strength byte-array oracle after an operation that left the theorems' precondition: the whole element must
 * equal the shadow (what a flat byte array would hold). On a mismatch the shadow is re-synchronised with the file so
 * that later checks stay meaningful. */
static void verify_whole(const char *key, const char *what, int32 pos, int32 len)
{
    if (Hseek(aid, 0, DF_START) == FAIL) { hk_fail("chunk-api-seek", "rewind"); return; }
    printf("T chunk api_seek 0 0 => %d\n", (int)cur_posn());
    int32 r = Hread(aid, (int32)total_bytes, rbuf);
    printf("T chunk api_read %d => ", (int)total_bytes);
    if (r == FAIL) printf("fail\n"); else { hk_hex(rbuf, (size_t)r); printf(" %d\n", (int)cur_posn()); }
    if (r != total_bytes) { hk_fail("chunk-api-read-count", "whole read = %d", (int)r); return; }
    if (memcmp(rbuf, shadow, (size_t)total_bytes)) {
        int i; for (i = 0; i < total_bytes && rbuf[i] == shadow[i]; i++) {}
        hk_fail(key, "%s at byte %d len %d (element %ld bytes, nt_size %d): element differs from a flat byte array at byte %d (got %02x want %02x) dims %s cdims %s",
                what, (int)pos, (int)len, total_bytes, nt, i, rbuf[i], shadow[i], sdims, scdims);
        memcpy(shadow, rbuf, (size_t)total_bytes);
    }
}
static void api_write(int32 len)
{
    int32 pos = cur_posn();
    for (int i = 0; i < len; i++) wbuf[i] = hk_byte();
    int32 r = Hwrite(aid, len, wbuf);
    printf("T chunk api_write "); hk_hex(wbuf, (size_t)len); printf(" => ");
    if (r == FAIL) printf("fail\n"); else printf("%d %d\n", (int)r, (int)cur_posn());
    if (pos + len <= total_bytes) { /* fits: any start position, any length */
        if (r != len) { hk_fail(pos % nt ? "chunk-unaligned-access" : "chunk-api-write", "Hwrite(%d)@%d = %d (nt_size %d)", (int)len, (int)pos, (int)r, nt); return; }
        memcpy(shadow + pos, wbuf, (size_t)len);
        if (pos % nt) verify_whole("chunk-unaligned-access", "Hwrite", pos, len);
        return;
    }
    /* does not fit into the fixed-size element: must be refused, and whatever the return value nothing outside
       [pos, pos+len) may change (a flat byte array would take the bytes that fall inside it) */
    if (r != FAIL) {
        hk_fail("chunk-write-past-end", "Hwrite(%d)@%d on an element of %ld bytes returned %d, not FAIL", (int)len, (int)pos, total_bytes, (int)r);
        for (int i = 0; i < len && pos + i < total_bytes; i++) shadow[pos + i] = wbuf[i];
    }
    else if (cur_posn() != pos) hk_fail("chunk-write-past-end", "refused Hwrite moved posn %d -> %d", (int)pos, (int)cur_posn());
    verify_whole("chunk-write-past-end", "Hwrite", pos, len);
}
static void api_read(int32 len)
{
    int32 pos = cur_posn();
    int32 want = len == 0 ? (int32)(total_bytes - pos) : len;
    if (pos + want > total_bytes) want = (int32)(total_bytes - pos);
    if (want < 0) want = 0;
    memset(rbuf, 0xA5, (size_t)want + 8);
    int32 r = Hread(aid, len, rbuf);
    printf("T chunk api_read %d => ", (int)len);
    if (r == FAIL) printf("fail\n"); else { hk_hex(rbuf, (size_t)(r > 0 ? r : 0)); printf(" %d\n", (int)cur_posn()); }
    if (len < 0) { if (r != FAIL) hk_fail("chunk-api-read-neg", "Hread(%d) = %d", (int)len, (int)r); return; }
    if (rbuf[want] != 0xA5) hk_fail("chunk-api-overrun", "Hread(%d)@%d wrote past the buffer", (int)len, (int)pos);
    if (r != want) { hk_fail("chunk-api-read-count", "Hread(%d)@%d = %d want %d", (int)len, (int)pos, (int)r, (int)want); return; }
    if (want > 0 && memcmp(rbuf, shadow + pos, (size_t)want)) {
        int i; for (i = 0; i < want && rbuf[i] == shadow[pos + i]; i++) {}
        hk_fail(pos % nt ? "chunk-unaligned-access" : "chunk-api-read-data",
                "Hread at byte %d len %d (nt_size %d) differs from a flat byte array at +%d (got %02x want %02x) dims %s cdims %s", (int)pos, (int)want, nt, i, rbuf[i], shadow[pos + i], sdims, scdims);
    }
}
static void set_cache(void)
{
    if (hk_chance(60)) {
        int32 mc = (int32)hk_range(1, 3);
        if (HMCsetMaxcache(aid, mc, 0) == FAIL) hk_fail("chunk-api-maxcache", "HMCsetMaxcache(%d)", (int)mc);
        hk_stat("maxcache_set", 1);
    }
}
static int api_reopen(int reads_only)
{
    if (Hendaccess(aid) == FAIL) { hk_fail("chunk-api-endaccess", "Hendaccess"); return -1; }
    if (hk_chance(50)) {
        if (Hclose(fid) == FAIL) { hk_fail("chunk-api-close", "Hclose"); return -1; }
        fid = Hopen(path, reads_only && hk_chance(50) ? DFACC_READ : DFACC_RDWR, 0);
        if (fid == FAIL) { hk_fail("chunk-api-open", "Hopen after close"); return -1; }
        hk_stat("file_reopen", 1);
    }
    aid = reads_only ? Hstartread(fid, TAG, REF) : Hstartwrite(fid, TAG, REF, (int32)total_bytes);
    if (aid == FAIL) { hk_fail("chunk-api-restart", "Hstart%s", reads_only ? "read" : "write"); return -1; }
    printf("T chunk api_reopen => ok\n");
    int32 len = -1; int16 sp = 0;
    if (Hinquire(aid, NULL, NULL, NULL, &len, NULL, NULL, NULL, &sp) == FAIL || len != total_bytes || sp != SPECIAL_CHUNKED)
        hk_fail("chunk-api-inquire", "length %d want %d special %d", (int)len, (int)total_bytes, (int)sp);
    set_cache();
    return 0;
}

static int32 pick_len(int32 pos)
{
    long room = total_bytes - pos, row = (long)gc[rank - 1] * nt, len;
    switch ((int)hk_range(0, 6)) {
        case 0: len = room; break;
        case 1: len = row; break;
        case 2: len = (long)ed[rank - 1] * nt; break;
        case 3: len = hk_range(1, nt); break;
        case 4: len = chunk_bytes; break;
        default: len = hk_range(1, room > 64 && hk_chance(60) ? 64 : room); break;
    }
    if (len > room) len = room;
    if (len < 1) len = 1;
    return (int32)len;
}

static void api_ops(void)
{
    int nops = (int)hk_range(4, 18);
    for (int s = 0; s < nops && aid != FAIL; s++) {
        int32 posn = cur_posn();
        int   act  = (int)hk_range(0, 99);
        if (act < 8) { if (api_reopen(0) < 0) return; continue; }
        if (!quirk) {
            /* choose where: stay if the current position is inside, else seek (any byte position, 35% unaligned) */
            if (posn >= total_bytes || hk_chance(70)) {
                int32 to = pick_pos(hk_chance(65));
                int   origin = (int)hk_range(0, 9);
                if (origin == 1) api_seek(to - posn, DF_CURRENT);
                else if (origin == 2) api_seek(to - (int32)total_bytes, DF_END);
                else api_seek(to, DF_START);
                posn = cur_posn();
                if (posn != to) { hk_fail("chunk-api-seek", "seek to %d gave %d", (int)to, (int)posn); return; }
            }
            if (act < 55) api_write(pick_len(posn));
            else if (act < 60) api_read(0);
            else api_read(pick_len(posn));
        }
        else {
            /* anything goes: unaligned, past the end, negative */
            switch ((int)hk_range(0, 5)) {
                case 0: api_seek((int32)hk_range(-4, total_bytes + 2 * nt), DF_START); break;
                case 1: api_seek((int32)hk_range(-(long)posn - 2, 6), DF_CURRENT); break;
                case 2: api_seek((int32)hk_range(-total_bytes - 2, 4), DF_END); break;
                case 3: api_write((int32)hk_range(1, hk_chance(30) ? total_bytes + 4 : 12)); break;
                case 4: api_read((int32)hk_range(-1, 12)); break;
                default: api_read((int32)hk_range(0, total_bytes + 4)); break;
            }
        }
    }
}

static void run_case(int k)
{
    HCHUNK_DEF c;
    DIM_DEF    pd[MAXR];
    uint8_t    fill[8];
    (void)k;
    path = hk_tmp("k.hdf");
    if (exh) gen_geometry_exh(k); else gen_geometry();
    for (int i = 0; i < nt; i++) fill[i] = hk_byte();
    memset(&c, 0, sizeof c);
    c.num_dims = rank; c.nt_size = nt; c.chunk_size = (int32)chunk_elems; c.pdims = pd;
    c.comp_type = COMP_CODE_NONE; c.model_type = COMP_MODEL_STDIO;
    for (int i = 0; i < rank; i++) { pd[i].dim_length = gd[i]; pd[i].chunk_length = gc[i]; pd[i].distrib_type = 1; }
    fid = Hopen(path, DFACC_CREATE, 0);
    if (fid == FAIL) { hk_fail("chunk-api-create", "Hopen"); return; }
    aid = HMCcreate(fid, TAG, REF, 1, nt, fill, &c);
    if (aid == FAIL) { hk_fail("chunk-api-create", "HMCcreate dims %s cdims %s", sdims, scdims); Hclose(fid); return; }
    accrec_t    *ar   = HAatom_object(aid);
    chunkinfo_t *info = (chunkinfo_t *)ar->special_info;
    /* private copy of the DIM_REC array the library built (the element may be closed/reopened below) */
    static DIM_REC ddcopy[MAXR];
    memcpy(ddcopy, info->ddims, sizeof(DIM_REC) * (size_t)rank);
    dd = ddcopy;
    for (int i = 0; i < rank; i++)
        printf("T chunk dimrec %d %d => %d %d %d %d\n", (int)gd[i], (int)gc[i], (int)dd[i].dim_length, (int)dd[i].chunk_length, (int)dd[i].num_chunks, (int)dd[i].last_chunk_length);
    if (info->length != total_elems) hk_fail("chunk-length", "info->length %d want %ld", (int)info->length, total_elems);
    printf("T chunk api_new %s %s %d ", sdims, scdims, nt); hk_hex(fill, (size_t)nt); printf(" => %d %ld\n", (int)(info->length * info->nt_size), npages);
    for (long i = 0; i < total_bytes; i++) shadow[i] = fill[i % nt];
    hk_stat("rank", rank); hk_stat("elems", total_elems);
    { int nd = 0; for (int i = 0; i < rank; i++) if (ed[i] % gc[i]) nd++; hk_stat("nondividing_dims", nd); }

    unit_ops();
    walk_ops();

    set_cache();
    quirk = 0;
    api_ops();
    if (aid != FAIL && hk_chance(12)) { quirk = 1; hk_stat("quirk_cases", 1); api_ops(); }
    /* final: whole element after Hendaccess (+ close/reopen), read access */
    if (aid != FAIL && api_reopen(1) == 0) {
        api_seek(0, DF_START);
        api_read((int32)total_bytes);
        /* and once more in pieces from random places */
        for (int t = 0; t < 3; t++) { int32 to = pick_pos(hk_chance(60)); api_seek(to, DF_START); api_read(pick_len(to)); }
    }
    if (aid != FAIL) Hendaccess(aid);
    if (fid != FAIL && Hclose(fid) == FAIL) hk_fail("chunk-api-close", "final Hclose");
    aid = fid = FAIL;
    if (k % 50 == 0) printf("SAMPLE chunk dims=%s cdims=%s nt=%d total=%ld chunks=%ld\n", sdims, scdims, nt, total_bytes, npages);
}

int main(int argc, char **argv)
{
    if (argc > 4 && strcmp(argv[4], "exh") == 0) exh = 1;
    return hk_main(argc, argv, "chunk");
}
