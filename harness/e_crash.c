/* e_crash - C17: crash while adding objects.  For an append-only session on a pre-populated file the ordered
 * log of physical writes (stream offset, bytes) is recorded through the stdio interposition (unbuffered stream:
 * each library write is one physical write).  Then
 *  (1) no write issued before the descriptor flush starts (the first write into a pre-existing descriptor block; at the latest the
 *      flushing call Hclose/Hsync/Vend/SDend/GRend/ANend for sessions that flush nothing) may start below E0 =
 *      end of everything stored before the session (max over descriptor blocks and element extents, computed
 *      by an independent DD-chain parser in this file)            key crash-early-overwrite:<workload>:<api>
 *  (2) for EVERY prefix of the log the image (old file + prefix) is materialised and, in a forked child,
 *      opened with the library and every pre-existing descriptor's element is read back and compared with
 *      the pre-session content.  For workloads that only add low-level elements / Vdatas / Vgroups /
 *      annotations (flush_safe) all prefixes are checked, for the others (SD, GR: metadata is replaced at
 *      close) the prefixes that end before the descriptor flush starts (also those inside SDend/GRend).
 *                                      keys crash-unopenable:<workload>, crash-old-object-damaged:<workload>
 * Cases 0..NW-1: the append-only workloads of workloads.h; cases >= NW: seeded random H-level sessions
 * (ndds in {4,5,7,16}, 1..14 new elements incl. linked-block and compressed ones => 0..3 new DD blocks).
 */
#include "wrap.h"
#include "workloads.h"
#include "hk.h"
#include <sys/wait.h>
#include <fcntl.h>

static unsigned char *slurp(const char *p, long *n)
{
    FILE *f = __real_fopen(p, "rb"); if (!f) { *n = -1; return NULL; }
    __real_fseek(f, 0, SEEK_END); *n = __real_ftell(f); __real_fseek(f, 0, SEEK_SET);
    unsigned char *b = malloc((size_t)*n + 1); if (__real_fread(b, 1, (size_t)*n, f) != (size_t)*n) { *n = -1; } __real_fclose(f); return b;
}
static void spit(const char *p, const unsigned char *b, long n)
{
    FILE *f = __real_fopen(p, "wb"); if (!f) return; __real_fwrite(b, 1, (size_t)n, f); __real_fclose(f);
}
static uint32_t be32(const unsigned char *p) { return ((uint32_t)p[0] << 24) | ((uint32_t)p[1] << 16) | ((uint32_t)p[2] << 8) | p[3]; }
static uint32_t be16(const unsigned char *p) { return ((uint32_t)p[0] << 8) | p[1]; }

/* independent parser: end of everything stored (DD blocks and element extents) */
static long stored_end(const unsigned char *b, long n)
{
    long end = 4, off = 4; int guard = 0;
    if (n < 4 || b[0] != 0x0e || b[1] != 0x03 || b[2] != 0x13 || b[3] != 0x01) return -1;
    while (off != 0 && guard++ < 10000) {
        if (off + 6 > n) return -1;
        long ndds = be16(b + off), next = (long)be32(b + off + 2);
        long bend = off + 6 + 12 * ndds; if (bend > n) return -1;
        if (bend > end) end = bend;
        for (long i = 0; i < ndds; i++) {
            const unsigned char *d = b + off + 6 + 12 * i;
            uint32_t tag = be16(d); int32_t o = (int32_t)be32(d + 4), l = (int32_t)be32(d + 8);
            if (tag == 1 /* DFTAG_NULL */ || o < 0 || l < 0) continue;
            if ((long)o + l > end) end = (long)o + l;
        }
        off = next;
    }
    return end;
}

/* is [off, off+len) inside a descriptor block of the image?  (a write there is the descriptor FLUSH) */
static int in_dd_block(const unsigned char *b, long n, long woff, long wlen)
{
    long off = 4; int guard = 0;
    while (off != 0 && guard++ < 10000) {
        if (off + 6 > n) return 0;
        long ndds = be16(b + off), next = (long)be32(b + off + 2);
        long bend = off + 6 + 12 * ndds;
        if (woff >= off && woff + wlen <= bend) return 1;
        off = next;
    }
    return 0;
}

typedef struct { uint16 tag, ref; int32 len; unsigned long sum; } objrec;
static int snapshot(const char *path, objrec *out, int cap)
{
    int n = 0; int32 fid = Hopen(path, DFACC_READ, 0); if (fid == FAIL) return -1;
    uint16 t = 0, r = 0; int32 o, l;
    static uint8 buf[1 << 20];
    while (Hfind(fid, DFTAG_WILDCARD, DFREF_WILDCARD, &t, &r, &o, &l, DF_FORWARD) != FAIL && n < cap) {
        if (t == DFTAG_NULL) continue;
        out[n].tag = t; out[n].ref = r; out[n].len = -1; out[n].sum = 0;
        if (l > 0 || ((~t & 0x8000) && (t & 0x4000))) {
            int32 aid = Hstartread(fid, t, r);
            if (aid != FAIL) {
                int32 ln = 0; Hinquire(aid, NULL, NULL, NULL, &ln, NULL, NULL, NULL, NULL);
                if (ln > 0 && ln <= (int32)sizeof buf) { int32 g = Hread(aid, ln, buf); out[n].len = g; for (int i = 0; i < g; i++) out[n].sum = out[n].sum * 131 + buf[i]; }
                else out[n].len = ln;
                Hendaccess(aid);
            }
        }
        else out[n].len = l;
        n++;
    }
    Hclose(fid);
    return n;
}

static int is_closer(const char *api)
{
    static const char *c[] = {"Hclose", "Hsync", "Vend", "SDend", "GRend", "ANend", NULL};
    for (int i = 0; c[i]; i++) if (strcmp(api, c[i]) == 0) return 1;
    return 0;
}

/* per-write API context, recorded next to the write log */
static char (*wctx)[24]; static long wctx_cap;

/* random H-level append-only session */
static int rnd_ndds;
static int prep_rand(const char *path)
{
    uint8 b[400]; int32 fid = Hopen(path, DFACC_CREATE, (int16)rnd_ndds); if (fid == FAIL) return -1;
    int n = (int)hk_range(1, 6);
    for (int i = 0; i < n; i++) { wl_fill(b, 400, 70 + i); Hputelement(fid, (uint16)(3000 + i % 2), (uint16)(i + 1), b, (int32)hk_range(1, 400)); }
    if (hk_chance(50)) { int32 aid = HLcreate(fid, 3100, 1, (int32)hk_range(8, 64), (int32)hk_range(1, 3)); wl_fill(b, 400, 80); Hwrite(aid, (int32)hk_range(1, 300), b); Hendaccess(aid); }
    /* descriptors that bring no data of their own (aliases made by Hdupdd, as DFPaddpal / GR palettes do): enough of them open a new
       descriptor block that is then the LAST thing in the file - the end of stored data is the end of that block, not of an element */
    if (hk_chance(50)) { int m = (int)hk_range(1, rnd_ndds + 2); for (int j = 0; j < m; j++) Hdupdd(fid, 3500, (uint16)(j + 1), 3000, 1); }
    return Hclose(fid);
}
static int run_rand(const char *path)
{
    uint8 b[600]; int32 fid; wl_nfail = 0;
    CKID(fid, Hopen(path, DFACC_RDWR, 0));
    int n = (int)hk_range(1, 14);
    for (int i = 0; i < n; i++) {
        wl_fill(b, 600, 90 + i);
        int kind = (int)hk_range(0, 9);
        if (kind < 6) CK(Hputelement(fid, 3200, (uint16)(i + 1), b, (int32)hk_range(1, 600)));
        else if (kind < 8) { int32 aid; ID(aid, HLcreate(fid, 3300, (uint16)(i + 1), (int32)hk_range(4, 64), (int32)hk_range(1, 3))); if (aid == FAIL) wl_nfail++; else { CK(Hwrite(aid, (int32)hk_range(1, 400), b)); CK(Hendaccess(aid)); } }
        else { int32 aid; ID(aid, Hstartwrite(fid, 3400, (uint16)(i + 1), (int32)hk_range(10, 300))); if (aid == FAIL) wl_nfail++; else { CK(Hwrite(aid, 10, b)); CK(Hendaccess(aid)); } }
        if (hk_chance(10)) CK(Hsync(fid));
    }
    CK(Hclose(fid));
done: return wl_nfail;
}

static int check_image(const char *img, const objrec *old, int nold, char *what, size_t wn)
{
    /* child: open + read back every old object */
    fflush(stdout);
    int pfd[2]; if (pipe(pfd)) return 3;
    pid_t pid = fork();
    if (pid == 0) {
        close(pfd[0]);
        int dn = open("/dev/null", O_WRONLY); if (dn >= 0) { dup2(dn, 2); close(dn); }
        wr_enabled = 0;
        static objrec now[4096];
        char msg[200] = "";
        int rc = 0, n = snapshot(img, now, 4096);
        if (n < 0) { rc = 1; snprintf(msg, sizeof msg, "Hopen failed"); }
        else
            for (int i = 0; i < nold && !rc; i++) {
                int found = 0;
                for (int j = 0; j < n; j++)
                    if (now[j].tag == old[i].tag && now[j].ref == old[i].ref) { found = 1; if (now[j].len != old[i].len || now[j].sum != old[i].sum) { rc = 2; snprintf(msg, sizeof msg, "object %u/%u differs (len %d vs %d)", old[i].tag, old[i].ref, (int)now[j].len, (int)old[i].len); } break; }
                if (!found) { rc = 2; snprintf(msg, sizeof msg, "object %u/%u missing", old[i].tag, old[i].ref); }
            }
        if (write(pfd[1], msg, sizeof msg) < 0) _exit(9);
        _exit(rc);
    }
    close(pfd[1]);
    char msg[200] = ""; long g = read(pfd[0], msg, sizeof msg); (void)g; close(pfd[0]);
    int st = 0; waitpid(pid, &st, 0);
    snprintf(what, wn, "%s", msg);
    if (WIFSIGNALED(st)) { snprintf(what, wn, "library crashed (signal %d) on the image", WTERMSIG(st)); return 1; }
    if (WIFEXITED(st) && WEXITSTATUS(st) == 99) { snprintf(what, wn, "sanitizer report while reading the image"); return 1; }
    return WIFEXITED(st) ? WEXITSTATUS(st) : 3;
}

static void run_case(int k)
{
    static const workload_t *ao[NWORKLOADS]; int nao = 0;
    for (int i = 0; i < NWORKLOADS; i++) if (WORKLOADS[i].append_only) ao[nao++] = &WORKLOADS[i];
    workload_t rnd = {"h_rand", prep_rand, run_rand, 1, 1, 0};
    const workload_t *w;
    if (k < nao) w = ao[k]; else { w = &rnd; static const int nd[] = {4, 5, 7, 16}; rnd_ndds = HK_PICK(nd); }
    char path[600], img[600];
    snprintf(path, sizeof path, "%s", hk_tmp("c.hdf")); snprintf(img, sizeof img, "%s", hk_tmp("img.hdf"));
    unlink(path);
    wr_enabled = 0;
    if (w->prep(path) == FAIL) { hk_fail("crash-prep", "%s", w->name); return; }
    long n0; unsigned char *base = slurp(path, &n0);
    long E0 = stored_end(base, n0);
    if (E0 < 0) { hk_fail("crash-parse", "%s: the pre-session file does not parse", w->name); free(base); return; }
    static objrec old[4096]; int nold = snapshot(path, old, 4096);
    if (nold < 0) { hk_fail("crash-prep", "%s snapshot", w->name); free(base); return; }

    /* the session, with write logging; remember the API context of every write */
    wr_reset(); wr_keep_bytes = 1; wr_enabled = 1;
    long before = 0;
    /* hook: record ctx lazily after the run from wr_log order using a parallel array filled by polling is not
       possible; instead run the session in slices: wrap.h logs wr_ctx pointer per write through wr_log[].stream
       high bits.  Simpler: keep a second pass - see wr_ctx_of() below. */
    int nf = w->run(path);
    wr_enabled = 0;
    (void)before;
    if (nf != 0) { hk_fail("crash-session-fails", "%s: %d API failures in the fault-free session", w->name, nf); free(base); return; }
    long nw = wr_nlog;
    printf("INFO workload=%s E0=%ld file0=%ld writes=%ld old_objects=%d\n", w->name, E0, n0, nw, nold);
    hk_stat("sessions", 1); hk_stat("writes", nw);

    /* (1) early overwrite: until the descriptor flush starts (the first write into a descriptor block that existed before the session -
       wherever that happens, also INSIDE SDend/GRend/Vend/Hclose) every write must lie at or beyond E0 */
    long first_closer = nw, first_flush = nw;
    for (long j = 0; j < nw; j++) if (is_closer(wr_log[j].ctx)) { first_closer = j; break; }
    for (long j = 0; j < nw; j++) if (in_dd_block(base, n0, wr_log[j].off, wr_log[j].len)) { first_flush = j; break; }
    if (first_flush < first_closer) first_closer = first_flush;      /* an explicit Hsync-less flush: never count writes after it as "early" */
    long early_limit = first_flush > first_closer ? first_flush : first_closer;
    for (long j = 0; j < early_limit; j++)
        if (wr_log[j].off < E0) { char key[128]; snprintf(key, sizeof key, "crash-early-overwrite:%s:%s", w->name, wr_log[j].ctx); hk_fail(key, "write %ld of %ld (off %ld len %ld) lands below E0=%ld before the descriptor flush (first flush write %ld, first flushing call at write %ld)", j, nw, wr_log[j].off, wr_log[j].len, E0, first_flush, first_closer); break; }
    hk_stat("writes_before_flush", early_limit);

    /* (2) prefix images */
    long cap = n0 + 16; for (long j = 0; j < nw; j++) if (wr_log[j].off + wr_log[j].len + 16 > cap) cap = wr_log[j].off + wr_log[j].len + 16;
    unsigned char *im = calloc(1, (size_t)cap); memcpy(im, base, (size_t)n0); long ilen = n0;
    long limit = w->flush_safe ? nw : early_limit;     /* SD/GR sessions: every image up to the start of the descriptor flush */
    int bad_open = 0, bad_obj = 0;
    for (long j = 0; j <= limit; j++) {
        if (j > 0) { wr_rec *r = &wr_log[j - 1]; if (r->len > 0) { memcpy(im + r->off, r->bytes, (size_t)r->len); if (r->off + r->len > ilen) ilen = r->off + r->len; } }
        spit(img, im, ilen);
        char what[256]; int rc = check_image(img, old, nold, what, sizeof what);
        hk_stat("prefix_images", 1);
        if (rc == 1 && !bad_open) { char key[96]; snprintf(key, sizeof key, "crash-unopenable:%s", w->name); hk_fail(key, "prefix %ld of %ld writes (last write off %ld len %ld in %s): %s", j, nw, j ? wr_log[j - 1].off : 0, j ? wr_log[j - 1].len : 0, j ? wr_log[j - 1].ctx : "-", what); bad_open = 1; }
        if (rc == 2 && !bad_obj) { char key[96]; snprintf(key, sizeof key, "crash-old-object-damaged:%s", w->name); hk_fail(key, "prefix %ld of %ld writes (last write off %ld len %ld in %s): %s", j, nw, j ? wr_log[j - 1].off : 0, j ? wr_log[j - 1].len : 0, j ? wr_log[j - 1].ctx : "-", what); bad_obj = 1; }
    }
    for (long j = 0; j < nw; j++) { free(wr_log[j].bytes); wr_log[j].bytes = NULL; }
    free(im); free(base);
}

int main(int argc, char **argv) { return hk_main(argc, argv, "crash"); }
