/* e_crash - C17: crash while adding objects.  For an append-only session on a pre-populated file the ordered
 * log of physical writes (stream offset, bytes) is recorded through the stdio interposition (unbuffered stream:
 * each library write is one physical write).  Then
 *  (1) until the descriptor flush starts - the first write of a WHOLE header or a WHOLE descriptor list of a pre-existing descriptor
 *      block (the two writes HTPsync issues per block) inside a flushing call Hclose/Hsync/Vend/SDend/GRend/ANend - no write may start
 *      below E0 = end of everything stored before the session (max over descriptor blocks and element extents, computed by an
 *      independent DD-chain parser in this file)                   key crash-early-overwrite:<workload>:<api>
 *      and a write that changes a single descriptor or the link field of a pre-existing descriptor block in place (write-through: what
 *      the library does with descriptor caching off) is never part of a flush: key crash-write-through:<workload>:<api>
 *  (2) for EVERY prefix of the log the image (old file + prefix) is materialised and, in a forked child,
 *      opened with the library and every pre-existing descriptor's element is read back and compared with
 *      the pre-session content.  For workloads that only add low-level elements / Vdatas / Vgroups /
 *      annotations (flush_safe) all prefixes are checked, for the others (SD, GR: metadata is replaced at
 *      close) the prefixes that end before the descriptor flush starts (also those inside SDend/GRend).
 *                                      keys crash-unopenable:<workload>, crash-old-object-damaged:<workload>
 *  (3) THE STATE OF THE FILE RECORD AT THE START OF THE SESSION.  The session runs in a context: a program of record-level operations
 *      executed before it (and, for the random sessions, in the middle of it) and undone after it -
 *        o<i><r|w>  one more id on the same path, read-only or read/write, through Hopen (h), SDstart (s), Hopen+Vstart (v),
 *                   Hopen+GRstart (g), Hopen+ANstart (a);  x<k> close the k-th of them;  r<k> read through it (directory walk, tag
 *                   counts, Vgroup/Vdata/SDS/image enumeration: builds the tag trees and interface tables);
 *        c<k><0|1>  Hcache on that id;  C<0|1>  Hcache(CACHE_ALL_FILES)
 *      so that the session's own open finds no record, the record of a reader (same Hopen table entry, upgraded to write access), of
 *      an idle writer, of several ids, of an interface that is already started, one that was released by an earlier session of the
 *      process, one whose caching was switched off and on again.  Every context ends with descriptor caching ON for the record (the
 *      premise "default descriptor caching" of the property); the writes of the session AND of the closing calls of the other ids are
 *      one log, judged by (1) and (2).  The record (refcount, write access, cache flag; found by path in the file-id group) is printed
 *      after every context operation, at the FIRST PHYSICAL WRITE of the session (`sopen`) and after its last call (`sclose`) as T lines:
 *          T crash open <i> <r|w> | close <i> | cache <0|1> | sopen | sclose  =>  <refcount> <write> <cache> | none     T crash cacheall <0|1> => ok
 *      h4model (H4.DDOpen.OpenTab, driver H4.Driver.Crash) recomputes them: the hypothesis `cache = true` of the C17 theorems is checked
 *      against the implementation at the start of every session.  Implementation-side: no write of the session may be issued with the
 *      record's cache flag off                                     key crash-session-uncached:<workload>
 *      and the context operations before the session must not change the file          key crash-ctx-writes
 * Cases 0..NW-1: the append-only workloads of workloads.h on their own; NW..2NW-1: each of them in a context of the reader-first
 * family; 2NW..3NW-1: each in a context of the other families (idle writer, earlier sessions, cache settings), the contexts rotating with
 * the seed; the next |CX_READER|+|CX_OTHER| cases: EVERY listed context once, around a seeded random H-level session (ndds in {4,5,7,16},
 * free descriptor slots, 1..14 new elements incl. linked-block and compressed ones => 0..3 new DD blocks); all further cases: random H-level
 * sessions in listed or randomly generated contexts, with context operations in mid-session.
 */
#include "wrap.h"
#include "workloads.h"
#include "hfile_priv.h"
#include "hk.h"
#include <sys/wait.h>
#include <fcntl.h>

static unsigned char *slurp(const char *p, long *n)
{
    FILE *f = __real_fopen(p, "rb"); if (!f) { *n = -1; return NULL; }
    __real_fseek(f, 0, SEEK_END); *n = __real_ftell(f); __real_fseek(f, 0, SEEK_SET);
    unsigned char *b = malloc((size_t)*n + 1); if (__real_fread(b, 1, (size_t)*n, f) != (size_t)*n) { *n = -1; } __real_fclose(f); return b;
}
static void spit(const char *p, const unsigned char *b, long n)
{
    FILE *f = __real_fopen(p, "wb"); if (!f) return; __real_fwrite(b, 1, (size_t)n, f); __real_fclose(f);
}
static uint32_t be32(const unsigned char *p) { return ((uint32_t)p[0] << 24) | ((uint32_t)p[1] << 16) | ((uint32_t)p[2] << 8) | p[3]; }
static uint32_t be16(const unsigned char *p) { return ((uint32_t)p[0] << 8) | p[1]; }

/* independent parser: end of everything stored (DD blocks and element extents) */
static long stored_end(const unsigned char *b, long n)
{
    long end = 4, off = 4; int guard = 0;
    if (n < 4 || b[0] != 0x0e || b[1] != 0x03 || b[2] != 0x13 || b[3] != 0x01) return -1;
    while (off != 0 && guard++ < 10000) {
        if (off + 6 > n) return -1;
        long ndds = be16(b + off), next = (long)be32(b + off + 2);
        long bend = off + 6 + 12 * ndds; if (bend > n) return -1;
        if (bend > end) end = bend;
        for (long i = 0; i < ndds; i++) {
            const unsigned char *d = b + off + 6 + 12 * i;
            uint32_t tag = be16(d); int32_t o = (int32_t)be32(d + 4), l = (int32_t)be32(d + 8);
            if (tag == 1 /* DFTAG_NULL */ || o < 0 || l < 0) continue;
            if ((long)o + l > end) end = (long)o + l;
        }
        off = next;
    }
    return end;
}

/* is [off, off+len) inside a descriptor block of the image?  (a write there is the descriptor FLUSH) */
static int in_dd_block(const unsigned char *b, long n, long woff, long wlen)
{
    long off = 4; int guard = 0;
    while (off != 0 && guard++ < 10000) {
        if (off + 6 > n) return 0;
        long ndds = be16(b + off), next = (long)be32(b + off + 2);
        long bend = off + 6 + 12 * ndds;
        if (woff >= off && woff + wlen <= bend) return 1;
        off = next;
    }
    return 0;
}

/* is [off, off+len) exactly the header or exactly the descriptor list of a descriptor block of the image?  These are the two writes HTPsync
   issues for a dirty block; a single descriptor (12 bytes inside the list) or the link field alone (4 bytes at block + 2) is write-through */
static int flush_shaped(const unsigned char *b, long n, long woff, long wlen)
{
    long off = 4; int guard = 0;
    while (off != 0 && guard++ < 10000) {
        if (off + 6 > n) return 0;
        long ndds = be16(b + off), next = (long)be32(b + off + 2);
        if (woff == off && wlen == 6) return 1;
        if (woff == off + 6 && wlen == 12 * ndds) return 1;
        off = next;
    }
    return 0;
}

typedef struct { uint16 tag, ref; int32 len; unsigned long sum; } objrec;
static int snapshot(const char *path, objrec *out, int cap)
{
    int n = 0; int32 fid = Hopen(path, DFACC_READ, 0); if (fid == FAIL) return -1;
    uint16 t = 0, r = 0; int32 o, l;
    static uint8 buf[1 << 20];
    while (Hfind(fid, DFTAG_WILDCARD, DFREF_WILDCARD, &t, &r, &o, &l, DF_FORWARD) != FAIL && n < cap) {
        if (t == DFTAG_NULL) continue;
        out[n].tag = t; out[n].ref = r; out[n].len = -1; out[n].sum = 0;
        if (l > 0 || ((~t & 0x8000) && (t & 0x4000))) {
            int32 aid = Hstartread(fid, t, r);
            if (aid != FAIL) {
                int32 ln = 0; Hinquire(aid, NULL, NULL, NULL, &ln, NULL, NULL, NULL, NULL);
                if (ln > 0 && ln <= (int32)sizeof buf) { int32 g = Hread(aid, ln, buf); out[n].len = g; for (int i = 0; i < g; i++) out[n].sum = out[n].sum * 131 + buf[i]; }
                else out[n].len = ln;
                Hendaccess(aid);
            }
        }
        else out[n].len = l;
        n++;
    }
    Hclose(fid);
    return n;
}

static int is_closer(const char *api)
{
    static const char *c[] = {"Hclose", "Hsync", "Vend", "SDend", "GRend", "ANend", NULL};
    for (int i = 0; c[i]; i++) if (strcmp(api, c[i]) == 0) return 1;
    return 0;
}


/* ------------------------------------------------------------------ (3) the file record and the context of the session */
static const char *cx_path;          /* the file of the case */
static filerec_t  *cx_fr;            /* its record, once known (looked up by path in the file-id group; NULL = not known / released) */
static int  *wcache; static long wcache_cap;     /* per logged write: the record's cache flag when the write was issued (-1 = no record found) */
static int   so_seen, so_rc, so_w, so_c;         /* the record at the first physical write of the session */
static int   so_printed;
static int   cx_in_session;

static filerec_t *cx_lookup(void) { return cx_path ? (filerec_t *)HAsearch_atom(FIDGROUP, HPcompare_filerec_path, cx_path) : NULL; }
/* called inside the wrapped fwrite.  The record is looked up through the library only while it is not known (HAsearch_atom clears the
   error stack: at most once per session, at its first write); afterwards the pointer is read directly. */
static void cx_on_write(long j)
{
    if (j >= wcache_cap) { wcache_cap = wcache_cap ? wcache_cap * 2 : 4096; while (j >= wcache_cap) wcache_cap *= 2; wcache = realloc(wcache, sizeof(int) * (size_t)wcache_cap); }
    if (!cx_fr) cx_fr = cx_lookup();
    wcache[j] = cx_fr ? (cx_fr->cache ? 1 : 0) : -1;
    if (cx_in_session && !so_seen && cx_fr) { so_seen = 1; so_rc = (int)cx_fr->refcount; so_w = (cx_fr->access & DFACC_WRITE) ? 1 : 0; so_c = cx_fr->cache ? 1 : 0; }
}
static void cx_print_state(void)
{
    cx_fr = cx_lookup();
    if (!cx_fr) printf("none\n"); else printf("%d %d %d\n", (int)cx_fr->refcount, (cx_fr->access & DFACC_WRITE) ? 1 : 0, cx_fr->cache ? 1 : 0);
}
/* the `sopen` line belongs in front of every context line issued in mid-session */
static void cx_flush_sopen(void)
{
    if (!cx_in_session || so_printed) return;
    so_printed = 1;
    if (so_seen) printf("T crash sopen => %d %d %d\n", so_rc, so_w, so_c); else { printf("T crash sopen => "); cx_print_state(); }
}

typedef struct { char iface; int write; int32 fid, sub; int live; } held_t;
#define CX_MAXH 8
static held_t held[CX_MAXH]; static int nheld;
static int cx_defcache = 1;          /* what the engine last passed to Hcache(CACHE_ALL_FILES) (the library starts with caching on: Tie A DEFAULT_CACHE) */
static int cx_bad, cx_writer_closed;   /* an id with write access was closed by the context: a complete earlier session, which may store something (GRend does) */

static void cx_open(char iface, int write)
{
    if (nheld >= CX_MAXH) return;
    held_t *h = &held[nheld]; int acc = write ? DFACC_RDWR : DFACC_READ;
    h->iface = iface; h->write = write; h->sub = FAIL; h->live = 0;
    cx_flush_sopen();
    const char *save = wr_ctx; wr_ctx = "ctx-open";
    if (iface == 's') h->fid = SDstart(cx_path, acc);
    else {
        h->fid = Hopen(cx_path, acc, 0);
        if (h->fid != FAIL) {
            if (iface == 'v' && Vstart(h->fid) == FAIL) cx_bad++;
            if (iface == 'g' && (h->sub = GRstart(h->fid)) == FAIL) cx_bad++;
            if (iface == 'a' && (h->sub = ANstart(h->fid)) == FAIL) cx_bad++;
        }
    }
    wr_ctx = save;
    if (h->fid == FAIL) { cx_bad++; hk_fail("crash-ctx-open", "one more %s id (interface %c) on the file of the session is refused", write ? "read/write" : "read-only", iface); return; }
    h->live = 1; nheld++;
    printf("T crash open %c %c => ", iface, write ? 'w' : 'r'); cx_print_state();
    hk_stat(write ? "ctx_open_w" : "ctx_open_r", 1);
}
/* read through a held id: builds the tag trees / the tables of the interface */
static void cx_reads(int i)
{
    if (i < 0 || i >= nheld || !held[i].live) return;
    held_t *h = &held[i]; const char *save = wr_ctx; wr_ctx = "ctx-read";
    if (h->iface == 's') {
        int32 nd = 0, na = 0; SDfileinfo(h->fid, &nd, &na);
        for (int32 k = 0; k < nd && k < 8; k++) { int32 sds = SDselect(h->fid, k); if (sds != FAIL) { char nm[H4_MAX_NC_NAME + 1]; int32 rk, dm[H4_MAX_VAR_DIMS], nt, a; SDgetinfo(sds, nm, &rk, dm, &nt, &a); SDendaccess(sds); } }
    }
    else {
        uint16 t = 0, r = 0; int32 o, l; int n = 0;
        while (Hfind(h->fid, DFTAG_WILDCARD, DFREF_WILDCARD, &t, &r, &o, &l, DF_FORWARD) != FAIL && n++ < 4096) {}
        Hnumber(h->fid, DFTAG_WILDCARD); Hnumber(h->fid, DFTAG_VG); Hexist(h->fid, DFTAG_VERSION, 1);
        if (h->iface == 'v') {
            int32 ref = -1; n = 0;
            while ((ref = Vgetid(h->fid, ref)) != FAIL && n++ < 64) { int32 vg = Vattach(h->fid, ref, "r"); if (vg != FAIL) { char nm[VGNAMELENMAX + 1]; Vgetname(vg, nm); Vntagrefs(vg); Vdetach(vg); } }
            ref = -1; n = 0;
            while ((ref = VSgetid(h->fid, ref)) != FAIL && n++ < 64) { int32 vs = VSattach(h->fid, ref, "r"); if (vs != FAIL) { int32 ne = 0; VSQuerycount(vs, &ne); VSdetach(vs); } }
        }
        if (h->iface == 'g' && h->sub != FAIL) { int32 ni = 0, na = 0; GRfileinfo(h->sub, &ni, &na); for (int32 k = 0; k < ni && k < 8; k++) { int32 ri = GRselect(h->sub, k); if (ri != FAIL) GRendaccess(ri); } }
        if (h->iface == 'a' && h->sub != FAIL) { int32 a, b, c, d; ANfileinfo(h->sub, &a, &b, &c, &d); }
    }
    wr_ctx = save;
    hk_stat("ctx_reads", 1);
}
static void cx_close(int i)
{
    if (i < 0 || i >= nheld || !held[i].live) return;
    held_t *h = &held[i]; int rc = 0; const char *save = wr_ctx;
    cx_flush_sopen();
    if (h->iface == 's') { wr_ctx = "SDend"; if (SDend(h->fid) == FAIL) rc++; }
    else {
        if (h->iface == 'v') { wr_ctx = "Vend"; if (Vend(h->fid) == FAIL) rc++; }
        if (h->iface == 'g' && h->sub != FAIL) { wr_ctx = "GRend"; if (GRend(h->sub) == FAIL) rc++; }
        if (h->iface == 'a' && h->sub != FAIL) { wr_ctx = "ANend"; if (ANend(h->sub) == FAIL) rc++; }
        wr_ctx = "Hclose"; if (Hclose(h->fid) == FAIL) rc++;
    }
    wr_ctx = save;
    h->live = 0; if (h->write) cx_writer_closed = 1;
    if (rc) { cx_bad++; hk_fail("crash-ctx-close", "closing the %s id (interface %c) held beside the session fails", h->write ? "read/write" : "read-only", h->iface); }
    printf("T crash close %c => ", h->iface); cx_print_state();
}
static void cx_cache(int i, int on)
{
    if (i < 0 || i >= nheld || !held[i].live || held[i].iface == 's') return;
    cx_flush_sopen();
    const char *save = wr_ctx; wr_ctx = "Hcache";
    if (Hcache(held[i].fid, on) == FAIL) cx_bad++;
    wr_ctx = save;
    printf("T crash cache %d => ", on); cx_print_state();
    hk_stat("ctx_hcache", 1);
}
static void cx_cacheall(int on)
{
    cx_flush_sopen();
    Hcache(CACHE_ALL_FILES, on); cx_defcache = on;
    printf("T crash cacheall %d => ok\n", on);
    hk_stat("ctx_hcache_all", 1);
}
/* run a context program: tokens o<i><r|w>  x<k>  r<k>  c<k><0|1>  C<0|1> */
static void cx_run(const char *prog)
{
    for (const char *p = prog; *p; ) {
        while (*p == ' ') p++;
        if (!*p) break;
        if (p[0] == 'o' && p[1] && p[2]) { cx_open(p[1], p[2] == 'w'); p += 3; }
        else if (p[0] == 'x' && p[1]) { cx_close(p[1] - '0'); p += 2; }
        else if (p[0] == 'r' && p[1]) { cx_reads(p[1] - '0'); p += 2; }
        else if (p[0] == 'c' && p[1] && p[2]) { cx_cache(p[1] - '0', p[2] - '0'); p += 3; }
        else if (p[0] == 'C' && p[1]) { cx_cacheall(p[1] - '0'); p += 2; }
        else { cx_bad++; break; }
    }
}
/* the reader-first family: when the session opens the file for writing the path's record exists and has NO write access */
static const char *CX_READER[] = {
    "ohr", "osr", "ovr r0", "ogr r0", "oar r0", "ohr r0", "ohr ohr", "osr ohr r1", "ovr osr r0 r1", "ohr c00 c01", "ohr x0 ohr",
    "ohr r0 x0 ohr", "C1 ohr", "ohr ovr x0",
};
/* the other families: an idle writer, several ids, a record that got write access from an id that is gone again, records released by
   earlier sessions of the process, cache settings made before */
static const char *CX_OTHER[] = {
    "ohw", "osw", "ovw r0", "ogw", "ohw ohr", "ohr ohw", "ohr ohw x1", "ohr ohw x0", "ohr r0 x0", "ohw x0", "osr r0 x0", "ovw r0 x0", "C1",
    "ohw c00 c01", "ohr ohw c10 c11", "C0 ohr c01 C1", "C0 C1 ohr", "ohw ohw", "osw ohr r1", "ohw osr r1",
};
static const char *cx_random(char *buf, size_t n)
{
    static const char ifs[] = "hhhhhssvvga";
    int k = (int)hk_range(0, 3), nh = 0; size_t u = 0; buf[0] = 0;
    for (int i = 0; i < k && u + 16 < n; i++) {
        int what = (int)hk_range(0, 9);
        if (what < 6 || nh == 0) { u += (size_t)snprintf(buf + u, n - u, "o%c%c ", ifs[hk_range(0, (long)sizeof ifs - 2)], hk_chance(60) ? 'r' : 'w'); nh++; }
        else if (what < 8) u += (size_t)snprintf(buf + u, n - u, "r%d ", (int)hk_range(0, nh - 1));
        else if (what < 9) { int j = (int)hk_range(0, nh - 1); u += (size_t)snprintf(buf + u, n - u, "c%d0 c%d1 ", j, j); }
        else u += (size_t)snprintf(buf + u, n - u, "x%d ", (int)hk_range(0, nh - 1));
    }
    return buf;
}
/* one context operation in the middle of a session (random sessions only) */
static void cx_mid(void)
{
    int what = (int)hk_range(0, 9);
    if (what < 4 && nheld < CX_MAXH) cx_open(hk_chance(70) ? 'h' : (hk_chance(50) ? 'v' : 's'), hk_chance(40));
    else if (what < 7 && nheld > 0) cx_close((int)hk_range(0, nheld - 1));
    else if (nheld > 0) cx_reads((int)hk_range(0, nheld - 1));
    hk_stat("ctx_mid_ops", 1);
}

/* random H-level append-only session */
static int rnd_ndds, rnd_mid;
static int prep_rand(const char *path)
{
    uint8 b[400]; int32 fid = Hopen(path, DFACC_CREATE, (int16)rnd_ndds); if (fid == FAIL) return -1;
    int n = (int)hk_range(1, 6);
    for (int i = 0; i < n; i++) { wl_fill(b, 400, 70 + i); Hputelement(fid, (uint16)(3000 + i % 2), (uint16)(i + 1), b, (int32)hk_range(1, 400)); }
    if (hk_chance(50)) { int32 aid = HLcreate(fid, 3100, 1, (int32)hk_range(8, 64), (int32)hk_range(1, 3)); wl_fill(b, 400, 80); Hwrite(aid, (int32)hk_range(1, 300), b); Hendaccess(aid); }
    /* descriptors that bring no data of their own (aliases made by Hdupdd, as DFPaddpal / GR palettes do): enough of them open a new
       descriptor block that is then the LAST thing in the file - the end of stored data is the end of that block, not of an element */
    if (hk_chance(50)) { int m = (int)hk_range(1, rnd_ndds + 2); for (int j = 0; j < m; j++) Hdupdd(fid, 3500, (uint16)(j + 1), 3000, 1); }
    /* free slots in the stored descriptor blocks: the descriptors of the session go THERE first (in memory, until the flush) */
    if (n > 1 && hk_chance(40)) { int m = (int)hk_range(1, n - 1); for (int j = 0; j < m; j++) Hdeldd(fid, (uint16)(3000 + (n - 1 - j) % 2), (uint16)(n - j)); }
    return Hclose(fid);
}
static int run_rand(const char *path)
{
    uint8 b[600]; int32 fid; wl_nfail = 0;
    CKID(fid, Hopen(path, DFACC_RDWR, 0));
    int n = (int)hk_range(1, 14);
    for (int i = 0; i < n; i++) {
        wl_fill(b, 600, 90 + i);
        int kind = (int)hk_range(0, 9);
        if (kind < 6) CK(Hputelement(fid, 3200, (uint16)(i + 1), b, (int32)hk_range(1, 600)));
        else if (kind < 8) { int32 aid; ID(aid, HLcreate(fid, 3300, (uint16)(i + 1), (int32)hk_range(4, 64), (int32)hk_range(1, 3))); if (aid == FAIL) wl_nfail++; else { CK(Hwrite(aid, (int32)hk_range(1, 400), b)); CK(Hendaccess(aid)); } }
        else { int32 aid; ID(aid, Hstartwrite(fid, 3400, (uint16)(i + 1), (int32)hk_range(10, 300))); if (aid == FAIL) wl_nfail++; else { if (hk_chance(30)) CK(Hsetaccesstype(aid, DFACC_PARALLEL)); CK(Hwrite(aid, 10, b)); CK(Hendaccess(aid)); } }
        if (hk_chance(10)) CK(Hsync(fid));
        if (rnd_mid && hk_chance(15)) cx_mid();
    }
    CK(Hclose(fid));
done: return wl_nfail;
}

static int check_image(const char *img, const objrec *old, int nold, char *what, size_t wn)
{
    /* child: open + read back every old object */
    fflush(stdout);
    int pfd[2]; if (pipe(pfd)) return 3;
    pid_t pid = fork();
    if (pid == 0) {
        close(pfd[0]);
        int dn = open("/dev/null", O_WRONLY); if (dn >= 0) { dup2(dn, 2); close(dn); }
        wr_enabled = 0;
        static objrec now[4096];
        char msg[200] = "";
        int rc = 0, n = snapshot(img, now, 4096);
        if (n < 0) { rc = 1; snprintf(msg, sizeof msg, "Hopen failed"); }
        else
            for (int i = 0; i < nold && !rc; i++) {
                int found = 0;
                for (int j = 0; j < n; j++)
                    if (now[j].tag == old[i].tag && now[j].ref == old[i].ref) { found = 1; if (now[j].len != old[i].len || now[j].sum != old[i].sum) { rc = 2; snprintf(msg, sizeof msg, "object %u/%u differs (len %d vs %d)", old[i].tag, old[i].ref, (int)now[j].len, (int)old[i].len); } break; }
                if (!found) { rc = 2; snprintf(msg, sizeof msg, "object %u/%u missing", old[i].tag, old[i].ref); }
            }
        if (write(pfd[1], msg, sizeof msg) < 0) _exit(9);
        _exit(rc);
    }
    close(pfd[1]);
    char msg[200] = ""; long g = read(pfd[0], msg, sizeof msg); (void)g; close(pfd[0]);
    int st = 0; waitpid(pid, &st, 0);
    snprintf(what, wn, "%s", msg);
    if (WIFSIGNALED(st)) { snprintf(what, wn, "library crashed (signal %d) on the image", WTERMSIG(st)); return 1; }
    if (WIFEXITED(st) && WEXITSTATUS(st) == 99) { snprintf(what, wn, "sanitizer report while reading the image"); return 1; }
    return WIFEXITED(st) ? WEXITSTATUS(st) : 3;
}

static void run_case(int k)
{
    static const workload_t *ao[NWORKLOADS]; int nao = 0;
    for (int i = 0; i < NWORKLOADS; i++) if (WORKLOADS[i].append_only) ao[nao++] = &WORKLOADS[i];
    workload_t rnd = {"h_rand", prep_rand, run_rand, 1, 1, 0};
    const workload_t *w; const char *prog = ""; char pbuf[128];
    rnd_mid = 0;
    const int nR = (int)(sizeof CX_READER / sizeof CX_READER[0]), nO = (int)(sizeof CX_OTHER / sizeof CX_OTHER[0]);
    static const int nd[] = {4, 5, 7, 16};
    if (k < nao) w = ao[k];
    else if (k < 2 * nao) { w = ao[k - nao]; prog = CX_READER[(k + (int)(hk_seed0 % 1000)) % nR]; }          /* rotation: nao different contexts per seed */
    else if (k < 3 * nao) { w = ao[k - 2 * nao]; prog = CX_OTHER[(k + (int)(hk_seed0 % 1000)) % nO]; }
    else if (k < 3 * nao + nR + nO) {                                   /* every listed context once, around a random H-level session */
        int c = k - 3 * nao; w = &rnd; rnd_ndds = HK_PICK(nd);
        prog = c < nR ? CX_READER[c] : CX_OTHER[c - nR];
        rnd_mid = hk_chance(30);
    }
    else {
        w = &rnd; rnd_ndds = HK_PICK(nd);
        int fam = (int)hk_range(0, 9);
        if (fam < 2) prog = "";
        else if (fam < 4) prog = HK_PICK(CX_READER);
        else if (fam < 6) prog = HK_PICK(CX_OTHER);
        else prog = cx_random(pbuf, sizeof pbuf);
        rnd_mid = fam >= 2 && hk_chance(50);
    }
    char path[600], img[600];
    snprintf(path, sizeof path, "%s", hk_tmp("c.hdf")); snprintf(img, sizeof img, "%s", hk_tmp("img.hdf"));
    unlink(path);
    wr_enabled = 0; wr_on_write = NULL;
    if (w->prep(path) == FAIL) { hk_fail("crash-prep", "%s", w->name); return; }
    long n00; unsigned char *base0 = slurp(path, &n00);
    static objrec old[4096]; int nold = snapshot(path, old, 4096);
    if (nold < 0) { hk_fail("crash-prep", "%s snapshot", w->name); free(base0); return; }

    /* the context, then the session, then the other ids are closed: ONE write log; remember the record's cache flag at every write */
    cx_path = path; cx_fr = NULL; nheld = 0; cx_bad = 0; cx_writer_closed = 0; so_seen = so_printed = 0; cx_in_session = 0;
    wr_reset(); wr_keep_bytes = 1; wr_enabled = 1; wr_on_write = cx_on_write;
    cx_run(prog);
    long npre = wr_nlog;
    long n0; unsigned char *base = slurp(path, &n0);
    /* ids that are merely open (and read-only ids that were closed again) leave the file as it is; a read/write id that the context closed is an
       earlier session of its own: what it stored (GRend of an idle writer does store) is part of the file the session finds - the objects stored
       by prep must still be there (checked on the first image below) */
    if (!cx_writer_closed && (npre != 0 || n0 != n00 || memcmp(base, base0, (size_t)n0) != 0))
        hk_fail("crash-ctx-writes", "%s: opening further ids on the stored file (context '%s') issued %ld writes / changed the file", w->name, prog, npre);
    free(base0);
    long E0 = stored_end(base, n0);
    if (E0 < 0) {
        hk_fail("crash-parse", "%s: the pre-session file does not parse", w->name);
        for (int i = nheld - 1; i >= 0; i--) cx_close(i);
        if (cx_defcache != 1) cx_cacheall(1);
        free(base); wr_enabled = 0; wr_on_write = NULL; cx_path = NULL; cx_fr = NULL; return;
    }
    cx_in_session = 1;
    int nf = w->run(path);
    cx_flush_sopen();
    cx_in_session = 0;
    printf("T crash sclose => "); cx_print_state();
    long nsess = wr_nlog;
    { int lifo = hk_chance(50); for (int i = 0; i < nheld; i++) cx_close(lifo ? nheld - 1 - i : i); }
    if (cx_defcache != 1) cx_cacheall(1);
    wr_enabled = 0; wr_on_write = NULL; cx_path = NULL; cx_fr = NULL;
    if (nf != 0 || cx_bad) { hk_fail("crash-session-fails", "%s: %d API failures in the fault-free session (context '%s', %d context failures)", w->name, nf, prog, cx_bad); free(base); return; }
    long nw = wr_nlog;
    printf("INFO workload=%s ctx='%s' mid=%d E0=%ld file0=%ld writes=%ld (session %ld, context before %ld) old_objects=%d\n", w->name, prog, rnd_mid, E0, n0, nw, nsess - npre, npre, nold);
    hk_stat("sessions", 1); hk_stat("writes", nw); if (*prog) hk_stat("sessions_in_context", 1);

    /* (3) default descriptor caching: nobody switched it off, so every write must have been issued with the record's cache flag on */
    for (long j = npre; j < nw; j++)
        if (wcache[j] == 0) { char key[96]; snprintf(key, sizeof key, "crash-session-uncached:%s", w->name); hk_fail(key, "write %ld of %ld (off %ld len %ld in %s) is issued with descriptor caching OFF for the file record although caching was never switched off (context '%s')", j, nw, wr_log[j].off, wr_log[j].len, wr_log[j].ctx, prog); break; }

    /* (1) early overwrite: until the descriptor flush starts (the first whole-header / whole-list write of a descriptor block that existed before
       the session, inside a flushing call - also INSIDE SDend/GRend/Vend/Hclose) every write must lie at or beyond E0; a descriptor or link field
       changed in place is write-through, never the flush */
    long first_closer = nw, first_flush = nw;
    for (long j = npre; j < nw; j++) if (is_closer(wr_log[j].ctx)) { first_closer = j; break; }
    for (long j = npre; j < nw; j++) if (wr_log[j].len > 0 && flush_shaped(base, n0, wr_log[j].off, wr_log[j].len)) { first_flush = j; break; }
    long early_limit = first_flush;
    for (long j = npre; j < nw; j++) {
        if (j >= first_flush && j >= first_closer) break;            /* the flush, inside a flushing call */
        if (wr_log[j].len <= 0 || wr_log[j].off >= E0) continue;
        char key[128];
        int wt = in_dd_block(base, n0, wr_log[j].off, wr_log[j].len) && !flush_shaped(base, n0, wr_log[j].off, wr_log[j].len);
        snprintf(key, sizeof key, "%s:%s:%s", wt ? "crash-write-through" : "crash-early-overwrite", w->name, wr_log[j].ctx);
        hk_fail(key, "write %ld of %ld (off %ld len %ld) lands below E0=%ld %s (first flush write %ld, first flushing call at write %ld, context '%s')", j, nw, wr_log[j].off, wr_log[j].len, E0,
                wt ? "inside a stored descriptor block and is neither its whole header nor its whole descriptor list: a descriptor / link written in place instead of deferred to the flush"
                   : (j < first_closer ? "before any flushing call" : "before the descriptor flush"), first_flush, first_closer, prog);
        break;
    }
    hk_stat("writes_before_flush", early_limit - npre);

    /* (2) prefix images */
    long cap = n0 + 16; for (long j = 0; j < nw; j++) if (wr_log[j].off + wr_log[j].len + 16 > cap) cap = wr_log[j].off + wr_log[j].len + 16;
    unsigned char *im = calloc(1, (size_t)cap); memcpy(im, base, (size_t)n0); long ilen = n0;
    long limit = w->flush_safe ? nw : early_limit;     /* SD/GR sessions: every image up to the start of the descriptor flush */
    int bad_open = 0, bad_obj = 0;
    for (long j = npre; j <= limit; j++) {
        if (j > npre) { wr_rec *r = &wr_log[j - 1]; if (r->len > 0) { memcpy(im + r->off, r->bytes, (size_t)r->len); if (r->off + r->len > ilen) ilen = r->off + r->len; } }
        spit(img, im, ilen);
        char what[256]; int rc = check_image(img, old, nold, what, sizeof what);
        hk_stat("prefix_images", 1);
        if (rc == 1 && !bad_open) { char key[96]; snprintf(key, sizeof key, "crash-unopenable:%s", w->name); hk_fail(key, "prefix %ld of %ld writes (last write off %ld len %ld in %s, context '%s'): %s", j, nw, j ? wr_log[j - 1].off : 0, j ? wr_log[j - 1].len : 0, j ? wr_log[j - 1].ctx : "-", prog, what); bad_open = 1; }
        if (rc == 2 && !bad_obj) { char key[96]; snprintf(key, sizeof key, "crash-old-object-damaged:%s", w->name); hk_fail(key, "prefix %ld of %ld writes (last write off %ld len %ld in %s, context '%s'): %s", j, nw, j ? wr_log[j - 1].off : 0, j ? wr_log[j - 1].len : 0, j ? wr_log[j - 1].ctx : "-", prog, what); bad_obj = 1; }
    }
    for (long j = 0; j < nw; j++) { free(wr_log[j].bytes); wr_log[j].bytes = NULL; }
    free(im); free(base);
}

int main(int argc, char **argv) { return hk_main(argc, argv, "crash"); }
