/* e_repack - Tie-B engine for C18 (hrepack).
 *
 * One case:
 *   1. a random HDF file is created with the library (toolgen.h): SDS of all types / ranks incl. unlimited and empty,
 *      GR images (+palettes), Vdatas, a Vgroup forest, attributes, annotations, already chunked / compressed objects,
 *      now and then one SDS or image above 1 MiB (hyperslab path of copy_sds);
 *   2. an option vector is generated from the grammar of hrepack_parse.c (-t, -c, -m, -f), mostly valid;
 *   3. the REAL option code of hrepack (hrepack_parse.c, hrepack_opttable.c, hrepack.c, hrepack_utils.c are compiled
 *      into this engine) is called directly and tied to the Lean model:
 *         T repack parse_comp  <str>                      => ok <nobjs> <names> <type> <info> | fail
 *         T repack parse_chunk <str>                      => ok <nobjs> <names> <rank> <lens> | fail
 *         T repack options <n> <arg>...                   => usage | <options table dump>
 *         T repack getinfo <n> <arg>... <path> <rank> <flags> <comp> <info> <lens>
 *                                                         => <ret> <flags> <comp> <info> <lens> <ccomp> <cinfo> | crash
 *         T repack tiles <eltsz> <dims>                   => <sm_size> <ntiles> <offset;size of every tile ...>
 *   4. the real hrepack BINARY (ASan build) is run:
 *         T repack run <n> <arg>... <m> <obj>...          => ok | fail | usage | crash
 *      and for every SDS / image of the output the layout found with SDgetchunkinfo/SDgetcompinfo/GRget*:
 *         T repack decide <n> <arg>... <obj>              => <flags> <comp> <info> <lens>
 *   5. implementation oracles (no model involved): input and output are compared with the API-level comparator of
 *      toolgen.h (names, hierarchy, dims, types, attributes, dimension names/scales, palettes, annotations, data);
 *      the output is repacked again with other options and compared with the ORIGINAL input (idempotence of content).
 * All strings on T lines are hex encoded.
 */
#include "toolgen.h"
#include <sys/wait.h>
#include <fcntl.h>
#include <libgen.h>

/* the real option handling code of hrepack, from the tree under test (found through -I<REPO>, vk.cc_harness) */
#include "mfhdf/hrepack/hrepack_parse.c"
#include "mfhdf/hrepack/hrepack_opttable.c"
#include "mfhdf/hrepack/hrepack_utils.c"
#include "mfhdf/hrepack/hrepack.c"
int list_main(const char *infname, const char *outfname, options_t *options) { (void)infname; (void)outfname; (void)options; return 0; }

static char bindir[700];
static int  verbose;

/* ------------------------------------------------------------------------------------------- process helpers */

/* run <bindir>/bin/<tool> args...; stdout+stderr to `log`. returns: exit code, or 1000+signal */
static int run_tool(const char *tool, char **args, int nargs, const char *log)
{
    char  exe[800];
    char *argv[64];
    int   i, st;
    pid_t pid;
    snprintf(exe, sizeof exe, "%s/bin/%s", bindir, tool);
    argv[0] = exe;
    for (i = 0; i < nargs && i < 60; i++) argv[i + 1] = args[i];
    argv[nargs + 1] = NULL;
    fflush(stdout);
    pid = fork();
    if (pid == 0) {
        int fd = open(log, O_WRONLY | O_CREAT | O_TRUNC, 0644);
        if (fd >= 0) { dup2(fd, 1); dup2(fd, 2); close(fd); }
        setenv("ASAN_OPTIONS", "detect_leaks=0:abort_on_error=0:exitcode=99", 1);
        setenv("UBSAN_OPTIONS", "print_stacktrace=1:exitcode=98", 1);
        execv(exe, argv);
        _exit(127);
    }
    if (waitpid(pid, &st, 0) < 0) return 2000;
    if (WIFSIGNALED(st)) return 1000 + WTERMSIG(st);
    return WEXITSTATUS(st);
}

static void hexs(const char *s) { hk_hex(s, strlen(s)); }

/* ------------------------------------------------------------------------------------------- option generator */

#define VALSZ 512 /* a -t / -c value: up to 100 chunk lengths */
#define MAXARG 24
#define ARGSZ 3200 /* up to three paths of 900 characters (names of 255 characters inside nested vgroups) */
static char  argbuf[MAXARG][ARGSZ];
static char *args[MAXARG];     /* real argv for the binary (with file names) */
static char  margbuf[MAXARG][ARGSZ];
static char *margs[MAXARG];    /* what the model sees: same, but the argument of -f is the file CONTENT */
static int   nargs;

typedef struct { char kind[4]; char path[1400]; int sds, gr; } objref_t;
static objref_t objs[32];
static int      nobjs;

static void vg_path(const tg_spec_t *s, int g, char *out)
{
    if (g < 0) { out[0] = 0; return; }
    if (s->vg[g].parent >= 0) { vg_path(s, s->vg[g].parent, out); strcat(out, "/"); strcat(out, s->vg[g].name); }
    else strcpy(out, s->vg[g].name);
}
static void obj_path(const tg_spec_t *s, int parent, const char *name, char *out)
{
    vg_path(s, parent, out);
    if (parent >= 0) strcat(out, "/"); /* get_path: also after a vgroup whose name is empty */
    strcat(out, name);
}

/* traversal order of hrepack: lone vgroups (depth first, members in insertion order), then images, datasets, vdatas */
static void walk_vg(const tg_spec_t *s, int g, unsigned *seen_sds, unsigned *seen_gr, unsigned *seen_vs)
{
    int i;
    /* members were inserted in this order by tg_write: child vgroups, then SDS, GR, VS */
    for (i = 0; i < s->nvg; i++)
        if (s->vg[i].parent == g && !tg_vg_reserved(&s->vg[i])) {
            strcpy(objs[nobjs].kind, "vg"); vg_path(s, i, objs[nobjs].path); objs[nobjs].sds = objs[nobjs].gr = -1; nobjs++;
            walk_vg(s, i, seen_sds, seen_gr, seen_vs);
        }
    for (i = 0; i < s->nsds; i++)
        if (s->sds[i].parent == g) { strcpy(objs[nobjs].kind, "sds"); obj_path(s, g, s->sds[i].name, objs[nobjs].path); objs[nobjs].sds = i; objs[nobjs].gr = -1; nobjs++; *seen_sds |= 1u << i; }
    for (i = 0; i < s->ngr; i++)
        if (s->gr[i].parent == g) { strcpy(objs[nobjs].kind, "gr"); obj_path(s, g, s->gr[i].name, objs[nobjs].path); objs[nobjs].gr = i; objs[nobjs].sds = -1; nobjs++; *seen_gr |= 1u << i; }
    for (i = 0; i < s->nvs; i++)
        if (s->vs[i].parent == g) { strcpy(objs[nobjs].kind, "vs"); obj_path(s, g, s->vs[i].name, objs[nobjs].path); objs[nobjs].sds = objs[nobjs].gr = -1; nobjs++; *seen_vs |= 1u << i; }
}
static void list_objects(const tg_spec_t *s)
{
    unsigned ss = 0, sg = 0, sv = 0;
    int      i;
    nobjs = 0;
    /* a vgroup with one of the library's own classes (or named like the GR vgroup) is not entered by any tool: the data sets
       and images below it are found at top level through the SD / GR interfaces (tg_adversarial keeps vgroups / vdatas out of it) */
    for (i = 0; i < s->nvg; i++)
        if (s->vg[i].parent < 0 && !tg_vg_reserved(&s->vg[i])) {
            strcpy(objs[nobjs].kind, "vg"); vg_path(s, i, objs[nobjs].path); objs[nobjs].sds = objs[nobjs].gr = -1; nobjs++;
            walk_vg(s, i, &ss, &sg, &sv);
        }
    for (i = 0; i < s->ngr; i++)
        if (!(sg & (1u << i))) { strcpy(objs[nobjs].kind, "gr"); strcpy(objs[nobjs].path, s->gr[i].name); objs[nobjs].gr = i; objs[nobjs].sds = -1; nobjs++; }
    for (i = 0; i < s->nsds; i++)
        if (!(ss & (1u << i))) { strcpy(objs[nobjs].kind, "sds"); strcpy(objs[nobjs].path, s->sds[i].name); objs[nobjs].sds = i; objs[nobjs].gr = -1; nobjs++; }
    for (i = 0; i < s->nvs; i++)
        if (!(sv & (1u << i)) && !tg_reserved_class(s->vs[i].cls)) { strcpy(objs[nobjs].kind, "vs"); strcpy(objs[nobjs].path, s->vs[i].name); objs[nobjs].sds = objs[nobjs].gr = -1; nobjs++; }
}

/* can this path stand in an object list of -t / -c and name the object ? (a ',' inside would split it; malformed lists - empty, ending
   with ',', empty entries, over-long names - are produced on purpose by gen_names in the messy mode) */
static int path_optsafe(const char *p)
{
    size_t n = strlen(p);
    return n > 0 && n < 900 && p[0] != ',' && p[n - 1] != ',' && !strstr(p, ",,");
}

/* a name of exactly `n` characters (the parser's obj[H4_MAX_NC_NAME] holds 254 and the NUL it appends) */
static void long_name(char *out, int n)
{
    int i;
    for (i = 0; i < n; i++) out[i] = (char)('a' + (i % 23));
    out[n] = 0;
}

static void gen_names(char *out, int allow_star, int messy)
{
    int k, n;
    out[0] = 0;
    if (messy && hk_chance(22)) {
        /* the families behind the fixed parser defects (known_findings.json, property C18): an EMPTY object list and a list that ENDS WITH
           ',' (b6f2d28: *n_objs announced one name more than the loop stored; the unwritten obj_list entry was strcmp'ed / strcpy'ed),
           empty entries elsewhere (legal: an empty name), names around the capacity of obj[H4_MAX_NC_NAME] (a29fdb9) */
        static const char *lists[] = {"", ",", "sds0,", "a,b,", ",sds0", "a,,b", ",,", "*,", ",*", "a,"};
        int pick = (int)hk_range(0, 13);
        if (pick < 10) strcpy(out, lists[pick]);
        else {
            static const int lens[] = {253, 254, 255, 256, 300, 700};
            char nm[800];
            long_name(nm, lens[hk_range(0, 5)]);
            if (pick == 10) strcpy(out, nm);
            else if (pick == 11) sprintf(out, "a,%s", nm);
            else if (pick == 12) sprintf(out, "%s,b", nm);
            else sprintf(out, "%s,", nm);
        }
        return;
    }
    if (allow_star && hk_chance(35)) { strcpy(out, "*"); if (messy && hk_chance(10)) strcat(out, ",zz"); return; }
    n = (int)hk_range(1, hk_chance(25) ? 3 : 1);
    for (k = 0; k < n; k++) {
        if (k) strcat(out, ",");
        if (nobjs > 0 && !(messy && hk_chance(6))) {
            /* prefer SDS and images, sometimes a vdata / vgroup (not compressible) */
            int tries = 0, o = (int)hk_range(0, nobjs - 1);
            while (tries++ < 6 && objs[o].sds < 0 && objs[o].gr < 0 && !hk_chance(10)) o = (int)hk_range(0, nobjs - 1);
            strcat(out, path_optsafe(objs[o].path) ? objs[o].path : "nosuch");
        }
        else strcat(out, hk_chance(50) ? "nosuch" : "sds0");
    }
    if (messy && hk_chance(4)) strcat(out, ",*");
}

static void gen_comp_value(char *out, int messy)
{
    static const char *bad[] = {"", "RLE 1", "HUFF", "GZIP", "JPEG", "GZIP 10", "HUFF 0", "GZIP x", "LZW", "gzip 1", "GZIP 1x", "SZIP 8,NN", "SZIP 8,XX", "SZIP 8", "NONE 1", "RLE ", "HUFF 1 ", "ABCDEFGHI", "HUFF  2", "GZIP 0009", " RLE", "JPEG 101",
                                "ABCDEFGHIJ", "ABCDEFGHIJKLMNOP", "ABCDEFGHI 1", "GZIP 12345", "GZIP 00001", "HUFF 9999", "HUFF 10000", "SZIP", "NONE ", "GZIP ", "HUFF ", "RLE:", "GZIP 5:RLE",
                                /* the szip scanner: a third / fourth mask character (6a32560: smask[3] was written at index 3), a second ',',
                                   parameters around the capacity of stype[5], masks without parameter */
                                "SZIP ,ECAB", "SZIP ,ECA", "SZIP 8,ECA", "SZIP 8,ECAB", "SZIP 8,NNNN", "SZIP 8,EC,NN", "SZIP 8,E", "SZIP 8,", "SZIP ,", "SZIP ,EC", "SZIP 12,EC", "SZIP 123,NN",
                                "SZIP 1234,EC", "SZIP 12345", "SZIP 1234", "SZIP 12,ECABCDEFGH", "SZIP ,,,,", "SZIP 8,EC ", "SZIP 8 ,EC",
                                /* every scratch array at and one beyond its capacity: scomp[10] (9 characters fit), stype[5] (4 digits fit) */
                                "ABCDEFGHI", "ABCDEFGHIJ 1", "ABCDEFGH 1", "GZIP 1234", "GZIP 123456789012", "NONE 1234", "NONE 12345", "HUFF 1234", "HUFF 12345",
                                /* bytes >= 0x80 where isdigit looks (1ed2b56: a negative plain char was handed to isdigit) */
                                "GZIP \351", "GZIP 1\351", "\351\351", "GZIP \2001"};
    if (messy && hk_chance(8)) {
        /* a valid mask right after the blank and one or two characters more: before 6a32560 the fourth character went to smask[3] */
        static const char *over[] = {"SZIP ,ECAB", "SZIP ,NNNN", "SZIP ,ECEC", "SZIP ,NNAB", "SZIP ,ECA", "SZIP ,NNN"};
        strcpy(out, over[hk_range(0, 5)]);
        return;
    }
    if (messy && hk_chance(15)) {
        /* a coder name of 8..11 characters, as the last token and before a blank: scomp[10] holds 9 characters and the NUL (a29fdb9) */
        static const int nlen[] = {8, 9, 9, 10, 10, 10, 11};
        int n = nlen[hk_range(0, 6)], i;
        for (i = 0; i < n; i++) out[i] = (char)('A' + i);
        out[n] = 0;
        if (hk_chance(40)) strcat(out, hk_chance(50) ? " 1" : " ");
        return;
    }
    if (messy && hk_chance(30)) { strcpy(out, bad[hk_range(0, (long)(sizeof bad / sizeof bad[0]) - 1)]); return; }
    switch ((int)hk_range(0, 9)) {
        case 0: case 1: strcpy(out, "RLE"); break;
        case 2: case 3: sprintf(out, "HUFF %d", (int)hk_range(1, hk_chance(10) ? 9999 : 8)); break;
        case 4: case 5: case 6: sprintf(out, "GZIP %d", (int)hk_range(hk_chance(10) ? 0 : 1, 9)); break;
        case 7: case 8: strcpy(out, "NONE"); break;
        default: if (hk_chance(30)) sprintf(out, "JPEG %d", (int)hk_range(0, 100)); else strcpy(out, "RLE"); break;
    }
}

/* chunk value; `rank`/`dims` of the object the names refer to when known (rank 0: unknown) */
static void gen_chunk_value(char *out, int rank, const int32 *dims, int messy)
{
    static const char *bad[] = {"", "0", "2x0", "2y2", "NONE2", "NON", "x2", "2xx2", "-2", "2 x2", "ONE", "2xNONE", "123456789", "00", "2x", "x", "1234567890", "12345678x2", "123456789x2", "2N", "N2", "1x1x1x1x1x1x1", "NONEx2", "2:2", "12345678", "999999999", "1x999999999", "\351", "2x\351", "2\3512"};
    int i;
    if (messy && hk_chance(12)) {
        /* the number of lengths around the capacity of the caller's chunk_lengths[H4_MAX_VAR_DIMS] (5787e18: the 33rd length was written
           beyond it), also with NONE / a zero / a bad character in the last place, and sdim[10] at and beyond its capacity */
        static const int cnt[] = {31, 32, 33, 34, 40, 64, 100};
        int n = cnt[hk_range(0, 6)], tail = (int)hk_range(0, 5);
        out[0] = 0;
        for (i = 0; i < n; i++) strcat(out, i ? "x1" : "1");
        if (tail == 1) strcat(out, "xNONE");
        else if (tail == 2) strcat(out, "x0");
        else if (tail == 3) strcat(out, "x");
        else if (tail == 4) strcat(out, "x123456789");
        else if (tail == 5) strcat(out, "x1234567890");
        return;
    }
    if (messy && hk_chance(30)) { strcpy(out, bad[hk_range(0, (long)(sizeof bad / sizeof bad[0]) - 1)]); return; }
    if (hk_chance(20)) { strcpy(out, "NONE"); return; }
    if (rank <= 0 || hk_chance(8)) rank = (int)hk_range(1, 4);
    out[0] = 0;
    for (i = 0; i < rank; i++) {
        char t[16];
        int  d = (dims && dims[i] > 0) ? dims[i] : 5;
        int lo = (d + 7) / 8; /* at most 8 chunks along a dimension: the file format has 65535 reference numbers */
        sprintf(t, "%s%d", i ? "x" : "", (int)(hk_chance(8) ? d + hk_range(1, 3) : hk_range(lo, d)));
        strcat(out, t);
    }
}

static const tg_spec_t *cur_spec;
static void rank_of_names(const char *names, int *rank, int32 *dims)
{
    /* rank/dims of the first named object; for '*' of a random SDS/image */
    char first[1500];
    int  i;
    *rank = 0;
    snprintf(first, sizeof first, "%s", names);
    if (strchr(first, ',')) *strchr(first, ',') = 0;
    if (strcmp(first, "*") == 0) {
        /* the chunk shape is applied to every object of that rank: derive it from the LARGEST one of a random rank */
        long best = -1; int want = 0, tries;
        for (tries = 0; tries < 8 && !want; tries++) {
            int o = nobjs ? (int)hk_range(0, nobjs - 1) : -1;
            if (o >= 0 && objs[o].sds >= 0) want = cur_spec->sds[objs[o].sds].rank;
            else if (o >= 0 && objs[o].gr >= 0) want = 2;
        }
        for (i = 0; i < nobjs; i++) {
            long n = -1; int r = 0;
            if (objs[i].sds >= 0) { r = cur_spec->sds[objs[i].sds].rank; n = tg_nelem(r, cur_spec->sds[objs[i].sds].dims); }
            else if (objs[i].gr >= 0) { r = 2; n = (long)cur_spec->gr[objs[i].gr].dims[0] * cur_spec->gr[objs[i].gr].dims[1]; }
            if (r == want && n > best) { best = n; snprintf(first, sizeof first, "%s", objs[i].path); }
        }
    }
    for (i = 0; i < nobjs; i++)
        if (strcmp(objs[i].path, first) == 0) {
            if (objs[i].sds >= 0) { *rank = cur_spec->sds[objs[i].sds].rank; memcpy(dims, cur_spec->sds[objs[i].sds].dims, sizeof(int32) * TG_MAXRANK); }
            else if (objs[i].gr >= 0) { *rank = 2; dims[0] = cur_spec->gr[objs[i].gr].dims[0]; dims[1] = cur_spec->gr[objs[i].gr].dims[1]; }
            return;
        }
}

static void push_arg(const char *a, const char *m)
{
    if (nargs >= MAXARG) return;
    snprintf(argbuf[nargs], sizeof argbuf[0], "%s", a); args[nargs] = argbuf[nargs];
    snprintf(margbuf[nargs], sizeof margbuf[0], "%s", m); margs[nargs] = margbuf[nargs];
    nargs++;
}

static int optfile_no;

/* generate the option part of the command line (without -i/-o).
   Plan: compression in {absent, "*", per object}, chunking likewise, optional -m, options possibly moved into an
   option file; `messy` replaces/adds malformed or conflicting pieces. */
static void gen_options(int messy)
{
    static char opts[12][3200]; /* "-t\0value" pairs kept as: kind char + value */
    char kind[12];
    int  n = 0, k, i;
    int  cand[32], nc = 0;
    int  cmode = (int)hk_range(0, 99), kmode = (int)hk_range(0, 99);
    nargs = 0;
    for (i = 0; i < nobjs; i++) if ((objs[i].sds >= 0 || objs[i].gr >= 0) && path_optsafe(objs[i].path)) cand[nc++] = i;
    /* shuffle candidates */
    for (i = nc - 1; i > 0; i--) { int j = (int)hk_range(0, i), t = cand[i]; cand[i] = cand[j]; cand[j] = t; }
    if (cmode < 25) { /* no -t */ }
    else if (cmode < 55 || nc == 0) { char v[VALSZ]; gen_comp_value(v, messy); snprintf(opts[n], sizeof opts[0], "*:%s", v); kind[n++] = 't'; }
    else {
        int no = (int)hk_range(1, nc < 3 ? nc : 3), used = 0;
        while (used < no && n < 10) {
            char v[VALSZ], names[3000] = ""; int take = (int)hk_range(1, (no - used) < 2 ? (no - used) : 2), q;
            for (q = 0; q < take; q++) { if (q) strcat(names, ","); strcat(names, objs[cand[used + q]].path); }
            used += take;
            gen_comp_value(v, messy);
            snprintf(opts[n], sizeof opts[0], "%s:%s", names, v); kind[n++] = 't';
        }
    }
    if (kmode < 30) { /* no -c */ }
    else if (kmode < 55 || nc == 0) {
        char v[VALSZ], names[8] = "*"; int rank; int32 dims[TG_MAXRANK] = {0};
        rank_of_names(names, &rank, dims); gen_chunk_value(v, rank, dims, messy);
        snprintf(opts[n], sizeof opts[0], "*:%s", v); kind[n++] = 'c';
    }
    else {
        int no = (int)hk_range(1, nc < 3 ? nc : 3), used;
        for (used = 0; used < no && n < 10; used++) {
            char v[VALSZ]; int rank; int32 dims[TG_MAXRANK] = {0};
            int o = cand[(used + (hk_chance(50) ? 0 : 1)) % nc]; /* often the same objects as -t */
            int dup = 0;
            for (k = 0; k < n; k++) if (kind[k] == 'c' && strncmp(opts[k], objs[o].path, strlen(objs[o].path)) == 0 && opts[k][strlen(objs[o].path)] == ':') dup = 1;
            if (dup && !messy) continue;
            rank_of_names(objs[o].path, &rank, dims); gen_chunk_value(v, rank, dims, messy);
            snprintf(opts[n], sizeof opts[0], "%s:%s", objs[o].path, v); kind[n++] = 'c';
        }
    }
    if (hk_chance(50)) { snprintf(opts[n], sizeof opts[0], "%d", (int)(hk_chance(40) ? hk_range(0, 40) : hk_range(0, 3000))); kind[n++] = 'm'; }
    if (messy) {
        /* conflicting / malformed extras drawn from the old free generator */
        int extra = (int)hk_range(1, 2);
        while (extra-- > 0 && n < 11) {
            char names[3000], v[VALSZ]; int rank; int32 dims[TG_MAXRANK] = {0};
            switch ((int)hk_range(0, 3)) {
                case 0: gen_names(names, 1, 1); gen_comp_value(v, 1); snprintf(opts[n], sizeof opts[0], hk_chance(5) ? "%s%s" : "%s:%s", names, v); kind[n++] = 't'; break;
                case 1: gen_names(names, 1, 1); rank_of_names(names, &rank, dims); gen_chunk_value(v, rank, dims, 1); snprintf(opts[n], sizeof opts[0], hk_chance(5) ? "%s%s" : "%s:%s", names, v); kind[n++] = 'c'; break;
                case 2: strcpy(opts[n], hk_chance(50) ? "12a" : "-5"); kind[n++] = 'm'; break;
                default: if (n > 0) { int src = (int)hk_range(0, n - 1); strcpy(opts[n], opts[src]); kind[n] = kind[src]; n++; } break;
            }
        }
    }
    /* random order */
    for (i = n - 1; i > 0; i--) {
        int j = (int)hk_range(0, i); static char t[sizeof opts[0]]; char c;
        if (j == i) continue;
        strcpy(t, opts[i]); strcpy(opts[i], opts[j]); strcpy(opts[j], t);
        c = kind[i]; kind[i] = kind[j]; kind[j] = c;
    }
    for (k = 0; k < n;) {
        if (kind[k] != 'm' && hk_chance(15) && strlen(opts[k]) < 900) {
            /* move 1..3 consecutive -t/-c options into an option file */
            static char content[ARGSZ]; char fn[64]; FILE *f; int cnt = (int)hk_range(1, 3);
            content[0] = 0;
            while (cnt-- > 0 && k < n && kind[k] != 'm' && strlen(opts[k]) < 900) {
                char line[1000];
                snprintf(line, sizeof line, "-%c \"%s\"%s", kind[k], opts[k], hk_chance(70) ? "\n" : " ");
                if (strlen(content) + strlen(line) < ARGSZ - 1400) strcat(content, line); /* margbuf holds ARGSZ bytes */
                k++;
            }
            if (messy && hk_chance(15)) strcat(content, "-x 1\n");
            if (messy && hk_chance(10)) strcat(content, "-t \"sds0:RLE");
            if (messy && hk_chance(25)) {
                /* read_info's own buffers (hrepack.c): a token of 9 / 10 / more characters for stype[10] (read with %9s), a quoted value
                   around the capacity of info[1024] */
                static const char *tok[] = {"ABCDEFGHI", "ABCDEFGHIJ", "ABCDEFGHIJKLMNOPQRSTUVWXYZ", "-tABCDEFGHIJKL", "-t-t-t-t-t-t", "-cccccccccc"};
                int pick = (int)hk_range(0, 9);
                if (pick < 6) { strcat(content, tok[pick]); strcat(content, hk_chance(50) ? "\n" : " \"a:RLE\"\n"); }
                else {
                    static const int vlen[] = {1022, 1023, 1024, 1100};
                    int vl = vlen[pick - 6], nl, q;
                    char *e = content + strlen(content);
                    /* -t "<name>:RLE" / -c "<name>:2" whose value has exactly vl characters (the name is over-long for obj[]: the parser
                       rejects it when the value still fits in info[]) */
                    const char *tail = hk_chance(50) ? ":RLE" : ":2";
                    int isc = tail[1] == '2';
                    nl = vl - (int)strlen(tail);
                    e += sprintf(e, "-%c \"", isc ? 'c' : 't');
                    for (q = 0; q < nl; q++) *e++ = (char)('a' + q % 7);
                    sprintf(e, "%s\"\n", tail);
                }
            }
            snprintf(fn, sizeof fn, "opt_%d_%d.txt", hk_case_no, optfile_no++);
            f = fopen(hk_tmp(fn), "w");
            if (f) { fputs(content, f); fclose(f); }
            push_arg("-f", "-f"); push_arg(hk_tmp(fn), content);
        }
        else {
            char flag[3] = {'-', kind[k], 0};
            push_arg(flag, flag); push_arg(opts[k], opts[k]);
            k++;
        }
    }
}

/* ------------------------------------------------------------------------------------------- direct ties */

static void print_names(obj_list_t *l, int n)
{
    int i;
    if (n <= 0) { printf("-"); return; }
    for (i = 0; i < n; i++) { if (i) printf(","); hexs(l[i].obj); }
}

/* Every option string goes to the in-process parser of the tree under test: the defects that once made some of them unsafe (an object
   list that is empty or ends with ',', more than H4_MAX_VAR_DIMS chunk lengths, a third szip mask character, bytes >= 0x80 handed to
   isdigit, over-long option-file tokens / values) are fixed in /repo (known_findings.json, property C18); if one comes back, the engine
   itself stops under ASan / UBSan and bin/check reports the case under the sanitizer key. */
/* implementation-side oracle (no model involved): every one of the *n_objs entries the parser announces must have been written.
   Under ASan malloc'ed memory holds the fill byte 0xbe until it is written; an entry that is still all fill was never stored
   (the defect fixed by b6f2d28: empty object list / list ending with ','). */
static int check_names_written(const char *what, const char *str, obj_list_t *l, int n)
{
    int i, j;
    for (i = 0; i < n; i++) {
        for (j = 0; j < H4_MAX_NC_NAME; j++) if ((unsigned char)l[i].obj[j] != 0xbe) break;
        if (j == H4_MAX_NC_NAME) { hk_fail("parse-unwritten-object-name", "%s(\"%.60s\"): *n_objs = %d but obj_list[%d] was never written", what, str, n, i); return 1; }
    }
    return 0;
}

static void tie_parse_comp(const char *s)
{
    comp_info_t c;
    int         n = -7;
    obj_list_t *l;
    memset(&c, FAIL, sizeof c);
    l = parse_comp(s, &n, &c);
    if (l && check_names_written("parse_comp", s, l, n)) { free(l); return; }
    printf("T repack parse_comp "); hexs(s); printf(" => ");
    if (!l) printf("fail\n");
    else { printf("ok %d ", n); print_names(l, n); printf(" %d %d\n", (int)c.type, c.info); free(l); }
}
static void tie_parse_chunk(const char *s)
{
    int32       len[H4_MAX_VAR_DIMS];
    int         n = -7, rank = -99, i;
    obj_list_t *l;
    l = parse_chunk(s, &n, len, &rank);
    if (l && check_names_written("parse_chunk", s, l, n)) { free(l); return; }
    printf("T repack parse_chunk "); hexs(s); printf(" => ");
    if (!l) printf("fail\n");
    else {
        printf("ok %d ", n); print_names(l, n); printf(" %d ", rank);
        if (rank <= 0) printf("-");
        for (i = 0; i < rank; i++) printf("%s%d", i ? "," : "", (int)len[i]);
        printf("\n"); free(l);
    }
}

/* the option loop of hrepack_main.c:main on args[] (without -i/-o/-v). 0 = options ready, 1 = usage */
static int build_options(options_t *o)
{
    int i;
    hrepack_init(o, 0);
    for (i = 0; i < nargs; i++) {
        if (strcmp(args[i], "-t") == 0) { if (hrepack_addcomp(args[i + 1], o) < 0) return 1; ++i; }
        else if (strcmp(args[i], "-c") == 0) { if (hrepack_addchunk(args[i + 1], o) < 0) return 1; ++i; }
        else if (strcmp(args[i], "-m") == 0) { o->threshold = parse_number(args[i + 1]); if (o->threshold == -1) return 1; ++i; }
        else if (strcmp(args[i], "-f") == 0) { if (read_info(args[++i], o) < 0) return 1; }
        else if (args[i][0] == '-') return 1;
    }
    return 0;
}

static void print_margs(void)
{
    int i;
    printf("%d", nargs);
    for (i = 0; i < nargs; i++) { printf(" "); hexs(margs[i]); }
}

static void silence(int on)
{
    static int saved = -1;
    fflush(stdout);
    if (on) { int fd = open("/dev/null", O_WRONLY); saved = dup(1); dup2(fd, 1); close(fd); }
    else if (saved >= 0) { dup2(saved, 1); close(saved); saved = -1; }
}

static int tie_options(void)
{
    options_t o;
    int       r, i, k;
    silence(1); r = build_options(&o); silence(0);
    printf("T repack options "); print_margs(); printf(" => ");
    if (r) printf("usage\n");
    else {
        int po;
        silence(1); po = print_options(&o); silence(0);
        printf("%s ac=%d at=%d ct=%d,%d cr=%d", po < 0 ? "bad" : "ok", o.all_chunk, o.all_comp, o.all_comp ? (int)o.comp_g.type : 0, o.all_comp ? o.comp_g.info : 0, o.all_chunk ? o.chunk_g.rank : 0);
        if (o.all_chunk && o.chunk_g.rank > 0) for (k = 0; k < o.chunk_g.rank; k++) printf("%s%d", k ? "," : ":", (int)o.chunk_g.chunk_lengths[k]);
        printf(" m=%d n=%d", o.threshold, o.op_tbl->nelems);
        for (i = 0; i < o.op_tbl->nelems; i++) {
            pack_info_t *p = &o.op_tbl->objs[i];
            printf(" "); hexs(p->objpath); printf("/%d/%d/%d", (int)p->comp.type, p->comp.info, p->chunk.rank);
            for (k = 0; k < p->chunk.rank; k++) printf("%s%d", k ? "," : "/", (int)p->chunk.chunk_lengths[k]);
        }
        printf("\n");
    }
    hrepack_end(&o);
    return r;
}

/* options_get_info in a child process (one branch dereferences NULL) */
static void tie_getinfo(const char *path, int rank, int flags_in, int comp_in, int info_in, const int32 *chunk_in)
{
    int   pfd[2], st, i;
    pid_t pid;
    char  buf[600] = "";
    if (pipe(pfd) < 0) return;
    fflush(stdout);
    pid = fork();
    if (pid == 0) {
        options_t     o;
        int32         flags = flags_in;
        HDF_CHUNK_DEF cd;
        int           info = info_in, szm = -1, ret, n = 0;
        comp_coder_t  ct = (comp_coder_t)comp_in;
        char          out[600];
        int32         dims[H4_MAX_VAR_DIMS] = {0};
        close(pfd[0]);
        { int fd = open("/dev/null", O_WRONLY); dup2(fd, 1); dup2(fd, 2); }
        memset(&cd, 0, sizeof cd);
        for (i = 0; i < rank; i++) cd.chunk_lengths[i] = chunk_in[i];
        if (flags_in == (HDF_CHUNK | HDF_COMP)) { cd.comp.comp_type = comp_in; if (comp_in == COMP_CODE_SKPHUFF) cd.comp.cinfo.skphuff.skp_size = info_in; if (comp_in == COMP_CODE_DEFLATE) cd.comp.cinfo.deflate.level = info_in; }
        if (build_options(&o)) _exit(3);
        ret = options_get_info(&o, &flags, &cd, &info, &szm, &ct, rank, (char *)path, 1, dims, DFNT_INT32);
        if (ret < 0) { n = snprintf(out, sizeof out, "-1"); if (write(pfd[1], out, (size_t)n) < 0) _exit(4); _exit(0); }
        n += snprintf(out + n, sizeof out - n, "%d %d %d %d ", ret, (int)flags, (int)ct, (ct == COMP_CODE_SKPHUFF || ct == COMP_CODE_DEFLATE || ct == COMP_CODE_JPEG) ? info : 0);
        if (flags & HDF_CHUNK) for (i = 0; i < rank; i++) n += snprintf(out + n, sizeof out - n, "%s%d", i ? "," : "", (int)cd.chunk_lengths[i]);
        else n += snprintf(out + n, sizeof out - n, "-");
        if (flags == (HDF_CHUNK | HDF_COMP)) {
            int cc = cd.comp.comp_type;
            n += snprintf(out + n, sizeof out - n, " %d %d", cc, cc == COMP_CODE_SKPHUFF ? cd.comp.cinfo.skphuff.skp_size : cc == COMP_CODE_DEFLATE ? cd.comp.cinfo.deflate.level : cc == COMP_CODE_JPEG ? cd.comp.cinfo.jpeg.quality : 0);
        }
        else n += snprintf(out + n, sizeof out - n, " 0 0");
        if (write(pfd[1], out, (size_t)n) < 0) _exit(4);
        _exit(0);
    }
    close(pfd[1]);
    { ssize_t r = read(pfd[0], buf, sizeof buf - 1); if (r < 0) r = 0; buf[r] = 0; }
    close(pfd[0]);
    waitpid(pid, &st, 0);
    printf("T repack getinfo "); print_margs(); printf(" "); hexs(path);
    printf(" %d %d %d %d ", rank, flags_in, comp_in, info_in);
    if (!(flags_in & HDF_CHUNK) || rank == 0) printf("-"); else for (i = 0; i < rank; i++) printf("%s%d", i ? "," : "", (int)chunk_in[i]);
    printf(" => ");
    if (WIFEXITED(st) && WEXITSTATUS(st) == 0) printf("%s\n", buf);
    else if (WIFEXITED(st) && WEXITSTATUS(st) == 3) printf("usage\n");
    else printf("crash\n");
}

static void print_lens(const int32 *c, int n, int on);
/* the strip-mine loop of copy_sds, transcribed with the SD calls removed: which (offset,size) pairs does it issue? */
#define H4TOOLS_BUFSIZE_ (1024 * 1024)
/* NOTE: this is the C text of hrepack_sds.c lines "determine the strip mine size" .. "calculate the next hyperslab
   offset" with SDreaddata/SDwritedata replaced by a print; the real loop runs inside the hrepack binary whenever the
   data are >= 1 MiB and its effect is checked by the content comparator. */
static void tie_tiles(int rank, const int32 *dimsizes, int32 eltsz, long bufsize)
{
    int32 sm_size[H4_MAX_VAR_DIMS], sm_nbytes, hs_offset[H4_MAX_VAR_DIMS], hs_size[H4_MAX_VAR_DIMS], hs_nelmts, elmtno, p_nelmts = 1;
    int   i, carry, nt = 0;
    for (i = 0; i < rank; i++) p_nelmts *= dimsizes[i];
    sm_nbytes = eltsz;
    for (i = rank; i > 0; --i) {
        sm_size[i - 1] = MIN(dimsizes[i - 1], (int32)(bufsize / sm_nbytes));
        sm_nbytes *= sm_size[i - 1];
        if (sm_nbytes <= 0) return; /* assert(sm_nbytes > 0) */
    }
    printf("T repack tiles %ld %d ", bufsize, (int)eltsz);
    print_lens(dimsizes, rank, 1);
    printf(" => ");
    print_lens(sm_size, rank, 1);
    memset(hs_offset, 0, sizeof hs_offset);
    for (elmtno = 0; elmtno < p_nelmts; elmtno += hs_nelmts) {
        if (rank > 0) {
            for (i = 0, hs_nelmts = 1; i < rank; i++) {
                hs_size[i] = MIN(dimsizes[i] - hs_offset[i], sm_size[i]);
                hs_nelmts *= hs_size[i];
            }
        }
        else hs_nelmts = 1;
        if (nt < 40) { printf(" "); print_lens(hs_offset, rank, 1); printf(";"); print_lens(hs_size, rank, 1); }
        nt++;
        for (i = rank, carry = 1; i > 0 && carry; --i) {
            hs_offset[i - 1] += hs_size[i - 1];
            if (hs_offset[i - 1] == dimsizes[i - 1]) hs_offset[i - 1] = 0;
            else carry = 0;
        }
    }
    printf(" n=%d\n", nt);
}

/* ------------------------------------------------------------------------------------------- object descriptors */

typedef struct { int ok; int32 flags; int comp; int info; int32 chunk[H4_MAX_VAR_DIMS]; int rank; int32 dims[H4_MAX_VAR_DIMS]; int eltsz; int empty; int isrec; } lay_t;

static int comp_param(comp_coder_t t, comp_info *ci)
{
    if (t == COMP_CODE_SKPHUFF) return ci->skphuff.skp_size;
    if (t == COMP_CODE_DEFLATE) return ci->deflate.level;
    return 0;
}

static void sds_layout(const char *file, const char *name, lay_t *l)
{
    int32 sd = SDstart(file, DFACC_READ), idx, id, nt, na;
    char  nm[H4_MAX_NC_NAME + 1];
    memset(l, 0, sizeof *l);
    if (sd == FAIL) return;
    idx = SDnametoindex(sd, name);
    if (idx != FAIL && (id = SDselect(sd, idx)) != FAIL) {
        HDF_CHUNK_DEF cd; comp_coder_t ct = COMP_CODE_NONE; comp_info ci; int i;
        memset(&ci, 0, sizeof ci); memset(&cd, 0, sizeof cd);
        SDgetinfo(id, nm, (int32 *)&l->rank, l->dims, &nt, &na);
        l->eltsz = tg_ntsize(nt);
        SDcheckempty(id, &l->empty);
        l->isrec = SDisrecord(id);
        l->ok    = 1;
        if (!l->empty) {
            if (SDgetcompinfo(id, &ct, &ci) == FAIL) l->ok = 0;
            if (SDgetchunkinfo(id, &cd, &l->flags) == FAIL) l->ok = 0;
        }
        l->comp = ct; l->info = comp_param(ct, &ci);
        for (i = 0; i < l->rank; i++) l->chunk[i] = (l->flags & HDF_CHUNK) ? cd.chunk_lengths[i] : 0;
        SDendaccess(id);
    }
    SDend(sd);
}
static void gr_layout(const char *file, const char *name, lay_t *l)
{
    int32 f = Hopen(file, DFACC_READ, 0), gr, idx, id;
    memset(l, 0, sizeof *l);
    if (f == FAIL) return;
    gr = GRstart(f);
    idx = GRnametoindex(gr, name);
    if (idx != FAIL && (id = GRselect(gr, idx)) != FAIL) {
        HDF_CHUNK_DEF cd; comp_coder_t ct = COMP_CODE_NONE; comp_info ci; int32 nc, nt, il, na; char nm[H4_MAX_GR_NAME + 1]; int i;
        memset(&ci, 0, sizeof ci); memset(&cd, 0, sizeof cd);
        GRgetiminfo(id, nm, &nc, &nt, &il, l->dims, &na);
        l->rank = 2; l->eltsz = tg_ntsize(nt); l->ok = 1;
        GRgetcompinfo(id, &ct, &ci);
        if (GRgetchunkinfo(id, &cd, &l->flags) == FAIL) l->ok = 0;
        l->comp = ct; l->info = comp_param(ct, &ci);
        for (i = 0; i < 2; i++) l->chunk[i] = (l->flags & HDF_CHUNK) ? cd.chunk_lengths[i] : 0;
        GRendaccess(id);
    }
    GRend(gr); Hclose(f);
}

static void print_lens(const int32 *c, int n, int on)
{
    int i;
    if (!on || n == 0) { printf("-"); return; }
    for (i = 0; i < n; i++) printf("%s%d", i ? "," : "", (int)c[i]);
}

static void print_obj(const objref_t *o, const lay_t *l)
{
    printf("%s/", o->kind); hexs(o->path);
    if (o->sds >= 0 || o->gr >= 0) {
        printf("/%d/", l->rank); print_lens(l->dims, l->rank, 1);
        printf("/%d/%d/%d/%d/%d/%d/", l->eltsz, l->empty, l->isrec, (int)l->flags, l->comp, l->info);
        print_lens(l->chunk, l->rank, l->flags & HDF_CHUNK);
    }
}

/* ------------------------------------------------------------------------------------------- one case */

static const char *leaf(const char *path) { const char *p = strrchr(path, '/'); return p ? p + 1 : path; }

static const char *status_name(int rc, const char *log, const char *out)
{
    struct stat st;
    if (rc >= 1000 || rc == 99 || rc == 98) return "crash";
    if (rc == 1) return "fail";
    if (rc == 0) {
        /* usage() exits 0 as well: distinguished by the missing output file */
        (void)log;
        if (stat(out, &st) != 0) return "usage";
        return "ok";
    }
    return "other";
}

static int log_has(const char *log, const char *needle)
{
    char  line[600];
    FILE *f = fopen(log, "r");
    int   hit = 0;
    if (!f) return 0;
    while (fgets(line, sizeof line, f)) if (strstr(line, needle)) { hit = 1; break; }
    fclose(f);
    return hit;
}

static void oracle_on_crash(int rc, const char *log, const char *what)
{
    char  line[400], key[120] = "hrepack-crash";
    FILE *f = fopen(log, "r");
    char  kind[64] = "", fn[64] = "";
    if (f) {
        while (fgets(line, sizeof line, f)) {
            char *p;
            if (!kind[0] && (p = strstr(line, "ERROR: AddressSanitizer: "))) sscanf(p + 25, "%60s", kind);
            if (!kind[0] && (p = strstr(line, "runtime error: "))) snprintf(kind, sizeof kind, "ubsan");
            if (kind[0] && !fn[0] && (strstr(line, "/repo/") || strstr(line, REPO "/")) && (p = strstr(line, " in "))) sscanf(p + 4, "%60s", fn);
        }
        fclose(f);
    }
    if (kind[0]) snprintf(key, sizeof key, "sanitizer:%s:%s", kind, fn[0] ? fn : "?");
    else snprintf(key, sizeof key, "hrepack-crash:rc=%d", rc);
    hk_fail(key, "%s", what);
}

static void cmdline(char *out, size_t cap, const char *in, const char *outf)
{
    int i; size_t n = 0;
    n += (size_t)snprintf(out + n, cap - n, "hrepack -i %s -o %s", leaf(in), leaf(outf));
    for (i = 0; i < nargs && n < cap - 4; i++) n += (size_t)snprintf(out + n, cap - n, " '%s'", strcmp(args[i], margs[i]) ? "<optfile>" : args[i]);
}

static int do_repack(const char *in, const char *out, const char *log)
{
    char *av[MAXARG + 6];
    int   n = 0, i;
    av[n++] = "-i"; av[n++] = (char *)in; av[n++] = "-o"; av[n++] = (char *)out;
    for (i = 0; i < nargs; i++) av[n++] = args[i];
    unlink(out);
    return run_tool("hrepack", av, n, log);
}

/* number of chunks the shape `val` ("d1xd2...") would give an object of extents dims[0..rank) ; 0 when the ranks differ */
static long chunks_for(const char *val, int rank, const int32 *dims)
{
    long ck[H4_MAX_VAR_DIMS], n = 1;
    int  nd = 0, i;
    const char *p = val;
    while (*p && nd < H4_MAX_VAR_DIMS) {
        char *end; long v = strtol(p, &end, 10);
        if (end == p) return 0;
        ck[nd++] = v; p = end;
        if (*p == 'x') p++; else break;
    }
    if (*p || nd != rank) return 0;
    for (i = 0; i < rank; i++) { if (ck[i] <= 0) return 0; n *= (dims[i] + ck[i] - 1) / ck[i]; if (n > 100000000L) break; }
    return n;
}

/* precondition of the tie (bin/props.py assumptions): no object is asked to have more than MAXCHUNKS chunks. A file has 65535
   reference numbers and every chunk takes one, so such a request makes SDendaccess / GRwriteimage fail at the format limit
   (C20), whatever hrepack decides; copy_sds's own guard compares with INT_MAX and never triggers. */
#define MAXCHUNKS 4096
static int too_many_chunks(const char *optval)
{
    const char *v = strrchr(optval, ':');
    int o;
    if (!v) return 0;
    v++;
    for (o = 0; o < nobjs; o++) {
        if (objs[o].sds >= 0) { const tg_sds_t *d = &cur_spec->sds[objs[o].sds]; if (chunks_for(v, d->rank, d->dims) > MAXCHUNKS) return 1; }
        else if (objs[o].gr >= 0) { if (chunks_for(v, 2, cur_spec->gr[objs[o].gr].dims) > MAXCHUNKS) return 1; }
    }
    return 0;
}

static int skip_binary(void)
{
    int i;
    for (i = 0; i < nargs; i++) {
        const char *p; int run = 0;
        if (strstr(margs[i], "JPEG")) return 1;
        if (i > 0 && (strcmp(margs[i - 1], "-c") == 0 || strcmp(margs[i - 1], "-f") == 0))
            for (p = margs[i]; *p; p++) { if (*p >= '0' && *p <= '9') { if (++run >= 6) return 1; } else run = 0; }
        if (i > 0 && strcmp(margs[i - 1], "-c") == 0 && too_many_chunks(margs[i])) return 1;
        if (i > 0 && strcmp(margs[i - 1], "-f") == 0) {
            /* every quoted value of the option file (a -t value never parses as a chunk shape) */
            const char *q = margs[i];
            while ((q = strchr(q, '"')) != NULL) {
                const char *e = strchr(q + 1, '"'); char tmp[600];
                if (!e) break;
                snprintf(tmp, sizeof tmp, "%.*s", (int)(e - q - 1), q + 1);
                if (too_many_chunks(tmp)) return 1;
                q = e + 1;
            }
        }
    }
    return 0;
}

/* ------------------------------------------------------------------------------------------- which objects are copied */

/* T repack reserved <class> => 0|1 : hrepack_utils.c:is_reserved (the function of the tree under test, in process) */
static void tie_reserved(const char *cls)
{
    char tmp[TG_NAME + 8];
    snprintf(tmp, sizeof tmp, "%s", cls);
    printf("T repack reserved "); hexs(tmp); printf(" => %d\n", is_reserved(tmp) ? 1 : 0);
}

/* the user vgroups and vdatas of the description as the model sees them: vg|vs / name / class / index of the parent vgroup */
static void print_nodes(const tg_spec_t *s)
{
    int i;
    printf("%d", s->nvg + s->nvs);
    for (i = 0; i < s->nvg; i++) { printf(" vg/"); hexs(s->vg[i].name); printf("/"); hexs(s->vg[i].cls); if (s->vg[i].parent >= 0) printf("/%d", s->vg[i].parent); else printf("/-"); }
    for (i = 0; i < s->nvs; i++) { printf(" vs/"); hexs(s->vs[i].name); printf("/"); hexs(s->vs[i].cls); if (s->vs[i].parent >= 0) printf("/%d", s->vs[i].parent); else printf("/-"); }
}

/* description against a repacked file: every user object must have arrived (oracle keys user-*); objects that carry one of
   the library's own classes are expected to be skipped (documented by is_reserved) - reported under their own key.
   Then the tie: T repack keep <nodes> => <one digit per node: 1 copied, 0 not, 2 more than once> */
static void check_user_objects(const tg_spec_t *s, const char *file, const char *what, const char *cl)
{
    int i, nres = 0;
    char first_res[200] = "";
    tg_report = 0;
    if (tg_user_check(file, s) > 0) {
        char key[80]; snprintf(key, sizeof key, "%s", tg_firstkey);
        hk_fail(key, "%s%s [%ld differences] after: %s", what, tg_first, tg_ndiff, cl);
    }
    for (i = 0; i < s->nvg; i++)
        if (tg_vg_reserved(&s->vg[i]) && tg_present_vg[i] == 0 && !nres++) snprintf(first_res, sizeof first_res, "vgroup <%.60s> of class <%.60s>", s->vg[i].name, s->vg[i].cls);
    for (i = 0; i < s->nvs; i++)
        if (s->vs[i].parent < 0 && tg_reserved_class(s->vs[i].cls) && tg_present_vs[i] == 0 && !nres++) snprintf(first_res, sizeof first_res, "lone vdata <%.60s> of class <%.60s>", s->vs[i].name, s->vs[i].cls);
    if (nres) hk_fail("user-object-with-library-class-dropped", "%shrepack exits 0 and leaves out %d user object(s) whose class (or vgroup name %s) is one the library uses itself: %s; after: %s", what, nres, GR_NAME, first_res, cl);
    printf("T repack keep "); print_nodes(s); printf(" => ");
    for (i = 0; i < s->nvg; i++) printf("%d", tg_present_vg[i]);
    for (i = 0; i < s->nvs; i++) printf("%d", tg_present_vs[i]);
    if (s->nvg + s->nvs == 0) printf("-");
    printf("\n");
}

static void run_case(int k)
{
    static tg_spec_t spec;
    static char cl[12000];
    char   in[700], out[700], out2[700], log[700];
    int    messy = hk_chance(25), adv = hk_chance(45), i, rc, o, ndropped = 0;
    const char *st;
    lay_t  lin[32], lout;

    snprintf(in, sizeof in, "%s", hk_tmp("in")); snprintf(in + strlen(in), 32, "_%d.hdf", k);
    snprintf(out, sizeof out, "%s", hk_tmp("out")); snprintf(out + strlen(out), 32, "_%d.hdf", k);
    snprintf(out2, sizeof out2, "%s", hk_tmp("out2")); snprintf(out2 + strlen(out2), 32, "_%d.hdf", k);
    snprintf(log, sizeof log, "%s", hk_tmp("log")); snprintf(log + strlen(log), 32, "_%d.txt", k);

    tg_random(&spec, TG_F_ALL | (adv ? TG_F_ADVNAMES : 0));
    cur_spec = &spec;
    if (verbose) {
        for (i = 0; i < spec.nvg; i++) fprintf(stderr, "  vg %d <%s> class <%s> parent %d nattr %d\n", i, spec.vg[i].name, spec.vg[i].cls, spec.vg[i].parent, spec.vg[i].nattr);
        for (i = 0; i < spec.nvs; i++) fprintf(stderr, "  vs %d <%s> class <%s> parent %d nattr %d\n", i, spec.vs[i].name, spec.vs[i].cls, spec.vs[i].parent, spec.vs[i].nattr);
        for (i = 0; i < spec.nsds; i++) fprintf(stderr, "  sds %d <%s> parent %d nattr %d\n", i, spec.sds[i].name, spec.sds[i].parent, spec.sds[i].nattr);
        for (i = 0; i < spec.ngr; i++) { int j; fprintf(stderr, "  gr %d <%s> parent %d nattr %d", i, spec.gr[i].name, spec.gr[i].parent, spec.gr[i].nattr); for (j = 0; j < spec.gr[i].nattr; j++) fprintf(stderr, " <%s>", spec.gr[i].attr[j].name); fprintf(stderr, "\n"); }
        for (i = 0; i < spec.ngrattr; i++) fprintf(stderr, "  grattr <%s>\n", spec.grattr[i].name);
    }
    if (tg_write(in, &spec) != 0) { hk_fail("generator", "tg_write failed (%d library errors)", tg_nerr); return; }
    /* the input itself must be what the description says (otherwise the generator, not hrepack, is at fault) */
    tg_report = 0;
    if (tg_user_check(in, &spec) > 0) { hk_fail("generator", "the generated file does not match its description: %s: %s [%ld]", tg_firstkey, tg_first, tg_ndiff); return; }
    if (adv) hk_stat("adversarial_names", 1);
    /* attribute vdatas that go with the user objects every tool takes for the library's own: the object itself when its class is
       _HDF_ATTRIBUTE, and one vdata per attribute of a skipped vgroup / vdata */
    tg_lone_attr_class = 0;
    for (i = 0; i < spec.nvs; i++)
        if (spec.vs[i].parent < 0 && tg_reserved_class(spec.vs[i].cls)) {
            int j;
            tg_lone_attr_class += (strcmp(spec.vs[i].cls, _HDF_ATTRIBUTE) == 0) + spec.vs[i].nattr;
            for (j = 0; j < spec.vs[i].nfld; j++) tg_lone_attr_class += spec.vs[i].fattr[j] ? 1 : 0;
        }
    for (i = 0; i < spec.nvg; i++) if (tg_vg_reserved(&spec.vg[i])) tg_lone_attr_class += spec.vg[i].nattr;
    list_objects(&spec);

    /* ---- the class predicate of the tree under test, on the classes of this file and on fresh members of the family */
    for (i = 0; i < spec.nvg; i++) tie_reserved(spec.vg[i].cls);
    for (i = 0; i < spec.nvs; i++) tie_reserved(spec.vs[i].cls);
    for (i = 0; i < 4; i++) { char c[TG_NAME]; tg_adv_string(c, 63, 300, TG_ADV_EMPTY | TG_ADV_EXACT | TG_ADV_COMMA | TG_ADV_LEADSP | TG_ADV_GRNAME, "ucls"); tie_reserved(c); }
    optfile_no = 0;
    gen_options(messy);

    /* ---- direct ties on the option code */
    for (i = 0; i + 1 < nargs; i++) {
        if (strcmp(margs[i], "-t") == 0) tie_parse_comp(margs[i + 1]);
        if (strcmp(margs[i], "-c") == 0) tie_parse_chunk(margs[i + 1]);
    }
    tie_options();

    /* descriptors of the input objects */
    for (o = 0; o < nobjs; o++) {
        memset(&lin[o], 0, sizeof lin[o]);
        if (objs[o].sds >= 0) sds_layout(in, spec.sds[objs[o].sds].name, &lin[o]);
        else if (objs[o].gr >= 0) gr_layout(in, spec.gr[objs[o].gr].name, &lin[o]);
    }
    for (o = 0; o < nobjs; o++)
        if ((objs[o].sds >= 0 || objs[o].gr >= 0) && hk_chance(40))
            tie_getinfo(objs[o].path, lin[o].rank, lin[o].flags, lin[o].comp, lin[o].info, lin[o].chunk);
    if (spec.big >= 0) tie_tiles(spec.sds[0].rank, spec.sds[0].dims, tg_ntsize(spec.sds[0].nt), H4TOOLS_BUFSIZE_);
    {
        /* the same loop on small shapes with a small buffer, so that every carry pattern is visited */
        int32 d[5]; int r = (int)hk_range(0, 4), j;
        for (j = 0; j < r; j++) d[j] = (int32)hk_range(1, 6);
        tie_tiles(r, d, (int32)hk_range(1, 4), hk_range(4, 40));
    }

    /* ---- the real binary (JPEG is lossy and valid for 8-bit images only, absurd chunk lengths allocate gigabytes:
            option code tie only) */
    if (skip_binary()) { hk_stat("binary_skipped", 1); return; }
    if (spec.big >= 0) hk_stat("big_sds_hyperslab_candidates", 1);
    rc = do_repack(in, out, log);
    st = status_name(rc, log, out);
    cmdline(cl, sizeof cl, in, out);
    if (!strcmp(st, "fail") && log_has(log, "Failed to set dimension name")) {
        /* known defect of copy_sds (default dimension names re-applied in traversal order): not predicted by the model */
        hk_fail("fakedim-rename-collision", "hrepack aborts: SDsetdimname(\"fakeDim<k>\") collides in the output; after: %s", cl);
        return;
    }
    if (!strcmp(st, "fail") && log_has(log, "Failed to read palette")) {
        /* known defect of list_pal (DFPnpals counts, DFPgetpal iteration): not predicted by the model */
        hk_fail("lone-palette-count", "hrepack aborts: Failed to read palette; after: %s", cl);
        return;
    }
    printf("T repack run "); print_margs(); printf(" %d", nobjs);
    for (o = 0; o < nobjs; o++) { printf(" "); print_obj(&objs[o], &lin[o]); }
    printf(" => %s\n", st);
    hk_stat(st, 1);
    if (verbose) fprintf(stderr, "case %d: %s => %s\n", k, cl, st);
    if (!strcmp(st, "crash")) { oracle_on_crash(rc, log, cl); return; }
    if (strcmp(st, "ok")) return;

    /* ---- layouts of the output against the model's decision */
    for (o = 0; o < nobjs; o++) {
        if (objs[o].sds < 0 && objs[o].gr < 0) continue;
        if (objs[o].sds >= 0) sds_layout(out, spec.sds[objs[o].sds].name, &lout);
        else gr_layout(out, spec.gr[objs[o].gr].name, &lout);
        printf("T repack decide "); print_margs(); printf(" "); print_obj(&objs[o], &lin[o]);
        printf(" => ");
        if (!lout.ok) { printf("missing\n"); ndropped++; }
        else { printf("%d %d %d ", (int)lout.flags, lout.comp, lout.info); print_lens(lout.chunk, lout.rank, lout.flags & HDF_CHUNK); printf(" %d\n", lout.isrec ? 1 : 0); }
    }

    if (ndropped) {
        hk_fail("gr-dropped-on-chunk-rank-mismatch", "hrepack exits 0 but %d image(s) are missing from the output (copy_gr: goto out with ret == 0); after: %s", ndropped, cl);
        return;
    }
    /* ---- the user objects of the description, one by one, in the output */
    check_user_objects(&spec, out, "", cl);
    /* ---- content: API-level comparison input vs output */
    tg_report = 0;
    if (tg_compare(in, out, 0) > 0) hk_fail(tg_firstkey, "%s [%ld differences] after: %s", tg_first, tg_ndiff, cl);
    hk_stat("compared", 1);

    /* ---- idempotence of content: repack the output with other options, compare with the ORIGINAL */
    if (hk_chance(60)) {
        gen_options(0);
        if (skip_binary()) return;
        rc = do_repack(out, out2, log);
        st = status_name(rc, log, out2);
        cmdline(cl, sizeof cl, out, out2);
        if (!strcmp(st, "crash")) { oracle_on_crash(rc, log, cl); return; }
        if (!strcmp(st, "ok")) {
            hk_stat("second_repack", 1);
            check_user_objects(&spec, out2, "second repack: ", cl);
            if (tg_compare(in, out2, 0) > 0) {
                char key[80]; snprintf(key, sizeof key, "%s", tg_firstkey);
                hk_fail(key, "second repack: %s [%ld differences] after: %s", tg_first, tg_ndiff, cl);
            }
        }
    }
    if (!getenv("HK_KEEP")) { unlink(in); unlink(out); unlink(out2); unlink(log); }
}

int main(int argc, char **argv)
{
    char self[700];
    ssize_t n = readlink("/proc/self/exe", self, sizeof self - 1);
    if (n > 0) { self[n] = 0; snprintf(bindir, sizeof bindir, "%s", dirname(self)); }
    else snprintf(bindir, sizeof bindir, "%s", dirname(strdup(argv[0])));
    if (getenv("HK_BINDIR")) snprintf(bindir, sizeof bindir, "%s", getenv("HK_BINDIR")); /* mutation runs: other tool binaries */
    verbose = getenv("HK_VERBOSE") != NULL;
    return hk_main(argc, argv, "repack");
}
