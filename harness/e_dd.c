/* e_dd - Tie-B engine for C12 (the tag/ref directory: hfiledd.c, bitvect.c, Hcache/Hsync/Hclose/Hopen of hfile.c).
 *
 * One case = one file created with Hopen(DFACC_CREATE, ndds), ndds in {4,5,6,7,9,16} (rarely 0 or 3), driven by a random
 * history through the PUBLIC API: Hputelement / Hstartwrite+Hendaccess (create), append, Hdeldd, Hdupdd (also onto the special
 * variant of a base tag), HDreuse_tagref, HLcreate (a real linked-block element), Hfind single steps and bounded iterations in
 * both directions with every wildcard combination, Hnumber, Hexist, Hlength, Hoffset, Hnewref, Htagnewref, Hcache on/off,
 * Hsync, Hclose+Hopen.  Refs are biased to 1, 2, 65534, 65535.
 * After every mutating call the whole in-memory mirror (read out of filerec_t: blocks, dirty flags, maxref, ddnull cursor,
 * f_end_off) and the on-disk bytes of every clean DD block are printed as T lines, so the Lean model is compared state by state.
 *
 * Implementation-side oracle (independent of the model): a shadow map (base tag, ref) -> (tag, off, len) in C.  Keys:
 *   dd-op-result            a create/delete/dup/reuse returned the wrong status for the shadow state
 *   dd-enum-fwd / dd-enum-bwd   a wildcard Hfind iteration is not exactly the matching live entries, each once
 *   dd-number               Hnumber(tag) / Hnumber(WILDCARD) differs from the shadow count
 *   dd-exist / dd-length / dd-offset   single lookups differ from the shadow
 *   dd-entry-changed        an operation on one entry changed the offset/length of another
 *   dd-newref-in-use / dd-newref-zero-while-free           Hnewref
 *   dd-tagnewref-in-use / dd-tagnewref-zero-while-free     Htagnewref
 *   dd-reopen-fails / dd-delete-not-persisted / dd-entry-lost-after-reopen / dd-phantom-after-reopen / dd-changed-after-reopen
 *   dd-duplicate-descriptor a (base tag, ref) occurs twice in the DD blocks (after Hdupdd onto an existing tag/ref)
 * Special scenarios by case number: k%16==3 lets Hnumber run where it reads past an odd-sized block (F5: ASan report),
 * k%16==5 allows Hdupdd onto an existing tag/ref (F17: use-after-free), k%64==9 fills refs 1..65534 of one tag (F7).
 * Unit level (end of every case, function-level Tie A of bitvect.c): a vector made by bv_new(-1) is driven through the REAL bv_set / bv_get /
 * bv_find_next_zero (bitvect.c is #included, so bv_struct can be read out): `T dd bvnew`, `bvset <bit> <value>`, `bvfill <a> <b> <value>`
 * (bv_set on a..b-1), `bvget <bit>`, `bvfind`, `bvnull` (all three on NULL); results `<ret> <bits_used> <array_size> <last_zero> <buffer hex,
 * trailing zero bytes trimmed>`.  Bit numbers are biased to bits_used, 8*array_size (growth across BV_CHUNK_SIZE, several chunks), negative.
 * The Lean side recomputes them with the hand model AND with the functions translated from the C text (` GEN=` on a difference).
 * Oracle: a shadow array with the value of every bit.  Keys: bv-set-status, bv-get-wrong-bit, bv-find-not-lowest-zero, bv-null-accepted.
 * Unit level 2 (end of every case, function-level Tie A of hfiledd.c: Hnewref / Htagnewref / the DD-block codec loops of HTPsync / HTPstart):
 * the descriptors of the first DD blocks are copied out of filerec_t before the final Hclose; afterwards the bytes of those blocks are read back
 * from the file with stdio (`T dd ublk enc <tag.ref.off.len,...> => <hex>`: what the REAL HTPsync / HTIupdate_dd put on disk), the file is
 * opened again (the REAL HTPstart parses the blocks) and the in-memory records and maxref are printed against the bytes
 * (`T dd ublk dec <maxref of the file if it has one block, else -1> <hex> => <tag.ref.off.len,...> <maxref or -1>`).  On that open file maxref is
 * then set directly in filerec_t to 65533 and Hnewref is called four times, at and across the 65535 limit
 * (`T dd uref newref <maxref before> <refs in use, csv> => <ret> <maxref after>`), and Htagnewref is called for the tags of the file
 * (`T dd uref tagnewref <tag> <refs of its base tag in block order, csv> => <ret>`).  The Lean side answers with the hand model and runs the
 * functions translated from the C text on the same inputs (` GEN=` on a difference / ub / oof).  Keys: dd-unit-short-read.
 * argv[4] (optional): six 0/1 digits = which fixes the model should assume (sent as `T dd cfg <bits>`), default = as is.
 */
#include "hdf.h"
#include "hfile_priv.h"
#include <stdio.h>
#include <fcntl.h>
/* this engine provokes sanitizer aborts on purpose (F5, F17): keep stdout line-buffered so a trace never ends in a partial line */
static int dd_setvbuf(FILE *f, char *b, int m, size_t n) { (void)m; return setvbuf(f, b, _IOLBF, n); }
#define setvbuf dd_setvbuf
#include "hk.h"
#undef setvbuf
#include "hdf/src/bitvect.c" /* resolved through -I<REPO>: bv_struct is private to bitvect.c; the library's bitvect.o is then not linked */

#define MAXE 70000
typedef struct { uint16 tag, ref; int32 off, len; int live; } ent_t;
static ent_t sh[MAXE];
static int nsh;
static int32 fid = FAIL;
static const char *fname;
static uint8 buf[1 << 16];
static const char *cfgbits = NULL;
static int allow_f5, allow_f17, dead;
static int f5_present = 1, f17_present = 1; /* set by probe() */
static long n_ops, n_reopen, n_newblk;

static uint16 base_of(uint16 t) { return (uint16)((~t & 0x8000) ? (t & ~0x4000) : t); }
static uint16 special_of(uint16 t) { return (uint16)((~t & 0x8000) ? (t | 0x4000) : DFTAG_NULL); }

/* (base tag, ref) -> index+1 in sh[], so lookups stay O(1) in the 65534-entry scenario */
#define NBASE 24
static uint16 bases[NBASE];
static int nbases;
static int32 posidx[NBASE][65536];
static int bid(uint16 base, int add)
{
    for (int i = 0; i < nbases; i++) if (bases[i] == base) return i;
    if (!add || nbases >= NBASE) return -1;
    bases[nbases] = base; memset(posidx[nbases], 0, sizeof posidx[nbases]);
    return nbases++;
}
static void sh_clear(void) { nsh = 0; nbases = 0; }
static int sh_find(uint16 tag, uint16 ref)
{
    int b = bid(base_of(tag), 0);
    if (b < 0) return -1;
    int i = posidx[b][ref] - 1;
    return (i >= 0 && sh[i].live) ? i : -1;
}
static int sh_add(uint16 tag, uint16 ref, int32 off, int32 len)
{
    int i = nsh, b = bid(base_of(tag), 1);
    if (nsh >= MAXE || b < 0) return -1;
    nsh++;
    sh[i].tag = tag; sh[i].ref = ref; sh[i].off = off; sh[i].len = len; sh[i].live = 1;
    posidx[b][ref] = i + 1;
    return i;
}
static int sh_count(void) { int n = 0; for (int i = 0; i < nsh; i++) n += sh[i].live; return n; }

static filerec_t *frec(void) { return (filerec_t *)HAatom_object(fid); }

static int nslots(void)
{
    int n = 0;
    for (ddblock_t *b = frec()->ddhead; b; b = b->next) n += b->ndds;
    return n;
}
static int nblocks(void)
{
    int n = 0;
    for (ddblock_t *b = frec()->ddhead; b; b = b->next) n++;
    return n;
}

/* HPgetdiskblock() reserves space (caching off) by writing ONE byte at the end of the block from an uninitialised stack
 * variable (`uint8 temp;`).  For a new DD block that byte is the low byte of the last descriptor's length.  The model
 * cannot predict stack garbage: a descriptor that is otherwise all-zero is printed with length 0 and the event is reported. */
static long n_garbage;
static int32 norm_len(unsigned tag, unsigned ref, int32 off, int32 len)
{
    if (tag == 0 && ref == 0 && off == 0 && len > 0 && len < 256) { n_garbage++; return 0; }
    return len;
}
/* ---- T lines that expose the whole state ---- */
static void t_state(void)
{
    filerec_t *fr = frec();
    if (nblocks() > 40) return;
    int nb = -1, i = 0;
    for (ddblock_t *b = fr->ddhead; b; b = b->next, i++) if (b == fr->ddnull) nb = i;
    printf("T dd state => c=%d d=%d mr=%u nb=%d ni=%d fe=%d", fr->cache ? 1 : 0, (fr->dirty & DDLIST_DIRTY) ? 1 : 0,
           (unsigned)fr->maxref, nb, (int)fr->ddnull_idx, (int)fr->f_end_off);
    for (ddblock_t *b = fr->ddhead; b; b = b->next) {
        printf(" B %d,%d,%d,%d:", (int)b->myoffset, (int)b->nextoffset, b->dirty ? 1 : 0, (int)b->ndds);
        for (int j = 0; j < b->ndds; j++)
            printf("%s%u/%u/%d/%d", j ? ";" : "", (unsigned)b->ddlist[j].tag, (unsigned)b->ddlist[j].ref, (int)b->ddlist[j].offset,
                   (int)norm_len(b->ddlist[j].tag, b->ddlist[j].ref, b->ddlist[j].offset, b->ddlist[j].length));
    }
    printf("\n");
}
static int garb_off = -1, garb_val, garb_reported = -1;
static void t_disk(void)
{
    filerec_t *fr = frec();
    if (nblocks() > 40) return;
    fflush(fr->file);
    FILE *f = fopen(fname, "rb");
    if (!f) return;
    printf("T dd disk =>");
    for (ddblock_t *b = fr->ddhead; b; b = b->next) {
        if (b->dirty) { printf(" D %d,dirty", (int)b->myoffset); continue; }
        uint8 h[6]; memset(h, 0, 6);
        fseek(f, b->myoffset, SEEK_SET);
        size_t got = fread(h, 1, 6, f); (void)got;
        int ndds = (int16)((h[0] << 8) | h[1]);
        int32 nx = (int32)(((uint32)h[2] << 24) | (h[3] << 16) | (h[4] << 8) | h[5]);
        printf(" D %d,%d,%d:", (int)b->myoffset, ndds, (int)nx);
        for (int j = 0; j < b->ndds; j++) {
            uint8 d[12]; memset(d, 0, 12);
            got = fread(d, 1, 12, f);
            unsigned tag = (d[0] << 8) | d[1], ref = (d[2] << 8) | d[3];
            int32 off = (int32)(((uint32)d[4] << 24) | (d[5] << 16) | (d[6] << 8) | d[7]);
            int32 len = (int32)(((uint32)d[8] << 24) | (d[9] << 16) | (d[10] << 8) | d[11]);
            if (j == b->ndds - 1 && norm_len(tag, ref, off, len) != len) {
                if (garb_reported != (int)b->myoffset) { garb_off = (int)b->myoffset; garb_val = (int)len; }
                len = 0;
            }
            printf("%s%u/%u/%d/%d", j ? ";" : "", tag, ref, (int)off, (int)len);
        }
    }
    printf("\n");
    if (garb_off >= 0) {
        hk_fail("dd-uninit-byte-on-disk", "last byte of the DD block at %d is 0x%02x: never initialised by the library", garb_off, (unsigned)garb_val);
        garb_reported = garb_off; garb_off = -1;
    }
    fclose(f);
}
static void t_all(void) { t_state(); t_disk(); }

/* ---- enumeration ---- */
typedef struct { uint16 tag, ref; int32 off, len; } hit_t;
static hit_t hits[MAXE];
static int iterate(uint16 st, uint16 sr, int dir, int mx, int emit)
{
    uint16 ft = 0, fr = 0; int32 o, l; int n = 0;
    while (n < mx && Hfind(fid, st, sr, &ft, &fr, &o, &l, dir) == SUCCEED) {
        hits[n].tag = ft; hits[n].ref = fr; hits[n].off = o; hits[n].len = norm_len(ft, fr, o, l); n++;
    }
    if (emit) {
        printf("T dd iter %u %u %c %d => ", (unsigned)st, (unsigned)sr, dir == DF_FORWARD ? 'f' : 'b', mx);
        if (n == 0) printf("-");
        for (int i = 0; i < n; i++) printf("%s%u/%u/%d/%d", i ? "," : "", (unsigned)hits[i].tag, (unsigned)hits[i].ref, (int)hits[i].off, (int)hits[i].len);
        printf("\n");
    }
    return n;
}
static int matches(const ent_t *e, uint16 st, uint16 sr)
{
    if (!e->live) return 0;
    if (st != 0 && !(e->tag == st || (special_of(st) != DFTAG_NULL && e->tag == special_of(st)))) return 0;
    if (sr != 0 && e->ref != sr) return 0;
    return 1;
}
/* each matching shadow entry exactly once, nothing else */
static void check_enum(uint16 st, uint16 sr, int dir, int emit)
{
    int want = 0;
    for (int i = 0; i < nsh; i++) want += matches(&sh[i], st, sr);
    int mx = nslots() + 2;
    int n = iterate(st, sr, dir, mx, emit);
    const char *key = dir == DF_FORWARD ? "dd-enum-fwd" : "dd-enum-bwd";
    if (n != want) { hk_fail(key, "search (%u,%u): %d results, %d live matches", (unsigned)st, (unsigned)sr, n, want); return; }
    for (int i = 0; i < n; i++) {
        int j = sh_find(hits[i].tag, hits[i].ref);
        if (j < 0 || sh[j].tag != hits[i].tag || !matches(&sh[j], st, sr)) { hk_fail(key, "search (%u,%u): result (%u,%u) is not a live match", (unsigned)st, (unsigned)sr, (unsigned)hits[i].tag, (unsigned)hits[i].ref); return; }
        if (sh[j].off != hits[i].off || sh[j].len != hits[i].len) hk_fail("dd-entry-changed", "(%u,%u) is off=%d len=%d, expected off=%d len=%d", (unsigned)hits[i].tag, (unsigned)hits[i].ref, (int)hits[i].off, (int)hits[i].len, (int)sh[j].off, (int)sh[j].len);
        for (int q = (i > 300 ? i - 300 : 0); q < i; q++) if (hits[q].tag == hits[i].tag && hits[q].ref == hits[i].ref) { hk_fail(key, "search (%u,%u): (%u,%u) listed twice", (unsigned)st, (unsigned)sr, (unsigned)hits[i].tag, (unsigned)hits[i].ref); return; }
    }
}

/* rebuild the shadow from what the file reports (after an oracle failure, to avoid cascades) */
static void resync(void)
{
    int mx = nslots() + 2;
    int n = iterate(0, 0, DF_FORWARD, mx, 0);
    sh_clear();
    for (int i = 0; i < n; i++) if (sh_find(hits[i].tag, hits[i].ref) < 0) sh_add(hits[i].tag, hits[i].ref, hits[i].off, hits[i].len);
}

/* duplicate (base tag, ref) in the blocks, looked at directly (no library call) */
static int has_duplicate(void)
{
    filerec_t *fr = frec();
    int n = 0;
    for (ddblock_t *b = fr->ddhead; b; b = b->next)
        for (int j = 0; j < b->ndds; j++) if (b->ddlist[j].tag != DFTAG_NULL) {
            if (n < MAXE) { hits[n].tag = base_of(b->ddlist[j].tag); hits[n].ref = b->ddlist[j].ref; n++; }
        }
    for (int i = 0; i < n && i < 400; i++) for (int j = 0; j < i; j++) if (hits[i].tag == hits[j].tag && hits[i].ref == hits[j].ref) return 1;
    return 0;
}

static const uint16 TAGS[] = {100, 100, 101, 16484 /* 100|0x4000 */, 32784 /* 0x8010 user tag */, 702};
static const uint16 REFS[] = {1, 1, 2, 3, 65534, 65535, 65535};
static uint16 pick_tag(void) { return HK_PICK(TAGS); }
static uint16 pick_ref(void) { return hk_chance(70) ? HK_PICK(REFS) : (uint16)hk_range(1, 12); }
static int pick_live(void)
{
    int n = sh_count();
    if (n == 0) return -1;
    int k = (int)hk_range(0, n - 1);
    for (int i = 0; i < nsh; i++) if (sh[i].live && k-- == 0) return i;
    return -1;
}
static int pick_live_user(void)
{   /* a live entry that is not the library's own version element and not a linked-block part */
    for (int t = 0; t < 8; t++) { int i = pick_live(); if (i >= 0 && sh[i].tag != DFTAG_VERSION && base_of(sh[i].tag) != DFTAG_LINKED) return i; }
    return -1;
}

/* refresh shadow off/len of one entry from the library after a create */
static void learn(uint16 tag, uint16 ref)
{
    uint16 ft = 0, fr = 0; int32 o, l;
    if (Hfind(fid, tag, ref, &ft, &fr, &o, &l, DF_FORWARD) == SUCCEED) {
        int j = sh_find(tag, ref);
        if (j < 0) sh_add(ft, fr, o, l); else { sh[j].tag = ft; sh[j].off = o; sh[j].len = l; }
    }
}

static void op_put(void)
{
    uint16 tag = pick_tag(), ref = pick_ref();
    int j = sh_find(tag, ref);
    if (j >= 0 && SPECIALTAG(sh[j].tag)) return; /* special element: the special layer takes over (not C12) */
    int32 len;
    if (j >= 0 && sh[j].len >= 0) len = hk_chance(70) ? (int32)hk_range(1, sh[j].len > 0 ? sh[j].len : 1) : sh[j].len + (int32)hk_range(1, 5);
    else len = hk_chance(8) ? 0 : (int32)hk_range(1, 40);
    int nb0 = nblocks();
    int32 r = Hputelement(fid, tag, ref, buf, len);
    printf("T dd put %u %u %d => ", (unsigned)tag, (unsigned)ref, (int)len);
    if (r == FAIL) printf("fail\n"); else printf("%d\n", (int)r);
    if (nblocks() > nb0) n_newblk++;
    if (j < 0) {
        /* a new element: must now exist, under its base tag, with this length (len 0: Hwrite refuses, DD stays) */
        if (len > 0 && r != len) hk_fail("dd-op-result", "Hputelement new (%u,%u) len %d returned %d", (unsigned)tag, (unsigned)ref, (int)len, (int)r);
        learn(base_of(tag), ref);
        int q = sh_find(tag, ref);
        if (q < 0) hk_fail("dd-op-result", "Hputelement new (%u,%u): element not found afterwards", (unsigned)tag, (unsigned)ref);
        else if (sh[q].len != len || sh[q].tag != base_of(tag)) hk_fail("dd-length", "new (%u,%u): directory says tag %u len %d, written %d", (unsigned)tag, (unsigned)ref, (unsigned)sh[q].tag, (int)sh[q].len, (int)len);
    }
    else if (sh[j].len < 0) { /* reused descriptor gets a new place */
        if (len > 0 && r != len) hk_fail("dd-op-result", "Hputelement on reused (%u,%u) returned %d", (unsigned)tag, (unsigned)ref, (int)r);
        learn(tag, ref);
        if (sh[j].len != len) hk_fail("dd-length", "rewritten (%u,%u): len %d, written %d", (unsigned)tag, (unsigned)ref, (int)sh[j].len, (int)len);
    }
    else { /* existing: fits -> ok, does not fit -> refused; directory unchanged either way */
        int32 want = (len > 0 && len <= sh[j].len) ? len : FAIL;
        if (r != want) hk_fail("dd-op-result", "Hputelement existing (%u,%u) len %d (has %d) returned %d", (unsigned)tag, (unsigned)ref, (int)len, (int)sh[j].len, (int)r);
    }
}
static void op_sw(void)
{
    uint16 tag = pick_tag(), ref = pick_ref();
    int j = sh_find(tag, ref);
    if (j >= 0 && SPECIALTAG(sh[j].tag)) return;
    int32 len = (int32)hk_range(0, 30);
    int32 aid = Hstartwrite(fid, tag, ref, len);
    if (aid != FAIL) Hendaccess(aid);
    printf("T dd sw %u %u %d => %s\n", (unsigned)tag, (unsigned)ref, (int)len, aid == FAIL ? "fail" : "ok");
    if (aid == FAIL) { hk_fail("dd-op-result", "Hstartwrite (%u,%u) failed", (unsigned)tag, (unsigned)ref); return; }
    if (j < 0 || sh[j].len < 0) {
        learn(base_of(tag), ref);
        int q = sh_find(tag, ref);
        if (q < 0 || sh[q].len != len) hk_fail("dd-length", "Hstartwrite new (%u,%u) len %d: directory says %d", (unsigned)tag, (unsigned)ref, (int)len, q < 0 ? -99 : (int)sh[q].len);
    }
}
static void op_append(void)
{
    int j = pick_live_user();
    if (j < 0 || SPECIALTAG(sh[j].tag) || sh[j].len < 0) return;
    if (sh[j].off + sh[j].len != frec()->f_end_off) return; /* only the element at the end of the file grows in place */
    int32 n = sh[j].len + (int32)hk_range(1, 9);
    int32 aid = Hstartaccess(fid, sh[j].tag, sh[j].ref, DFACC_RDWR | DFACC_APPENDABLE);
    int32 r = FAIL;
    if (aid != FAIL) { r = Hwrite(aid, n, buf); Hendaccess(aid); }
    printf("T dd append %u %u %d => ", (unsigned)sh[j].tag, (unsigned)sh[j].ref, (int)n);
    if (r == FAIL) printf("fail\n"); else printf("%d\n", (int)r);
    if (r != n) hk_fail("dd-op-result", "append to (%u,%u) returned %d", (unsigned)sh[j].tag, (unsigned)sh[j].ref, (int)r);
    else sh[j].len = n;
}
static void op_del(void)
{
    uint16 tag, ref; int j;
    if (hk_chance(80) && (j = pick_live_user()) >= 0) { tag = hk_chance(50) ? sh[j].tag : base_of(sh[j].tag); ref = sh[j].ref; }
    else { tag = pick_tag(); ref = pick_ref(); }
    j = sh_find(tag, ref);
    if (j >= 0 && (sh[j].tag == DFTAG_VERSION)) return;
    int r = Hdeldd(fid, tag, ref);
    printf("T dd del %u %u => %s\n", (unsigned)tag, (unsigned)ref, r == FAIL ? "fail" : "ok");
    if ((j >= 0) != (r != FAIL)) hk_fail("dd-op-result", "Hdeldd (%u,%u) returned %d, entry %s", (unsigned)tag, (unsigned)ref, r, j >= 0 ? "exists" : "absent");
    if (j >= 0 && r != FAIL) sh[j].live = 0;
}
static void op_dup(void)
{
    uint16 tag = pick_tag(), ref = pick_ref(), ot, orf; int j;
    if (hk_chance(85) && (j = pick_live()) >= 0) { ot = sh[j].tag; orf = sh[j].ref; }
    else { ot = pick_tag(); orf = pick_ref(); }
    int jn = sh_find(tag, ref), jo = sh_find(ot, orf);
    if (jn >= 0 && jo >= 0 && f17_present && !allow_f17) return; /* Hdupdd onto an existing tag/ref: use-after-free (F17), only in dedicated cases */
    int nb0 = nblocks();
    int r = Hdupdd(fid, tag, ref, ot, orf);
    printf("T dd dup %u %u %u %u => %s\n", (unsigned)tag, (unsigned)ref, (unsigned)ot, (unsigned)orf, r == FAIL ? "fail" : "ok");
    if (nblocks() > nb0) n_newblk++;
    int want = (jo >= 0 && jn < 0);
    if (want != (r != FAIL)) hk_fail("dd-op-result", "Hdupdd (%u,%u)<-(%u,%u) returned %d", (unsigned)tag, (unsigned)ref, (unsigned)ot, (unsigned)orf, r);
    if (r != FAIL && jn < 0 && jo >= 0) sh_add(tag, ref, sh[jo].off, sh[jo].len);
    if (jn >= 0 && jo >= 0 && has_duplicate()) {
        hk_fail("dd-duplicate-descriptor", "after failed Hdupdd onto existing (%u,%u) the blocks hold that tag/ref twice", (unsigned)tag, (unsigned)ref);
        t_all();
        fflush(stdout);
        Hexist(fid, tag, ref); /* F17: the tag's dynarray was freed -> ASan report here */
        dead = 1;              /* (not reached under ASan) the tag tree is unusable, stop the case */
    }
}
static void op_reuse(void)
{
    uint16 tag, ref; int j;
    if (hk_chance(80) && (j = pick_live_user()) >= 0) { tag = sh[j].tag; ref = sh[j].ref; }
    else { tag = pick_tag(); ref = pick_ref(); }
    j = sh_find(tag, ref);
    if (j >= 0 && (sh[j].tag == DFTAG_VERSION || SPECIALTAG(sh[j].tag))) return;
    int r = HDreuse_tagref(fid, tag, ref);
    printf("T dd reuse %u %u => %s\n", (unsigned)tag, (unsigned)ref, r == FAIL ? "fail" : "ok");
    if ((j >= 0) != (r != FAIL)) hk_fail("dd-op-result", "HDreuse_tagref (%u,%u) returned %d", (unsigned)tag, (unsigned)ref, r);
    if (j >= 0 && r != FAIL) { sh[j].off = -1; sh[j].len = -1; }
}
static void op_hlcreate(void)
{
    uint16 tag = hk_chance(50) ? 100 : 101, ref = pick_ref();
    int j = sh_find(tag, ref);
    if (j >= 0 && SPECIALTAG(sh[j].tag)) return;
    int nblk = (int)hk_range(1, 4);
    int nb0 = nblocks();
    int32 aid = HLcreate(fid, tag, ref, 8, nblk);
    if (aid != FAIL) Hendaccess(aid);
    printf("T dd hlcreate %u %u %d => %s\n", (unsigned)tag, (unsigned)ref, nblk, aid == FAIL ? "fail" : "ok");
    if (nblocks() > nb0) n_newblk++;
    if (aid == FAIL) hk_fail("dd-op-result", "HLcreate (%u,%u) failed", (unsigned)tag, (unsigned)ref);
    resync(); /* several descriptors were created/deleted inside the library: take them over, they are checked from now on */
    int q = sh_find(tag, ref);
    if (aid != FAIL && (q < 0 || sh[q].tag != special_of(tag))) hk_fail("dd-op-result", "HLcreate (%u,%u): no special descriptor", (unsigned)tag, (unsigned)ref);
}
static void op_find_step(void)
{
    uint16 st, sr, ft, fr; int dir = hk_chance(50) ? DF_FORWARD : DF_BACKWARD; int j;
    switch ((int)hk_range(0, 5)) {
        case 0: st = 0; sr = 0; break;
        case 1: st = pick_tag(); sr = 0; break;
        case 2: st = 0; sr = pick_ref(); break;
        case 3: st = pick_tag(); sr = pick_ref(); break;
        case 4: st = DFTAG_NULL; sr = 0; break; /* moves the ddnull cursor */
        default: st = base_of(pick_tag()); sr = 0; break;
    }
    if (hk_chance(60) && (j = pick_live()) >= 0) { ft = sh[j].tag; fr = sh[j].ref; }
    else if (hk_chance(50)) { ft = 0; fr = 0; }
    else { ft = pick_tag(); fr = pick_ref(); }
    uint16 it = ft, ir = fr; int32 o = 0, l = 0;
    int r = Hfind(fid, st, sr, &ft, &fr, &o, &l, dir);
    printf("T dd find %u %u %u %u %c => ", (unsigned)st, (unsigned)sr, (unsigned)it, (unsigned)ir, dir == DF_FORWARD ? 'f' : 'b');
    if (r == FAIL) printf("fail\n"); else printf("%u/%u/%d/%d\n", (unsigned)ft, (unsigned)fr, (int)o, (int)l);
    if (r != FAIL && st != DFTAG_NULL) {
        int q = sh_find(ft, fr);
        if (q < 0 || sh[q].tag != ft || !matches(&sh[q], (st != 0 && sr != 0) ? 0 : st, sr))
            hk_fail(dir == DF_FORWARD ? "dd-enum-fwd" : "dd-enum-bwd", "Hfind (%u,%u) returned (%u,%u) which is not a live match", (unsigned)st, (unsigned)sr, (unsigned)ft, (unsigned)fr);
    }
}
static void op_enum(int emit)
{
    int dir = hk_chance(50) ? DF_FORWARD : DF_BACKWARD;
    switch ((int)hk_range(0, 3)) {
        case 0: check_enum(0, 0, dir, emit); break;
        case 1: check_enum(pick_tag(), 0, dir, emit); break;
        case 2: check_enum(0, pick_ref(), dir, emit); break;
        default: check_enum(base_of(pick_tag()), 0, dir, emit); break;
    }
}
/* does HTIcount_dd read ddlist[ndds] for this tag?  (odd block whose first slot does not match: F5) */
static int number_reads_past(uint16 tag)
{
    uint16 sp = special_of(tag);
    if (tag == DFTAG_WILDCARD || tag == DFTAG_NULL || tag == DFTAG_FREE || sp == DFTAG_NULL) return 0;
    for (ddblock_t *b = frec()->ddhead; b; b = b->next)
        if (b->ndds % 2 == 1 && !(b->ddlist[0].tag == tag || b->ddlist[0].tag == sp)) return 1;
    return 0;
}
static void op_number(void)
{
    uint16 tag = hk_chance(25) ? DFTAG_WILDCARD : pick_tag();
    int oob = number_reads_past(tag);
    printf("T dd odd_first_mismatch %u => %d\n", (unsigned)tag, oob);
    if (oob && f5_present && !allow_f5) return; /* would abort under ASan (F5): only in the dedicated cases */
    fflush(stdout);
    int32 n = Hnumber(fid, tag);
    printf("T dd number %u => %d\n", (unsigned)tag, (int)n);
    int want = 0;
    for (int i = 0; i < nsh; i++) if (sh[i].live && (tag == DFTAG_WILDCARD ? (sh[i].tag != DFTAG_FREE) : (sh[i].tag == tag || (special_of(tag) != DFTAG_NULL && sh[i].tag == special_of(tag))))) want++;
    if (n != want) hk_fail("dd-number", "Hnumber(%u) = %d, %d live", (unsigned)tag, (int)n, want);
}
static void op_exist(void)
{
    uint16 tag, ref; int j;
    if (hk_chance(50) && (j = pick_live()) >= 0) { tag = hk_chance(50) ? sh[j].tag : base_of(sh[j].tag); ref = sh[j].ref; }
    else { tag = pick_tag(); ref = pick_ref(); }
    int r = Hexist(fid, tag, ref);
    printf("T dd exist %u %u => %s\n", (unsigned)tag, (unsigned)ref, r == FAIL ? "fail" : "ok");
    if ((sh_find(tag, ref) >= 0) != (r != FAIL)) hk_fail("dd-exist", "Hexist(%u,%u) = %d", (unsigned)tag, (unsigned)ref, r);
}
static void op_length(void)
{
    uint16 tag, ref; int j;
    if (hk_chance(70) && (j = pick_live()) >= 0) { tag = sh[j].tag; ref = sh[j].ref; }
    else { tag = pick_tag(); ref = pick_ref(); }
    j = sh_find(tag, ref);
    if (j >= 0 && SPECIALTAG(sh[j].tag)) return; /* answered by the special-element layer */
    if (hk_chance(50)) {
        int32 r = Hlength(fid, tag, ref);
        printf("T dd length %u %u => ", (unsigned)tag, (unsigned)ref);
        if (r == FAIL) printf("fail\n"); else printf("%d\n", (int)r);
        if (r != (j >= 0 ? sh[j].len : FAIL)) hk_fail("dd-length", "Hlength(%u,%u) = %d", (unsigned)tag, (unsigned)ref, (int)r);
    }
    else {
        int32 r = Hoffset(fid, tag, ref);
        printf("T dd offset %u %u => ", (unsigned)tag, (unsigned)ref);
        if (r == FAIL) printf("fail\n"); else printf("%d\n", (int)r);
        if (r != (j >= 0 ? sh[j].off : FAIL)) hk_fail("dd-offset", "Hoffset(%u,%u) = %d", (unsigned)tag, (unsigned)ref, (int)r);
    }
}
static int ref_used_any(uint16 r) { for (int i = 0; i < nsh; i++) if (sh[i].live && sh[i].ref == r) return 1; return 0; }
static int ref_used_tag(uint16 tag, uint16 r) { return sh_find(tag, r) >= 0; }
static void op_newref(void)
{
    if (frec()->maxref == MAX_REF && nslots() > 600) return; /* the wrap-around search is quadratic */
    uint16 r = Hnewref(fid);
    printf("T dd newref => %u\n", (unsigned)r);
    if (r != 0) { if (ref_used_any(r)) hk_fail("dd-newref-in-use", "Hnewref returned %u which is in use", (unsigned)r); }
    else {
        static uint8 used[65536];
        memset(used, 0, sizeof used);
        for (int i = 0; i < nsh; i++) if (sh[i].live) used[sh[i].ref] = 1;
        for (unsigned q = 1; q <= 65535; q++) if (!used[q]) { hk_fail("dd-newref-zero-while-free", "Hnewref returned 0, ref %u is free", q); break; }
    }
}
static void op_tagnewref(uint16 tag)
{
    uint16 r = Htagnewref(fid, tag);
    printf("T dd tagnewref %u => %u\n", (unsigned)tag, (unsigned)r);
    if (r != 0) { if (ref_used_tag(tag, r)) hk_fail("dd-tagnewref-in-use", "Htagnewref(%u) returned %u which is in use", (unsigned)tag, (unsigned)r); }
    else {
        static uint8 used[65536];
        memset(used, 0, sizeof used);
        for (int i = 0; i < nsh; i++) if (sh[i].live && base_of(sh[i].tag) == base_of(tag)) used[sh[i].ref] = 1;
        for (unsigned q = 1; q <= 65535; q++) if (!used[q]) { hk_fail("dd-tagnewref-zero-while-free", "Htagnewref(%u) returned 0, ref %u is free", (unsigned)tag, q); break; }
    }
}
static void op_cache(int on)
{
    int r = Hcache(fid, on);
    printf("T dd cache %d => %s\n", on, r == FAIL ? "fail" : "ok");
}
static void op_sync(void)
{
    int r = Hsync(fid);
    printf("T dd sync => %s\n", r == FAIL ? "fail" : "ok");
}
/* slots of clean blocks that are DFTAG_NULL in memory but still hold a descriptor on disk: deletions that were not
 * written through (F4).  Looked at directly in filerec_t and in the file, before the close. */
static int stale_deletes(void)
{
    filerec_t *fr = frec();
    int n = 0;
    fflush(fr->file);
    FILE *f = fopen(fname, "rb");
    if (!f) return 0;
    for (ddblock_t *b = fr->ddhead; b; b = b->next) {
        if (b->dirty) continue;
        for (int j = 0; j < b->ndds; j++) {
            uint8 d[2] = {0, 0};
            fseek(f, b->myoffset + 6 + 12 * j, SEEK_SET);
            size_t got = fread(d, 1, 2, f); (void)got;
            unsigned tag = (d[0] << 8) | d[1];
            if (b->ddlist[j].tag == DFTAG_NULL && tag != DFTAG_NULL) n++;
        }
    }
    fclose(f);
    return n;
}
/* Hclose + Hopen; then the file must report exactly the shadow */
static void op_reopen(void)
{
    int stale = stale_deletes();
    n_reopen++;
    if (Hclose(fid) == FAIL) { hk_fail("dd-close-fails", "Hclose failed"); dead = 1; fid = FAIL; printf("T dd reopen => fail\n"); return; }
    fid = Hopen(fname, DFACC_RDWR, 0);
    printf("T dd reopen => %s\n", fid == FAIL ? "fail" : "ok");
    if (fid == FAIL) {
        if (stale) hk_fail("dd-reopen-fails-stale-delete", "Hopen after Hclose failed: %d deleted descriptor(s) were still on disk and one of them now duplicates a tag/ref created later", stale);
        else hk_fail("dd-reopen-fails", "Hopen after Hclose failed (%d live entries)", sh_count());
        dead = 1; return;
    }
    int mx = nslots() + 2;
    int n = iterate(0, 0, DF_FORWARD, mx, 0);
    int bad = 0;
    static uint8 seen[MAXE];
    memset(seen, 0, (size_t)nsh);
    for (int i = 0; i < n; i++) {
        int j = sh_find(hits[i].tag, hits[i].ref);
        if (j >= 0 && sh[j].tag == hits[i].tag) {
            seen[j] = 1;
            if (sh[j].off != hits[i].off || sh[j].len != hits[i].len) { bad = 1; hk_fail("dd-changed-after-reopen", "(%u,%u) off=%d len=%d, before close off=%d len=%d", (unsigned)hits[i].tag, (unsigned)hits[i].ref, (int)hits[i].off, (int)hits[i].len, (int)sh[j].off, (int)sh[j].len); }
        }
        else {
            bad = 1;
            int was = 0;
            for (int q = 0; q < nsh; q++) if (!sh[q].live && sh[q].tag == hits[i].tag && sh[q].ref == hits[i].ref) was = 1;
            if (was || (stale && !(hits[i].tag == 0 && hits[i].ref == 0))) hk_fail("dd-delete-not-persisted", "(%u,%u) was deleted before the close and is back after reopen", (unsigned)hits[i].tag, (unsigned)hits[i].ref);
            else hk_fail("dd-phantom-after-reopen", "(%u,%u) off=%d len=%d was never created", (unsigned)hits[i].tag, (unsigned)hits[i].ref, (int)hits[i].off, (int)hits[i].len);
            if (hits[i].tag == 0 && hits[i].ref == 0) { dead = 1; t_all(); return; } /* a (0,0) object makes every Hfind iteration restart: nothing can be checked any more */
        }
    }
    for (int j = 0; j < nsh; j++) if (sh[j].live && !seen[j]) { bad = 1; hk_fail("dd-entry-lost-after-reopen", "(%u,%u) missing after reopen", (unsigned)sh[j].tag, (unsigned)sh[j].ref); }
    if (bad) resync();
}

static void scenario_f7(void)
{
    /* refs 1..65534 of tag 101 in use, 65535 free */
    int32 r = Hputelement(fid, 101, 1, buf, 4);
    printf("T dd put 101 1 4 => %d\n", (int)r);
    learn(101, 1);
    int ok = 1;
    for (unsigned i = 2; i <= 65534 && ok; i++) if (Hdupdd(fid, 101, (uint16)i, 101, 1) == FAIL) ok = 0;
    printf("T dd filldup 101 2 65534 101 1 => %s\n", ok ? "ok" : "fail");
    int j = sh_find(101, 1);
    for (unsigned i = 2; i <= 65534; i++) sh_add(101, (uint16)i, sh[j].off, sh[j].len);
    op_tagnewref(101);
    op_tagnewref(100);
    { int32 n = Hnumber(fid, 101); printf("T dd number 101 => %d\n", (int)n); if (n != 65534) hk_fail("dd-number", "Hnumber(101) = %d after filling 65534 refs", (int)n); }
    r = Hputelement(fid, 101, 65535, buf, 3);
    printf("T dd put 101 65535 3 => %d\n", (int)r);
    learn(101, 65535);
    op_tagnewref(101);
    int d = Hdeldd(fid, 101, 777);
    printf("T dd del 101 777 => %s\n", d == FAIL ? "fail" : "ok");
    if (d != FAIL) sh[sh_find(101, 777)].live = 0;
    op_tagnewref(101);
    op_reopen();
    if (!dead) { op_tagnewref(101); int32 n = Hnumber(fid, 32784); printf("T dd number 32784 => %d\n", (int)n); }
}

/* Does the library under test still have F5 / F17?  Asked once per process in a forked child, because the answer is a
 * sanitizer abort.  (So that the engine keeps exercising these calls everywhere once the fixes are in.) */
#include <sys/wait.h>
static int probed = 0;
static int probe(int which)
{
    fflush(stdout);
    pid_t pid = fork();
    if (pid < 0) return 1;
    if (pid == 0) {
        int dn = open("/dev/null", O_WRONLY);
        if (dn >= 0) { dup2(dn, 1); dup2(dn, 2); }
        const char *fn = hk_tmp("probe.hdf");
        int32 f = Hopen(fn, DFACC_CREATE, 5);
        uint8 b[4] = {0, 0, 0, 0};
        if (f == FAIL) _exit(0);
        Hputelement(f, 100, 1, b, 4); Hputelement(f, 100, 2, b, 4);
        if (which == 5) Hnumber(f, 100);
        else { int r = Hdupdd(f, 100, 2, 100, 1); (void)r; Hexist(f, 100, 2); Hexist(f, 100, 1); }
        Hclose(f);
        _exit(0);
    }
    int st = 0;
    waitpid(pid, &st, 0);
    return !(WIFEXITED(st) && WEXITSTATUS(st) == 0);
}


/* ---- unit level: bitvect.c ---- */
#define BVMAX 80000
static uint8 bvsh[BVMAX + 64]; /* shadow: the value of every bit */
static long n_bvops, n_bvgrow, n_bvext;
static void bv_show(bv_ptr b, int ret)
{
    int32 n = b->array_size;
    while (n > 0 && b->buffer[n - 1] == 0) n--;
    printf("%d %d %d %d ", ret, (int)b->bits_used, (int)b->array_size, (int)b->last_zero);
    hk_hex(b->buffer, (size_t)n);
    printf("\n");
}
static void bv_op_set(bv_ptr b, int32 bit, int v)
{
    int32 as0 = b->array_size;
    int r = bv_set(b, bit, (bv_bool)v);
    printf("T dd bvset %d %d => ", (int)bit, v);
    bv_show(b, r);
    n_bvops++;
    if (b->array_size != as0) n_bvgrow++;
    if ((bit < 0) != (r == FAIL)) hk_fail("bv-set-status", "bv_set(%d, %d) returned %d", (int)bit, v, r);
    if (bit >= 0 && bit < BVMAX && r != FAIL) bvsh[bit] = (uint8)(v != 0);
}
static void bv_op_get(bv_ptr b, int32 bit)
{
    int r = bv_get(b, bit);
    printf("T dd bvget %d => %d\n", (int)bit, r);
    n_bvops++;
    int want = bit < 0 ? FAIL : (bit < BVMAX ? bvsh[bit] : 0);
    if (r != want) hk_fail("bv-get-wrong-bit", "bv_get(%d) = %d, the bit was last set to %d", (int)bit, r, want);
}
static int32 bv_op_find(bv_ptr b)
{
    int32 bu0 = b->bits_used;
    int32 r = bv_find_next_zero(b);
    printf("T dd bvfind => ");
    bv_show(b, (int)r);
    n_bvops++;
    if (b->bits_used != bu0) n_bvext++;
    int ok = r >= 0 && r < BVMAX && bvsh[r] == 0;
    for (int32 i = 0; ok && i < r; i++) if (!bvsh[i]) ok = 0;
    if (!ok) hk_fail("bv-find-not-lowest-zero", "bv_find_next_zero returned %d, which is not the lowest clear bit", (int)r);
    return r;
}
static int32 bv_pick_bit(bv_ptr b)
{
    int c = (int)hk_range(0, 99);
    int32 bu = b->bits_used, cap = 8 * b->array_size;
    if (cap > BVMAX - 4096) c = c % 40 + (c >= 94 ? 94 : 0); /* the shadow is finite */
    if (c < 40) return (int32)hk_range(0, bu + 3);
    if (c < 50) return (int32)hk_range(bu > 9 ? bu - 9 : 0, bu + 9);
    if (c < 68) return cap + (int32)hk_range(-2, 2);                                          /* last bit of the block / first bit beyond it */
    if (c < 80) return cap + 8 * BV_CHUNK_SIZE * (int32)hk_range(0, 3) + (int32)hk_range(-9, 9); /* growth by one or several chunks */
    if (c < 88) return (int32)hk_range(0, 70000);
    if (c < 94) return (int32)hk_range(0, 7) * 8 + (int32)hk_range(0, 7);
    return -(int32)hk_range(1, 9);
}
static void bv_phase(void)
{
    bv_ptr b = bv_new(-1);
    memset(bvsh, 0, sizeof bvsh);
    if (b == NULL) { printf("T dd bvnew => fail\n"); hk_fail("bv-new-fails", "bv_new(-1)"); return; }
    printf("T dd bvnew => ");
    bv_show(b, 0);
    if (hk_chance(10)) {
        int r1 = bv_set(NULL, 3, BV_TRUE), r2 = bv_get(NULL, 3);
        int32 r3 = bv_find_next_zero(NULL);
        printf("T dd bvnull => %d %d %d\n", r1, r2, (int)r3);
        if (r1 != FAIL || r2 != FAIL || r3 != FAIL) hk_fail("bv-null-accepted", "bv_set/bv_get/bv_find_next_zero(NULL) = %d %d %d", r1, r2, (int)r3);
    }
    if (hk_chance(35)) { /* every bit in use set: the scan passes full bytes, the next bvfind extends the vector */
        int32 a = 0, e = hk_chance(60) ? b->bits_used : (int32)hk_range(1, b->bits_used + 40);
        int r = SUCCEED;
        for (int32 i = a; i < e; i++) { if (bv_set(b, i, BV_TRUE) == FAIL) r = FAIL; if (i < BVMAX) bvsh[i] = 1; }
        printf("T dd bvfill %d %d 1 => ", (int)a, (int)e);
        bv_show(b, r);
    }
    int nops = (int)hk_range(8, 50);
    for (int i = 0; i < nops; i++) {
        int c = (int)hk_range(0, 99);
        if (c < 35) bv_op_set(b, bv_pick_bit(b), hk_chance(70) ? 1 : (hk_chance(93) ? 0 : 2));
        else if (c < 50) { /* the allocation pattern of Htagnewref: take the free bit */
            int n = (int)hk_range(1, 12);
            for (int q = 0; q < n; q++) { int32 r = bv_op_find(b); if (r < 0) break; bv_op_set(b, r, 1); }
        }
        else if (c < 62) bv_op_find(b);
        else if (c < 70) { /* a run of bits */
            int32 a = bv_pick_bit(b);
            if (a < 0) a = 0;
            int32 e = a + (int32)hk_range(1, 70);
            int v = hk_chance(75), r = SUCCEED;
            int32 as0 = b->array_size;
            for (int32 q = a; q < e; q++) { if (bv_set(b, q, (bv_bool)v) == FAIL) r = FAIL; if (q < BVMAX) bvsh[q] = (uint8)v; }
            printf("T dd bvfill %d %d %d => ", (int)a, (int)e, v);
            bv_show(b, r);
            n_bvops++;
            if (b->array_size != as0) n_bvgrow++;
        }
        else {
            int g = (int)hk_range(0, 9);
            bv_op_get(b, g < 6 ? bv_pick_bit(b) : g < 8 ? b->bits_used - 1 : b->bits_used);
        }
    }
    /* every bit of the shadow, through bv_get, without T lines */
    for (int32 i = 0; i < b->bits_used + 16 && i < BVMAX; i++)
        if (bv_get(b, i) != bvsh[i]) { hk_fail("bv-get-wrong-bit", "final sweep: bv_get(%d) = %d, the bit was last set to %d", (int)i, bv_get(b, i), bvsh[i]); break; }
    bv_delete(b);
}

/* ---- unit level 2: Hnewref / Htagnewref / the DD-block codec loops, on the file of the case ---- */
#define UB_MAXBLK 3
#define UB_MAXDD 40
typedef struct { int32 myoff; int ndds; dd_t dd[UB_MAXDD]; } ublk_t;
static ublk_t ublk[UB_MAXBLK];
static int n_ublk, n_allblk;
static long n_ublk_lines, n_uref_lines;
static void unit_snapshot(void)
{
    n_ublk = 0; n_allblk = 0;
    for (ddblock_t *b = frec()->ddhead; b; b = b->next) {
        n_allblk++;
        if (n_ublk < UB_MAXBLK && b->ndds > 0 && b->ndds <= UB_MAXDD) {
            ublk[n_ublk].myoff = b->myoffset; ublk[n_ublk].ndds = b->ndds;
            memcpy(ublk[n_ublk].dd, b->ddlist, (size_t)b->ndds * sizeof(dd_t));
            n_ublk++;
        }
    }
}
static void print_dds(const dd_t *d, int n)
{
    if (n == 0) printf("-");
    for (int i = 0; i < n; i++) printf("%s%u.%u.%d.%d", i ? "," : "", (unsigned)d[i].tag, (unsigned)d[i].ref, (int)d[i].offset, (int)d[i].length);
}
static void unit_phase(void)
{
    static uint8 raw[UB_MAXBLK][UB_MAXDD * 12];
    if (n_ublk == 0) return;
    FILE *f = fopen(fname, "rb");
    if (!f) return;
    for (int b = 0; b < n_ublk; b++) {
        size_t want = (size_t)ublk[b].ndds * 12;
        if (fseek(f, (long)ublk[b].myoff + 6, SEEK_SET) != 0 || fread(raw[b], 1, want, f) != want) {
            hk_fail("dd-unit-short-read", "block at %d: %d descriptors are not all in the file", (int)ublk[b].myoff, ublk[b].ndds);
            fclose(f); return;
        }
        /* what the library wrote for the records it held in memory at the close */
        printf("T dd ublk enc "); print_dds(ublk[b].dd, ublk[b].ndds); printf(" => "); hk_hex(raw[b], want); printf("\n");
        n_ublk_lines++;
    }
    fclose(f);
    int32 id = Hopen(fname, DFACC_READ, 0);
    if (id == FAIL) return; /* the directory part of the case reports that */
    filerec_t *fr = (filerec_t *)HAatom_object(id);
    int nb = 0, bi = 0;
    for (ddblock_t *b = fr->ddhead; b; b = b->next) nb++;
    for (ddblock_t *b = fr->ddhead; b && bi < n_ublk; b = b->next) {
        if (b->myoffset != ublk[bi].myoff || b->ndds != ublk[bi].ndds) continue;
        /* what HTPstart made of the bytes; maxref only when this block is the whole directory */
        printf("T dd ublk dec %d ", nb == 1 ? 0 : -1); hk_hex(raw[bi], (size_t)b->ndds * 12); printf(" => "); print_dds(b->ddlist, b->ndds);
        printf(" %d\n", nb == 1 ? (int)fr->maxref : -1);
        n_ublk_lines++; bi++;
    }
    /* Hnewref at and across the limit: refs in use = the refs of the live descriptors */
    static uint8 used[65536];
    static uint16 tags[8];
    int nlive = 0, ntags = 0;
    memset(used, 0, sizeof used);
    for (ddblock_t *b = fr->ddhead; b; b = b->next)
        for (int i = 0; i < b->ndds; i++) if (b->ddlist[i].tag != DFTAG_NULL) {
            nlive++; used[b->ddlist[i].ref] = 1;
            uint16 bt = base_of(b->ddlist[i].tag);
            int known = 0;
            for (int q = 0; q < ntags; q++) if (tags[q] == bt) known = 1;
            if (!known && ntags < 8) tags[ntags++] = bt;
        }
    if (nlive <= 400) {
        fr->maxref = (uint16)(hk_chance(50) ? 65533 : 65534);
        for (int c = 0; c < 4; c++) {
            unsigned before = fr->maxref;
            uint16 r = Hnewref(id);
            printf("T dd uref newref %u ", before);
            int first = 1;
            for (unsigned q = 0; q < 65536; q++) if (used[q]) { printf("%s%u", first ? "" : ",", q); first = 0; }
            if (first) printf("-");
            printf(" => %u %u\n", (unsigned)r, (unsigned)fr->maxref);
            n_uref_lines++;
        }
        for (int q = 0; q <= ntags && q < 8; q++) {
            uint16 tg = q < ntags ? (hk_chance(30) ? special_of(tags[q]) : tags[q]) : (uint16)hk_range(20000, 30000); /* the last one: a tag without node */
            if (tg == DFTAG_NULL) tg = tags[q];
            uint16 r = Htagnewref(id, tg);
            printf("T dd uref tagnewref %u ", (unsigned)tg);
            int first = 1;
            for (ddblock_t *b = fr->ddhead; b; b = b->next)
                for (int i = 0; i < b->ndds; i++) if (b->ddlist[i].tag != DFTAG_NULL && base_of(b->ddlist[i].tag) == base_of(tg)) {
                    printf("%s%u", first ? "" : ",", (unsigned)b->ddlist[i].ref); first = 0;
                }
            if (first) printf("-");
            printf(" => %u\n", (unsigned)r);
            n_uref_lines++;
        }
    }
    Hclose(id);
}

static void run_case(int k)
{
    if (!probed) { probed = 1; f5_present = probe(5); f17_present = probe(17); printf("INFO f5_present=%d f17_present=%d\n", f5_present, f17_present); }
    static const int NDDS[] = {4, 4, 5, 5, 6, 7, 7, 9, 16, 16, 0, 3};
    int ndds = HK_PICK(NDDS);
    int nops = 0;
    allow_f5 = (k % 16 == 3); allow_f17 = (k % 16 == 5); dead = 0;
    sh_clear(); garb_reported = -1; garb_off = -1;
    fname = hk_tmp("dd.hdf");
    if (cfgbits) printf("T dd cfg %s => ok\n", cfgbits);
    if (k % 64 == 9) ndds = 256;
    fid = Hopen(fname, DFACC_CREATE, (int16)ndds);
    printf("T dd open %d => %s\n", ndds, fid == FAIL ? "fail" : "ok");
    if (fid == FAIL) { hk_fail("dd-open-fails", "Hopen(DFACC_CREATE, %d)", ndds); return; }
    resync(); /* the version element */
    t_all();
    if (k % 64 == 9) { if (hk_chance(50)) op_cache(0); scenario_f7(); goto done; }
    if (hk_chance(55)) { op_cache(0); t_all(); }
    nops = (int)hk_range(4, 70);
    for (int i = 0; i < nops && !dead; i++) {
        int c = (int)hk_range(0, 99), mut = 1;
        n_ops++;
        if (c < 24) op_put();
        else if (c < 30) op_sw();
        else if (c < 33) op_append();
        else if (c < 43) op_del();
        else if (c < 53) op_dup();
        else if (c < 57) op_reuse();
        else if (c < 60) op_hlcreate();
        else if (c < 66) { op_find_step(); }
        else if (c < 72) { op_enum(1); mut = 0; }
        else if (c < 77) { op_number(); mut = 0; }
        else if (c < 81) { op_exist(); mut = 0; }
        else if (c < 85) { op_length(); }
        else if (c < 88) { op_newref(); }
        else if (c < 91) { op_tagnewref(pick_tag()); }
        else if (c < 94) { op_cache(hk_chance(50)); }
        else if (c < 96) { op_sync(); }
        else { op_reopen(); }
        if (dead) break;
        if (mut) t_all();
        if (hk_chance(20)) { check_enum(0, 0, DF_FORWARD, 0); check_enum(0, 0, DF_BACKWARD, 0); }
    }
    if (!dead) {
        check_enum(0, 0, DF_FORWARD, 1); check_enum(0, 0, DF_BACKWARD, 1);
        op_tagnewref(100); op_newref();
        op_reopen();
        if (!dead) { t_all(); check_enum(0, 0, DF_FORWARD, 1); }
    }
done:
    n_ublk = 0;
    if (fid != FAIL && !dead) unit_snapshot();
    if (fid != FAIL) Hclose(fid);
    fid = FAIL;
    if (!dead && !allow_f17) unit_phase(); /* a file with a duplicated descriptor (F17 scenario) cannot be opened again */
    hk_stat("ublk_lines", n_ublk_lines); hk_stat("uref_lines", n_uref_lines);
    n_ublk_lines = n_uref_lines = 0;
    bv_phase(); /* after everything else, so that the random history of the directory part of a case is what it was before */
    hk_stat("bv_ops", n_bvops); hk_stat("bv_grow", n_bvgrow); hk_stat("bv_find_ext", n_bvext);
    n_bvops = n_bvgrow = n_bvext = 0;
    hk_stat("ops", n_ops); hk_stat("reopens", n_reopen); hk_stat("new_blocks", n_newblk);
    n_ops = n_reopen = n_newblk = 0;
    if (k % 50 == 0) printf("SAMPLE case %d ndds=%d ops=%d entries=%d\n", k, ndds, nops, sh_count());
}

int main(int argc, char **argv)
{
    if (argc > 4 && strlen(argv[4]) == 6) cfgbits = argv[4];
    return hk_main(argc, argv, "dd");
}
