/* e_atom - Tie-B engine for C13, atom layer (hdf/src/atom.c).
 *
 * The REAL atom.c is compiled into this engine by #include (found through -I<repo>/hdf/src), so the exported
 * HAinit_group/HAdestroy_group/HAregister_atom/HAatom_object/HAatom_group/HAremove_atom/HAsearch_atom/HAshutdown
 * are the library's code, and the file-scope tables (atom_group_list, atom_free_list, atom_id_cache,
 * atom_obj_cache) can be reset between cases and inspected by white-box oracles.  Nothing else of the library
 * is initialised, so all 9 groups belong to the engine.
 *
 * One case = one random history over 2-3 groups.  Every call is a T line replayed on the Lean model:
 *   T atom init <grp> <hash_size> => ok|fail        T atom destroy <grp> => ok|fail
 *   T atom register <grp> <obj> => <atom>|fail      T atom object <atom> => <obj>|fail
 *   T atom remove <atom> => <obj>|fail              T atom group <atom> => <grp>|fail
 *   T atom search <grp> <m> <r> => <obj>|fail       (func(obj,key): (uintptr_t)obj % m == r)
 *   T atom shutdown => ok
 * Atoms are printed as the signed decimals the API returns; objects are small integers cast to pointers
 * (never dereferenced), NULL is `fail`.
 *
 * Oracles (independent of the model; a shadow table of registrations kept here):
 *   atom-status        init/destroy result differs from what the argument checks + shadow init count say
 *   atom-register      register result (success/failure, group bits of the id)
 *   atom-id-duplicate  a new id equals the id of a registration that is still live
 *   atom-id-reissued   a new id equals an id issued earlier in the process (":after-reinit" when the group went
 *                      through a full destroy + init in between, ":after-shutdown" after HAshutdown).  This was the
 *                      behaviour of atom.c until the id counters were moved out of the group records (fixed); the
 *                      oracle stays so that a regression is reported as a violation.
 *   atom-lookup        HAatom_object result differs from the shadow table (live -> its own object, else NULL)
 *   atom-remove        HAremove_atom result differs from the shadow table
 *   atom-group         HAatom_group result differs from the top four bits / MAXGROUP rule
 *   atom-search        HAsearch_atom returned an object that is not a live matching one, or missed one
 *   atom-cache         white box: a non-empty cache slot does not hold a live id with its own object, or an id twice
 *   atom-count         white box: group->atoms differs from the number of live registrations
 */
#include "hdf_priv.h"
#include "atom_priv.h"
#ifndef ATOM_SRC
#define ATOM_SRC "atom.c"
#endif
#include ATOM_SRC
#include "hk.h"

/* ---------------------------------------------------------------- shadow table */
#define MAXE 4096
typedef struct {
    int32     id;
    uintptr_t obj;
    int       grp;
    int       live;
} ent_t;
static ent_t ents[MAXE];
static int   nents;
static int   sh_count[MAXGROUP];  /* outstanding inits */
static int   sh_used[MAXGROUP];   /* group was initialised at least once in this case */
static int   sh_reinit[MAXGROUP]; /* group was fully destroyed and initialised again */
static int   after_shutdown;
static long  n_ops, n_hits_expected, n_reissue;

static const char *sfx(void) { return after_shutdown ? ":after-shutdown" : ""; }

static int valid_grp(int g) { return g >= 0 && g < (int)MAXGROUP; }
static int id_grp(int32 id) { return (int)(((uint32_t)id) >> 28); }

/* newest live registration of this id, or -1 */
static int sh_find(int32 id)
{
    int g = id_grp(id);
    if (!valid_grp(g) || sh_count[g] <= 0) return -1;
    for (int i = nents - 1; i >= 0; i--)
        if (ents[i].live && ents[i].id == id) return i;
    return -1;
}
static int sh_nlive(int g)
{
    int n = 0;
    for (int i = 0; i < nents; i++) n += (ents[i].live && ents[i].grp == g);
    return n;
}

/* ---------------------------------------------------------------- reset of atom.c's statics between cases */
static void reset_atoms(void)
{
    for (int g = 0; g < (int)MAXGROUP; g++) {
        atom_group_t *p = atom_group_list[g];
        if (p == NULL) continue;
        if (p->atom_list != NULL) {
            for (unsigned u = 0; u < p->hash_size; u++) HAIfree_atom_list(p->atom_list[u]);
            free(p->atom_list);
        }
        free(p);
        atom_group_list[g] = NULL;
    }
    HAIfree_atom_list(atom_free_list);
    atom_free_list = NULL;
    for (int u = 0; u < ATOM_CACHE_SIZE; u++) { atom_id_cache[u] = -1; atom_obj_cache[u] = NULL; }
    memset(atom_next_id, 0, sizeof atom_next_id); /* the per-group id counters survive HAshutdown: a new case starts a new "process" */
    nents = 0; after_shutdown = 0;
    memset(sh_count, 0, sizeof sh_count); memset(sh_used, 0, sizeof sh_used); memset(sh_reinit, 0, sizeof sh_reinit);
}

/* ---------------------------------------------------------------- white-box oracles, after every call */
static void check_whitebox(const char *after)
{
    for (int u = 0; u < ATOM_CACHE_SIZE; u++) {
        if (atom_id_cache[u] == -1) {
            if (atom_obj_cache[u] != NULL) hk_fail("atom-cache", "after %s: empty slot %d has object %p", after, u, atom_obj_cache[u]);
            continue;
        }
        int i = sh_find(atom_id_cache[u]);
        if (i < 0) {
            char key[64]; snprintf(key, sizeof key, "atom-cache%s", sfx());
            hk_fail(key, "after %s: slot %d holds id %d which is not live", after, u, (int)atom_id_cache[u]);
        } else if ((uintptr_t)atom_obj_cache[u] != ents[i].obj) {
            char key[64]; snprintf(key, sizeof key, "atom-cache%s", sfx());
            hk_fail(key, "after %s: slot %d id %d object %lu, registered object %lu", after, u, (int)atom_id_cache[u],
                    (unsigned long)(uintptr_t)atom_obj_cache[u], (unsigned long)ents[i].obj);
        }
        for (int v = 0; v < u; v++)
            if (atom_id_cache[v] == atom_id_cache[u]) hk_fail("atom-cache", "after %s: id %d in slots %d and %d", after, (int)atom_id_cache[u], v, u);
    }
    for (int g = 0; g < (int)MAXGROUP; g++) {
        atom_group_t *p = atom_group_list[g];
        if (p != NULL && p->count > 0 && (int)p->atoms != sh_nlive(g))
            hk_fail("atom-count", "after %s: group %d atoms=%u, live registrations=%d", after, g, p->atoms, sh_nlive(g));
        if ((p != NULL ? (int)p->count : 0) != sh_count[g])
            hk_fail("atom-status", "after %s: group %d count=%d, shadow=%d", after, g, p ? (int)p->count : 0, sh_count[g]);
    }
}

/* ---------------------------------------------------------------- operations */
static void pr_obj(void *o)
{
    if (o == NULL) printf("fail\n"); else printf("%lu\n", (unsigned long)(uintptr_t)o);
}

static void op_init(int g, unsigned hs)
{
    int r = HAinit_group((group_t)g, hs);
    printf("T atom init %d %u => %s\n", g, hs, r == SUCCEED ? "ok" : "fail");
    int exp_ok = valid_grp(g) && hs != 0 && (hs & (hs - 1)) == 0;
    if ((r == SUCCEED) != exp_ok) hk_fail("atom-status", "HAinit_group(%d,%u) returned %d", g, hs, r);
    if (r == SUCCEED && valid_grp(g)) {
        if (sh_count[g] == 0 && sh_used[g]) sh_reinit[g] = 1;
        sh_count[g]++; sh_used[g] = 1;
    }
    check_whitebox("init");
}

static void op_destroy(int g)
{
    int r = HAdestroy_group((group_t)g);
    printf("T atom destroy %d => %s\n", g, r == SUCCEED ? "ok" : "fail");
    int exp_ok = valid_grp(g) && sh_count[g] > 0;
    if ((r == SUCCEED) != exp_ok) hk_fail("atom-status", "HAdestroy_group(%d) returned %d, shadow count %d", g, r, valid_grp(g) ? sh_count[g] : -1);
    if (r == SUCCEED && valid_grp(g)) {
        if (--sh_count[g] == 0)
            for (int i = 0; i < nents; i++) if (ents[i].grp == g) ents[i].live = 0;
    }
    check_whitebox("destroy");
}

static int32 op_register(int g, uintptr_t obj)
{
    if (g == 8) { printf("INFO register in group 8: MAKE_ATOM shifts 8 << 28 in a signed int\n"); fflush(stdout); } /* may abort under UBSan */
    atom_t a = HAregister_atom((group_t)g, (void *)obj);
    printf("T atom register %d %lu => ", g, (unsigned long)obj);
    if (a == FAIL) printf("fail\n"); else printf("%d\n", (int)a);
    int exp_ok = valid_grp(g) && sh_count[g] > 0;
    if ((a != FAIL) != exp_ok) hk_fail("atom-register", "HAregister_atom(%d) returned %d, shadow count %d", g, (int)a, valid_grp(g) ? sh_count[g] : -1);
    if (a != FAIL) {
        if (id_grp(a) != g) hk_fail("atom-register", "id %d issued for group %d carries group %d", (int)a, g, id_grp(a));
        for (int i = 0; i < nents; i++) {
            if (ents[i].id != a) continue;
            if (ents[i].live) { hk_fail("atom-id-duplicate", "new id %d equals a live registration (object %lu)", (int)a, (unsigned long)ents[i].obj); break; }
            char key[64];
            snprintf(key, sizeof key, "atom-id-reissued%s", after_shutdown ? ":after-shutdown" : (valid_grp(g) && sh_reinit[g]) ? ":after-reinit" : "");
            hk_fail(key, "group %d: id %d, issued before for object %lu and released, is issued again for object %lu", g, (int)a,
                    (unsigned long)ents[i].obj, (unsigned long)obj);
            n_reissue++;
            break;
        }
        if (nents < MAXE) { ents[nents].id = a; ents[nents].obj = obj; ents[nents].grp = g; ents[nents].live = 1; nents++; }
    }
    check_whitebox("register");
    return a;
}

static void op_object(int32 id)
{
    void *o = HAatom_object(id);
    printf("T atom object %d => ", (int)id); pr_obj(o);
    int i = sh_find(id);
    uintptr_t exp = i >= 0 ? ents[i].obj : 0;
    if (i >= 0) n_hits_expected++;
    if ((uintptr_t)o != exp) {
        char key[64]; snprintf(key, sizeof key, "atom-lookup%s", sfx());
        hk_fail(key, "HAatom_object(%d) = %lu, shadow table says %lu (%s)", (int)id, (unsigned long)(uintptr_t)o, (unsigned long)exp, i >= 0 ? "live" : "not live");
    }
    check_whitebox("object");
}

static void op_remove(int32 id)
{
    int i = sh_find(id);
    uintptr_t exp = i >= 0 ? ents[i].obj : 0;
    void *o = HAremove_atom(id);
    printf("T atom remove %d => ", (int)id); pr_obj(o);
    if ((uintptr_t)o != exp) {
        char key[64]; snprintf(key, sizeof key, "atom-remove%s", sfx());
        hk_fail(key, "HAremove_atom(%d) = %lu, shadow table says %lu", (int)id, (unsigned long)(uintptr_t)o, (unsigned long)exp);
    }
    if (i >= 0) ents[i].live = 0;
    check_whitebox("remove");
}

static void op_group(int32 id)
{
    group_t g = HAatom_group(id);
    printf("T atom group %d => ", (int)id);
    if (g == BADGROUP) printf("fail\n"); else printf("%d\n", (int)g);
    int exp = valid_grp(id_grp(id)) ? id_grp(id) : -1;
    if ((int)g != exp) hk_fail("atom-group", "HAatom_group(%d) = %d, expected %d", (int)id, (int)g, exp);
}

static unsigned s_m, s_r;
static int search_cb(const void *obj, const void *key)
{
    (void)key;
    return (uintptr_t)obj % s_m == s_r;
}
static void op_search(int g, unsigned m, unsigned r)
{
    s_m = m; s_r = r;
    void *o = HAsearch_atom((group_t)g, search_cb, NULL);
    printf("T atom search %d %u %u => ", g, m, r); pr_obj(o);
    int any = 0, nullmatch = 0, okres = 0;
    if (valid_grp(g) && sh_count[g] > 0)
        for (int i = 0; i < nents; i++)
            if (ents[i].live && ents[i].grp == g && ents[i].obj % m == r) {
                any = 1;
                if (ents[i].obj == 0) nullmatch = 1;
                if (ents[i].obj == (uintptr_t)o) okres = 1;
            }
    if (o != NULL && !okres) hk_fail("atom-search", "HAsearch_atom(%d, %%%u==%u) = %lu which is not a live matching object", g, m, r, (unsigned long)(uintptr_t)o);
    if (o == NULL && any && !nullmatch) hk_fail("atom-search", "HAsearch_atom(%d, %%%u==%u) = NULL although a live object matches", g, m, r);
    check_whitebox("search");
}

static void op_shutdown(void)
{
    int r = HAshutdown();
    printf("T atom shutdown => %s\n", r == SUCCEED ? "ok" : "fail");
    for (int i = 0; i < nents; i++) ents[i].live = 0;
    memset(sh_count, 0, sizeof sh_count);
    after_shutdown = 1;
    check_whitebox("shutdown");
}

/* ---------------------------------------------------------------- id pickers */
static int cgrp[3], ncgrp;

static int pick_group(void)
{
    if (hk_chance(88)) return cgrp[hk_range(0, ncgrp - 1)];
    static const int odd[] = {-1, -2, 9, 10, 15, 16, 0, 3, 7, 8};
    return HK_PICK(odd);
}
static int32 with_group(int32 id, int g) { return (int32)((((uint32_t)g & 0xF) << 28) | ((uint32_t)id & 0x0FFFFFFF)); }

static int32 pick_recent(void)
{ /* one of the last 5 ids issued */
    if (nents == 0) return with_group(0, cgrp[0]);
    int lo = nents > 5 ? nents - 5 : 0;
    return ents[hk_range(lo, nents - 1)].id;
}
static int32 pick_id(void)
{
    int c = (int)hk_range(0, 99);
    if (nents == 0 || c < 4) { /* never issued: counters beyond nextid, other groups, garbage */
        int g = hk_chance(70) ? cgrp[hk_range(0, ncgrp - 1)] : (int)hk_range(0, 15);
        uint32_t k = hk_chance(60) ? (uint32_t)(nents + hk_range(0, 3)) : hk_chance(50) ? 0x0FFFFFFFu : (uint32_t)hk_next();
        return hk_chance(8) ? -1 : with_group((int32)k, g);
    }
    if (c < 60) return pick_recent();
    ent_t *e = &ents[hk_range(0, nents - 1)];
    if (c < 88) return e->id;                                   /* live or released */
    if (c < 94) return with_group(e->id, cgrp[hk_range(0, ncgrp - 1)]); /* same counter, another of our groups */
    return with_group(e->id, (int)hk_range(0, 15));             /* same counter, any group incl. invalid ones */
}
static unsigned pick_hash(void)
{
    static const unsigned ok[] = {1, 1, 2, 2, 4, 4, 8, 16, 64};
    static const unsigned bad[] = {0, 3, 5, 6, 12, 24, 65};
    return hk_chance(90) ? HK_PICK(ok) : HK_PICK(bad);
}
static uintptr_t pick_obj(void) { return hk_chance(1) ? 0 : (uintptr_t)hk_range(1, 40); }

static void burst(void)
{ /* repeated lookups of the last 5 ids in shuffled order: exercises every SWAP_CACHE promotion */
    int32 ids[5]; int n = 0;
    for (int i = nents - 1; i >= 0 && n < 5; i--) ids[n++] = ents[i].id;
    if (n == 0) return;
    int rounds = (int)hk_range(1, 3);
    for (int r = 0; r < rounds; r++) {
        for (int i = n - 1; i > 0; i--) { int j = (int)hk_range(0, i); int32 t = ids[i]; ids[i] = ids[j]; ids[j] = t; }
        for (int i = 0; i < n; i++) { op_object(ids[i]); if (hk_chance(35)) op_object(ids[hk_range(0, n - 1)]); }
    }
}

static void run_case(int k)
{
    reset_atoms();
    int g8 = (k % 64 == 37);          /* dedicated cases for group 8 (ANIDGROUP), see REPORT: MAKE_ATOM shifts into the sign bit */
    int with_shutdown = hk_chance(4);
    ncgrp = (int)hk_range(2, 3);
    for (int i = 0; i < ncgrp;) {
        int g = (int)hk_range(0, 7), dup = 0;
        for (int j = 0; j < i; j++) dup |= (cgrp[j] == g);
        if (!dup) cgrp[i++] = g;
    }
    if (g8) cgrp[0] = 8;
    int nops = (int)hk_range(20, 160);
    /* most cases start with the groups initialised */
    for (int i = 0; i < ncgrp; i++) if (hk_chance(85)) op_init(cgrp[i], pick_hash());
    for (int n = 0; n < nops; n++) {
        int c = (int)hk_range(0, 99);
        n_ops++;
        if (c < 24) {
            int g = pick_group();
            if (g == 8 && !g8) g = cgrp[0];
            op_register(g, pick_obj());
        }
        else if (c < 50) op_object(pick_id());
        else if (c < 58) burst();
        else if (c < 72) { /* removal: cached/recent ids, any id, double removal */
            int32 id = hk_chance(55) ? pick_recent() : pick_id();
            op_remove(id);
            if (hk_chance(30)) op_remove(id);
            if (hk_chance(40)) op_object(id);
        }
        else if (c < 76) op_group(hk_chance(50) ? pick_id() : (int32)hk_next());
        else if (c < 82) { unsigned m = (unsigned)hk_range(1, 6); op_search(pick_group(), m, (unsigned)hk_range(0, m)); }
        else if (c < 89) op_init(pick_group(), pick_hash());
        else if (c < 97) {
            int g = pick_group();
            op_destroy(g);
            if (hk_chance(50)) { burst(); op_init(g, pick_hash()); if (hk_chance(70)) { int gg = (g == 8 && !g8) ? cgrp[0] : g; op_register(gg, pick_obj()); burst(); } }
        }
        else if (with_shutdown && c == 97) { op_shutdown(); if (hk_chance(70)) burst(); }
        else op_object(pick_recent());
    }
    { hk_stat("ops", n_ops); hk_stat("lookups_of_live_ids", n_hits_expected); hk_stat("ids_reissued", n_reissue); n_ops = n_hits_expected = n_reissue = 0; }
    reset_atoms();
}

int main(int argc, char **argv) { return hk_main(argc, argv, "atom"); }
