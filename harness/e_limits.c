/* e_limits - Tie-B engine for C20 (format limits), model H4/Limits.lean.
 *
 * hfile.c and hfiledd.c are compiled INTO this translation unit (the library's hfile.o/hfiledd.o are then not
 * linked) with -fwrapv -fno-sanitize=signed-integer-overflow, so that every int32 sum of the allocation code has
 * the two's-complement result the model's `wrap32` describes; a wrap is then reported by the explicit oracles
 * below (keys limits-endoff-wrap:*), not by an abort.  Everything else (V, VS, SD, GR layers) is the ASan/UBSan
 * library.  Calls that are known candidates for memory errors run first in a forked child ("probe"); when the
 * child dies the failure gets a key naming the root cause and the call is not repeated in-process.
 *
 * Case kinds (k mod NKIND) and their T lines (engine `limits`):
 *  alloc    T limits init <fixA> <fixB> <cache> <endOff> <ndds> <free> <blockoffs> <tag:ref:off:len,...> => ok
 *           T limits reserve <tag> <ref> <len>        => <ok|fail> <off|x> <len|x> <endOff> <free>
 *           T limits append <tag> <ref> <pos> <n>     => <n|fail|convert> <off> <len> <endOff>
 *           T limits write <tag> <ref> <pos> <n>      => <n|fail>
 *           T limits sync                             => <ok|fail> <endOff>
 *           T limits reopen                           => <ok|fail> <endOff>
 *  linked   T limits llwrite <fixed> <len> <pos> <n>        => <n|fail> <len'> <posn'>     (Hseek(pos); Hwrite(n) on a linked-block element)
 *  refs     T limits tagnewref <nused> <holes> => <ref>     refs 1..nused of one tag in use except <holes>
 *           T limits newref <maxref> <list l - | range nused holes> <refs of other tags> => <ref>
 *  refhist / refexh (files with history across maxref = 65535, and up to exhaustion; runs = `-` or `a`/`a-b` items, one descriptor per number):
 *           T limits refinit <maxref> <runs>          => ok                 model state := the descriptors of the file as they are
 *           T limits refput <ref> <n>                 => ok <maxref>        n descriptors with an explicit number were created
 *           T limits refdel <ref> <n>                 => ok                 n descriptors with this number were deleted
 *           T limits refalloc <api> <n>               => <ref|0> <maxref>   Hnewref / VSattach(-1) / Vattach(-1) / GRcreate / SDcreate, then n descriptors
 *           T limits refstate                         => <maxref> <runs>    canonical text of all descriptors in use
 *           T limits refreopen <maxref> <runs>        => ok                 after Hclose + Hopen: the same descriptors (maxref is recomputed)
 *  vgins    T limits vgins <nvelt> => <ok|fail> <nvelt'>
 *  fdefine  T limits fdefine <isize> <order> => ok|fail
 *  setfields T limits setfields <n> <sizes> => <ok|fail> <nfields>     an entry of <sizes> is the order of a user-defined CHAR8 field, or
 *                                                                      the NAME of a predefined field (PX .. NZ: 4 bytes, no VSfdefine)
 *  names    T limits name <api> <len> => <ok|fail> <stored> <reopened>
 *  sdrank   T limits sdrank <rank> => ok|fail
 *  ndds     T limits ndds <req> => <ndds|fail>          Hopen(DFACC_CREATE, (int16)req): descriptors per DD block
 *  sdcount  T limits sdvar <count> => ok|fail           SDcreate with <count> data sets in the file (H4_MAX_NC_VARS)
 *           T limits sdattr <count> => ok|fail          SDsetattr of a new name with <count> attributes in the list (H4_MAX_NC_ATTRS)
 *  maxopen  T limits maxopen <syslimit> <o<i>|c<i>|r<n>|d<i> ...> => <s<slot>|ok|fail|<n>> ...   (open/close/reset/use file i)
 */
#ifndef HFILE_C
#define HFILE_C "hdf/src/hfile.c" /* resolved through -I<REPO> */
#endif
#ifndef HFILEDD_C
#define HFILEDD_C "hdf/src/hfiledd.c"
#endif
#include HFILE_C
/* the wildcard search of the DD list: once the reference counter is at its limit EVERY Hnewref walks the list for each candidate number, 2*10^9 steps
   when all numbers are in use.  This one function is compiled without sanitizer instrumentation here (3.4 times faster: 1.7 s instead of 5.6 s per
   exhausted search), so that the exhaustion cases fit the quick tier; engine dd (C12) runs it instrumented. */
static int HTIfind_dd(filerec_t *, uint16, uint16, dd_t **, int) __attribute__((no_sanitize("address", "undefined"), optimize("O2")));
#include HFILEDD_C
#ifdef MUT_VPARSE
#include MUT_VPARSE
#endif
#ifdef MUT_FILE
#define HDF 1
#include MUT_FILE
#endif
#ifdef MUT_HBLOCKS
#include MUT_HBLOCKS
#endif
#ifdef MUT_VSFLD
#include MUT_VSFLD
#endif
#ifdef MUT_VG
#include MUT_VG
#endif
#ifdef MUT_VGP
#include MUT_VGP
#endif
#include "mfhdf.h"
#include "hk.h"
#include <sys/wait.h>

#define I32MAX 2147483647LL

/* ------------------------------------------------------------------------------------------------ probe */
/* run fn(arg) in a forked child with stdout silenced; returns fn's result or -1 when the child died before
   reporting (the result travels through a pipe, so no sanitizer exit code can be mistaken for it) */
static int probe(int (*fn)(long), long arg)
{
    int pfd[2];
    fflush(stdout);
    if (pipe(pfd)) return -1;
    pid_t p = fork();
    if (p < 0) return -1;
    if (p == 0) {
        close(pfd[0]);
        if (!freopen("/dev/null", "w", stdout)) _exit(120);
        if (!freopen("/dev/null", "w", stderr)) _exit(120);
        int r = fn(arg);
        if (write(pfd[1], &r, sizeof r) != (ssize_t)sizeof r) _exit(121);
        _exit(0);
    }
    close(pfd[1]);
    int r = -1, st = 0;
    ssize_t got = read(pfd[0], &r, sizeof r);
    close(pfd[0]);
    if (waitpid(p, &st, 0) < 0) return -1;
    if (got != (ssize_t)sizeof r || !WIFEXITED(st) || WEXITSTATUS(st) != 0) return -1;
    return r;
}

static char *mkname(long len, int salt)
{
    char *s = malloc((size_t)len + 1);
    for (long i = 0; i < len; i++) s[i] = (char)('a' + (i * 7 + salt) % 26);
    s[len] = 0;
    return s;
}
static const char *casefile(const char *stem, int k)
{
    char nm[64];
    snprintf(nm, sizeof nm, "%s_%d.hdf", stem, k);
    return hk_tmp(nm);
}

/* ------------------------------------------------------------------------------------------------ alloc */
typedef struct { int tag, ref; long long off, len; int ok; } shadow_t;
static shadow_t sh[512];
static int nsh;

static int dd_free(filerec_t *fr)
{
    int n = 0;
    for (ddblock_t *b = fr->ddhead; b; b = b->next)
        for (int i = 0; i < b->ndds; i++) if (b->ddlist[i].tag == DFTAG_NULL) n++;
    return n;
}
static void print_blocks(filerec_t *fr)
{
    int first = 1;
    for (ddblock_t *b = fr->ddhead; b; b = b->next) { printf("%s%d", first ? "" : ",", (int)b->myoffset); first = 0; }
}
static void print_dds(filerec_t *fr)
{
    int first = 1;
    for (ddblock_t *b = fr->ddhead; b; b = b->next)
        for (int i = 0; i < b->ndds; i++) if (b->ddlist[i].tag != DFTAG_NULL) {
            printf("%s%d:%d:%d:%d", first ? "" : ",", b->ddlist[i].tag, b->ddlist[i].ref, (int)b->ddlist[i].offset, (int)b->ddlist[i].length); first = 0; }
    if (first) printf("-");
}
/* refs in use under any tag other than `tag` (Hnewref looks at all tags) */
static void print_other_refs(filerec_t *fr, int tag)
{
    int first = 1;
    for (ddblock_t *b = fr->ddhead; b; b = b->next)
        for (int i = 0; i < b->ndds; i++) if (b->ddlist[i].tag != DFTAG_NULL && b->ddlist[i].tag != tag) {
            printf("%s%d", first ? "" : ",", b->ddlist[i].ref); first = 0; }
    if (first) printf("-");
}
static int dd_get(int32 fid, int tag, int ref, int32 *off, int32 *len)
{
    uint16 t = 0, r = 0;
    return Hfind(fid, (uint16)tag, (uint16)ref, &t, &r, off, len, DF_FORWARD);
}
static void print_dd(int32 fid, int tag, int ref)
{
    int32 off, len;
    if (dd_get(fid, tag, ref, &off, &len) == FAIL) printf("x x"); else printf("%d %d", (int)off, (int)len);
}

/* does this build of hfile.c carry the range checks?  (decided on the code under test, cached per process) */
static int fixA = -1, fixB = -1;
static void detect_variant(void)
{
    if (fixA >= 0) return;
    const char *p = hk_tmp("variant.hdf");
    int32 fid = Hopen(p, DFACC_CREATE, 16);
    filerec_t *fr = HAatom_object(fid);
    Hputelement(fid, 900, 1, (const uint8 *)"v", 1);
    int32 save = fr->f_end_off;
    fr->f_end_off = (int32)(I32MAX - 5);
    fixA = (HPgetdiskblock(fr, 10, FALSE) == FAIL);
    fr->f_end_off = save;
    /* fixB: an element whose DD says it sits just below the limit; the write must be refused before any I/O */
    int32 aid = Hstartwrite(fid, 900, 2, 4);
    dd_t *dd = HAatom_object(((accrec_t *)HAatom_object(aid))->ddid);
    int32 soff = dd->offset;
    dd->offset = (int32)(I32MAX - 6);
    ((accrec_t *)HAatom_object(aid))->appendable = TRUE;
    ((accrec_t *)HAatom_object(aid))->posn = 4;
    int32 save2 = fr->f_end_off;
    fr->f_end_off = (int32)(I32MAX - 2);
    int32 r = Hwrite(aid, 8, "12345678");
    fixB = (r == FAIL && dd->length == 4);
    dd->offset = soff; dd->length = 4; fr->f_end_off = save2;
    ((accrec_t *)HAatom_object(aid))->posn = 0;
    Hendaccess(aid);
    Hclose(fid);
    remove(p);
}

static int wf_check(int32 fid, const char *after)
{
    filerec_t *fr = HAatom_object(fid);
    int bad = 0;
    long long e = fr->f_end_off;
    if (e < 0 || e > I32MAX - 1) { hk_fail("limits-endoff-wrap:f_end_off", "after %s f_end_off=%lld", after, e); bad = 1; }
    for (ddblock_t *b = fr->ddhead; b && !bad; b = b->next) {
        long long be = (long long)b->myoffset + 6 + 12LL * b->ndds;
        if (b->myoffset < 0 || be > I32MAX - 1) { hk_fail("limits-endoff-wrap:ddblock", "after %s dd block at %d", after, (int)b->myoffset); bad = 1; }
        for (int i = 0; i < b->ndds && !bad; i++) {
            dd_t *d = &b->ddlist[i];
            if (d->tag == DFTAG_NULL) continue;
            if (d->offset == INVALID_OFFSET && d->length == INVALID_LENGTH) continue;
            long long en = (long long)d->offset + d->length;
            if (d->offset < 0 || d->length < 0 || en > I32MAX - 1) {
                hk_fail("limits-endoff-wrap:extent", "after %s (%d,%d) offset %d length %d ends at %lld", after, d->tag, d->ref, (int)d->offset, (int)d->length, en);
                bad = 1;
            }
            else if (en > e) { hk_fail("limits-extent-beyond-end", "after %s (%d,%d) ends at %lld > f_end_off %lld", after, d->tag, d->ref, en, e); bad = 1; }
        }
    }
    return bad;
}

static void case_alloc(int k)
{
    detect_variant();
    const char *path = casefile("alloc", k);
    static const int nddss[] = {4, 4, 5, 16, 16, 64};
    int ndds = HK_PICK(nddss);
    int cache_on = hk_chance(70);
    int32 fid = Hopen(path, DFACC_CREATE, (int16)ndds);
    if (fid == FAIL) { hk_fail("limits-setup", "Hopen create"); return; }
    Hcache(fid, cache_on);
    nsh = 0;
    uint8 pat[64];
    for (int i = 0; i < 64; i++) pat[i] = hk_byte();
    if (Hputelement(fid, 1000, 1, pat, 16) == FAIL) { hk_fail("limits-setup", "first element"); Hclose(fid); return; }
    filerec_t *fr = HAatom_object(fid);
    { int32 o, l; dd_get(fid, 1000, 1, &o, &l); sh[nsh++] = (shadow_t){1000, 1, o, l, 1}; }
    /* approach the limit with one sparse, never written element */
    long long slack = hk_chance(15) ? hk_range(1000000, 2000000000) : hk_range(0, 700);
    long long biglen = I32MAX - 1 - fr->f_end_off - slack;
    printf("T limits init %d %d %d %d %d %d ", fixA, fixB, cache_on, (int)fr->f_end_off, ndds, dd_free(fr)); print_blocks(fr); printf(" "); print_dds(fr); printf(" => ok\n");
    int nextref = 2, bad = 0, lasttag = 0, lastref = 0;
    int nops = (int)hk_range(4, 22);
    for (int i = 0; i < nops && !bad; i++) {
        int op = (i == 0 && biglen >= 0) ? 0 : (int)hk_range(0, 11);
        char what[96];
        if (op <= 4) { /* reserve */
            long long room = I32MAX - 1 - fr->f_end_off;
            long long len;
            if (i == 0 && biglen >= 0) len = biglen;
            else if (op == 0) len = room + hk_range(-3, 3);
            else if (op == 1) len = hk_range(0, 40);
            else if (op == 2) len = HK_PICK(((long long[]){0, 1, 2147483647LL, 2147483646LL, -1, 65536, 4096}));
            else len = hk_range(0, room > 0 ? (room < 100000 ? room + 5 : 100000) : 5);
            if (len > I32MAX) len = I32MAX;
            if (len < -5) len = -1;
            int tag = 1000, ref = nextref++;
            long long e0 = fr->f_end_off, blk = 6 + 12LL * fr->ddhead->ndds;
            int free0 = dd_free(fr);
            int32 aid = Hstartwrite(fid, (uint16)tag, (uint16)ref, (int32)len);
            long long e1 = (free0 == 0 && dd_free(fr) > 0) ? e0 + blk : e0; /* a DD block was put first */
            if (aid != FAIL) Hendaccess(aid);
            printf("T limits reserve %d %d %lld => %s ", tag, ref, len, aid == FAIL ? "fail" : "ok"); print_dd(fid, tag, ref);
            printf(" %d %d\n", (int)fr->f_end_off, dd_free(fr));
            snprintf(what, sizeof what, "reserve(%lld) at f_end_off=%lld", len, e0);
            if (aid == FAIL && fr->f_end_off != e1) { hk_fail("limits-fail-changed-state", "%s failed but f_end_off moved to %d", what, (int)fr->f_end_off); bad = 1; }
            if (aid != FAIL) {
                int32 o, l; dd_get(fid, tag, ref, &o, &l);
                if (o != e1 || l != len) { hk_fail("limits-reserve-extent", "%s got offset %d length %d", what, (int)o, (int)l); bad = 1; }
                sh[nsh++] = (shadow_t){tag, ref, o, l, 1}; lasttag = tag; lastref = ref;
                hk_stat(len > 1000000 ? "alloc_reserve_big_ok" : "alloc_reserve_small_ok", 1);
            }
            else hk_stat("alloc_reserve_refused", 1);
        }
        else if (op <= 7 && lasttag) { /* append to the element that was allocated last (it is at the end of the file unless a DD block followed) */
            int32 o, l; dd_get(fid, lasttag, lastref, &o, &l);
            long long room = I32MAX - 1 - ((long long)o + l);
            long long pos = hk_chance(70) ? l : (hk_chance(50) ? l + hk_range(0, 5) : hk_range(0, l > 40 ? 40 : l));
            if (hk_chance(10)) pos = I32MAX - hk_range(0, 40);
            long long n = hk_chance(60) ? room - (pos - l) + hk_range(-3, 3) : hk_range(1, 48);
            if (n > 48) n = hk_range(1, 48);
            if (n < -1) n = hk_range(0, 3);
            long long e0 = fr->f_end_off;
            int at_end = ((long long)o + l == e0);
            if (!at_end && pos + n > l) { hk_stat("alloc_append_skipped_not_last", 1); continue; } /* would convert to linked blocks: not modelled */
            int32 aid = Hstartaccess(fid, (uint16)lasttag, (uint16)lastref, DFACC_RDWR);
            if (aid == FAIL) { hk_fail("limits-setup", "Hstartaccess for append"); bad = 1; break; }
            Happendable(aid);
            int32 r = FAIL;
            int sk = Hseek(aid, (int32)pos, DF_START);
            if (sk != FAIL) r = Hwrite(aid, (int32)n, pat);
            Hendaccess(aid);
            printf("T limits append %d %d %lld %lld => ", lasttag, lastref, pos, n);
            if (r == FAIL) printf("fail "); else printf("%d ", (int)r);
            print_dd(fid, lasttag, lastref); printf(" %d\n", (int)fr->f_end_off);
            snprintf(what, sizeof what, "append(pos %lld, n %lld) to (%d,%d) off %d len %d", pos, n, lasttag, lastref, (int)o, (int)l);
            int32 o2, l2; dd_get(fid, lasttag, lastref, &o2, &l2);
            if (r == FAIL && (fr->f_end_off != e0 || l2 != l || o2 != o)) {
                hk_fail("limits-fail-changed-state", "%s failed but DD/f_end_off changed (len %d, end %d)", what, (int)l2, (int)fr->f_end_off); bad = 1; }
            if (r != FAIL) { for (int j = 0; j < nsh; j++) if (sh[j].tag == lasttag && sh[j].ref == lastref) sh[j].len = l2; hk_stat("alloc_append_ok", 1); }
            else hk_stat("alloc_append_refused", 1);
        }
        else if (op == 8 && nsh > 1) { /* in-place write into an existing (possibly sparse) element */
            shadow_t *s = &sh[hk_range(1, nsh - 1)];
            long long pos = hk_chance(50) ? s->len - hk_range(0, 20) : hk_range(0, s->len);
            if (pos < 0) pos = 0;
            long long n = hk_range(1, 24);
            int32 aid = Hstartwrite(fid, (uint16)s->tag, (uint16)s->ref, (int32)s->len);
            int32 r = FAIL;
            if (aid != FAIL) { if (Hseek(aid, (int32)pos, DF_START) != FAIL) r = Hwrite(aid, (int32)n, pat); Hendaccess(aid); }
            printf("T limits write %d %d %lld %lld => ", s->tag, s->ref, pos, n);
            if (r == FAIL) printf("fail\n"); else printf("%d\n", (int)r);
            if (r != FAIL) {
                uint8 back[32]; int32 a2 = Hstartread(fid, (uint16)s->tag, (uint16)s->ref);
                if (a2 == FAIL || Hseek(a2, (int32)pos, DF_START) == FAIL || Hread(a2, (int32)n, back) != n || memcmp(back, pat, (size_t)n))
                    { hk_fail("limits-write-readback", "write at %lld+%lld of (%d,%d) does not read back", pos, n, s->tag, s->ref); bad = 1; }
                if (a2 != FAIL) Hendaccess(a2);
                hk_stat("alloc_write_ok", 1);
            }
            snprintf(what, sizeof what, "write");
        }
        else if (op == 9) {
            int r = Hsync(fid);
            printf("T limits sync => %s %d\n", r == FAIL ? "fail" : "ok", (int)fr->f_end_off);
            if (r == FAIL) { hk_fail("limits-sync-failed", "Hsync failed at f_end_off=%d", (int)fr->f_end_off); bad = 1; }
            snprintf(what, sizeof what, "sync");
        }
        else if (op == 10) {
            int r = Hclose(fid);
            if (r == FAIL) { hk_fail("limits-close-failed", "Hclose failed at f_end_off=%d", (int)fr->f_end_off); printf("T limits reopen => fail 0\n"); return; }
            fid = Hopen(path, DFACC_RDWR, 0);
            if (fid == FAIL) { hk_fail("limits-reopen-failed", "Hopen after close failed"); printf("T limits reopen => fail 0\n"); return; }
            Hcache(fid, cache_on);
            fr = HAatom_object(fid);
            printf("T limits reopen => ok %d\n", (int)fr->f_end_off);
            snprintf(what, sizeof what, "reopen");
            hk_stat("alloc_reopen", 1);
        }
        else continue;
        if (!bad) bad = wf_check(fid, what);
    }
    /* consistency + usability afterwards (implementation side only) */
    int r = Hclose(fid);
    if (r == FAIL) { if (!bad) hk_fail("limits-close-failed", "final Hclose failed"); return; }
    if (bad) { remove(path); return; }
    fid = Hopen(path, DFACC_RDWR, 0);
    if (fid == FAIL) { hk_fail("limits-reopen-failed", "final reopen"); return; }
    fr = HAatom_object(fid);
    long long mx = 0;
    for (int j = 0; j < nsh; j++) {
        int32 o, l;
        if (dd_get(fid, sh[j].tag, sh[j].ref, &o, &l) == FAIL || o != sh[j].off || l != sh[j].len)
            { hk_fail("limits-element-lost", "(%d,%d) off %lld len %lld not found unchanged after reopen", sh[j].tag, sh[j].ref, sh[j].off, sh[j].len); bad = 1; break; }
        if (sh[j].off + sh[j].len > mx) mx = sh[j].off + sh[j].len;
        for (int q = 0; q < j; q++)
            if (sh[j].len > 0 && sh[q].len > 0 && sh[j].off < sh[q].off + sh[q].len && sh[q].off < sh[j].off + sh[j].len)
                { hk_fail("limits-extents-overlap", "(%d,%d) and (%d,%d) overlap", sh[j].tag, sh[j].ref, sh[q].tag, sh[q].ref); bad = 1; }
    }
    { uint8 back[16]; if (!bad && (Hgetelement(fid, 1000, 1, back) != 16 || memcmp(back, pat, 16))) { hk_fail("limits-first-element-damaged", "(1000,1) changed"); bad = 1; } }
    if (!bad) bad = wf_check(fid, "final reopen");
    /* follow-up workload: a small new element must be accepted exactly when there is room for it (and its DD) */
    if (!bad) {
        long long end = fr->f_end_off, blk = 6 + 12LL * fr->ddhead->ndds;
        int expect = 1;
        if (dd_free(fr) == 0) { if (blk >= I32MAX - end) expect = 0; else end += blk; }
        if (expect && 8 >= I32MAX - end) expect = 0;
        int32 rr = Hputelement(fid, 2000, 1, pat, 8);
        uint8 back[8];
        if ((rr != FAIL) != expect) { hk_fail("limits-followup", "follow-up Hputelement %s at f_end_off=%d (free DDs %d)", rr == FAIL ? "refused" : "accepted", (int)fr->f_end_off, dd_free(fr)); bad = 1; }
        if (rr != FAIL) {
            if (Hgetelement(fid, 2000, 1, back) != 8 || memcmp(back, pat, 8)) { hk_fail("limits-followup", "follow-up element does not read back"); bad = 1; }
            hk_stat("alloc_followup_ok", 1);
        }
        else hk_stat("alloc_followup_refused_full", 1);
        if (!bad) wf_check(fid, "follow-up");
    }
    if (Hclose(fid) == FAIL) hk_fail("limits-close-failed", "Hclose after follow-up");
    remove(path);
}

/* linked-block element: the LOGICAL length and position are int32 too (hblocks.c HLPseek / HLPwrite) */
static long ll_pos, ll_n; static int ll_emit;
static int probe_linked(long unused)
{
    (void)unused;
    const char *path = hk_tmp(ll_emit ? "linked.hdf" : "probe_linked.hdf");
    int32 fid = Hopen(path, DFACC_CREATE, 16);
    int32 aid = HLcreate(fid, 1100, 1, 0x10000000, 4);
    if (aid == FAIL) return 1;
    uint8 buf[64] = {1, 2, 3};
    if (Hwrite(aid, 8, buf) != 8) return 2;
    int sk = Hseek(aid, (int32)ll_pos, DF_START);
    int32 w = (sk == FAIL) ? FAIL : Hwrite(aid, (int32)ll_n, buf);
    int32 len = -7, pos = -7; Hinquire(aid, NULL, NULL, NULL, &len, NULL, &pos, NULL, NULL);
    if (ll_emit) {
        printf("T limits llwrite 1 8 %ld %ld => ", ll_pos, ll_n);
        if (w == FAIL) printf("fail"); else printf("%d", (int)w);
        printf(" %d %d\n", (int)len, (int)pos);
    }
    Hendaccess(aid);
    int c = Hclose(fid);
    int32 relen = -9;
    fid = Hopen(path, DFACC_READ, 0);
    if (fid != FAIL) { relen = Hlength(fid, 1100, 1); Hclose(fid); }
    remove(path);
    if (c == FAIL) return 3;
    if (len < 0 || pos < 0) return 4;                      /* logical length / position wrapped */
    if (w != FAIL && (long long)ll_pos + ll_n > len) return 5; /* bytes reported written lie outside the element */
    if (relen != len) return 6;
    return w == FAIL ? 10 : 11;
}
static void case_linked(int k)
{
    (void)k;
    ll_pos = HK_PICK(((long[]){0x7ffffff0, 0x7ffffff0, 0x7fffffe0, 0x7fffffff, 100, 0x70000000}));
    ll_n = HK_PICK(((long[]){8, 15, 16, 17, 40, 1}));
    ll_emit = 0;
    int r = probe(probe_linked, 0);
    if (r < 0) { hk_fail("limits-linked-length-wrap", "HLPwrite of %ld bytes at logical position %ld died (int32 overflow of posn + length)", ll_n, ll_pos); return; }
    if (r < 10) { hk_fail("limits-linked-length-wrap", "HLPwrite of %ld bytes at logical position %ld: probe result %d", ll_n, ll_pos, r); return; }
    ll_emit = 1;
    probe_linked(0);
    hk_stat(r == 10 ? "linked_refused" : "linked_written", 1);
}

/* ------------------------------------------------------------------------------------------------ refs */
static void case_refs(int k)
{
    const char *path = casefile("refs", k);
    int32 fid = Hopen(path, DFACC_CREATE, 512);
    if (fid == FAIL) { hk_fail("limits-setup", "Hopen"); return; }
    filerec_t *fr = HAatom_object(fid);
    /* sub-mode 0: few elements with refs near 65535; 1: nearly all refs of one tag in use */
    int heavy = (k / 16) % 4 == 0;
    uint8 b = 7;
    int holes[4], nh = 0;
    int nused;
    if (!heavy) {
        static const int tops[] = {65535, 65534, 65533, 40000, 9};
        int top = HK_PICK(tops);
        int n = (int)hk_range(0, 3);
        int refs[4]; int nr = 0;
        refs[nr++] = top;
        for (int i = 0; i < n; i++) refs[nr++] = (int)hk_range(1, 6);
        for (int i = 0; i < nr; i++) {
            int dup = 0; for (int j = 0; j < i; j++) if (refs[j] == refs[i]) dup = 1;
            if (dup) { refs[i] = 0; continue; }
            if (Hputelement(fid, 1200, (uint16)refs[i], &b, 1) == FAIL) hk_fail("limits-ref-create", "Hputelement(1200,%d)", refs[i]);
        }
        /* describe the used set as a list */
        printf("T limits tagnewref list ");
        int first = 1; for (int i = 0; i < nr; i++) if (refs[i]) { printf("%s%d", first ? "" : ",", refs[i]); first = 0; }
        uint16 r = Htagnewref(fid, 1200);
        printf(" => %d\n", (int)r);
        if (r != 0 && Hexist(fid, 1200, r) != FAIL) hk_fail("limits-ref-in-use", "Htagnewref returned %d which is in use", (int)r);
        printf("T limits newref %d list ", (int)fr->maxref);
        first = 1; for (int i = 0; i < nr; i++) if (refs[i]) { printf("%s%d", first ? "" : ",", refs[i]); first = 0; }
        printf(" - "); print_other_refs(fr, 1200);
        uint16 r2 = Hnewref(fid);
        printf(" => %d\n", (int)r2);
        if (r2 != 0 && Hexist(fid, DFTAG_WILDCARD, r2) != FAIL) hk_fail("limits-ref-in-use", "Hnewref returned %d which is in use", (int)r2);
        /* an element with the highest ref is a first-class object */
        if (top == 65535) {
            uint8 g = 0; if (Hgetelement(fid, 1200, 65535, &g) != 1 || g != 7) hk_fail("limits-ref-65535", "element with ref 65535 does not read back");
        }
        hk_stat("refs_light", 1);
    }
    else {
        static const int ns[] = {65535, 65535, 65534, 65533};
        nused = HK_PICK(ns);
        nh = (int)hk_range(0, 2);
        for (int i = 0; i < nh; i++) holes[i] = (int)hk_range(1, nused);
        if (nh == 2 && holes[0] == holes[1]) nh = 1;
        for (int r = 1; r <= nused; r++) {
            int skip = 0; for (int i = 0; i < nh; i++) if (holes[i] == r) skip = 1;
            if (skip) continue;
            int32 aid = Hstartwrite(fid, 1200, (uint16)r, 0);
            if (aid == FAIL) { hk_fail("limits-ref-create", "Hstartwrite(1200,%d,0) failed", r); break; }
            Hendaccess(aid);
        }
        printf("T limits tagnewref range %d ", nused);
        if (!nh) printf("-"); for (int i = 0; i < nh; i++) printf("%s%d", i ? "," : "", holes[i]);
        uint16 r = Htagnewref(fid, 1200);
        printf(" => %d\n", (int)r);
        int anyfree = (nh > 0 || nused < 65535);
        if (r != 0 && Hexist(fid, 1200, r) != FAIL) hk_fail("limits-ref-in-use", "Htagnewref returned %d which is in use", (int)r);
        if (r == 0 && anyfree) hk_fail("limits-tagnewref-zero-although-free", "Htagnewref returned 0 with %d refs used, %d holes", nused, nh);
        printf("T limits newref %d range %d ", (int)fr->maxref, nused);
        if (!nh) printf("-"); for (int i = 0; i < nh; i++) printf("%s%d", i ? "," : "", holes[i]);
        printf(" "); print_other_refs(fr, 1200);
        uint16 r2 = Hnewref(fid);
        printf(" => %d\n", (int)r2);
        if (r2 != 0 && Hexist(fid, DFTAG_WILDCARD, r2) != FAIL) hk_fail("limits-ref-in-use", "Hnewref returned %d which is in use", (int)r2);
        if (r2 == 0 && anyfree) hk_fail("limits-newref-zero-although-free", "Hnewref returned 0 with %d refs used, %d holes", nused, nh);
        /* a ref-exhausted tag does not stop other tags / the file from working */
        if (Hputelement(fid, 1201, 1, &b, 1) == FAIL) hk_fail("limits-followup", "other tag unusable after ref exhaustion");
        if (Hnumber(fid, 1200) != nused - nh) hk_fail("limits-ref-count", "Hnumber = %d, expected %d", (int)Hnumber(fid, 1200), nused - nh);
        hk_stat("refs_heavy", 1);
    }
    if (Hclose(fid) == FAIL) hk_fail("limits-close-failed", "refs: Hclose");
    fid = Hopen(path, DFACC_READ, 0);
    if (fid == FAIL) hk_fail("limits-reopen-failed", "refs: reopen"); else Hclose(fid);
    remove(path);
}

/* ------------------------------------------------------------------------------------------------ reference numbers across the limit */
/* After `maxref` reached 65535 Hnewref no longer counts but searches the DD list for a number no descriptor uses; every "create a new object"
 * entry point (VSattach(-1), Vattach(-1), GRcreate, SDcreate ...) then depends on that search.  The two case kinds below drive files WITH HISTORY
 * across the limit (descriptors not in ascending order of their numbers: explicit numbers in any order, deleted objects whose slots are taken by
 * later ones, several tags with one number, numbers handed out but never written, close/reopen) and up to exhaustion (all 65535 numbers in use).
 * Model H4.Limits.RefSt (refPut / refDel / refAlloc): the engine reports every creation and deletion, the model answers which number each new
 * object must get (0 = refused) and, at `refstate` / `refreopen`, which descriptors the file must hold.
 * Implementation-side oracles (independent of the model): a number handed out is carried by no descriptor and no live object
 * (limits-ref-in-use:<api>), a call at exhaustion fails (limits-noref-not-refused:<api>), and every object created earlier still reads back
 * (limits-wrap-object-damaged / -lost), also after close + reopen. */
typedef struct { int kind, tag, ref, live, n; int32 vals[6]; int mt[3], mr[3]; char name[24]; } robj_t;   /* kind 0 raw, 1 vdata, 2 vgroup */
static robj_t ro[256];
static int nro, ro_serial;
static int rcount[65536];
static int ref_dead;   /* a collision was reported: stop this file's history */

static void ref_count(filerec_t *fr)
{
    memset(rcount, 0, sizeof rcount);
    for (ddblock_t *b = fr->ddhead; b; b = b->next)
        for (int i = 0; i < b->ndds; i++) if (b->ddlist[i].tag != DFTAG_NULL) rcount[b->ddlist[i].ref]++;
}
/* canonical text of the numbers of all descriptors in use: runs of the numbers in use, then of those in use at least twice, ... */
static void ref_runs_print(filerec_t *fr)
{
    ref_count(fr);
    int first = 1;
    for (int layer = 1;; layer++) {
        int any = 0;
        for (int r = 0; r <= 65535;) {
            if (rcount[r] < layer) { r++; continue; }
            int e = r; while (e < 65535 && rcount[e + 1] >= layer) e++;
            if (e > r) printf("%s%d-%d", first ? "" : ",", r, e); else printf("%s%d", first ? "" : ",", r);
            first = 0; any = 1; r = e + 1;
        }
        if (!any) break;
    }
    if (first) printf("-");
}
static void t_refinit(int32 fid) { filerec_t *fr = HAatom_object(fid); printf("T limits refinit %d ", (int)fr->maxref); ref_runs_print(fr); printf(" => ok\n"); }
static void t_refstate(int32 fid) { filerec_t *fr = HAatom_object(fid); printf("T limits refstate => %d ", (int)fr->maxref); ref_runs_print(fr); printf("\n"); }
static void t_refreopen(int32 fid) { filerec_t *fr = HAatom_object(fid); printf("T limits refreopen %d ", (int)fr->maxref); ref_runs_print(fr); printf(" => ok\n"); }
static int maxref_of(int32 fid) { return (int)((filerec_t *)HAatom_object(fid))->maxref; }
static void t_refalloc(int32 fid, const char *api, int n, int ref) { printf("T limits refalloc %s %d => %d %d\n", api, n, ref, maxref_of(fid)); }
static void t_refput(int32 fid, int ref, int n) { printf("T limits refput %d %d => ok %d\n", ref, n, maxref_of(fid)); }
static void t_refdel(int ref, int n) { printf("T limits refdel %d %d => ok\n", ref, n); }

static int ro_ref_live(int ref) { for (int i = 0; i < nro; i++) if (ro[i].live && ro[i].ref == ref) return 1; return 0; }
static int ro_tagref_live(int tag, int ref) { for (int i = 0; i < nro; i++) if (ro[i].live && ro[i].kind == 0 && ro[i].tag == tag && ro[i].ref == ref) return 1; return 0; }
/* the number `ref` was handed out by `api`: no descriptor (counted before the call) and no live object may carry it */
static int fresh_check(const char *api, int ref, int used_before)
{
    if (ref == 0) return 0;
    if (used_before || ro_ref_live(ref)) {
        char key[64]; snprintf(key, sizeof key, "limits-ref-in-use:%s", api);
        hk_fail(key, "%s was given the reference number %d which %s", api, ref, ro_ref_live(ref) ? "belongs to an object created earlier" : "a descriptor of the file carries");
        ref_dead = 1;
        return 1;
    }
    return 0;
}
static int used_now(int32 fid, int ref) { filerec_t *fr = HAatom_object(fid);
    for (ddblock_t *b = fr->ddhead; b; b = b->next) for (int i = 0; i < b->ndds; i++) if (b->ddlist[i].tag != DFTAG_NULL && b->ddlist[i].ref == ref) return 1;
    return 0; }
/* lowest number no descriptor carries (what the search must find), 0 = none: straight from the DD list, for the oracles only */
static int lowest_free(int32 fid) { ref_count(HAatom_object(fid)); for (int r = 1; r <= 65535; r++) if (!rcount[r]) return r; return 0; }

static robj_t *ro_new(int kind)
{
    if (nro >= (int)(sizeof ro / sizeof ro[0])) return NULL;
    robj_t *o = &ro[nro++]; memset(o, 0, sizeof *o); o->kind = kind; o->live = 0;
    snprintf(o->name, sizeof o->name, "%s%d", kind == 1 ? "vd" : kind == 2 ? "vg" : "raw", ro_serial++);
    o->n = (int)hk_range(1, 6); for (int i = 0; i < 6; i++) o->vals[i] = (int32)hk_range(-100000, 100000);
    return o;
}
/* raw element: explicit number (ref > 0) or one asked from Hnewref (ref == 0); returns 0 when refused */
static int mk_raw(int32 fid, int tag, int ref)
{
    robj_t *o = ro_new(0); if (!o) return 0;
    o->tag = tag;
    if (ref == 0) {
        int before_free = lowest_free(fid);
        ref = Hnewref(fid);
        int ub = ref ? rcount[ref] : 0;
        if (ref && Hputelement(fid, (uint16)tag, (uint16)ref, (uint8 *)o->vals, o->n * 4) == FAIL) { hk_fail("limits-followup", "Hputelement(%d,%d) with a number from Hnewref", tag, ref); ref = 0; }
        t_refalloc(fid, "hnewref", ref ? 1 : 0, ref);
        if (ref == 0 && before_free && maxref_of(fid) == 65535) hk_fail("limits-newref-zero-although-free", "Hnewref returned 0, number %d is free", before_free);
        if (fresh_check("hnewref", ref, ub)) ref = 0;
    }
    else {
        if (Hputelement(fid, (uint16)tag, (uint16)ref, (uint8 *)o->vals, o->n * 4) == FAIL) { hk_fail("limits-ref-create", "Hputelement(%d,%d)", tag, ref); nro--; return 0; }
        t_refput(fid, ref, 1);
    }
    if (!ref) { nro--; return 0; }
    o->ref = ref; o->live = 1;
    return ref;
}
/* vdata in two steps, so that several can be open at once: attach (DFTAG_VS descriptor), finish (records + DFTAG_VH descriptor) */
static int32 vd_attach(int32 fid, robj_t **po)
{
    robj_t *o = ro_new(1); *po = o; if (!o) return FAIL;
    int before_free = lowest_free(fid);
    int32 vs = VSattach(fid, -1, "w");
    int ref = vs == FAIL ? 0 : (int)VSQueryref(vs);
    int ub = ref > 0 ? rcount[ref] : 0;
    t_refalloc(fid, "vsattach", 1, ref < 0 ? 0 : ref);
    if (vs != FAIL && ref <= 0) { hk_fail("limits-noref-not-refused:vsattach", "VSattach(-1,\"w\") returns a vdata without a reference number (%d)", ref); ref_dead = 1; VSdetach(vs); nro--; *po = NULL; return FAIL; }
    if (vs == FAIL && (before_free || maxref_of(fid) < 65535)) hk_fail("limits-newref-zero-although-free", "VSattach(-1,\"w\") fails, number %d is free", before_free);
    if (vs != FAIL && fresh_check("vsattach", ref, ub)) { /* do not write over the other object */ o->ref = ref; return vs; }
    if (vs == FAIL) { nro--; *po = NULL; return FAIL; }
    o->ref = ref; o->tag = DFTAG_VH; o->live = 1;
    return vs;
}
static void vd_finish(int32 fid, int32 vs, robj_t *o)
{
    if (!o->live) { VSdetach(vs); t_refinit(fid); return; }   /* collision reported: whatever the detach does, start again from the file as it is */
    int ok = VSsetname(vs, o->name) != FAIL && VSfdefine(vs, "X", DFNT_INT32, 1) != FAIL && VSsetfields(vs, "X") != FAIL
          && VSwrite(vs, (uint8 *)o->vals, o->n, FULL_INTERLACE) == o->n;
    if (VSdetach(vs) == FAIL || !ok) hk_fail("limits-followup", "vdata %s (number %d) could not be written", o->name, o->ref);
    t_refput(fid, o->ref, 1);
}
static int32 vg_attach(int32 fid, robj_t **po)
{
    robj_t *o = ro_new(2); *po = o; if (!o) return FAIL;
    int before_free = lowest_free(fid);
    int32 vg = Vattach(fid, -1, "w");
    int ref = vg == FAIL ? 0 : (int)VQueryref(vg);
    int ub = ref > 0 ? rcount[ref] : 0;
    t_refalloc(fid, "vattach", 0, ref < 0 ? 0 : ref);
    if (vg != FAIL && ref <= 0) { hk_fail("limits-noref-not-refused:vattach", "Vattach(-1,\"w\") returns a vgroup without a reference number (%d)", ref); ref_dead = 1; Vdetach(vg); nro--; *po = NULL; return FAIL; }
    if (vg == FAIL && (before_free || maxref_of(fid) < 65535)) hk_fail("limits-newref-zero-although-free", "Vattach(-1,\"w\") fails, number %d is free", before_free);
    if (vg != FAIL && fresh_check("vattach", ref, ub)) { o->ref = ref; return vg; }
    if (vg == FAIL) { nro--; *po = NULL; return FAIL; }
    o->ref = ref; o->tag = DFTAG_VG; o->live = 1;
    o->n = (int)hk_range(0, 3);
    for (int i = 0; i < o->n; i++) { o->mt[i] = 1200 + (int)hk_range(0, 2); o->mr[i] = (int)hk_range(1, 65535); }
    return vg;
}
static void vg_finish(int32 fid, int32 vg, robj_t *o)
{
    if (!o->live) { Vdetach(vg); t_refinit(fid); return; }
    int ok = Vsetname(vg, o->name) != FAIL;
    for (int i = 0; i < o->n; i++) if (Vaddtagref(vg, o->mt[i], o->mr[i]) == FAIL) ok = 0;
    if (Vdetach(vg) == FAIL || !ok) hk_fail("limits-followup", "vgroup %s (number %d) could not be written", o->name, o->ref);
    t_refput(fid, o->ref, 1);
}
static void ro_delete(int32 fid, robj_t *o)
{
    int r = FAIL;
    if (o->kind == 0) r = Hdeldd(fid, (uint16)o->tag, (uint16)o->ref);
    else if (o->kind == 1) r = VSdelete(fid, o->ref);
    else r = Vdelete(fid, o->ref);
    if (r == FAIL) hk_fail("limits-followup", "%s (number %d) cannot be deleted", o->name, o->ref);
    t_refdel(o->ref, o->kind == 1 ? 2 : 1);
    o->live = 0;
}
/* every live object reads back as written */
static int ro_verify(int32 fid, const char *when)
{
    int bad = 0;
    for (int i = 0; i < nro && !bad; i++) {
        robj_t *o = &ro[i]; if (!o->live) continue;
        const char *why = NULL;
        if (o->kind == 0) {
            int32 back[6] = {0};
            if (Hlength(fid, (uint16)o->tag, (uint16)o->ref) != o->n * 4) why = "has another length or is gone";
            else if (Hgetelement(fid, (uint16)o->tag, (uint16)o->ref, (uint8 *)back) != o->n * 4 || memcmp(back, o->vals, (size_t)o->n * 4)) why = "has other bytes";
        }
        else if (o->kind == 1) {
            int32 vs = VSattach(fid, o->ref, "r"); char nm[VSNAMELENMAX + 1] = ""; int32 nrec = -1, back[6] = {0};
            if (vs == FAIL) why = "cannot be attached";
            else {
                VSgetname(vs, nm); VSinquire(vs, &nrec, NULL, NULL, NULL, NULL);
                if (strcmp(nm, o->name)) why = "has another name";
                else if (nrec != o->n) why = "has another number of records";
                else if (VSsetfields(vs, "X") == FAIL || VSread(vs, (uint8 *)back, o->n, FULL_INTERLACE) != o->n || memcmp(back, o->vals, (size_t)o->n * 4)) why = "has other records";
                VSdetach(vs);
            }
        }
        else {
            int32 vg = Vattach(fid, o->ref, "r"); char nm[64] = "";
            if (vg == FAIL) why = "cannot be attached";
            else {
                Vgetname(vg, nm);
                if (strcmp(nm, o->name)) why = "has another name";
                else if (Vntagrefs(vg) != o->n) why = "has another number of members";
                else for (int j = 0; j < o->n; j++) { int32 t = 0, r = 0; if (Vgettagref(vg, j, &t, &r) == FAIL || t != o->mt[j] || r != o->mr[j]) why = "has other members"; }
                Vdetach(vg);
            }
        }
        if (why) { hk_fail("limits-wrap-object-damaged", "%s: %s %s (number %d) %s", when, o->kind == 1 ? "vdata" : o->kind == 2 ? "vgroup" : "element", o->name, o->ref, why); bad = 1; }
    }
    /* and nothing was lost or doubled: as many vdatas / vgroups in the file as live objects */
    if (!bad) {
        int nvd = 0, nvg = 0, evd = 0, evg = 0; int32 r = -1;
        while ((r = VSgetid(fid, r)) != FAIL) nvd++;
        r = -1; while ((r = Vgetid(fid, r)) != FAIL) nvg++;
        for (int i = 0; i < nro; i++) if (ro[i].live) { evd += ro[i].kind == 1; evg += ro[i].kind == 2; }
        if (nvd != evd || nvg != evg) { hk_fail("limits-wrap-object-lost", "%s: the file holds %d vdatas and %d vgroups, %d and %d were stored", when, nvd, nvg, evd, evg); bad = 1; }
    }
    return bad;
}
static robj_t *ro_pick_live(void)
{
    int idx[256], n = 0;
    for (int i = 0; i < nro; i++) if (ro[i].live) idx[n++] = i;
    return n ? &ro[idx[hk_range(0, n - 1)]] : NULL;
}
/* two vgroups open at once: the first has no descriptor yet when the second asks for its number.  Implementation-side only (no T line for
   the second request, the model state is reloaded afterwards): the second vgroup must get another number or be refused, never the same one */
static void two_vgroups(int32 fid)
{
    robj_t *o, *o2;
    int wrapped = maxref_of(fid) == 65535;
    int32 a = vg_attach(fid, &o);
    if (a == FAIL || ref_dead) { if (a != FAIL) Vdetach(a); return; }
    int ra = o->ref;
    o2 = ro_new(2);
    if (!o2) { vg_finish(fid, a, o); return; }
    int32 b = Vattach(fid, -1, "w");
    int rb = b == FAIL ? 0 : (int)VQueryref(b);
    if (b == FAIL) {   /* refused: the file is at its limit and cannot tell the number of the unwritten vgroup from a free one */
        nro--;
        if (!wrapped) hk_fail("limits-newref-zero-although-free", "a second Vattach(-1,\"w\") fails below the limit (maxref %d)", maxref_of(fid));
        hk_stat("two_vgroups_second_refused", 1);
        vg_finish(fid, a, o);
        return;
    }
    if (rb == ra) {
        hk_fail(wrapped ? "limits-wrap-ref-handed-out-twice:vattach" : "limits-ref-in-use:vattach",
                "two vgroups created one after the other (the first not yet detached) both got the reference number %d", ra);
        o->live = 0; nro--;
        Vdetach(b); Vdetach(a);
        ref_dead = 1;   /* the library now has two vgroup records under one number: this file's history ends here */
        return;
    }
    ref_count(HAatom_object(fid));
    if (rb <= 0 || rcount[rb] || ro_ref_live(rb)) { hk_fail("limits-ref-in-use:vattach", "the second of two open vgroups got the reference number %d which is in use", rb); o->live = 0; nro--; Vdetach(b); Vdetach(a); ref_dead = 1; return; }
    o2->ref = rb; o2->tag = DFTAG_VG; o2->live = 1; o2->n = 0;
    int ok = Vsetname(b, o2->name) != FAIL;
    if (Vdetach(b) == FAIL || !ok) hk_fail("limits-followup", "second open vgroup (number %d) could not be written", rb);
    t_refinit(fid);   /* the second request was not reported to the model */
    vg_finish(fid, a, o);
    hk_stat("two_vgroups_distinct", 1);
}
static int32 ref_reopen(int32 fid, const char *path, int cache_on)
{
    Vend(fid);
    if (Hclose(fid) == FAIL) { hk_fail("limits-close-failed", "refs: Hclose"); return FAIL; }
    fid = Hopen(path, DFACC_RDWR, 0);
    if (fid == FAIL) { hk_fail("limits-reopen-failed", "refs: Hopen after close"); return FAIL; }
    Hcache(fid, cache_on); Vstart(fid);
    t_refreopen(fid);
    return fid;
}
/* one random operation of a file's history */
static void ref_op(int32 fid)
{
    int c = (int)hk_range(0, 99);
    robj_t *o, *o2;
    if (c < 16) { /* explicit number, any order: small ones (free or used under ANOTHER tag) and a few high ones */
        int tag = 1200 + (int)hk_range(0, 2);
        int ref = hk_chance(85) ? (int)hk_range(1, 40) : (int)hk_range(65530, 65535);
        if (!ro_tagref_live(tag, ref) && !(used_now(fid, ref) && hk_chance(60))) mk_raw(fid, tag, ref);
    }
    else if (c < 30) mk_raw(fid, 1200 + (int)hk_range(0, 2), 0);
    else if (c < 46) { int32 vs = vd_attach(fid, &o); if (vs != FAIL) vd_finish(fid, vs, o); }
    else if (c < 58) { int32 vg = vg_attach(fid, &o); if (vg != FAIL) vg_finish(fid, vg, o); }
    else if (c < 64) { /* two vdatas open at once, finished in either order */
        int32 a = vd_attach(fid, &o), b = vd_attach(fid, &o2);
        if (hk_chance(50)) { if (a != FAIL) vd_finish(fid, a, o); if (b != FAIL) vd_finish(fid, b, o2); }
        else { if (b != FAIL) vd_finish(fid, b, o2); if (a != FAIL) vd_finish(fid, a, o); }
    }
    else if (c < 68) { if (maxref_of(fid) < 65534) two_vgroups(fid); }   /* beyond the limit: the closing step of the round (known finding, ends the history) */
    else if (c < 72) { /* a number handed out and never used */
        int bf = lowest_free(fid);
        int r = Hnewref(fid); int ub = r ? rcount[r] : 0;
        t_refalloc(fid, "hnewref", 0, r);
        if (r == 0 && bf && maxref_of(fid) == 65535) hk_fail("limits-newref-zero-although-free", "Hnewref returned 0, number %d is free", bf);
        fresh_check("hnewref", r, ub);
    }
    else if (c < 96) { if ((o = ro_pick_live()) != NULL) ro_delete(fid, o); }
    else t_refstate(fid);
}

static void case_refhist(int k)
{
    for (int round = 0; round < 3; round++) {
        char stem[32]; snprintf(stem, sizeof stem, "refh%d", round);
        const char *path = casefile(stem, k);
        static const int nddss[] = {4, 8, 16, 16, 64};
        int cache_on = hk_chance(70);
        int32 fid = Hopen(path, DFACC_CREATE, (int16)HK_PICK(nddss));
        if (fid == FAIL) { hk_fail("limits-setup", "Hopen"); return; }
        Hcache(fid, cache_on); Vstart(fid);
        nro = 0; ro_serial = 0; ref_dead = 0;
        t_refinit(fid);
        /* 1: history below the limit */
        int n1 = (int)hk_range(3, 24);
        for (int i = 0; i < n1 && !ref_dead; i++) { if (hk_chance(4)) { if ((fid = ref_reopen(fid, path, cache_on)) == FAIL) return; } else ref_op(fid); }
        /* 2: reach the limit */
        robj_t *o;
        switch ((int)hk_range(0, 6)) {
            case 0: mk_raw(fid, 1203, 65535); break;                                                   /* an explicit 65535 */
            case 1: mk_raw(fid, 1203, 65534); mk_raw(fid, 1200, 0); break;                            /* the counter itself hands out 65535 */
            case 2: if (mk_raw(fid, 1203, 65535)) ro_delete(fid, &ro[nro - 1]); break;                /* 65535 was in use once: the counter stays, the number is free */
            case 3: mk_raw(fid, 1203, 65533); for (int i = 0; i < 2; i++) { int r = Hnewref(fid); t_refalloc(fid, "hnewref", 0, r); } break; /* handed out, never written */
            case 4: mk_raw(fid, 1203, 65535); mk_raw(fid, 1204, 65535); if (hk_chance(50)) ro_delete(fid, &ro[nro - 1]); break;
            case 5: mk_raw(fid, 1203, 65534); { int32 vs = vd_attach(fid, &o); if (vs != FAIL) vd_finish(fid, vs, o); } break;
            default: mk_raw(fid, 1203, 65535); if ((fid = ref_reopen(fid, path, cache_on)) == FAIL) return; break;
        }
        if (ref_dead) { Vend(fid); Hclose(fid); remove(path); continue; }
        if (maxref_of(fid) != 65535) hk_fail("limits-setup", "maxref %d after the limit step", maxref_of(fid));
        /* 3: beyond the limit */
        int n3 = (int)hk_range(6, 30);
        for (int i = 0; i < n3 && !ref_dead; i++) { if (hk_chance(4)) { if ((fid = ref_reopen(fid, path, cache_on)) == FAIL) return; } else ref_op(fid); }
        if (ref_dead) { Vend(fid); Hclose(fid); remove(path); hk_stat("refhist_rounds_cut", 1); continue; }
        t_refstate(fid);
        int bad = ro_verify(fid, "after the history");
        if ((fid = ref_reopen(fid, path, cache_on)) == FAIL) return;
        if (!bad) bad = ro_verify(fid, "after close and reopen");
        /* still usable: one more object of each kind */
        if (!bad) {
            int32 vs = vd_attach(fid, &o); if (vs != FAIL) vd_finish(fid, vs, o);
            int32 vg = vg_attach(fid, &o); if (vg != FAIL) vg_finish(fid, vg, o);
            ro_verify(fid, "after the follow-up objects");
            if (hk_chance(35)) { two_vgroups(fid); if (!ref_dead) ro_verify(fid, "after two vgroups open at once"); }
        }
        Vend(fid);
        if (Hclose(fid) == FAIL) hk_fail("limits-close-failed", "refhist: Hclose");
        remove(path);
        hk_stat("refhist_rounds", 1);
    }
}

/* exhaustion: a few real objects with history, then every other number taken by a small descriptor, in an order that is NOT ascending; the holes
   are filled through the object APIs (each answer predicted by the model), then 1-2 calls at exhaustion must be refused and change nothing */
static const char *sdx_path;
/* 10 + 1 (SDcreate succeeded) + 2 (SDend failed) + 4 * (NDG number of the new data set) */
static int probe_sd_exhausted(long unused)
{
    (void)unused;
    int32 sd = SDstart(sdx_path, DFACC_RDWR);
    if (sd == FAIL) return 1;
    int32 dims[1] = {3};
    int32 sds = SDcreate(sd, "ds", DFNT_INT32, 1, dims);
    int ref = sds == FAIL ? 0 : (int)SDidtoref(sds);
    if (sds != FAIL) SDendaccess(sds);
    int e = SDend(sd);
    return 10 + (sds != FAIL) + 2 * (e == FAIL) + 4 * (ref & 0xffff);
}
static const char *exh_api[] = {"hnewref", "vsattach", "vattach", "grcreate", "sdcreate"};
static void case_refexh(int k)
{
    const char *path = casefile("refx", k);
    int32 fid = Hopen(path, DFACC_CREATE, 512);
    if (fid == FAIL) { hk_fail("limits-setup", "Hopen"); return; }
    Vstart(fid);
    nro = 0; ro_serial = 0; ref_dead = 0;
    robj_t *o;
    t_refinit(fid);
    /* real objects first, some deleted again so that later descriptors take their slots */
    int nreal = (int)hk_range(3, 7);
    for (int i = 0; i < nreal; i++) {
        int c = (int)hk_range(0, 2);
        if (c == 0) mk_raw(fid, 1201, 0);
        else if (c == 1) { int32 vs = vd_attach(fid, &o); if (vs != FAIL) vd_finish(fid, vs, o); }
        else { int32 vg = vg_attach(fid, &o); if (vg != FAIL) vg_finish(fid, vg, o); }
    }
    for (int i = 0; i < 2; i++) if (hk_chance(60) && (o = ro_pick_live()) != NULL) ro_delete(fid, o);
    /* holes */
    int holes[3], nh = (int)HK_PICK(((int[]){0, 0, 1, 2, 3}));
    int last65535 = (k / 64) % 3 == 1;   /* every third case: 65535 itself is the last free number (it was in use once: the counter is at its limit) */
    if (last65535 && nh == 0) nh = 1;
    for (int i = 0; i < nh; i++) {
        int h = (i == 0 && last65535) || hk_chance(8) ? 65535 : hk_chance(8) ? (int)hk_range(3000, 65534) : (int)hk_range(2, 3000);
        int dup = used_now(fid, h); for (int j = 0; j < i; j++) if (holes[j] == h) dup = 1;
        if (dup) { nh = i; break; }
        holes[i] = h;
    }
    /* the order in which the numbers are taken */
    static int order[65536];
    int n = 0, mode = (int)hk_range(0, 3);
    if (mode == 0) for (int r = 65535; r >= 1; r--) order[n++] = r;                                   /* descending */
    else if (mode == 2) for (int b = 65; b >= 0; b--) for (int r = b * 1000 + 1; r <= (b + 1) * 1000 && r <= 65535; r++) order[n++] = r;   /* blocks, last block first */
    else {                                                                                             /* ascending, the first 4000 shuffled */
        for (int r = 1; r <= 65535; r++) order[n++] = r;
        for (int i = 3999; i > 0; i--) { int j = (int)hk_range(0, i); int t = order[i]; order[i] = order[j]; order[j] = t; }
    }
    static unsigned char made_then_deleted[65536];
    memset(made_then_deleted, 0, sizeof made_then_deleted);
    ref_count(HAatom_object(fid));
    static int inuse0[65536];
    memcpy(inuse0, rcount, sizeof inuse0);
    int bad = 0;
    for (int i = 0; i < n && !bad; i++) {
        int r = order[i], ishole = 0;
        for (int j = 0; j < nh; j++) if (holes[j] == r) ishole = 1;
        if (inuse0[r]) continue;
        /* a hole is a number that was never used, or (always for 65535: the counter must reach its limit) one that was used and deleted */
        if (ishole && r != 65535 && hk_chance(50)) continue;
        int32 aid = Hstartwrite(fid, 1200, (uint16)r, 0);
        if (aid == FAIL) { hk_fail("limits-ref-create", "Hstartwrite(1200,%d,0) failed", r); bad = 1; break; }
        Hendaccess(aid);
        if (ishole) made_then_deleted[r] = 1;
    }
    /* mode 3: part of the low numbers deleted and created again in another order: they take the freed slots */
    if (mode == 3 && !bad) {
        int again[400], na = 0;
        for (int i = 0; i < 400; i++) { int r = (int)hk_range(2, 3000); int skip = inuse0[r] || made_then_deleted[r]; for (int j = 0; j < na; j++) if (again[j] == r) skip = 1; for (int j = 0; j < nh; j++) if (holes[j] == r) skip = 1; if (!skip) again[na++] = r; }
        for (int i = 0; i < na; i++) Hdeldd(fid, 1200, (uint16)again[i]);
        for (int i = na - 1; i >= 0; i--) { int32 aid = Hstartwrite(fid, 1200, (uint16)again[i], 0); if (aid != FAIL) Hendaccess(aid); }
    }
    for (int r = 1; r <= 65535 && !bad; r++) if (made_then_deleted[r] && Hdeldd(fid, 1200, (uint16)r) == FAIL) { hk_fail("limits-ref-create", "Hdeldd(1200,%d)", r); bad = 1; }
    if (bad) { Vend(fid); Hclose(fid); remove(path); return; }
    if (maxref_of(fid) != 65535) hk_fail("limits-setup", "maxref %d after the fill", maxref_of(fid));
    t_refinit(fid);
    /* the holes are filled, lowest first, by objects of every kind */
    for (int guard = 0; guard < 6 && !ref_dead; guard++) {
        int lf = lowest_free(fid);
        if (!lf) break;
        int c = (int)hk_range(0, 2);
        if (c == 0) mk_raw(fid, 1201, 0);
        else if (c == 1) { int32 vs = vd_attach(fid, &o); if (vs != FAIL) vd_finish(fid, vs, o); }
        else { int32 vg = vg_attach(fid, &o); if (vg != FAIL) vg_finish(fid, vg, o); }
        if (!ref_dead && !ro_ref_live(lf)) hk_fail("limits-ref-not-lowest-free", "the new object did not get the free number %d", lf);
    }
    if (ref_dead) { Vend(fid); Hclose(fid); remove(path); return; }
    /* every number is in use now: 1-2 requests, each must be refused and leave everything as it is */
    int nexp = 1 + hk_chance(40), sd_after = 0;
    for (int i = 0; i < nexp && !ref_dead; i++) {
        int api = i == 0 ? (k / 64) % 5 : (int)hk_range(0, 3);   /* every fifth case asks SD (three searches: SDcreate, SDend) */
        char key[64]; snprintf(key, sizeof key, "limits-noref-not-refused:%s", exh_api[api]);
        if (api == 4) { sd_after = 1; continue; }   /* SD opens the file itself: after the Hclose below */
        int got = 0;
        if (api == 0) got = Hnewref(fid);
        else if (api == 1) { int32 vs = VSattach(fid, -1, "w"); if (vs != FAIL) { got = (int)VSQueryref(vs); if (got <= 0) got = -1; VSdetach(vs); } }
        else if (api == 2) { int32 vg = Vattach(fid, -1, "w"); if (vg != FAIL) { got = (int)VQueryref(vg); if (got <= 0) got = -1; Vdetach(vg); } }
        else {
            int32 gr = GRstart(fid); int32 dims[2] = {3, 2};
            int32 ri = GRcreate(gr, "img", 1, DFNT_UINT8, MFGR_INTERLACE_PIXEL, dims);
            if (ri != FAIL) { got = (int)GRidtoref(ri); if (!got) got = -1; GRendaccess(ri); }
            GRend(gr);   /* may fail as well: GRend itself wants a number for the GR vgroup of the file */
        }
        t_refalloc(fid, exh_api[api], 0, got < 0 ? 0 : got);
        if (got) { hk_fail(key, "every reference number is in use but %s succeeded (number %d)", exh_api[api], got < 0 ? 0 : got); ref_dead = 1; }
        hk_stat("refexh_refused", got == 0);
    }
    if (ref_dead) { Vend(fid); Hclose(fid); remove(path); return; }
    t_refstate(fid);
    bad = ro_verify(fid, "at exhaustion");
    Vend(fid);
    if (Hclose(fid) == FAIL) { hk_fail("limits-close-failed", "refexh: Hclose"); remove(path); return; }
    if (sd_after && !bad) {
        /* in a child: an SD session that cannot be closed (SDend fails) would stay in the open-file table of this process */
        sdx_path = path;
        int pr = probe(probe_sd_exhausted, 0);
        if (pr < 10) hk_fail(pr < 0 ? "limits-noref-crash:sdcreate" : "limits-reopen-failed", "SD session on a file whose reference numbers are all in use: probe result %d", pr);
        else {
            int created = (pr - 10) & 1, endfail = (pr - 10) & 2;
            printf("T limits refalloc sdcreate 0 => %d 65535\n", created ? (pr - 10) >> 2 : 0);   /* the number the new data set got: 0 also when SDcreate went on without one (finding) */
            if (created) hk_fail("limits-noref-not-refused:sdcreate", "every reference number is in use but SDcreate succeeded (NDG number %d)%s", (pr - 10) >> 2, endfail ? ", SDend fails" : "");
            else if (endfail) hk_fail("limits-close-failed", "SDend fails after a refused SDcreate");
            hk_stat("refexh_sd", 1);
        }
    }
    fid = Hopen(path, DFACC_RDWR, 0);
    if (fid == FAIL) { hk_fail("limits-reopen-failed", "refexh: Hopen after close"); remove(path); return; }
    Vstart(fid);
    t_refreopen(fid);
    if (!bad) bad = ro_verify(fid, "at exhaustion, after close and reopen");
    /* usable afterwards: one number is given back, the next object gets exactly that one */
    if (!bad) {
        int d = 0;
        for (int tries = 0; tries < 50 && !d; tries++) { int r = (int)hk_range(2, 3000); if (Hexist(fid, 1200, (uint16)r) != FAIL && rcount[r] == 1) d = r; }
        if (d) {
            if (Hdeldd(fid, 1200, (uint16)d) == FAIL) hk_fail("limits-followup", "Hdeldd(1200,%d) at exhaustion", d);
            t_refdel(d, 1);
            int32 vs = vd_attach(fid, &o);
            if (vs != FAIL) { vd_finish(fid, vs, o); if (o->ref != d) hk_fail("limits-ref-not-lowest-free", "number %d was given back, the new vdata got %d", d, o->ref); }
            else hk_fail("limits-followup", "number %d was given back but VSattach(-1,\"w\") still fails", d);
            if (!ref_dead) ro_verify(fid, "after the follow-up object");
        }
    }
    Vend(fid);
    if (Hclose(fid) == FAIL) hk_fail("limits-close-failed", "refexh: second Hclose");
    remove(path);
    hk_stat("refexh", 1);
}

/* ------------------------------------------------------------------------------------------------ vgroup members */
static void case_vgins(int k)
{
    const char *path = casefile("vgins", k);
    int32 fid = Hopen(path, DFACC_CREATE, 64);
    Vstart(fid);
    int32 vg = Vattach(fid, -1, "w");
    static const int targets[] = {65533, 65534, 65535};
    int n0 = HK_PICK(targets);
    for (int i = 0; i < n0; i++)
        if (Vaddtagref(vg, 1300, (int32)(i % 65535) + 1) == FAIL) { hk_fail("limits-vg-fill", "Vaddtagref #%d failed", i + 1); break; }
    for (int i = 0; i < 4; i++) {
        int before = Vntagrefs(vg);
        int32 r = Vaddtagref(vg, 1301, i + 1);
        int after = Vntagrefs(vg);
        printf("T limits vgins %d => %s %d\n", before, r == FAIL ? "fail" : "ok", after);
        if (r == FAIL && after != before) hk_fail("limits-fail-changed-state", "Vaddtagref failed but nvelt %d -> %d", before, after);
        if (after < before) hk_fail("limits-nvelt-wrap", "nvelt %d -> %d", before, after);
    }
    int nfinal = Vntagrefs(vg);
    int32 ref = VQueryref(vg);
    if (Vdetach(vg) == FAIL) hk_fail("limits-vg-detach", "Vdetach of a full vgroup failed");
    Vend(fid);
    if (Hclose(fid) == FAIL) hk_fail("limits-close-failed", "vgins: Hclose");
    fid = Hopen(path, DFACC_RDWR, 0); Vstart(fid);
    vg = Vattach(fid, ref, "w");
    if (vg == FAIL) hk_fail("limits-reopen-failed", "full vgroup cannot be attached after reopen");
    else {
        if (Vntagrefs(vg) != nfinal) hk_fail("limits-nvelt-wrap", "after reopen %d members, had %d", (int)Vntagrefs(vg), nfinal);
        int32 t, r; if (Vgettagref(vg, nfinal - 1, &t, &r) == FAIL) hk_fail("limits-vg-last-member", "last member unreadable");
        Vdetach(vg);
    }
    /* follow-up: a new vgroup in the same file works */
    int32 v2 = Vattach(fid, -1, "w");
    if (v2 == FAIL || Vaddtagref(v2, 1302, 1) == FAIL || Vdetach(v2) == FAIL) hk_fail("limits-followup", "new vgroup after a full one");
    Vend(fid);
    if (Hclose(fid) == FAIL) hk_fail("limits-close-failed", "vgins: second Hclose");
    remove(path);
    hk_stat("vgins", 1);
}

/* ------------------------------------------------------------------------------------------------ VSfdefine / VSsetfields */
static const int32 nts[] = {DFNT_CHAR8, DFNT_UINT8, DFNT_INT16, DFNT_UINT16, DFNT_INT32, DFNT_FLOAT32, DFNT_FLOAT64};
static const int ntsz[] = {1, 1, 2, 2, 4, 4, 8};

static void case_fdefine(int k)
{
    const char *path = casefile("fdef", k);
    int32 fid = Hopen(path, DFACC_CREATE, 16);
    Vstart(fid);
    int32 vs = VSattach(fid, -1, "w");
    int okcount = 0; char okname[16] = ""; int oksize = 0;
    for (int i = 0; i < 8; i++) {
        int ti = (int)hk_range(0, 6);
        long long order;
        long long edge = 65535 / ntsz[ti];
        switch ((int)hk_range(0, 5)) {
            case 0: order = edge + hk_range(-1, 2); break;
            case 1: order = 65535 + hk_range(-1, 1); break;
            case 2: order = hk_range(-1, 1); break;
            case 3: order = HK_PICK(((long long[]){65536, 131072, 2147483647LL, -2147483647LL - 1, 32768, 32767})); break;
            default: order = hk_range(1, 50); break;
        }
        char nm[16]; snprintf(nm, sizeof nm, "F%d", i);
        int r = VSfdefine(vs, nm, nts[ti], (int32)order);
        printf("T limits fdefine %d %lld => %s\n", ntsz[ti], order, r == FAIL ? "fail" : "ok");
        if (r != FAIL) { okcount++; strcpy(okname, nm); oksize = ntsz[ti] * (int)order; }
    }
    /* a field at the limit is usable: write one record and read it back */
    if (okcount) {
        if (VSsetfields(vs, okname) == FAIL) hk_fail("limits-followup", "VSsetfields(%s) after boundary VSfdefine", okname);
        else {
            uint8 *rec = malloc((size_t)oksize), *back = malloc((size_t)oksize);
            for (int i = 0; i < oksize; i++) rec[i] = hk_byte();
            if (VSsizeof(vs, okname) != oksize) hk_fail("limits-field-size", "VSsizeof %d expected %d", (int)VSsizeof(vs, okname), oksize);
            if (VSwrite(vs, rec, 1, FULL_INTERLACE) != 1) hk_fail("limits-followup", "VSwrite of a %d-byte field", oksize);
            int32 ref = VSQueryref(vs);
            VSdetach(vs); vs = VSattach(fid, ref, "r");
            if (vs == FAIL || VSsetfields(vs, okname) == FAIL || VSread(vs, back, 1, FULL_INTERLACE) != 1 || memcmp(rec, back, (size_t)oksize))
                hk_fail("limits-field-readback", "a %d-byte field does not read back", oksize);
            free(rec); free(back);
        }
    }
    if (vs != FAIL) VSdetach(vs);
    Vend(fid);
    if (Hclose(fid) == FAIL) hk_fail("limits-close-failed", "fdefine: Hclose");
    remove(path);
    hk_stat("fdefine", 1);
}

static int sf_n; static int sf_sizes[600]; static const char *sf_path;
/* sf_res[i] >= 0: entry i of the list is the PREDEFINED field RS[sf_res[i]] (rstab[] of vsfld.c: 4 bytes, never VSfdefine'd) */
static int sf_res[600];
static const char *RS[] = {"PX", "PY", "PZ", "IX", "IY", "IZ", "NX", "NY", "NZ"};
static char *sf_list(void)
{
    char *list = malloc((size_t)sf_n * 8 + 8); list[0] = 0; char *p = list;
    for (int i = 0; i < sf_n; i++) {
        if (sf_res[i] >= 0) p += sprintf(p, "%s%s", i ? "," : "", RS[sf_res[i]]);
        else p += sprintf(p, "%sG%d", i ? "," : "", i);
    }
    return list;
}
static int32 sf_define(int32 fid)
{
    int32 vs = VSattach(fid, -1, "w");
    for (int i = 0; i < sf_n; i++) {
        if (sf_res[i] >= 0) continue;
        char nm[16]; snprintf(nm, sizeof nm, "G%d", i);
        if (VSfdefine(vs, nm, DFNT_CHAR8, sf_sizes[i]) == FAIL) return FAIL;
    }
    return vs;
}
static int probe_setfields(long unused)
{
    (void)unused;
    int32 fid = Hopen(sf_path, DFACC_CREATE, 16); Vstart(fid);
    int32 vs = sf_define(fid);
    if (vs == FAIL) return 1;
    char *list = sf_list();
    int r = VSsetfields(vs, list);
    VSfexist(vs, list);
    VSdetach(vs); Vend(fid); Hclose(fid);
    return r == FAIL ? 10 : 11;
}
static void case_setfields(int k)
{
    sf_path = casefile("setf", k);
    static const int counts[] = {255, 256, 257, 258, 300, 512, 3, 10, 2, 40};
    sf_n = HK_PICK(counts);
    int mode = (int)hk_range(0, 3);
    long long sum = 0;
    /* field lists that MIX predefined and user-defined fields, up to the record-size limit: some entries (never the last one, which
     * adjusts the total in mode 1) are predefined fields */
    int mix = sf_n >= 2 && sf_n <= 100 && hk_chance(mode == 1 || mode == 3 ? 75 : 30), nres = 0, res_first = (int)hk_range(0, 8);
    for (int i = 0; i < sf_n; i++) sf_res[i] = -1;
    if (mix) {
        int want = (int)hk_range(1, sf_n - 1 < 9 ? sf_n - 1 : 9);
        for (int q = 0; q < want; q++) {
            int pos = (int)hk_range(0, sf_n - 2);
            if (sf_res[pos] < 0) sf_res[pos] = (res_first + nres++) % 9;
        }
        if (mode == 3 && hk_chance(70)) { sf_res[0] = -1; if (sf_res[1] < 0) sf_res[1] = (res_first + nres++) % 9; }  /* 65535 bytes, then a predefined field */
    }
    for (int i = 0; i < sf_n; i++) {
        int s;
        if (sf_res[i] >= 0) s = 4;
        else if (sf_n > 100) s = (int)hk_range(1, 3);
        else if (mode == 0) s = (int)hk_range(1, 20);
        else if (mode == 1) s = (i == sf_n - 1) ? (int)(65535 - sum + hk_range(-1, 1)) : (int)hk_range(1, 2000);   /* total around 65535 */
        else if (mode == 2) s = (int)hk_range(20000, 40000);
        else s = (i == 0) ? 65535 - (mix ? (int)hk_range(0, 5) : 0) : 1;
        if (s < 1) s = 1; if (s > 65535) s = 65535;
        sf_sizes[i] = s; sum += s;
    }
    if (nres) hk_stat("setfields_mixed", 1);
    int pr = probe(probe_setfields, 0);
    if (pr < 0) { hk_fail("limits-scanattrs-overflow", "VSsetfields/VSfexist with %d field names died", sf_n); remove(sf_path); return; }
    int32 fid = Hopen(sf_path, DFACC_CREATE, 16); Vstart(fid);
    int32 vs = sf_define(fid);
    if (vs == FAIL) { hk_fail("limits-setup", "VSfdefine in setfields case"); Vend(fid); Hclose(fid); return; }
    char *list = sf_list();
    int r = VSsetfields(vs, list);
    int nf = VFnfields(vs);
    printf("T limits setfields %d ", sf_n);
    for (int i = 0; i < sf_n; i++) { if (sf_res[i] >= 0) printf("%s%s", i ? "," : "", RS[sf_res[i]]); else printf("%s%d", i ? "," : "", sf_sizes[i]); }
    printf(" => %s %d\n", r == FAIL ? "fail" : "ok", nf);
    if (r != FAIL && sum > 65535) {
        /* the record size does not fit the 16-bit wlist.ivsize: VSwrite would size its transfer buffer from the wrapped value */
        hk_fail(nres ? "limits-ivsize-wrap:reserved-field" : "limits-ivsize-wrap", "VSsetfields accepted %d fields of %lld bytes in all (%d predefined)", sf_n, sum, nres);
        VSdetach(vs); Vend(fid); Hclose(fid); free(list); remove(sf_path);
        return;
    }
    if (r == FAIL && nf != 0) hk_fail("limits-setfields-partial", "VSsetfields failed (%d names, record %lld bytes) but left %d fields set", sf_n, sum, nf);
    if (r != FAIL) {
        if (nf != sf_n) hk_fail("limits-setfields-count", "VFnfields %d expected %d", nf, sf_n);
        if (VSsizeof(vs, list) != (int32)sum) hk_fail("limits-ivsize-wrap", "VSsizeof %d expected %lld", (int)VSsizeof(vs, list), sum);
        uint8 *rec = malloc((size_t)sum), *back = malloc((size_t)sum);
        for (long long i = 0; i < sum; i++) rec[i] = hk_byte();
        if (VSwrite(vs, rec, 1, FULL_INTERLACE) != 1) hk_fail("limits-followup", "VSwrite of a %lld-byte record with %d fields", sum, sf_n);
        int32 ref = VSQueryref(vs);
        VSdetach(vs); Vend(fid); Hclose(fid);
        fid = Hopen(sf_path, DFACC_READ, 0); Vstart(fid);
        vs = VSattach(fid, ref, "r");
        if (vs == FAIL || VFnfields(vs) != sf_n || VSsetfields(vs, list) == FAIL || VSread(vs, back, 1, FULL_INTERLACE) != 1 || memcmp(rec, back, (size_t)sum))
            hk_fail("limits-record-readback", "%d fields / %lld bytes do not read back after reopen", sf_n, sum);
        free(rec); free(back);
        hk_stat("setfields_ok", 1);
    }
    else {
        /* the vdata stays usable: a small field list can still be set and written (only when nothing was half-set) */
        if (nf == 0) {
            int u = sf_n - 1; while (u >= 0 && sf_res[u] >= 0) u--;         /* a user-defined field of the list (the last entry is one, except in a 2-entry list of mode 3) */
            char one[16]; snprintf(one, sizeof one, "G%d", u);
            if (u >= 0 && VSsetfields(vs, one) == FAIL) hk_fail("limits-followup", "VSsetfields(%s) after a refused field list", one);
        }
        hk_stat("setfields_refused", 1);
    }
    if (vs != FAIL) VSdetach(vs);
    Vend(fid);
    if (Hclose(fid) == FAIL) hk_fail("limits-close-failed", "setfields: Hclose");
    free(list);
    remove(sf_path);
}

/* ------------------------------------------------------------------------------------------------ names */
static const long namelens[] = {1, 63, 64, 65, 127, 128, 129, 255, 256, 257, 1000, 65535, 65536, 70000};
enum { N_VSNAME, N_VSCLASS, N_VGNAME, N_VGCLASS, N_FIELD, N_SDNAME, N_DIMNAME, N_ATTRNAME, N_GRNAME, N_NAPI };
static const char *apiname[] = {"vsname", "vsclass", "vgname", "vgclass", "field", "sdname", "dimname", "attrname", "grname"};
static int nm_api; static long nm_len; static const char *nm_path;

/* returns 0 = refused, 1 = accepted; *stored / *reopened = length of the name given back (-1 = could not be read) */
static int do_name(int api, long len, const char *path, long *stored, long *reopened, int report)
{
    char *name = mkname(len, api), *buf = calloc(1, (size_t)len + 70000 + 300);
    int ok = 0; *stored = -1; *reopened = -1;
#define CHECK_PREFIX(got, when) do { long gl = (long)strlen(got); if (report && (gl > len || memcmp(got, name, (size_t)gl))) \
        hk_fail("limits-name-garbled", "%s len %ld: the name given back %s is not a prefix of the name set", apiname[api], len, when); } while (0)
    if (api <= N_FIELD) {
        int32 fid = Hopen(path, DFACC_CREATE, 16); Vstart(fid);
        int32 ref = 0;
        if (api == N_VSNAME || api == N_VSCLASS || api == N_FIELD) {
            int32 vs = VSattach(fid, -1, "w");
            int r;
            if (api == N_VSNAME) r = VSsetname(vs, name); else if (api == N_VSCLASS) r = VSsetclass(vs, name); else r = VSfdefine(vs, name, DFNT_INT32, 1);
            ok = (r != FAIL);
            if (api == N_FIELD) {
                if (ok) {
                    /* the stored (possibly truncated) name is what VSsetfields must be given */
                    char *t = mkname(len > FIELDNAMELENMAX ? FIELDNAMELENMAX : len, api);
                    if (VSsetfields(vs, name) == FAIL) { if (report) hk_fail("limits-field-name", "VSsetfields with the %ld-char name just defined fails", len); }
                    else { char *fn = VFfieldname(vs, 0); if (fn) { *stored = (long)strlen(fn); CHECK_PREFIX(fn, "by VFfieldname"); } int32 v = 5; VSwrite(vs, (uint8 *)&v, 1, FULL_INTERLACE); }
                    free(t);
                }
            }
            else if (ok) { if (api == N_VSNAME) VSgetname(vs, buf); else VSgetclass(vs, buf); *stored = (long)strlen(buf); CHECK_PREFIX(buf, "before detach"); }
            ref = VSQueryref(vs);
            if (api != N_FIELD) { VSfdefine(vs, "X", DFNT_INT32, 1); VSsetfields(vs, "X"); int32 v = 5; VSwrite(vs, (uint8 *)&v, 1, FULL_INTERLACE); }
            if (VSdetach(vs) == FAIL && report) hk_fail("limits-detach", "VSdetach after %s(%ld)", apiname[api], len);
        }
        else {
            int32 vg = Vattach(fid, -1, "w");
            int r = api == N_VGNAME ? Vsetname(vg, name) : Vsetclass(vg, name);
            ok = (r != FAIL);
            if (ok) { if (api == N_VGNAME) Vgetname(vg, buf); else Vgetclass(vg, buf); *stored = (long)strlen(buf); CHECK_PREFIX(buf, "before detach"); }
            ref = VQueryref(vg);
            if (Vdetach(vg) == FAIL && report) hk_fail("limits-detach", "Vdetach after %s(%ld)", apiname[api], len);
        }
        Vend(fid);
        if (Hclose(fid) == FAIL && report) hk_fail("limits-close-failed", "names: Hclose");
        fid = Hopen(path, DFACC_READ, 0); Vstart(fid);
        if (api == N_VSNAME || api == N_VSCLASS || api == N_FIELD) {
            int32 vs = VSattach(fid, ref, "r");
            if (vs == FAIL) { if (report) hk_fail("limits-reopen-failed", "vdata not attachable after %s(%ld)", apiname[api], len); }
            else {
                if (api == N_VSNAME) { VSgetname(vs, buf); *reopened = (long)strlen(buf); }
                else if (api == N_VSCLASS) { VSgetclass(vs, buf); *reopened = (long)strlen(buf); }
                else if (ok) { char *fn = VFfieldname(vs, 0); if (fn) { strcpy(buf, fn); *reopened = (long)strlen(fn); } }
                if (*reopened >= 0) CHECK_PREFIX(buf, "after reopen");
                VSdetach(vs);
            }
        }
        else {
            int32 vg = Vattach(fid, ref, "r");
            if (vg == FAIL) { if (report) hk_fail("limits-reopen-failed", "vgroup not attachable after %s(%ld)", apiname[api], len); }
            else {
                uint16 nl = 0;
                if (api == N_VGNAME) { Vgetnamelen(vg, &nl); Vgetname(vg, buf); } else { Vgetclassnamelen(vg, &nl); Vgetclass(vg, buf); }
                *reopened = (long)strlen(buf);
                if (report && nl != *reopened) hk_fail("limits-namelen-getter", "%s: length getter %d, name has %ld", apiname[api], (int)nl, *reopened);
                CHECK_PREFIX(buf, "after reopen");
                Vdetach(vg);
            }
        }
        Vend(fid); Hclose(fid);
    }
    else if (api <= N_ATTRNAME) {
        int32 sd = SDstart(path, DFACC_CREATE);
        int32 dims[2] = {3, 2}; int32 data[6] = {1, 2, 3, 4, 5, 6}, start[2] = {0, 0};
        int32 sds;
        if (api == N_SDNAME) { sds = SDcreate(sd, name, DFNT_INT32, 2, dims); ok = (sds != FAIL); }
        else {
            sds = SDcreate(sd, "base", DFNT_INT32, 2, dims);
            if (api == N_DIMNAME) ok = (SDsetdimname(SDgetdimid(sds, 0), name) != FAIL);
            else ok = (SDsetattr(sds, name, DFNT_INT32, 2, data) != FAIL);
        }
        if (sds != FAIL) {
            if (SDwritedata(sds, start, NULL, dims, data) == FAIL && report) hk_fail("limits-followup", "SDwritedata after %s(%ld)", apiname[api], len);
            int32 rk, dm[8], nt, na;
            if (ok) {
                if (api == N_SDNAME) SDgetinfo(sds, buf, &rk, dm, &nt, &na);
                else if (api == N_DIMNAME) SDdiminfo(SDgetdimid(sds, 0), buf, dm, &nt, &na);
                else SDattrinfo(sds, 0, buf, &nt, &na);
                *stored = (long)strlen(buf); CHECK_PREFIX(buf, "before SDend");
            }
            SDendaccess(sds);
        }
        else if (api != N_SDNAME && report) hk_fail("limits-setup", "SDcreate base");
        if (SDend(sd) == FAIL && report) hk_fail("limits-close-failed", "SDend after %s(%ld)", apiname[api], len);
        sd = SDstart(path, DFACC_READ);
        if (sd == FAIL) { if (report) hk_fail("limits-reopen-failed", "SDstart after %s(%ld)", apiname[api], len); }
        else {
            int32 nds = -1, nat = -1; SDfileinfo(sd, &nds, &nat);
            int expect_ds = (api == N_SDNAME && !ok) ? 0 : 1;
            if (report && nds != expect_ds) hk_fail("limits-sd-count", "%s(%ld) %s: file holds %d datasets", apiname[api], len, ok ? "accepted" : "refused", (int)nds);
            if (nds > 0) {
                sds = SDselect(sd, 0);
                int32 rk, dm[8], nt, na, back[6] = {0};
                if (api == N_SDNAME) { SDgetinfo(sds, buf, &rk, dm, &nt, &na); *reopened = (long)strlen(buf); }
                else if (api == N_DIMNAME) { SDdiminfo(SDgetdimid(sds, 0), buf, dm, &nt, &na); *reopened = ok ? (long)strlen(buf) : -1; }
                else { if (ok && SDattrinfo(sds, 0, buf, &nt, &na) != FAIL) *reopened = (long)strlen(buf); }
                if (ok && *reopened >= 0) CHECK_PREFIX(buf, "after reopen");
                if (api == N_SDNAME && ok && report && SDnametoindex(sd, name) != 0) hk_fail("limits-name-lookup", "SDnametoindex does not find the %ld-char name", len);
                if (report && (SDreaddata(sds, start, NULL, dims, back) == FAIL || memcmp(back, data, sizeof data))) hk_fail("limits-followup", "SDS data after %s(%ld)", apiname[api], len);
                SDendaccess(sds);
            }
            SDend(sd);
        }
    }
    else {
        int32 fid = Hopen(path, DFACC_CREATE, 16);
        int32 gr = GRstart(fid);
        int32 dims[2] = {3, 2}, start[2] = {0, 0}; uint8 img[6] = {9, 8, 7, 6, 5, 4};
        int32 ri = GRcreate(gr, name, 1, DFNT_UINT8, MFGR_INTERLACE_PIXEL, dims);
        ok = (ri != FAIL);
        if (ok) {
            int32 nc, nt, il, dm[2], na;
            GRwriteimage(ri, start, NULL, dims, img);
            GRgetiminfo(ri, buf, &nc, &nt, &il, dm, &na); *stored = (long)strlen(buf); CHECK_PREFIX(buf, "before GRend");
            GRendaccess(ri);
        }
        if (GRend(gr) == FAIL && report) hk_fail("limits-close-failed", "GRend after grname(%ld)", len);
        if (Hclose(fid) == FAIL && report) hk_fail("limits-close-failed", "Hclose after grname(%ld)", len);
        fid = Hopen(path, DFACC_READ, 0); gr = GRstart(fid);
        int32 nimg = -1, nat; GRfileinfo(gr, &nimg, &nat);
        if (report && nimg != (ok ? 1 : 0)) hk_fail("limits-gr-count", "grname(%ld) %s: %d images in the file", len, ok ? "accepted" : "refused", (int)nimg);
        if (nimg > 0) {
            ri = GRselect(gr, 0);
            int32 nc, nt, il, dm[2], na; uint8 back[6] = {0};
            GRgetiminfo(ri, buf, &nc, &nt, &il, dm, &na); *reopened = (long)strlen(buf); CHECK_PREFIX(buf, "after reopen");
            if (report && (GRreadimage(ri, start, NULL, dims, back) == FAIL || memcmp(back, img, 6))) hk_fail("limits-followup", "image data after grname(%ld)", len);
            if (report && GRnametoindex(gr, name) != 0 && *reopened == len) hk_fail("limits-name-lookup", "GRnametoindex does not find the %ld-char name", len);
            GRendaccess(ri);
        }
        GRend(gr); Hclose(fid);
    }
    free(name); free(buf);
    return ok;
}
static int probe_name(long unused)
{
    (void)unused; long a, b;
    do_name(nm_api, nm_len, nm_path, &a, &b, 0);
    return 10;
}
static void case_names(int k)
{
    nm_api = (int)hk_range(0, N_NAPI - 1);
    nm_len = HK_PICK(namelens);
    if (hk_chance(20)) nm_len += hk_range(-2, 2);
    if (nm_len < 1) nm_len = 1;
    char stem[32]; snprintf(stem, sizeof stem, "name_%s", apiname[nm_api]);
    nm_path = casefile(stem, k);
    if (probe(probe_name, 0) < 0) {
        char key[96]; snprintf(key, sizeof key, "limits-name-overrun:%s", apiname[nm_api]);
        hk_fail(key, "%s with a %ld-character name died (memory error)", apiname[nm_api], nm_len);
        remove(nm_path); return;
    }
    long st, re;
    int ok = do_name(nm_api, nm_len, nm_path, &st, &re, 1);
    if (!ok) { /* a refused name leaves no trace: the object keeps its (empty) name */
        if (re > 0) hk_fail("limits-refused-name-stored", "%s(%ld) was refused but a %ld-character name is in the file", apiname[nm_api], nm_len, re);
        st = re = -1;
    }
    printf("T limits name %s %ld => %s %ld %ld\n", apiname[nm_api], nm_len, ok ? "ok" : "fail", st, re);
    if (ok && st >= 0 && re >= 0 && st != re) {
        char key[96];
        if (nm_api == N_ATTRNAME) snprintf(key, sizeof key, "limits-attrname-truncated");
        else snprintf(key, sizeof key, "limits-name-len16-wrap:%s", apiname[nm_api]);
        hk_fail(key, "%s(%ld) accepted, %ld characters before close, %ld after reopen", apiname[nm_api], nm_len, st, re);
    }
    remove(nm_path);
    hk_stat(ok ? "names_accepted" : "names_refused", 1);
}

/* ------------------------------------------------------------------------------------------------ SD rank / vars */
static void case_sdrank(int k)
{
    const char *path = casefile("rank", k);
    int32 sd = SDstart(path, DFACC_CREATE);
    static const int ranks[] = {31, 32, 33, 34, 64, 1, 0};
    int made = 0;
    for (int i = 0; i < 3; i++) {
        int rank = HK_PICK(ranks);
        int32 dims[80]; for (int j = 0; j < 80; j++) dims[j] = 1;
        if (rank > 0) dims[rank - 1] = 2;
        char nm[16]; snprintf(nm, sizeof nm, "r%d_%d", rank, i);
        int32 nd0 = -1, na; SDfileinfo(sd, &nd0, &na);
        int32 sds = SDcreate(sd, nm, DFNT_INT16, rank, dims);
        printf("T limits sdrank %d => %s\n", rank, sds == FAIL ? "fail" : "ok");
        int32 nd1 = -1; SDfileinfo(sd, &nd1, &na);
        if (sds == FAIL && nd1 != nd0) hk_fail("limits-fail-changed-state", "SDcreate(rank %d) failed but the dataset count went %d -> %d", rank, (int)nd0, (int)nd1);
        if (sds != FAIL) {
            int32 start[80] = {0}; int16 v[2] = {11, 22}, back[2] = {0};
            int32 rk, dm[80], nt, nat; char nb[300];
            if (SDgetinfo(sds, nb, &rk, dm, &nt, &nat) == FAIL || rk != rank) hk_fail("limits-rank-readback", "rank %d read back as %d", rank, (int)rk);
            if (rank > 0 && (SDwritedata(sds, start, NULL, dims, v) == FAIL || SDreaddata(sds, start, NULL, dims, back) == FAIL || back[1] != 22))
                hk_fail("limits-followup", "rank-%d dataset write/read", rank);
            SDendaccess(sds); made++;
        }
    }
    if (SDend(sd) == FAIL) hk_fail("limits-close-failed", "SDend (rank case)");
    sd = SDstart(path, DFACC_READ);
    if (sd == FAIL) hk_fail("limits-reopen-failed", "SDstart (rank case)");
    else {
        int32 nd = -1, na; SDfileinfo(sd, &nd, &na);
        if (nd != made) hk_fail("limits-sd-count", "%d datasets after reopen, %d created", (int)nd, made);
        for (int i = 0; i < nd; i++) { int32 s = SDselect(sd, i); int32 rk, dm[80], nt, nat; char nb[300]; if (SDgetinfo(s, nb, &rk, dm, &nt, &nat) == FAIL) hk_fail("limits-rank-readback", "SDgetinfo after reopen"); SDendaccess(s); }
        SDend(sd);
    }
    remove(path);
    hk_stat("sdrank", 1);
}

/* ------------------------------------------------------------------------------------------------ SD: data sets per file, attributes per list */
static void case_sdcount(int k)
{
    const char *path = casefile("sdcnt", k);
    int32 sd = SDstart(path, DFACC_CREATE);
    if (sd == FAIL) { hk_fail("limits-setup", "SDstart"); return; }
    int32 dims[1] = {2}, start[1] = {0}; int16 v[2] = {11, 22}, back[2] = {0};
    int what = (int)hk_range(0, 2);   /* 0: data sets of the file, 1: attributes of a data set, 2: attributes of the file */
    int32 first = SDcreate(sd, "first", DFNT_INT16, 1, dims);
    if (first == FAIL || SDwritedata(first, start, NULL, dims, v) == FAIL) { hk_fail("limits-setup", "first data set"); SDend(sd); remove(path); return; }
    int expect_ds = 1, expect_at = 0;
    if (what == 0) {
        int n0 = (int)HK_PICK(((int[]){4997, 4998, 4999})) ;
        for (int i = 1; i < n0; i++) { char nm[24]; snprintf(nm, sizeof nm, "v%d", i); int32 s = SDcreate(sd, nm, DFNT_INT8, 1, dims); if (s == FAIL) { hk_fail("limits-valid-refused", "SDcreate #%d fails", i + 1); break; } SDendaccess(s); expect_ds++; }
        for (int i = 0; i < 4; i++) {
            int32 nd0 = -1, nd1 = -1, na; SDfileinfo(sd, &nd0, &na);
            char nm[24]; snprintf(nm, sizeof nm, "edge%d", i);
            int32 s = SDcreate(sd, nm, DFNT_INT8, 1, dims);
            printf("T limits sdvar %d => %s\n", (int)nd0, s == FAIL ? "fail" : "ok");
            SDfileinfo(sd, &nd1, &na);
            if (s == FAIL && nd1 != nd0) hk_fail("limits-fail-changed-state", "SDcreate failed but the data set count went %d -> %d", (int)nd0, (int)nd1);
            if (s != FAIL) { if (nd1 != nd0 + 1) hk_fail("limits-sd-count", "SDcreate succeeded, count %d -> %d", (int)nd0, (int)nd1); SDendaccess(s); expect_ds++; }
            if (nd1 > H4_MAX_NC_VARS) hk_fail("limits-count-beyond-max", "%d data sets in one file", (int)nd1);
        }
    }
    else {
        int32 target = what == 1 ? first : sd;
        int n0 = (int)HK_PICK(((int[]){2997, 2998, 2999}));
        int8 a = 5;
        for (int i = 0; i < n0; i++) { char nm[24]; snprintf(nm, sizeof nm, "a%d", i); if (SDsetattr(target, nm, DFNT_INT8, 1, &a) == FAIL) { hk_fail("limits-valid-refused", "SDsetattr #%d fails", i + 1); break; } expect_at++; }
        for (int i = 0; i < 5; i++) {
            int32 c0 = -1, c1 = -1, x, dm[4], nt; char nb[300];
            if (what == 1) SDgetinfo(first, nb, &x, dm, &nt, &c0); else SDfileinfo(sd, &x, &c0);
            /* i == 2: an attribute that exists already is replaced, whatever the count */
            char nm[24]; snprintf(nm, sizeof nm, i == 2 ? "a0" : "edge%d", i);
            int r = SDsetattr(target, nm, DFNT_INT8, 1, &a);
            if (i == 2) { if (r == FAIL) hk_fail("limits-valid-refused", "replacing an attribute fails with %d attributes", (int)c0); }
            else printf("T limits sdattr %d => %s\n", (int)c0, r == FAIL ? "fail" : "ok");
            if (what == 1) SDgetinfo(first, nb, &x, dm, &nt, &c1); else SDfileinfo(sd, &x, &c1);
            if (r == FAIL && c1 != c0) hk_fail("limits-fail-changed-state", "SDsetattr failed but the attribute count went %d -> %d", (int)c0, (int)c1);
            if (r != FAIL && i != 2) expect_at++;
            if (c1 > H4_MAX_NC_ATTRS) hk_fail("limits-count-beyond-max", "%d attributes in one list", (int)c1);
        }
    }
    /* usable afterwards */
    if (SDreaddata(first, start, NULL, dims, back) == FAIL || back[1] != 22) hk_fail("limits-followup", "first data set after the boundary calls");
    SDendaccess(first);
    if (SDend(sd) == FAIL) hk_fail("limits-close-failed", "SDend (count case)");
    sd = SDstart(path, DFACC_READ);
    if (sd == FAIL) hk_fail("limits-reopen-failed", "SDstart (count case)");
    else {
        int32 nd = -1, na = -1, x, dm[4], nt, nat = -1; char nb[300];
        SDfileinfo(sd, &nd, &na);
        int32 s = SDselect(sd, 0);
        if (s == FAIL || SDgetinfo(s, nb, &x, dm, &nt, &nat) == FAIL || strcmp(nb, "first")) hk_fail("limits-followup", "first data set after reopen");
        else if (SDreaddata(s, start, NULL, dims, back) == FAIL || back[0] != 11 || back[1] != 22) hk_fail("limits-followup", "data of the first data set after reopen");
        if (nd != expect_ds) hk_fail("limits-sd-count", "%d data sets after reopen, %d created", (int)nd, expect_ds);
        if ((what == 1 ? nat : what == 2 ? na : 0) != expect_at) hk_fail("limits-sd-count", "%d attributes after reopen, %d set", (int)(what == 1 ? nat : na), expect_at);
        if (s != FAIL) SDendaccess(s);
        SDend(sd);
    }
    remove(path);
    hk_stat(what == 0 ? "sdcount_vars" : "sdcount_attrs", 1);
}

/* ------------------------------------------------------------------------------------------------ descriptors per DD block (int16) */
static void case_ndds(int k)
{
    const char *path = casefile("ndds", k);
    static const int reqs[] = {32767, 32767, 32766, -1, -32768, 0, 1, 3, 4, 5, 17};
    int req = HK_PICK(reqs);
    int32 fid = Hopen(path, DFACC_CREATE, (int16)req);
    filerec_t *fr = fid == FAIL ? NULL : HAatom_object(fid);
    printf("T limits ndds %d => ", req);
    if (fid == FAIL) { printf("fail\n"); FILE *f = fopen(path, "rb"); if (f) { fclose(f); remove(path); } hk_stat("ndds_refused", 1); return; }
    int eff = fr->ddhead->ndds;
    printf("%d\n", eff);
    /* one block is filled to its last descriptor and one more element forces the second block */
    int n = eff + (int)hk_range(1, 3), made = 0;
    uint8 b = 9;
    for (int r = 1; r <= n; r++) {
        int32 aid = (r % 1000 == 1) ? FAIL : Hstartwrite(fid, 1200, (uint16)r, 0);
        if (aid != FAIL) Hendaccess(aid);
        else if (Hputelement(fid, 1200, (uint16)r, &b, 1) == FAIL) { hk_fail("limits-valid-refused", "element %d of %d in a file with %d descriptors per block", r, n, eff); break; }
        made++;
    }
    int nblk = 0; for (ddblock_t *q = fr->ddhead; q; q = q->next) { nblk++; if (q->ndds != eff) hk_fail("limits-ndds-wrap", "DD block %d has %d descriptors, the first has %d", nblk, (int)q->ndds, eff); }
    if (made == n && nblk != 2) hk_fail("limits-ndds-blocks", "%d descriptors per block, %d elements (+ the version descriptor at close): %d DD blocks", eff, n, nblk);
    wf_check(fid, "filling a DD block");
    if (Hclose(fid) == FAIL) { hk_fail("limits-close-failed", "ndds: Hclose"); remove(path); return; }
    fid = Hopen(path, DFACC_RDWR, 0);
    if (fid == FAIL) hk_fail("limits-reopen-failed", "ndds: a file with %d descriptors per block", eff);
    else {
        fr = HAatom_object(fid);
        if (fr->ddhead->ndds != eff) hk_fail("limits-ndds-wrap", "after reopen the first DD block has %d descriptors, written with %d", (int)fr->ddhead->ndds, eff);
        if (Hnumber(fid, 1200) != made) hk_fail("limits-element-lost", "Hnumber = %d, %d elements written", (int)Hnumber(fid, 1200), made);
        uint8 g = 0; if (Hgetelement(fid, 1200, 1, &g) != 1 || g != 9) hk_fail("limits-followup", "first element after reopen");
        if (Hputelement(fid, 1201, 1, &b, 1) == FAIL) hk_fail("limits-followup", "new element after reopen");
        wf_check(fid, "reopen");
        if (Hclose(fid) == FAIL) hk_fail("limits-close-failed", "ndds: second Hclose");
    }
    remove(path);
    hk_stat("ndds", 1);
}

/* ------------------------------------------------------------------------------------------------ open files */
#define MO_MAX 48
static int mo_nops; static int mo_op[64], mo_arg[64];
static const char *mo_file(int i) { char nm[48]; snprintf(nm, sizeof nm, "mo_%d_%d.hdf", hk_case_no, i); return hk_tmp(nm); }
/* the scripted history: op 0 = open file arg, 1 = close file arg, 2 = reset max to arg, 3 = create a dataset in file arg */
static int mo_run(int emit)
{
    int32 id[MO_MAX]; int isopen[MO_MAX] = {0}; int nds[MO_MAX] = {0};
    int bad = 0;
    static char out[2048]; int op_ = 0; out[0] = 0;
    static char fl[8][200]; static const char *fk[8]; int nfl = 0;
#define MO_FAIL(key, ...) do { if (nfl < 8) { fk[nfl] = key; snprintf(fl[nfl], sizeof fl[nfl], __VA_ARGS__); nfl++; } bad = 1; } while (0)
    /* known starting point: an allocated, empty table of H4_MAX_NC_OPEN slots (= model state `tabInit`) */
    SDreset_maxopenfiles(H4_MAX_NC_OPEN);
    { int cur = 0, sys = 0; SDget_maxopenfiles(&cur, &sys); if (emit) printf("T limits maxopen %d", sys); }
    for (int i = 0; i < mo_nops; i++) {
        int a = mo_arg[i];
        if (mo_op[i] == 0) {
            id[a] = SDstart(mo_file(a), DFACC_CREATE); isopen[a] = (id[a] != FAIL); nds[a] = 0;
            if (emit) printf(" o%d", a);
            if (id[a] == FAIL) op_ += snprintf(out + op_, sizeof out - (size_t)op_, " fail");
            else op_ += snprintf(out + op_, sizeof out - (size_t)op_, " s%d", (int)(id[a] >> 20));
        }
        else if (mo_op[i] == 1) {
            int r = SDend(id[a]); isopen[a] = 0;
            if (emit) printf(" c%d", a);
            op_ += snprintf(out + op_, sizeof out - (size_t)op_, " %s", r == FAIL ? "fail" : "ok");
        }
        else if (mo_op[i] == 2) {
            int r = SDreset_maxopenfiles(a);
            int cur = 0, sys = 0; SDget_maxopenfiles(&cur, &sys);
            if (emit) printf(" r%d", a);
            op_ += snprintf(out + op_, sizeof out - (size_t)op_, " %d", r);
            if (emit && r != cur && r >= 0) MO_FAIL("limits-maxopen-getter", "SDreset_maxopenfiles returned %d, SDget_maxopenfiles says %d", r, cur);
        }
        else {
            int32 dims[1] = {2}; char nm[24]; snprintf(nm, sizeof nm, "d_%d_%d", a, nds[a]);
            int32 s = SDcreate(id[a], nm, DFNT_INT8, 1, dims);
            if (s != FAIL) { SDendaccess(s); nds[a]++; }
            if (emit) printf(" d%d", a);
            op_ += snprintf(out + op_, sizeof out - (size_t)op_, " %s", s == FAIL ? "fail" : "ok");
            if (emit && s == FAIL && isopen[a]) MO_FAIL("limits-maxopen-id-lost", "SDcreate on open file %d fails after the open-file table was resized", a);
        }
        if (emit && SDget_numopenfiles() != ({ int c = 0; for (int j = 0; j < MO_MAX; j++) c += isopen[j]; c; })) MO_FAIL("limits-maxopen-count", "SDget_numopenfiles %d", SDget_numopenfiles());
    }
    if (emit) printf(" =>%s\n", out);
    if (emit) for (int i = 0; i < nfl; i++) hk_fail(fk[i], "%s", fl[i]);
    /* close everything, then every file holds exactly the datasets created through ITS id */
    for (int a = 0; a < MO_MAX; a++) if (isopen[a]) { if (SDend(id[a]) == FAIL && emit) { hk_fail("limits-maxopen-id-lost", "SDend of open file %d fails", a); bad = 1; } }
    for (int a = 0; a < MO_MAX; a++) {
        FILE *f = fopen(mo_file(a), "rb"); if (!f) continue; fclose(f);
        int32 sd = SDstart(mo_file(a), DFACC_READ);
        if (sd == FAIL) { if (emit) { hk_fail("limits-reopen-failed", "maxopen: file %d", a); bad = 1; } }
        else {
            int32 n = -1, na; SDfileinfo(sd, &n, &na);
            if (emit && n != nds[a]) { hk_fail("limits-maxopen-misdirected", "file %d holds %d datasets, %d were created through its id", a, (int)n, nds[a]); bad = 1; }
            SDend(sd);
        }
        remove(mo_file(a));
    }
    return bad ? 12 : 10;
}
static int probe_maxopen(long u) { (void)u; return mo_run(0); }
static void case_maxopen(int k)
{
    (void)k;
    int isopen[MO_MAX] = {0}, nopen = 0;
    mo_nops = 0;
    int mode = (int)hk_range(0, 2);
    if (mode == 0) { /* fill to the default limit and beyond */
        int n = (int)hk_range(31, 36);
        for (int i = 0; i < n; i++) { mo_op[mo_nops] = 0; mo_arg[mo_nops++] = i; isopen[i] = 1; nopen++; }
        mo_op[mo_nops] = 3; mo_arg[mo_nops++] = 0; mo_op[mo_nops] = 3; mo_arg[mo_nops++] = n - 1;
    }
    else {
        int n = (int)hk_range(3, 12);
        for (int i = 0; i < n; i++) { mo_op[mo_nops] = 0; mo_arg[mo_nops++] = i; isopen[i] = 1; nopen++; }
        int ncl = (int)hk_range(1, n - 1);
        for (int i = 0; i < ncl; i++) { int a = (int)hk_range(0, n - 1); if (isopen[a]) { mo_op[mo_nops] = 1; mo_arg[mo_nops++] = a; isopen[a] = 0; nopen--; } }
        mo_op[mo_nops] = 2; mo_arg[mo_nops++] = mode == 1 ? (int)hk_range(nopen + 1, 64) : (int)hk_range(0, nopen + 2);
        for (int a = 0; a < n; a++) if (isopen[a]) { mo_op[mo_nops] = 3; mo_arg[mo_nops++] = a; }
        if (hk_chance(50)) { mo_op[mo_nops] = 0; mo_arg[mo_nops++] = n; isopen[n] = 1; mo_op[mo_nops] = 3; mo_arg[mo_nops++] = n; }
    }
    if (probe(probe_maxopen, 0) < 0) { hk_fail("limits-maxopen-table-overrun", "open-file table history died (memory error)"); for (int a = 0; a < MO_MAX; a++) remove(mo_file(a)); return; }
    mo_run(1);
    hk_stat("maxopen", 1);
}

/* ------------------------------------------------------------------------------------------------ dispatch */
static void run_case(int k)
{
    switch (k % 16) {
        case 0: case 1: case 2: case 3: case 4: case 5: case_alloc(k); break;
        case 6: switch ((k / 16) % 4) { case 2: case_refhist(k); break; case 3: case_refexh(k); break; default: case_refs(k); break; } break;
        case 7: if ((k / 16) % 3 == 0) case_vgins(k); else case_fdefine(k); break;
        case 8: if ((k / 16) % 4 == 2) case_ndds(k); else case_fdefine(k); break;
        case 9: case 10: case_setfields(k); break;
        case 11: case 12: case 13: case_names(k); break;
        case 14: if ((k / 16) % 4 == 1) case_sdcount(k); else if ((k / 16) % 2) case_sdrank(k); else case_linked(k); break;
        default: case_maxopen(k); break;
    }
}

int main(int argc, char **argv) { return hk_main(argc, argv, "limits"); }
