/* e_an - Tie-B engine for C11 (annotations): the multi-file AN* interface and the single-file DFAN* interface on the
 * same files, against the Lean model `H4.Annot` + a C shadow list.
 *
 * mfan.c is compiled INTO this engine (-DMFAN_C=... substitutes a mutated copy; -DDFAN_C=... does the same for dfan.c,
 * then mfan.c comes from the library).
 *
 * One case: create file; AN session (ANstart, ANfileinfo, then ANcreate/ANcreatef + ANwriteann, rewrites with
 * longer/shorter texts, descriptions with embedded NULs, many annotations per object, ANnumann/ANannlist/ANselect/
 * ANget_tagref/ANannlen/ANreadann with small and large buffers/ANid2tagref/ANtagref2id); ANend/Hclose;
 * DFAN session on the same file (DFANputlabel/DFANputdesc replacing or adding, DFANaddfid/DFANaddfds, DFANget*);
 * second AN session after reopen re-reads everything; raw element bytes (Hgetelement) -> `rawelem`.
 * Annotation refs handed out by Htagnewref are INPUTS of the model.  An annotation is named (type, annref) on T lines.
 * Cases 7 and 9 mod 50 are positive tests of two repaired defects (/repo d4a30b4, d625c61): ANcreate as the first call
 * of a session on a file that already has annotations of that type must not hide them; ANreadann of a label with
 * maxlen = 1 must write one byte.  Sessions after a reopen skip the initial ANfileinfo in 30 % of the cases and reads
 * use maxlen down to 1 everywhere, so both are also covered by the random histories.
 * Probes (cases 8, 10, 11 mod 50, unless argv[4] == "noprobe"): ANwriteann with an empty text (an-write-empty);
 * DFANgetfid without DFANgetfidlen repeats the last label (dfan-getf-repeat); DFAN's per-file-name directory cache
 * misses annotations written through AN* (dfan-stale-dir).  Case 18 mod 50 is the positive test of a repaired defect
 * (/repo 380b3fd): DFANlablist with maxlen = 1 must not write beyond the caller's label buffer (dfan-lablist-overrun);
 * the walk oracle keeps the key dfan-walk-endless of another (/repo 358eba8: the walk's end marker was a live ref).
 * Sessions on a file that STAYS OPEN (filerec_t keeps the four trees, the annotation atoms and the four counts between
 * ANstart and ANend, and the record outlives ANend): after the first session 60 % of the cases run 1-3 further sessions
 * separated by ANend only (`endan`) and ANstart again (`restart`) - on the same file id, or on a second file id of the
 * same file record opened before / after the ANend, the first id closed before the ANstart or kept open to the end.
 * In the gap annotations of all four types are added or rewritten while no session is open: DFANaddfid/DFANaddfds on
 * the open file id (`dfaddf`), Hputelement on the open file id (`hput`, all four tags), a whole DFAN session by file
 * name.  Every session creates/rewrites through AN, then compares lists, counts, ids, lengths and texts of all four
 * types with the shadow (verify_all + ANfileinfo on the loaded trees).
 * Reference numbers and DD order are NOT the tidy 1..n of a file written once (every enumeration interface must list
 * exactly what the file holds, whatever the refs): while no AN session is open annotations of all four types are
 * deleted (`hdel`, Hdeldd - the only deletion HDF4 offers), written with explicit refs through the H interface (sparse,
 * out of creation order, 65535, refs from Hnewref's file-wide counter), and other objects are created and deleted in
 * between, so that new DDs land in freed DDs in front of older ones (DD order != creation order != ref order) - on the
 * open file id between two sessions and on the closed file (offline_edits).  Enumerations checked afterwards:
 * ANfileinfo + ANselect over every index, ANnumann/ANannlist, the DFANgetfidlen/DFANgetfid and DFANgetfdslen/DFANgetfds
 * walks (`dfflen`/`dffget`: both protocols, restarted with isfirst = 1 in the middle; the model carries dfan.c's static
 * Next_label_ref/Next_desc_ref), DFANlablist (`dflablist`).  Cases 16, 17 mod 50: the walks over several files one after
 * the other, a walk of one file abandoned in the middle (implementation oracle only).
 * Oracles (model-independent): the shadow list below (type, ref, target, bytes; creation order) and the list of other
 * objects; they are order-free (set of annotations visited exactly once), the order is the model's.
 */
#ifdef DFAN_C
#include DFAN_C
#else
#ifndef MFAN_C
#define MFAN_C "hdf/src/mfan.c" /* resolved through -I<REPO> (vk.cc_harness) */
#endif
#include MFAN_C
#endif
#include "hdf.h"
#include "hk.h"

#define MAXA 200
#define TMAX 400
typedef struct { int type, ref, etag, eref, len, written; uint8_t text[TMAX]; } SA;
static SA  sa[MAXA];
static int nsa;
static int probes_on = 1;
static int32 fid = FAIL, an = FAIL;
static const char *path;
static const uint16 TAGOF[4] = {DFTAG_DIL, DFTAG_DIA, DFTAG_FID, DFTAG_FD};
static uint8_t rb[4096];

/* number of leading bytes of the 4096-byte scratch buffer a reader wrote: run it on two different fill patterns */
static int written_span(const uint8_t *b1, const uint8_t *b2)
{
    int n = 4096;
    while (n > 0 && b1[n - 1] == 0xA5 && b2[n - 1] == 0x5A) n--;
    return n;
}
static uint8_t rb2[4096];
static int is_data(int t) { return t == AN_DATA_LABEL || t == AN_DATA_DESC; }
static int is_label(int t) { return t == AN_DATA_LABEL || t == AN_FILE_LABEL; }
static SA *sa_find(int type, int ref)
{
    for (int i = 0; i < nsa; i++) if (sa[i].type == type && sa[i].ref == ref) return &sa[i];
    return NULL;
}
static void sa_remove(SA *a) { *a = sa[--nsa]; }
/* other objects of the file (what object annotations are about; their DDs sit between the annotations' DDs) */
#define MAXOB 40
static struct { int tag, ref; } ob[MAXOB];
static int nob;
static const int OBTAG[] = {1000, DFTAG_NDG, DFTAG_RIG};
static int ob_find(int tag, int ref)
{
    for (int i = 0; i < nob; i++) if (ob[i].tag == tag && ob[i].ref == ref) return i;
    return -1;
}
static void gen_text(int type, uint8_t *b, int *len)
{
    static const int L[] = {1, 1, 2, 3, 4, 5, 16, 63, 64, 65, 255, 256, 300}; /* length 0: see probe_empty_text */
    int n = hk_chance(50) ? (int)hk_range(1, 12) : HK_PICK(L);
    for (int i = 0; i < n; i++) b[i] = is_label(type) ? (uint8_t)hk_range(1, 255) : (hk_chance(15) ? 0 : hk_byte());
    b[n] = 0; *len = n;
}
static void pick_target(int *t, int *r)
{
    static const int T[] = {DFTAG_NDG, DFTAG_RIG, DFTAG_VG, 1000, 65535};
    *t = HK_PICK(T); *r = hk_chance(85) ? (int)hk_range(1, 4) : (int)hk_range(1, 65535);
}
/* ANfileinfo against the shadow: the number of annotations of each of the four types */
static void check_counts(const char *key, const char *when)
{
    int32 a, b, c, d, cnt[4] = {0, 0, 0, 0};
    if (ANfileinfo(an, &a, &b, &c, &d) == FAIL) { printf("T an fileinfo => fail\n"); hk_fail("an-fileinfo", "ANfileinfo (%s)", when); return; }
    printf("T an fileinfo => %d,%d,%d,%d\n", (int)a, (int)b, (int)c, (int)d);
    for (int i = 0; i < nsa; i++) cnt[sa[i].type]++;
    if (a != cnt[AN_FILE_LABEL] || b != cnt[AN_FILE_DESC] || c != cnt[AN_DATA_LABEL] || d != cnt[AN_DATA_DESC])
        hk_fail(key, "%s: ANfileinfo reports %d,%d,%d,%d file labels, file descriptions, object labels, object descriptions; %d,%d,%d,%d exist", when,
                (int)a, (int)b, (int)c, (int)d, cnt[2], cnt[3], cnt[0], cnt[1]);
}
static int open_an(int create, int info)
{
    fid = Hopen(path, create ? DFACC_CREATE : DFACC_RDWR, (int16)(hk_chance(50) ? 0 : 2 * hk_range(2, 20)));
    if (fid == FAIL) { hk_fail("an-open", "Hopen"); return -1; }
    an = ANstart(fid);
    if (an == FAIL) { hk_fail("an-start", "ANstart"); Hclose(fid); fid = FAIL; return -1; }
    printf("T an start => ok\n");
    if (info) check_counts("an-count", create ? "new file" : "after reopen");
    return 0;
}
static int32 extra_fid[8];
static int   nextra;
/* annotations that were created but never written do not exist in the file */
static void shadow_drop_unwritten(void)
{
    int j = 0;
    for (int i = 0; i < nsa; i++) if (sa[i].written) sa[j++] = sa[i];
    nsa = j;
}
static void close_an(void)
{
    if (fid == FAIL) return;
    if (an != FAIL && ANend(an) == FAIL) hk_fail("an-end", "ANend");
    an = FAIL;
    if (Hclose(fid) == FAIL) hk_fail("an-hclose", "Hclose");
    fid = FAIL;
    while (nextra > 0) if (Hclose(extra_fid[--nextra]) == FAIL) hk_fail("an-hclose", "Hclose of an older file id of the same file");
    shadow_drop_unwritten();
}
static int32 id_of(SA *a)
{
    int32 id = ANtagref2id(an, TAGOF[a->type], (uint16)a->ref);
    printf("T an tagref2id %d %d => %s\n", TAGOF[a->type], a->ref, id == FAIL ? "fail" : "ok");
    if (id == FAIL) { hk_fail("an-tagref2id", "type %d ref %d not found", a->type, a->ref); return FAIL; }
    uint16 tg = 0, rf = 0;
    if (ANid2tagref(id, &tg, &rf) == FAIL || tg != TAGOF[a->type] || rf != a->ref)
        hk_fail("an-id2tagref", "ANid2tagref(ANtagref2id(%d,%d)) = %d,%d", TAGOF[a->type], a->ref, tg, rf);
    return id;
}
static void do_write(SA *a, int32 id)
{
    uint8_t t[TMAX + 1]; int len;
    gen_text(a->type, t, &len);
    int32 r = ANwriteann(id, (char *)t, len);
    printf("T an writeann %d %d ", a->type, a->ref); hk_hex(t, (size_t)len); printf(" => %s\n", r == FAIL ? "fail" : "ok");
    if (r == FAIL) { hk_fail("an-write", "ANwriteann type %d len %d (was %s)", a->type, len, a->written ? "written" : "new"); return; }
    hk_stat(a->written ? (len > a->len ? "rewrite_longer" : "rewrite_shorter") : "write_new", 1);
    memcpy(a->text, t, (size_t)len); a->len = len; a->written = 1;
}
static void do_create(void)
{
    if (nsa >= MAXA) return;
    int type = (int)hk_range(0, 9); type = type < 4 ? AN_DATA_LABEL : type < 7 ? AN_DATA_DESC : type < 8 ? AN_FILE_LABEL : AN_FILE_DESC;
    int et = 0, er = 0;
    int32 id;
    if (is_data(type)) {
        if (nsa && hk_chance(50)) { SA *o = &sa[hk_range(0, nsa - 1)]; if (is_data(o->type)) { et = o->etag; er = o->eref; } }
        if (!et) pick_target(&et, &er);
        if (hk_chance(3)) et = 0; /* invalid target */
        id = ANcreate(an, (uint16)et, (uint16)er, (ann_type)type);
    }
    else id = ANcreatef(an, (ann_type)type);
    uint16 tg = 0, rf = 0;
    if (id != FAIL && (ANid2tagref(id, &tg, &rf) == FAIL || tg != TAGOF[type])) hk_fail("an-id2tagref", "after create");
    printf("T an create %d %d %d %d => %s\n", type, et, er, rf, id == FAIL ? "fail" : "ok");
    if (id == FAIL) { if (et || !is_data(type)) hk_fail("an-create", "ANcreate type %d target %d/%d failed", type, et, er); return; }
    if (sa_find(type, rf)) hk_fail("an-ref-fresh", "new annotation got ref %d of a live annotation", rf);
    SA *a = &sa[nsa++];
    a->type = type; a->ref = rf; a->etag = is_data(type) ? et : TAGOF[type]; a->eref = is_data(type) ? er : rf; a->len = 0; a->written = 0;
    do_write(a, id);
    ANendaccess(id);
    hk_stat("created", 1);
}
static int force_maxlen = 0;
static void q_read(SA *a, int32 id)
{
    int32 l = ANannlen(id);
    printf("T an annlen %d %d => ", a->type, a->ref); if (l == FAIL) printf("fail\n"); else printf("%d\n", (int)l);
    if (l != a->len) hk_fail("an-annlen", "ANannlen=%d shadow %d (type %d ref %d)", (int)l, a->len, a->type, a->ref);
    int maxlen = hk_chance(60) ? TMAX + 8 : (int)hk_range(1, a->len + 2);
    if (force_maxlen) maxlen = force_maxlen;
    memset(rb, 0xA5, sizeof rb); memset(rb2, 0x5A, sizeof rb2);
    int32 r = ANreadann(id, (char *)rb, maxlen);
    ANreadann(id, (char *)rb2, maxlen);
    int want = a->len, wr = written_span(rb, rb2);
    if (is_label(a->type)) { if (want > maxlen - 1) want = maxlen - 1; } else if (want > maxlen) want = maxlen;
    printf("T an readann %d %d %d => ", a->type, a->ref, maxlen); if (r == FAIL) printf("fail"); else { hk_hex(rb, (size_t)want); printf(" %d", wr); } printf("\n");
    if (r == FAIL) { hk_fail("an-read", "ANreadann failed (type %d ref %d len %d maxlen %d)", a->type, a->ref, a->len, maxlen); return; }
    if (memcmp(rb, a->text, (size_t)want)) hk_fail("an-read-data", "ANreadann bytes differ (type %d ref %d len %d maxlen %d)", a->type, a->ref, a->len, maxlen);
    if (is_label(a->type) && rb[want] != 0) hk_fail("an-read-nul", "label not NUL terminated");
    if (wr > maxlen) hk_fail("an-read-overrun", "ANreadann(maxlen=%d) wrote %d bytes into the caller's buffer (type %d, text length %d)", maxlen, wr, a->type, a->len);
}
static void q_raw(SA *a)
{
    int32 len = Hlength(fid, TAGOF[a->type], (uint16)a->ref);
    printf("T an rawelem %d %d => ", TAGOF[a->type], a->ref);
    if (len == FAIL || len > (int32)sizeof rb || Hgetelement(fid, TAGOF[a->type], (uint16)a->ref, rb) != len) { printf("fail\n"); if (a->written) hk_fail("an-raw", "element missing"); return; }
    hk_hex(rb, (size_t)len); printf("\n");
    /* layout oracle */
    int off = is_data(a->type) ? 4 : 0;
    if (len != a->len + off) hk_fail("an-raw-len", "element length %d, text %d + prefix %d", (int)len, a->len, off);
    else {
        if (off && (rb[0] != (a->etag >> 8) || rb[1] != (a->etag & 255) || rb[2] != (a->eref >> 8) || rb[3] != (a->eref & 255))) hk_fail("an-raw-prefix", "target prefix wrong");
        if (memcmp(rb + off, a->text, (size_t)a->len)) hk_fail("an-raw-text", "text bytes wrong");
    }
}
static void q_list(int type, int et, int er)
{
    static int32 ids[MAXA + 8];
    int n = ANnumann(an, (ann_type)type, (uint16)et, (uint16)er);
    printf("T an numann %d %d %d => ", type, et, er); if (n == FAIL) printf("fail\n"); else printf("%d\n", n);
    int want = 0;
    for (int i = 0; i < nsa; i++) if (sa[i].type == type && sa[i].etag == et && sa[i].eref == er) want++;
    if (!is_data(type)) { if (n != FAIL) hk_fail("an-numann", "ANnumann accepted a file annotation type"); return; }
    if (n != want) hk_fail("an-numann", "ANnumann(%d,%d/%d)=%d shadow %d", type, et, er, n, want);
    if (n < 0 || n > MAXA) return;
    int m = ANannlist(an, (ann_type)type, (uint16)et, (uint16)er, ids);
    printf("T an annlist %d %d %d => ", type, et, er);
    if (m == FAIL) { printf("fail\n"); hk_fail("an-annlist", "failed"); return; }
    if (m == 0) printf("-");
    static uint16 lr[MAXA + 8], lt[MAXA + 8];
    for (int i = 0; i < m; i++) { lt[i] = lr[i] = 0; ANid2tagref(ids[i], &lt[i], &lr[i]); printf("%s%d", i ? "," : "", lr[i]); }
    printf("\n");
    for (int i = 0; i < m; i++) {
        SA *a = sa_find(type, lr[i]);
        if (!a || a->etag != et || a->eref != er || lt[i] != TAGOF[type])
            hk_fail("an-annlist", "entry %d (ref %d) is not an annotation of %d/%d (shadow: %s %d/%d)", i, lr[i], et, er, a ? "target" : "unknown", a ? a->etag : 0, a ? a->eref : 0);
        for (int j = 0; j < i; j++) if (ids[j] == ids[i]) hk_fail("an-annlist", "duplicate id in list");
    }
    if (m != want) hk_fail("an-annlist", "ANannlist count %d shadow %d", m, want);
}
static void q_select(int type)
{
    int cnt = 0;
    for (int i = 0; i < nsa; i++) if (sa[i].type == type) cnt++;
    int idx = (int)hk_range(-1, cnt + 1);
    int32 id = ANselect(an, idx, (ann_type)type);
    uint16 tg = 0, rf = 0;
    if (id != FAIL) ANid2tagref(id, &tg, &rf);
    printf("T an select %d %d => ", type, idx); if (id == FAIL) printf("fail\n"); else printf("%d\n", rf);
    if ((id != FAIL) != (idx >= 0 && idx < cnt)) hk_fail("an-select", "ANselect(%d) of %d = %d", idx, cnt, (int)id);
    else if (id != FAIL && !sa_find(type, rf)) hk_fail("an-select", "ANselect gives unknown ref %d", rf);
    uint16 t2 = 0, r2 = 0;
    int32 res = ANget_tagref(an, idx, (ann_type)type, &t2, &r2);
    printf("T an gettagref %d %d => ", type, idx); if (res == FAIL) printf("fail\n"); else printf("%d,%d\n", t2, r2);
    if (res != FAIL && id != FAIL && (t2 != tg || r2 != rf)) hk_fail("an-gettagref", "ANget_tagref and ANselect disagree");
}
/* every index of every type exactly once: the listing of a type is exactly the set of annotations that exist (cnt known
 * refs, pairwise different, and no entry at index cnt); the ids the listing hands out are usable (length) and map back
 * to themselves through their tag/ref */
static void q_walk(void)
{
    for (int type = 0; type < 4; type++) {
        int cnt = 0, seen[MAXA], ok = 1;
        for (int i = 0; i < nsa; i++) if (sa[i].type == type) cnt++;
        for (int idx = 0; idx < cnt; idx++) {
            int32 id = ANselect(an, idx, (ann_type)type);
            uint16 tg = 0, rf = 0;
            if (id != FAIL) ANid2tagref(id, &tg, &rf);
            printf("T an select %d %d => ", type, idx); if (id == FAIL) printf("fail\n"); else printf("%d\n", rf);
            SA *a = id == FAIL ? NULL : sa_find(type, rf);
            if (!a) { hk_fail("an-walk", "ANselect(%d,%d) fails or is unknown", idx, type); ok = 0; break; }
            for (int j = 0; j < idx; j++) if (seen[j] == rf) hk_fail("an-walk", "ref %d selected twice", rf);
            seen[idx] = rf;
            if (ANtagref2id(an, tg, rf) != id) hk_fail("an-id-map", "ANtagref2id(ANid2tagref(id)) is not the id ANselect(%d, type %d) returned", idx, type);
            if (a->written) {
                int32 l = ANannlen(id);
                printf("T an annlen %d %d => ", type, rf); if (l == FAIL) printf("fail\n"); else printf("%d\n", (int)l);
                if (l != a->len) hk_fail("an-select-len", "ANannlen of the id ANselect(%d, type %d) returned = %d, the annotation (ref %d) has %d bytes", idx, type, (int)l, rf, a->len);
            }
        }
        if (ok) {
            int32 id = ANselect(an, cnt, (ann_type)type);
            printf("T an select %d %d => ", type, cnt);
            if (id == FAIL) printf("fail\n");
            else { uint16 tg = 0, rf = 0; ANid2tagref(id, &tg, &rf); printf("%d\n", rf); hk_fail("an-walk", "type %d: %d annotations exist, ANselect(%d) returns one more (ref %d)", type, cnt, cnt, rf); }
        }
    }
}
static void verify_all(const char *when)
{
    for (int i = 0; i < nsa; i++) {
        SA *a = &sa[i];
        if (!a->written) continue;
        int32 id = id_of(a);
        if (id == FAIL) { hk_fail("an-lost", "%s: annotation type %d ref %d lost", when, a->type, a->ref); continue; }
        q_read(a, id); q_raw(a);
        if (is_data(a->type) && hk_chance(50)) q_list(a->type, a->etag, a->eref);
    }
    q_walk();
}

/* ---------------------------------------------------------------- enumerations of the single-file interface */
/* the documented loop over the file labels (type 2) / file descriptions (type 3) of an open file:
 *   for (first = 1; DFANgetfidlen(f, first) != FAIL; first = 0) DFANgetfid(f, buf, maxlen, first);
 * (proto 1: DFANgetfid alone until it fails).  Every annotation of the type that exists must be reported exactly once,
 * with its length and its bytes, then the walk must end - whatever the refs are.  `stop_after` >= 0 abandons the walk
 * after that many annotations (the caller goes on with another file).  In 15 % the walk is started again (isfirst = 1)
 * in the middle; the second pass must report everything again. */
static int walk_tie = 1; /* 0: the file walked is not the file the model follows (no T lines) */
static void walk_file_anns(int32 f, int type, const char *when, int stop_after)
{
    int cnt = 0, seen[MAXA], nseen = 0, first = 1, restarted = 0, proto = hk_chance(25), ended = 0, lastref = 0, repeat = 0;
    for (int i = 0; i < nsa; i++) if (sa[i].type == type && sa[i].written) cnt++;
    for (int step = 0; step < 2 * cnt + 4; step++) {
        int32 ll = 0;
        if (!proto) {
            ll = type == AN_FILE_LABEL ? DFANgetfidlen(f, first) : DFANgetfdslen(f, first);
            if (walk_tie) { printf("T an dfflen %d %d => ", type, first); if (ll == FAIL) printf("fail\n"); else printf("%d\n", (int)ll); }
            if (ll == FAIL) { ended = 1; break; }
        }
        int maxlen = hk_chance(70) ? TMAX + 8 : (int)hk_range(1, 6);
        memset(rb, 0xA5, sizeof rb);
        int32 l = type == AN_FILE_LABEL ? DFANgetfid(f, (char *)rb, maxlen, first) : DFANgetfds(f, (char *)rb, maxlen, first);
        if (walk_tie) { printf("T an dffget %d %d %d => ", type, first, maxlen); if (l == FAIL) printf("fail"); else hk_hex(rb, (size_t)l); printf("\n"); }
        if (l == FAIL) { if (proto) ended = 1; else hk_fail("dfan-walk-read", "%s: DFANgetf%s fails after DFANgetf%slen reported %d bytes (annotation %d of %d)", when, type == AN_FILE_LABEL ? "id" : "ds", type == AN_FILE_LABEL ? "id" : "ds", (int)ll, nseen + 1, cnt); break; }
        int r = DFANlastref();
        SA *w = sa_find(type, r);
        for (int j = 0; j < nseen; j++) if (seen[j] == r) repeat = 1;
        if (repeat) break;
        lastref = r;
        if (nseen < MAXA) seen[nseen++] = r;
        if (!w || !w->written) { hk_fail("dfan-walk-phantom", "%s: the walk reports a file %s with ref %d that does not exist", when, type == AN_FILE_LABEL ? "label" : "description", r); break; }
        int want = w->len > maxlen - 1 ? maxlen - 1 : w->len;
        if (!proto && ll != w->len) hk_fail("dfan-walk-len", "%s: length %d reported for ref %d, it has %d bytes", when, (int)ll, r, w->len);
        if (l != want || memcmp(rb, w->text, (size_t)want) || rb[want] != 0) hk_fail("dfan-walk-data", "%s: ref %d read with maxlen %d: %d bytes (want %d) or bytes differ", when, r, maxlen, (int)l, want);
        first = 0;
        if (stop_after >= 0 && nseen >= stop_after) { hk_stat("dfan_walk_abandoned", 1); return; }
        if (!restarted && nseen < cnt && hk_chance(15)) { first = 1; restarted = 1; nseen = 0; hk_stat("dfan_walk_restart", 1); }
    }
    hk_stat(proto ? "dfan_walk_getonly" : "dfan_walk_len_get", 1);
    int sparse = 0;
    for (int j = 0; j < nseen; j++) if (seen[j] != j + 1) sparse = 1;
    if (sparse) hk_stat("dfan_walk_nonconsecutive_refs", 1);
    if (repeat || !ended) {
        /* a root cause seen before (repaired by /repo 358eba8): the end-of-list marker was "ref of the last annotation in DD
         * order + 1" - a ref that may be live, or 0 = DFREF_WILDCARD */
        int m = (lastref + 1) & 0xffff;
        if (nseen == cnt && (m == 0 || sa_find(type, m)))
            hk_fail("dfan-walk-endless", "%s: the walk over the %d file %s does not end: after the last one (ref %d) Next_%s_ref = %d is %s, the walk goes round again", when, cnt,
                    type == AN_FILE_LABEL ? "labels" : "descriptions", lastref, type == AN_FILE_LABEL ? "label" : "desc", m, m ? "the ref of another one" : "DFREF_WILDCARD");
        else hk_fail("dfan-walk-repeat", "%s: the walk reports an annotation twice after %d of %d (last ref %d)", when, nseen, cnt, lastref);
    }
    else if (nseen != cnt)
        hk_fail("dfan-walk-lost", "%s: the walk over the file %s ends after %d annotation(s) (last ref %d), %d exist in the file", when, type == AN_FILE_LABEL ? "labels" : "descriptions", nseen, lastref, cnt);
}
static void dfan_walks(void)
{
    for (int type = AN_FILE_LABEL; type <= AN_FILE_DESC; type++) {
        int32 f = Hopen(path, DFACC_READ, 0);
        if (f == FAIL) { hk_fail("an-open", "Hopen for the DFAN walk"); continue; }
        walk_file_anns(f, type, "DFAN walk", -1);
        Hclose(f);
    }
}
/* DFANlablist: the refs of the objects of a tag that exist in the file, each with its label */
static void q_lablist(void)
{
    static uint16 refl[MAXOB + 8];
    static char   labl[(MAXOB + 8) * 64];
    static const int ML[] = {1, 2, 3, 5, 16, 63, 64};
    int tag = nob && hk_chance(60) ? ob[hk_range(0, nob - 1)].tag : hk_chance(85) ? HK_PICK(OBTAG) : (int)hk_range(100, 2000), cnt = 0;
    int listsize = hk_chance(70) ? MAXOB + 8 : (int)hk_range(1, 4), maxlen = HK_PICK(ML), startpos = hk_chance(70) ? 1 : (int)hk_range(0, 4);
    for (int i = 0; i < nob; i++) if (ob[i].tag == tag) cnt++;
    for (int i = 0; i < nsa; i++) if (TAGOF[sa[i].type] == tag) cnt++; /* an annotation element is an object of its tag too */
    DFANclear();
    int n = DFANlablist(path, (uint16)tag, refl, labl, listsize, maxlen, startpos);
    printf("T an dflablist %d %d %d %d => ", tag, listsize, maxlen, startpos);
    if (n == FAIL) printf("fail\n");
    else {
        if (n == 0) printf("-"); for (int i = 0; i < n; i++) printf("%s%d", i ? "," : "", refl[i]);
        printf(" "); if (n == 0) printf("-"); for (int i = 0; i < n; i++) { printf("%s", i ? "," : ""); hk_hex((uint8_t *)labl + i * maxlen, strlen(labl + i * maxlen)); }
        printf("\n");
    }
    hk_stat("dfan_lablist", 1);
    if ((n == FAIL) != (cnt == 0)) { hk_fail("dfan-lablist-refs", "DFANlablist(tag %d) = %d, %d objects of the tag exist", tag, n, cnt); return; }
    if (n == FAIL) return;
    int skip = startpos > 1 ? startpos - 1 : 0, want = cnt - skip < 0 ? 0 : cnt - skip;
    if (want > listsize) want = listsize;
    if (n != want) hk_fail("dfan-lablist-refs", "DFANlablist(tag %d, listsize %d, startpos %d) lists %d refs, %d objects of the tag exist", tag, listsize, startpos, n, cnt);
    for (int i = 0; i < n; i++) {
        int isann = 0, nl = 0, hit = 0;
        for (int t = 0; t < 4; t++) if (TAGOF[t] == tag && sa_find(t, refl[i])) isann = 1;
        if (ob_find(tag, refl[i]) < 0 && !isann) hk_fail("dfan-lablist-refs", "DFANlablist(tag %d) lists ref %d, no such object", tag, refl[i]);
        for (int j = 0; j < i; j++) if (refl[j] == refl[i]) hk_fail("dfan-lablist-refs", "DFANlablist(tag %d) lists ref %d twice", tag, refl[i]);
        const char *lp = labl + i * maxlen;
        for (int j = 0; j < nsa; j++) if (sa[j].type == AN_DATA_LABEL && sa[j].written && sa[j].etag == tag && sa[j].eref == refl[i]) {
            int w = sa[j].len > maxlen - 1 ? maxlen - 1 : sa[j].len;
            nl++;
            if ((int)strlen(lp) == w && !memcmp(lp, sa[j].text, (size_t)w)) hit = 1;
        }
        if (nl ? !hit : lp[0] != 0)
            hk_fail("dfan-lablist-label", "DFANlablist(tag %d, maxlen %d): object ref %d has %d label(s), listed \"%.40s\" is %s", tag, maxlen, refl[i], nl, lp, nl ? "none of them" : "not empty");
    }
}

/* ---------------------------------------------------------------- DFAN session on the closed file */
static void dfan_session(void)
{
    DFANclear();
    int steps = (int)hk_range(2, 8);
    for (int st = 0; st < steps; st++) {
        int a = (int)hk_range(0, 9);
        if (a < 4) { /* put label / desc */
            int type = hk_chance(50) ? AN_DATA_LABEL : AN_DATA_DESC, et, er;
            SA *o = NULL;
            if (nsa && hk_chance(60)) { o = &sa[hk_range(0, nsa - 1)]; if (!is_data(o->type)) o = NULL; }
            if (o) { et = o->etag; er = o->eref; } else pick_target(&et, &er);
            uint8_t t[TMAX + 1]; int len; gen_text(type, t, &len);
            int r = type == AN_DATA_LABEL ? DFANputlabel(path, (uint16)et, (uint16)er, (char *)t) : DFANputdesc(path, (uint16)et, (uint16)er, (char *)t, len);
            int lr = DFANlastref();
            printf("T an dfput %d %d %d %d ", type, et, er, lr); hk_hex(t, (size_t)len); printf(" => "); if (r == FAIL) printf("fail\n"); else printf("%d\n", lr);
            if (r == FAIL) { hk_fail("dfan-put", "DFANput%s failed", type == AN_DATA_LABEL ? "label" : "desc"); continue; }
            /* shadow: one of the annotations of that type the object has is replaced (the model says which: the first in
             * DD order), a new one only when it has none */
            SA *hit = NULL, *any = NULL;
            for (int i = 0; i < nsa; i++) if (sa[i].type == type && sa[i].etag == et && sa[i].eref == er) { any = &sa[i]; if (sa[i].ref == lr) hit = &sa[i]; }
            if (any) { if (!hit) hk_fail("dfan-replace", "DFANput on an object that has an annotation of the type wrote ref %d, which is none of them (one is ref %d)", lr, any->ref); }
            else if (nsa < MAXA) { if (sa_find(type, lr)) hk_fail("an-ref-fresh", "DFAN new annotation got ref %d in use", lr); hit = &sa[nsa++]; hit->type = type; hit->ref = lr; hit->etag = et; hit->eref = er; }
            if (hit) { memcpy(hit->text, t, (size_t)len); hit->len = len; hit->written = 1; }
            hk_stat("dfan_put", 1);
        }
        else if (a < 6) { /* file label / desc */
            int type = hk_chance(50) ? AN_FILE_LABEL : AN_FILE_DESC;
            uint8_t t[TMAX + 1]; int len; gen_text(type, t, &len);
            int32 f = Hopen(path, DFACC_RDWR, 0);
            if (f == FAIL) { hk_fail("an-open", "Hopen for DFANaddf"); continue; }
            int r = type == AN_FILE_LABEL ? DFANaddfid(f, (char *)t) : DFANaddfds(f, (char *)t, len);
            int lr = DFANlastref();
            Hclose(f);
            printf("T an dfaddf %d %d ", type, lr); hk_hex(t, (size_t)len); printf(" => %s\n", r == FAIL ? "fail" : "ok");
            if (r == FAIL) { hk_fail("dfan-addf", "DFANaddf%s failed (len %d)", type == AN_FILE_LABEL ? "id" : "ds", len); continue; }
            if (nsa < MAXA) { SA *n = &sa[nsa++]; n->type = type; n->ref = lr; n->etag = TAGOF[type]; n->eref = lr; memcpy(n->text, t, (size_t)len); n->len = len; n->written = 1; }
            hk_stat("dfan_addf", 1);
        }
        else { /* get label / desc of an object */
            int type = hk_chance(50) ? AN_DATA_LABEL : AN_DATA_DESC, et, er;
            SA *o = NULL;
            if (nsa && hk_chance(80)) { o = &sa[hk_range(0, nsa - 1)]; if (!is_data(o->type)) o = NULL; }
            if (o) { et = o->etag; er = o->eref; } else pick_target(&et, &er);
            /* the annotation DFAN serves is one of those the object has (the model says which: the first in DD order) */
            SA *hit = NULL;
            int nlen = 0;
            for (int i = 0; i < nsa; i++) if (sa[i].type == type && sa[i].etag == et && sa[i].eref == er && sa[i].written) { if (!hit) hit = &sa[i]; nlen++; }
            int32 l = type == AN_DATA_LABEL ? DFANgetlablen(path, (uint16)et, (uint16)er) : DFANgetdesclen(path, (uint16)et, (uint16)er);
            printf("T an dfgetlen %d %d %d => ", type, et, er); if (l == FAIL) printf("fail\n"); else printf("%d\n", (int)l);
            if ((l != FAIL) != (hit != NULL)) hk_fail("dfan-getlen", "DFANget%slen(%d/%d)=%d shadow %s", type == AN_DATA_LABEL ? "lab" : "desc", et, er, (int)l, hit ? "has one" : "has none");
            else if (hit) {
                SA *m = NULL;
                for (int i = 0; i < nsa && !m; i++) if (sa[i].type == type && sa[i].etag == et && sa[i].eref == er && sa[i].written && sa[i].len == l) m = &sa[i];
                if (!m) hk_fail("dfan-getlen", "length %d is the length of none of the %d annotation(s) of the object", (int)l, nlen);
            }
            if (hit) {
                int maxlen = hk_chance(60) ? TMAX + 8 : (int)hk_range(1, hit->len + 2);
                memset(rb, 0xA5, sizeof rb); memset(rb2, 0x5A, sizeof rb2);
                int r = type == AN_DATA_LABEL ? DFANgetlabel(path, (uint16)et, (uint16)er, (char *)rb, maxlen) : DFANgetdesc(path, (uint16)et, (uint16)er, (char *)rb, maxlen);
                if (type == AN_DATA_LABEL) DFANgetlabel(path, (uint16)et, (uint16)er, (char *)rb2, maxlen); else DFANgetdesc(path, (uint16)et, (uint16)er, (char *)rb2, maxlen);
                /* which of the object's annotations was served: the one whose length DFANget*len just reported */
                for (int i = 0; i < nsa; i++) if (sa[i].type == type && sa[i].etag == et && sa[i].eref == er && sa[i].written && sa[i].len == l) {
                    int w = sa[i].len;
                    if (type == AN_DATA_LABEL) { if (w > maxlen - 1) w = maxlen - 1; } else if (w > maxlen) w = maxlen;
                    hit = &sa[i];
                    if (!memcmp(rb, sa[i].text, (size_t)w)) break;
                }
                int want = hit->len, wr = written_span(rb, rb2);
                if (type == AN_DATA_LABEL) { if (want > maxlen - 1) want = maxlen - 1; } else if (want > maxlen) want = maxlen;
                printf("T an dfget %d %d %d %d => ", type, et, er, maxlen); if (r == FAIL) printf("fail"); else { hk_hex(rb, (size_t)want); printf(" %d", wr); } printf("\n");
                if (r == FAIL) hk_fail("dfan-get", "DFANget failed");
                else if (memcmp(rb, hit->text, (size_t)want)) hk_fail("dfan-get-data", "DFANget bytes are the text of none of the object's annotations of that length");
                else if (wr > maxlen) hk_fail("an-read-overrun", "DFANget(maxlen=%d) wrote %d bytes", maxlen, wr);
            }
        }
    }
    if (hk_chance(50)) q_lablist();
    dfan_walks();
}

/* ---------------------------------------------------------------- several AN sessions on a file that stays open */
static void put_sa(int type, int ref, int et, int er, const uint8_t *t, int len)
{
    SA *n = sa_find(type, ref);
    if (!n) { if (nsa >= MAXA) return; n = &sa[nsa++]; n->type = type; n->ref = ref; n->etag = et; n->eref = er; }
    memcpy(n->text, t, (size_t)len); n->len = len; n->written = 1;
}
/* ANend alone: the file id (and the file record with its annotation state) stays open */
static void end_session(void)
{
    int32 r = ANend(an);
    printf("T an endan => %s\n", r == FAIL ? "fail" : "ok");
    if (r == FAIL) hk_fail("an-end", "ANend on a file that stays open");
    an = FAIL;
    shadow_drop_unwritten();
}
/* ANstart on a file id of the file record that never was closed */
static int restart_session(int info, const char *when)
{
    an = ANstart(fid);
    printf("T an restart => %s\n", an == FAIL ? "fail" : "ok");
    if (an == FAIL) { hk_fail("an-start", "ANstart (%s)", when); return -1; }
    if (info) check_counts("an-session-count", when);
    return 0;
}
/* annotations written while NO annotation session is open, through an open file id of the file */
static void gap_writes(int32 f, int n)
{
    uint8_t t[TMAX + 8]; int len;
    for (int i = 0; i < n && nsa < MAXA; i++) {
        int a = (int)hk_range(0, 15);
        if (a >= 10 && a <= 12) { /* delete an annotation: Hdeldd is all HDF4 offers; its DD becomes a free DD, its ref is free again */
            if (!nsa) continue;
            SA *x = &sa[hk_range(0, nsa - 1)];
            if (!x->written) continue;
            int32 r = Hdeldd(f, TAGOF[x->type], (uint16)x->ref);
            printf("T an hdel %d %d => %s\n", TAGOF[x->type], x->ref, r == FAIL ? "fail" : "ok");
            if (r == FAIL) { hk_fail("an-hdel", "Hdeldd of annotation element %d/%d failed", TAGOF[x->type], x->ref); continue; }
            hk_stat("gap_delete_annotation", 1);
            sa_remove(x);
            continue;
        }
        if (a >= 13) { /* another object comes (into the first free DD) or goes (leaving a free DD among the annotations') */
            if (a == 14 && nob) {
                int j = (int)hk_range(0, nob - 1);
                int32 r = Hdeldd(f, (uint16)ob[j].tag, (uint16)ob[j].ref);
                printf("T an hdel %d %d => %s\n", ob[j].tag, ob[j].ref, r == FAIL ? "fail" : "ok");
                if (r == FAIL) hk_fail("an-hdel", "Hdeldd of object %d/%d failed", ob[j].tag, ob[j].ref);
                else { ob[j] = ob[--nob]; hk_stat("gap_delete_object", 1); }
            }
            else if (nob < MAXOB) {
                int tag = HK_PICK(OBTAG), ref = hk_chance(80) ? (int)hk_range(1, 4) : (int)hk_range(1, 65535);
                if (ob_find(tag, ref) >= 0) continue;
                int32 r = Hputelement(f, (uint16)tag, (uint16)ref, (const uint8 *)"obj", 3);
                printf("T an hput %d %d 6f626a => %s\n", tag, ref, r == FAIL ? "fail" : "ok");
                if (r == FAIL) hk_fail("an-hput", "Hputelement of object %d/%d failed", tag, ref);
                else { ob[nob].tag = tag; ob[nob].ref = ref; nob++; hk_stat("gap_new_object", 1); }
            }
            continue;
        }
        if (a < 3) { /* single-file interface on the open file id */
            int type = hk_chance(50) ? AN_FILE_LABEL : AN_FILE_DESC;
            gen_text(type, t, &len);
            int r = type == AN_FILE_LABEL ? DFANaddfid(f, (char *)t) : DFANaddfds(f, (char *)t, len);
            int lr = DFANlastref();
            printf("T an dfaddf %d %d ", type, lr); hk_hex(t, (size_t)len); printf(" => %s\n", r == FAIL ? "fail" : "ok");
            if (r == FAIL) { hk_fail("dfan-addf", "DFANaddf%s on the open file id failed (len %d)", type == AN_FILE_LABEL ? "id" : "ds", len); continue; }
            if (sa_find(type, lr)) hk_fail("an-ref-fresh", "DFANaddf: new annotation got ref %d in use", lr);
            put_sa(type, lr, TAGOF[type], lr, t, len);
            hk_stat("gap_dfaddf", 1);
        }
        else { /* H level: a new annotation element of any of the four types, or an existing one rewritten in place */
            SA *x = (a >= 7 && nsa) ? &sa[hk_range(0, nsa - 1)] : NULL;
            int type = x ? x->type : (int)hk_range(0, 3), et, er, ref;
            if (x) { et = x->etag; er = x->eref; ref = x->ref; }
            else {
                /* the writer picks the ref: the lowest free one of the tag (what AN and DFAN do), the file-wide counter, or
                 * any free one - sparse, out of creation order, the largest */
                int how = (int)hk_range(0, 9), top = 0;
                for (int j = 0; j < nsa; j++) if (sa[j].type == type && sa[j].ref > top) top = sa[j].ref;
                if (how < 4) ref = Htagnewref(f, TAGOF[type]);
                else if (how < 6) ref = Hnewref(f);
                else if (how < 8) ref = top + (int)hk_range(2, 6);
                else if (how < 9) ref = (int)hk_range(1, 65535);
                else { static const int R[] = {65535, 65534, 256, 255, 32768}; ref = HK_PICK(R); }
                if (ref == 0) { hk_fail("an-newref", "Htagnewref / Hnewref"); continue; }
                if (ref > 65535 || sa_find(type, ref) || Hexist(f, TAGOF[type], (uint16)ref) != FAIL) continue;
                if (how >= 4) hk_stat("gap_hput_explicit_ref", 1);
                if (is_data(type)) pick_target(&et, &er); else { et = TAGOF[type]; er = ref; }
                if (sa_find(type, ref)) hk_fail("an-ref-fresh", "Htagnewref gives ref %d of a live annotation", ref);
            }
            int off = is_data(type) ? 4 : 0;
            gen_text(type, t + off, &len);
            if (off) { t[0] = (uint8_t)(et >> 8); t[1] = (uint8_t)et; t[2] = (uint8_t)(er >> 8); t[3] = (uint8_t)er; }
            /* a rewrite gives up the old data first, as ANIwriteann does (Hputelement alone keeps the old, longer extent) */
            if (x && HDreuse_tagref(f, TAGOF[type], (uint16)ref) == FAIL) { hk_fail("an-hput", "HDreuse_tagref of an annotation element failed"); continue; }
            int32 r = Hputelement(f, TAGOF[type], (uint16)ref, t, len + off);
            printf("T an hput %d %d ", TAGOF[type], ref); hk_hex(t, (size_t)(len + off)); printf(" => %s\n", r == FAIL ? "fail" : "ok");
            if (r == FAIL) { hk_fail("an-hput", "Hputelement of an annotation element failed"); continue; }
            put_sa(type, ref, et, er, t + off, len);
            hk_stat(x ? "gap_hput_rewrite" : "gap_hput_new", 1);
        }
    }
}
static void dfan_session(void);
/* session boundary without closing the file; mode 0: same file id; 1: second id opened before ANend, first closed after
 * it; 2: second id opened after ANend, first closed before ANstart; 3: second id, the first stays open to the end */
static int next_session(int k)
{
    char when[64];
    int  mode = hk_chance(40) ? 0 : (int)hk_range(1, 3);
    int32 f2 = FAIL;
    if (nextra >= 7 && mode == 3) mode = 2;
    snprintf(when, sizeof when, "session %d on the open file (id mode %d)", k, mode);
    if (mode == 1) f2 = Hopen(path, hk_chance(50) ? DFACC_RDWR : DFACC_READ, 0);
    end_session();
    if (mode >= 2) f2 = Hopen(path, hk_chance(50) ? DFACC_RDWR : DFACC_READ, 0);
    if (mode && f2 == FAIL) { hk_fail("an-open", "second Hopen of the open file"); mode = 0; }
    gap_writes(hk_chance(50) || f2 == FAIL ? fid : f2, (int)hk_range(0, 2));
    if (mode == 1 || mode == 2) { if (Hclose(fid) == FAIL) hk_fail("an-hclose", "Hclose of the first file id"); fid = f2; }
    else if (mode == 3) { extra_fid[nextra++] = fid; fid = f2; }
    gap_writes(fid, (int)hk_range(0, 2));
    if (hk_chance(20)) { dfan_session(); hk_stat("gap_dfan_session", 1); }
    hk_stat(mode == 0 ? "session_same_id" : mode == 1 ? "session_id2_before_end" : mode == 2 ? "session_id2_after_end" : "session_id2_both_open", 1);
    if (restart_session(hk_chance(60), when) < 0) return -1;
    int n = (int)hk_range(0, 4);
    for (int i = 0; i < n; i++) {
        if (hk_chance(60) || nsa == 0) do_create();
        else { SA *x = &sa[hk_range(0, nsa - 1)]; int32 id = id_of(x); if (id != FAIL) { do_write(x, id); q_read(x, id); } }
    }
    verify_all(when);
    check_counts("an-session-count", when);
    return 0;
}

/* the same writers on the file while it is closed: what the next sessions and the DFAN enumerations find is a file
 * with deleted annotations, refs nobody handed out in sequence, and DDs out of creation order */
static void offline_edits(void)
{
    int32 f = Hopen(path, DFACC_RDWR, 0);
    if (f == FAIL) { hk_fail("an-open", "Hopen for offline edits"); return; }
    if (hk_chance(50)) /* the objects the annotations are about */
        for (int i = (int)hk_range(1, 3); i > 0 && nob < MAXOB; i--) {
            int tag = HK_PICK(OBTAG), ref = (int)hk_range(1, 4);
            if (ob_find(tag, ref) >= 0) continue;
            int32 r = Hputelement(f, (uint16)tag, (uint16)ref, (const uint8 *)"obj", 3);
            printf("T an hput %d %d 6f626a => %s\n", tag, ref, r == FAIL ? "fail" : "ok");
            if (r == FAIL) hk_fail("an-hput", "Hputelement of object %d/%d failed", tag, ref);
            else { ob[nob].tag = tag; ob[nob].ref = ref; nob++; hk_stat("gap_new_object", 1); }
        }
    gap_writes(f, (int)hk_range(1, 6));
    if (Hclose(f) == FAIL) hk_fail("an-hclose", "Hclose after offline edits");
    hk_stat("offline_edits", 1);
}

/* the file-annotation walks over several files one after the other; the walk of one file is abandoned in the middle
 * (the walk state is per process, not per file: a walk started with isfirst = 1 must not depend on the walk before it).
 * Refs ascend in DD order here (sparse, some deleted): no ref-order subtleties, implementation oracle only. */
static void probe_dfan_walk_files(void)
{
    enum { NF = 3 };
    static char pa[NF][512];
    static SA   keep[NF][24];
    int         nk[NF];
    for (int i = 0; i < NF; i++) {
        char nm[32]; snprintf(nm, sizeof nm, "w%d.hdf", i); snprintf(pa[i], sizeof pa[i], "%s", hk_tmp(nm)); remove(pa[i]);
        int32 f = Hopen(pa[i], DFACC_CREATE, 0);
        nk[i] = 0;
        if (f == FAIL) { hk_fail("an-open", "Hopen"); continue; }
        int n = (int)hk_range(0, 8), ref[2] = {0, 0};
        for (int j = 0; j < n; j++) {
            SA *a = &keep[i][nk[i]];
            a->type = hk_chance(50) ? AN_FILE_LABEL : AN_FILE_DESC; a->written = 1;
            gen_text(a->type, a->text, &a->len);
            if (a->len > 60) a->len = 60;
            a->text[a->len] = 0;
            if (hk_chance(50)) { /* other objects and gaps between the refs */
                ref[a->type - 2] += (int)hk_range(1, 5);
                if (Hputelement(f, TAGOF[a->type], (uint16)ref[a->type - 2], a->text, a->len) == FAIL) { hk_fail("an-hput", "Hputelement"); continue; }
                Hputelement(f, 1000, (uint16)(j + 1), (const uint8 *)"obj", 3);
            }
            else {
                if ((a->type == AN_FILE_LABEL ? DFANaddfid(f, (char *)a->text) : DFANaddfds(f, (char *)a->text, a->len)) == FAIL) { hk_fail("dfan-addf", "DFANaddf"); continue; }
                if (DFANlastref() <= ref[a->type - 2]) { Hdeldd(f, TAGOF[a->type], DFANlastref()); continue; } /* keep refs ascending in DD order */
                ref[a->type - 2] = DFANlastref();
            }
            a->ref = ref[a->type - 2];
            nk[i]++;
        }
        /* delete some that are not the last of their type */
        for (int j = 0; j + 1 < nk[i]; j++) if (hk_chance(30)) {
            int later = 0;
            for (int q = j + 1; q < nk[i]; q++) if (keep[i][q].type == keep[i][j].type) later = 1;
            if (!later) continue;
            if (Hdeldd(f, TAGOF[keep[i][j].type], (uint16)keep[i][j].ref) == FAIL) hk_fail("an-hdel", "Hdeldd"); 
            for (int q = j; q + 1 < nk[i]; q++) keep[i][q] = keep[i][q + 1];
            nk[i]--; j--;
            hk_stat("walk_files_deleted", 1);
        }
        Hclose(f);
    }
    int rounds = (int)hk_range(2, 5);
    walk_tie = 0;
    for (int r = 0; r < rounds; r++) {
        int i = (int)hk_range(0, NF - 1), type = hk_chance(50) ? AN_FILE_LABEL : AN_FILE_DESC;
        int32 f = Hopen(pa[i], DFACC_READ, 0);
        if (f == FAIL) continue;
        /* walk file i against its own annotations: borrow the global shadow */
        nsa = nk[i]; memcpy(sa, keep[i], sizeof(SA) * (size_t)nk[i]);
        char when[64]; snprintf(when, sizeof when, "file %d of %d, round %d", i, NF, r);
        walk_file_anns(f, type, when, hk_chance(40) ? (int)hk_range(0, 2) : -1);
        Hclose(f);
        nsa = 0;
    }
    walk_tie = 1;
    for (int i = 0; i < NF; i++) remove(pa[i]);
}

/* DFANlablist with maxlen = 1 (room for the NUL only): the clipped length 0 means "to the end" for Hread */
static void probe_lablist_maxlen1(void)
{
    static const char *L[2] = {"a long label of 30 bytes......", "another long label"};
    uint16 refs[4];
    char   buf[128];
    int32  f = Hopen(path, DFACC_CREATE, 0);
    if (f == FAIL) return;
    Hputelement(f, 1000, 1, (const uint8 *)"obj", 3); printf("T an hput 1000 1 6f626a => ok\n");
    Hputelement(f, 1000, 2, (const uint8 *)"obj", 3); printf("T an hput 1000 2 6f626a => ok\n");
    Hclose(f);
    DFANclear();
    for (int i = 0; i < 2; i++) {
        if (DFANputlabel(path, 1000, (uint16)(i + 1), (char *)L[i]) == FAIL) { hk_fail("dfan-put", "DFANputlabel"); return; }
        printf("T an dfput %d 1000 %d %d ", AN_DATA_LABEL, i + 1, (int)DFANlastref()); hk_hex((const uint8_t *)L[i], strlen(L[i])); printf(" => %d\n", (int)DFANlastref());
    }
    memset(buf, 0x5A, sizeof buf); /* the caller's buffer is buf[0 .. listsize * maxlen - 1] = buf[0..1] */
    DFANclear();
    int n = DFANlablist(path, 1000, refs, buf, 2, 1, 1), over = 0;
    for (int i = 2; i < (int)sizeof buf; i++) if (buf[i] != 0x5A) over++;
    if (n == 2 && !over) { printf("T an dflablist 1000 2 1 1 => %d,%d ", refs[0], refs[1]); hk_hex((uint8_t *)buf, strlen(buf)); printf(","); hk_hex((uint8_t *)buf + 1, buf[1] ? 1 : 0); printf("\n"); }
    if (n != 2) hk_fail("dfan-lablist-refs", "DFANlablist(listsize 2, maxlen 1) = %d, 2 objects exist", n);
    if (over) hk_fail("dfan-lablist-overrun", "DFANlablist(listsize 2, maxlen 1) writes %d bytes beyond the caller's 2-byte label buffer: Hread(aid, maxlen - 1 = 0) reads to the end of the label", over);
    else if (n == 2 && (buf[0] || buf[1])) hk_fail("dfan-lablist-label", "DFANlablist(maxlen 1): labels are not empty strings");
    DFANclear();
}

static void probe_create_first(void)
{
    if (open_an(1, 1) < 0) return;
    for (int i = 0; i < 3; i++) do_create();
    close_an();
    if (open_an(0, 0) < 0) return; /* no ANfileinfo: nothing is loaded yet */
    do_create();
    int32 a, b, c, d, cnt[4] = {0, 0, 0, 0};
    if (ANfileinfo(an, &a, &b, &c, &d) != FAIL) {
        printf("T an fileinfo => %d,%d,%d,%d\n", (int)a, (int)b, (int)c, (int)d);
        for (int i = 0; i < nsa; i++) cnt[sa[i].type]++;
        if (a != cnt[AN_FILE_LABEL] || b != cnt[AN_FILE_DESC] || c != cnt[AN_DATA_LABEL] || d != cnt[AN_DATA_DESC])
            hk_fail("an-create-hides", "ANcreate as first call of the session: ANfileinfo %d,%d,%d,%d but the file holds %d,%d,%d,%d annotations", (int)a, (int)b, (int)c, (int)d,
                    cnt[2], cnt[3], cnt[0], cnt[1]);
    }
    close_an();
}

/* ANwriteann with an empty text: Hwrite(aid, 0, ..) / Hputelement(.., 0) report failure AFTER the element was created */
static void probe_empty_text(void)
{
    if (open_an(1, 1) < 0) return;
    for (int type = 0; type < 4; type++) {
        int32 id = is_data(type) ? ANcreate(an, 1000, 5, (ann_type)type) : ANcreatef(an, (ann_type)type);
        uint16 tg = 0, rf = 0;
        if (id != FAIL) ANid2tagref(id, &tg, &rf);
        printf("T an create %d %d %d %d => %s\n", type, is_data(type) ? 1000 : 0, is_data(type) ? 5 : 0, rf, id == FAIL ? "fail" : "ok");
        if (id == FAIL) continue;
        int32 r = ANwriteann(id, "", 0);
        printf("T an writeann %d %d - => %s\n", type, rf, r == FAIL ? "fail" : "ok");
        int32 len = Hlength(fid, TAGOF[type], rf);
        printf("T an rawelem %d %d => ", TAGOF[type], rf);
        if (len == FAIL) printf("fail\n"); else { Hgetelement(fid, TAGOF[type], rf, rb); hk_hex(rb, (size_t)len); printf("\n"); }
        if (r == FAIL && len != FAIL)
            hk_fail("an-write-empty", "ANwriteann(type %d, empty text) returns FAIL but leaves a %d-byte annotation element in the file", type, (int)len);
        else if (r == FAIL) hk_stat("empty_text_refused", 1); /* refused before anything is created (3d2a8cf): nothing was written, nothing to return */
    }
    if (ANend(an) == FAIL) hk_fail("an-end", "ANend");
    Hclose(fid); fid = FAIL;
}

/* a label read with maxlen = 1 (room for the NUL only): the clipped length 0 means "to the end" for Hread */
static void probe_maxlen1(void)
{
    if (open_an(1, 1) < 0) return;
    int32 id = ANcreate(an, 1000, 5, AN_DATA_LABEL);
    uint16 tg = 0, rf = 0;
    if (id == FAIL) { hk_fail("an-create", "probe"); return; }
    ANid2tagref(id, &tg, &rf);
    printf("T an create %d 1000 5 %d => ok\n", AN_DATA_LABEL, rf);
    SA *a = &sa[nsa++]; a->type = AN_DATA_LABEL; a->ref = rf; a->etag = 1000; a->eref = 5; a->len = 0; a->written = 0;
    int32 r = ANwriteann(id, "a label of 22 bytes...", 22);
    printf("T an writeann %d %d 61206c6162656c206f662032322062797465732e2e2e => %s\n", AN_DATA_LABEL, rf, r == FAIL ? "fail" : "ok");
    memcpy(a->text, "a label of 22 bytes...", 22); a->len = 22; a->written = 1;
    force_maxlen = 1;
    q_read(a, id);
    force_maxlen = 0;
    close_an();
}

/* dfan.c side findings (probes 10, 11 mod 50): no model involved, implementation oracles only */
static void probe_dfan_getfid_alone(void)
{
    int32 f = Hopen(path, DFACC_CREATE, 0);
    if (f == FAIL) return;
    DFANclear();
    if (DFANaddfid(f, "only label") == FAIL) hk_fail("dfan-addf", "DFANaddfid");
    printf("T an dfaddf %d %d 6f6e6c79206c6162656c => ok\n", AN_FILE_LABEL, (int)DFANlastref());
    Hclose(f);
    f = Hopen(path, DFACC_READ, 0);
    char b[64];
    int32 l1 = DFANgetfid(f, b, 64, 1);   /* without DFANgetfidlen before it */
    int32 l2 = DFANgetfid(f, b, 64, 0);
    if (l1 != 10) hk_fail("dfan-getf", "first DFANgetfid = %d", (int)l1);
    if (l2 != FAIL) hk_fail("dfan-getf-repeat", "DFANgetfid(isfirst=0) after the only file label returns it again (length %d): Next_label_ref++ bumps a stale value", (int)l2);
    Hclose(f);
}
static void probe_dfan_stale_dir(void)
{
    char lab[64];
    int32 f = Hopen(path, DFACC_CREATE, 0);
    if (f == FAIL) return;
    Hclose(f);
    DFANclear();
    if (DFANputlabel(path, 1000, 1, "first") == FAIL) { hk_fail("dfan-put", "DFANputlabel"); return; }   /* builds DFAN's directory */
    printf("T an dfput %d 1000 1 %d 6669727374 => %d\n", AN_DATA_LABEL, (int)DFANlastref(), (int)DFANlastref());
    f = Hopen(path, DFACC_RDWR, 0);
    int32 a = ANstart(f), id = ANcreate(a, 1000, 2, AN_DATA_LABEL);
    if (id == FAIL || ANwriteann(id, "second", 6) == FAIL) hk_fail("an-write", "probe");
    ANend(a); Hclose(f);
    int r = DFANgetlabel(path, 1000, 2, lab, 64);
    if (r == FAIL) hk_fail("dfan-stale-dir", "DFANgetlabel does not find a label written through ANwriteann after DFAN built its directory for this file name (found again after DFANclear: %d)",
                           (DFANclear(), DFANgetlabel(path, 1000, 2, lab, 64)));
    DFANclear();
}


/* several files through the single-file interface WITHOUT DFANclear in between, including calls on files that do not
 * exist yet (the open fails) and are created by a later DFANputlabel: DFAN keeps one directory per file NAME (Lastfile),
 * every file must be served from its own annotations.  Implementation oracle only (shadow per file). */
static void probe_dfan_multi(void)
{
    enum { NF = 3, NO = 6 };
    static char pa[NF][512];
    struct { int has; char text[48]; int hasd; char desc[48]; } sh[NF][NO];
    int exists[NF] = {0, 0, 0};
    memset(sh, 0, sizeof sh);
    for (int i = 0; i < NF; i++) { char nm[32]; snprintf(nm, sizeof nm, "m%d.hdf", i); snprintf(pa[i], sizeof pa[i], "%s", hk_tmp(nm)); remove(pa[i]); }
    DFANclear();
    int steps = (int)hk_range(10, 50);
    for (int st = 0; st < steps; st++) {
        int f = (int)hk_range(0, NF - 1), o = (int)hk_range(0, NO - 1), act = (int)hk_range(0, 9);
        uint16 tag = (uint16)(700 + o % 2), ref = (uint16)(1 + o / 2);
        char rb[64];
        if (act < 3) { /* put (creates the file when needed) */
            char t[48]; int n = (int)hk_range(1, 30); for (int i = 0; i < n; i++) t[i] = (char)hk_range(33, 126); t[n] = 0;
            int isd = hk_chance(30);
            int r = isd ? DFANputdesc(pa[f], tag, ref, t, n) : DFANputlabel(pa[f], tag, ref, t);
            if (r == FAIL) { hk_fail("dfan-multi-put", "DFANput%s(file %d, %d/%d) failed (file %s)", isd ? "desc" : "label", f, tag, ref, exists[f] ? "exists" : "new"); continue; }
            exists[f] = 1;
            if (isd) { sh[f][o].hasd = 1; strcpy(sh[f][o].desc, t); } else { sh[f][o].has = 1; strcpy(sh[f][o].text, t); }
            hk_stat("dfan_multi_put", 1);
        }
        else if (act < 6) { /* length query; on a file that does not exist the open fails */
            int isd = hk_chance(30);
            int32 l = isd ? DFANgetdesclen(pa[f], tag, ref) : DFANgetlablen(pa[f], tag, ref);
            int has = isd ? sh[f][o].hasd : sh[f][o].has;
            const char *w = isd ? sh[f][o].desc : sh[f][o].text;
            if (!exists[f]) hk_stat("dfan_multi_failed_open", 1);
            if (!has && l != FAIL) hk_fail("dfan-multi-phantom", "DFANget%slen(file %d, %d/%d) = %d but the object has none in THIS file", isd ? "desc" : "lab", f, tag, ref, (int)l);
            else if (has && l != (int32)strlen(w)) hk_fail("dfan-multi-len", "DFANget%slen(file %d, %d/%d) = %d, written %d", isd ? "desc" : "lab", f, tag, ref, (int)l, (int)strlen(w));
        }
        else if (act < 9) { /* read */
            int isd = hk_chance(30);
            int has = isd ? sh[f][o].hasd : sh[f][o].has;
            const char *w = isd ? sh[f][o].desc : sh[f][o].text;
            memset(rb, 0, sizeof rb);
            int r = isd ? DFANgetdesc(pa[f], tag, ref, rb, 60) : DFANgetlabel(pa[f], tag, ref, rb, 60);
            if (!exists[f]) hk_stat("dfan_multi_failed_open", 1);
            if (!has && r != FAIL) hk_fail("dfan-multi-phantom", "DFANget%s(file %d, %d/%d) succeeds (\"%.40s\") but the object has none in THIS file", isd ? "desc" : "label", f, tag, ref, rb);
            else if (has && (r == FAIL || memcmp(rb, w, strlen(w)))) hk_fail("dfan-multi-data", "DFANget%s(file %d, %d/%d) = %d \"%.40s\", written \"%s\"", isd ? "desc" : "label", f, tag, ref, r, rb, w);
        }
        else { DFANclear(); hk_stat("dfan_multi_clear", 1); }
    }
    DFANclear();
    /* what the multi-file interface finds afterwards */
    for (int f = 0; f < NF; f++) if (exists[f]) {
        int32 fid = Hopen(pa[f], DFACC_READ, 0);
        if (fid == FAIL) { hk_fail("dfan-multi-reopen", "file %d cannot be opened", f); continue; }
        int32 a = ANstart(fid);
        for (int o = 0; o < NO; o++) {
            uint16 tag = (uint16)(700 + o % 2), ref = (uint16)(1 + o / 2);
            int nl = ANnumann(a, AN_DATA_LABEL, tag, ref), nd = ANnumann(a, AN_DATA_DESC, tag, ref);
            if (nl != sh[f][o].has) hk_fail("dfan-multi-an-count", "file %d object %d/%d: %d labels, DFAN wrote %d", f, tag, ref, nl, sh[f][o].has);
            if (nd != sh[f][o].hasd) hk_fail("dfan-multi-an-count", "file %d object %d/%d: %d descriptions, DFAN wrote %d", f, tag, ref, nd, sh[f][o].hasd);
            if (nl == 1) { int32 id; char rb[64]; memset(rb, 0, sizeof rb);
                if (ANannlist(a, AN_DATA_LABEL, tag, ref, &id) == 1 && ANreadann(id, rb, 60) != FAIL) { if (strcmp(rb, sh[f][o].text)) hk_fail("dfan-multi-an-data", "file %d object %d/%d label \"%.40s\", written \"%s\"", f, tag, ref, rb, sh[f][o].text); }
                else hk_fail("dfan-multi-an-data", "file %d object %d/%d label unreadable through AN", f, tag, ref); }
        }
        ANend(a); Hclose(fid);
    }
    for (int i = 0; i < NF; i++) remove(pa[i]);
}

static void run_case(int k)
{
    path = hk_tmp("a.hdf");
    nsa = 0; nextra = 0; an = FAIL; nob = 0;
    if (k % 50 >= 12 && k % 50 <= 15) { printf("INFO dfan-multi-file\n"); probe_dfan_multi(); return; }
    if (k % 50 == 18) { printf("INFO lablist-maxlen-1\n"); probe_lablist_maxlen1(); return; }
    if (k % 50 == 16 || k % 50 == 17) { printf("INFO dfan-walk-files\n"); probe_dfan_walk_files(); return; }
    if (k % 50 == 7) { printf("INFO create-first\n"); probe_create_first(); return; }
    if (probes_on && k % 50 == 8) { printf("INFO probe empty-text\n"); probe_empty_text(); return; }
    if (k % 50 == 9) { printf("INFO maxlen-1\n"); probe_maxlen1(); return; }
    if (probes_on && k % 50 == 10) { printf("INFO probe dfan-getfid-alone\n"); probe_dfan_getfid_alone(); return; }
    if (probes_on && k % 50 == 11) { printf("INFO probe dfan-stale-dir\n"); probe_dfan_stale_dir(); return; }
    if (open_an(1, 1) < 0) return;
    int steps = (int)hk_range(3, 40);
    int many = hk_chance(20); /* many annotations on one object */
    for (int st = 0; st < steps; st++) {
        int a = (int)hk_range(0, 9);
        if (a < 4 || nsa == 0) do_create();
        else if (a < 6) { SA *x = &sa[hk_range(0, nsa - 1)]; int32 id = id_of(x); if (id != FAIL) { do_write(x, id); q_read(x, id); } }
        else if (a < 7) { SA *x = &sa[hk_range(0, nsa - 1)]; int32 id = id_of(x); if (id != FAIL && x->written) { q_read(x, id); q_raw(x); } }
        else if (a < 8) { SA *x = &sa[hk_range(0, nsa - 1)]; q_list(hk_chance(90) ? x->type : AN_FILE_LABEL, x->etag, x->eref); }
        else if (a < 9) q_select((int)hk_range(0, 3));
        else { int t, r; pick_target(&t, &r); q_list(hk_chance(50) ? AN_DATA_LABEL : AN_DATA_DESC, t, r); }
    }
    if (many) {
        int n = (int)hk_range(10, 40);
        for (int i = 0; i < n && nsa < MAXA; i++) {
            int32 id = ANcreate(an, 1000, 1, AN_DATA_DESC);
            uint16 tg = 0, rf = 0;
            if (id != FAIL) ANid2tagref(id, &tg, &rf);
            printf("T an create %d 1000 1 %d => %s\n", AN_DATA_DESC, rf, id == FAIL ? "fail" : "ok");
            if (id == FAIL) { hk_fail("an-create", "ANcreate #%d on one object failed", i); break; }
            SA *x = &sa[nsa++]; x->type = AN_DATA_DESC; x->ref = rf; x->etag = 1000; x->eref = 1; x->len = 0; x->written = 0;
            do_write(x, id);
        }
        q_list(AN_DATA_DESC, 1000, 1);
        hk_stat("many_per_object", 1);
    }
    if (hk_chance(10) && nsa < MAXA) { /* two creates without a write in between: both would get the same ref */
        int32 id1 = ANcreate(an, 1000, 2, AN_DATA_LABEL);
        uint16 tg = 0, rf = 0;
        if (id1 != FAIL) ANid2tagref(id1, &tg, &rf);
        printf("T an create %d 1000 2 %d => %s\n", AN_DATA_LABEL, rf, id1 == FAIL ? "fail" : "ok");
        if (id1 != FAIL) {
            int32 id2 = ANcreate(an, 1000, 3, AN_DATA_LABEL);
            printf("T an create %d 1000 3 %d => %s\n", AN_DATA_LABEL, rf, id2 == FAIL ? "fail" : "ok");
            if (id2 != FAIL) { uint16 t2, r2; ANid2tagref(id2, &t2, &r2); if (r2 == rf) hk_fail("an-ref-fresh", "two live annotations share ref %d", rf); else { SA *y = &sa[nsa++]; y->type = AN_DATA_LABEL; y->ref = r2; y->etag = 1000; y->eref = 3; y->len = 0; y->written = 0; do_write(y, id2); } }
            SA *x = &sa[nsa++]; x->type = AN_DATA_LABEL; x->ref = rf; x->etag = 1000; x->eref = 2; x->len = 0; x->written = 0;
            do_write(x, id1);
        }
    }
    verify_all("same-session");
    if (hk_chance(60)) {
        int ns = (int)hk_range(1, 3);
        for (int i = 0; i < ns; i++) if (next_session(i + 2) < 0) break;
    }
    close_an();
    if (hk_chance(50)) { offline_edits(); if (hk_chance(50)) dfan_walks(); }
    if (hk_chance(70)) dfan_session();
    if (hk_chance(40)) { offline_edits(); if (hk_chance(60)) dfan_walks(); }
    int info = hk_chance(70);
    if (open_an(0, info) < 0) return;
    if (!info && hk_chance(60)) { do_create(); do_create(); hk_stat("create_first_sessions", 1); } /* creation is the first AN call */
    verify_all("after-reopen");
    if (hk_chance(40)) { for (int i = 0; i < 4; i++) do_create(); verify_all("second-session"); }
    check_counts("an-count", "last session");
    close_an();
    if (hk_chance(50)) dfan_walks();
    if (k < 3) printf("SAMPLE annotations=%d steps=%d many=%d\n", nsa, steps, many);
}

int main(int argc, char **argv)
{
    if (argc > 4 && !strcmp(argv[4], "noprobe")) probes_on = 0;
    return hk_main(argc, argv, "an");
}
