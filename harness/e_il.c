/* e_il - Tie-B engine for C09 part "interlace": the real GRIil_convert (hdf/src/mfgr.c, exported) on random images.
 * One case = one image (W,H in 1..9, ncomp 1..5, element size 1/2/4/8) in a random byte pattern, converted for
 * all 9 (inil,outil) pairs:
 *      T il conv <a> <b> <W> <H> <ncomp> <esz> <hex in> => <hex out>
 * Oracles (implementation only):
 *   il-roundtrip   convert(b,a, convert(a,b,img)) == img
 *   il-compose     convert(b,c, convert(a,b,img)) == convert(a,c,img)
 *   il-ref         out == an independently written triple loop using the textbook index formulas
 *   il-overrun     guard bytes after the output buffer are untouched; input buffer unchanged
 *   il-rc          return value is SUCCEED
 */
#ifdef IL_MUT_SRC /* mutation sanity: a mutated private copy of mfgr.c replaces the library object */
#include IL_MUT_SRC
#endif
#include "hdf.h"
#include "mfgr.h"
#include "hk.h"

extern int GRIil_convert(const void *inbuf, gr_interlace_t inil, void *outbuf, gr_interlace_t outil, int32 dims[2], int32 ncomp, int32 nt);

#define MAXB (9 * 9 * 5 * 8)
#define GUARD 16
static uint8_t img[MAXB], keep[MAXB], out[9][MAXB + GUARD], tmp[MAXB + GUARD], ref[MAXB];

static size_t addr(int il, int W, int H, int nc, int x, int y, int c)
{
    switch (il) {
        case MFGR_INTERLACE_PIXEL: return ((size_t)y * W + x) * nc + c;
        case MFGR_INTERLACE_LINE: return ((size_t)y * nc + c) * W + x;
        default: return ((size_t)c * H + y) * W + x;
    }
}

static void run_case(int k)
{
    static const int ES[] = {1, 2, 4, 8};
    static const int32 NT[] = {DFNT_UINT8, DFNT_INT16, DFNT_FLOAT32, DFNT_FLOAT64};
    int W = (int)hk_range(1, 9), H = (int)hk_range(1, 9), nc = (int)hk_range(1, 5);
    int e = (int)hk_range(0, 3), esz = ES[e];
    int32 nt = NT[e];
    if (hk_chance(20)) nt |= DFNT_LITEND;      /* must not change the element size */
    if (hk_chance(20)) nt |= DFNT_NATIVE;
    if (hk_chance(15)) { W = hk_chance(50) ? 1 : 9; }
    if (hk_chance(15)) { H = hk_chance(50) ? 1 : 9; }
    size_t n = (size_t)W * H * nc * esz;
    int pat = (int)hk_range(0, 2);
    for (size_t i = 0; i < n; i++) img[i] = pat == 0 ? hk_byte() : pat == 1 ? (uint8_t)i : (uint8_t)(i / esz);
    memcpy(keep, img, n);
    int32 dims[2];
    dims[0] = W; dims[1] = H; /* XDIM = 0, YDIM = 1 */
    for (int a = 0; a < 3; a++)
        for (int b = 0; b < 3; b++) {
            uint8_t *o = out[a * 3 + b];
            memset(o, 0, n); memset(o + n, 0xA5, GUARD);
            int rc = GRIil_convert(img, (gr_interlace_t)a, o, (gr_interlace_t)b, dims, nc, nt);
            if (rc != SUCCEED) hk_fail("il-rc", "a=%d b=%d rc=%d", a, b, rc);
            printf("T il conv %d %d %d %d %d %d ", a, b, W, H, nc, esz); hk_hex(img, n); printf(" => "); hk_hex(o, n); printf("\n");
            for (int g = 0; g < GUARD; g++) if (o[n + g] != 0xA5) { hk_fail("il-overrun", "a=%d b=%d W=%d H=%d nc=%d esz=%d guard+%d", a, b, W, H, nc, esz, g); break; }
            if (memcmp(img, keep, n) != 0) { hk_fail("il-overrun", "input modified a=%d b=%d", a, b); memcpy(img, keep, n); }
            /* independent reference */
            for (int y = 0; y < H; y++) for (int x = 0; x < W; x++) for (int c = 0; c < nc; c++)
                memcpy(ref + esz * addr(b, W, H, nc, x, y, c), img + esz * addr(a, W, H, nc, x, y, c), (size_t)esz);
            if (memcmp(ref, o, n) != 0) hk_fail("il-ref", "a=%d b=%d W=%d H=%d nc=%d esz=%d", a, b, W, H, nc, esz);
        }
    for (int a = 0; a < 3; a++)
        for (int b = 0; b < 3; b++) {
            memset(tmp, 0x5A, n + GUARD);
            GRIil_convert(out[a * 3 + b], (gr_interlace_t)b, tmp, (gr_interlace_t)a, dims, nc, nt);
            if (memcmp(tmp, img, n) != 0) hk_fail("il-roundtrip", "a=%d b=%d W=%d H=%d nc=%d esz=%d", a, b, W, H, nc, esz);
            for (int c = 0; c < 3; c++) {
                memset(tmp, 0x5A, n + GUARD);
                GRIil_convert(out[a * 3 + b], (gr_interlace_t)b, tmp, (gr_interlace_t)c, dims, nc, nt);
                if (memcmp(tmp, out[a * 3 + c], n) != 0) hk_fail("il-compose", "a=%d b=%d c=%d W=%d H=%d nc=%d esz=%d", a, b, c, W, H, nc, esz);
            }
        }
    hk_stat(esz == 1 ? "esz1" : esz == 2 ? "esz2" : esz == 4 ? "esz4" : "esz8", 1);
    hk_stat("elements", (long)(n / esz));
    if (k < 2) { printf("SAMPLE il W=%d H=%d ncomp=%d esz=%d first8=", W, H, nc, esz); hk_hex(img, n < 8 ? n : 8); printf("\n"); }
}

int main(int argc, char **argv) { return hk_main(argc, argv, "il"); }
