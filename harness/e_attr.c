/* e_attr - Tie-B engine for C10 (attributes and descriptive metadata): the real SD / GR / VS / V attribute APIs against
 * the Lean models H4.AttrSD / H4.AttrGR / H4.AttrVS (all built on H4.Attr.put) + C shadow tables.
 *
 * One case = one file and one interface family (case number mod 8):
 *   0,1,2,4  SD   random history over 1-3 sessions (create / read-write / read-only): SDcreate (ranks 1-3, duplicate names,
 *                 names equal to dimension names), SDsetattr on the file, datasets and dimensions (all number types,
 *                 counts 1..3000 crossing 1 KiB / the Vdata limits, names 1..300 chars, "a","ab","abc" families, re-sets
 *                 with the same / another type and count), SDattrinfo/SDreadattr/SDfindattr (valid and invalid indices),
 *                 SDsetdatastrs/SDgetdatastrs (NULL / empty / long strings, short buffers), SDsetcal/SDgetcal,
 *                 SDsetrange/SDgetrange, SDsetfillvalue/SDgetfillvalue, SDsetdimname (sharing, renaming), SDdiminfo,
 *                 SDsetdimstrs/SDgetdimstrs, SDsetdimscale/SDgetdimscale, SDnametoindex/SDnametoindices/SDidtoref/
 *                 SDreftoindex/SDgetinfo/SDiscoordvar/SDfileinfo, SDend/SDstart.
 *   3        SD   limit case: one object is filled beyond H4_MAX_NC_ATTRS (3000) attributes (sometimes a rank-32 dataset),
 *                 then closed and reopened.
 *   5,6      GR   file and image attributes (GRsetattr/GRattrinfo/GRgetattr/GRfindattr/GRfileinfo/GRgetiminfo), values below,
 *                 at and above the 2048-byte caching threshold, GRend/Hclose/Hopen/GRstart in both modes.
 *   7        V    Vdata, Vdata-field and Vgroup attributes (VSsetattr/VSnattrs/VSfnattrs/VSfindattr/VSattrinfo/VSgetattr,
 *                 Vsetattr/Vnattrs/Vfindattr/Vattrinfo/Vgetattr), "r"/"w" attach modes, Vend/Hclose/Hopen/Vstart.
 * Every second group of 8 cases runs flavours 1, 4 (SD), 6 (GR) and 7 (V) as SINGLE-CHANGE histories: a first session builds
 *   the objects, then every later read-write session makes exactly ONE setter call (each setter of the family in turn:
 *   SDsetattr on file / dataset / dimension with a new name, an existing name, values only; SDsetdimscale first / same type /
 *   another type of the same size / of another size; SDsetdimstrs, SDsetdatastrs, SDsetcal, SDsetrange, SDsetfillvalue,
 *   SDsetdimname; GRsetattr on file / image; VSsetattr on Vdata / field, Vsetattr) on an object that is already on disk and
 *   calls no getter that could mark anything modified; the file is closed, reopened and the whole metadata view is audited.
 *   A setter that relies on some OTHER call of the session to get its change written has nowhere to hide.
 * Every call is a T line (values as hex) recomputed by the model.  Reference numbers handed out by Hnewref are inputs
 * of the model (`sd.refs`).
 * Oracles (model independent): shadow attribute tables in C, see `shadow_*`; one key per failure kind.
 * Mutation hooks: -DMFSD_C="file" / -DVATTR_C="file" / -DMFGR_C="file" compile a (mutated) copy of that source into the engine.
 */
#ifdef MFSD_C
#include MFSD_C
#endif
#ifdef VATTR_C
#include VATTR_C
#endif
#ifdef MFGR_C
#include MFGR_C
#endif
#include "mfhdf.h"
#include "hk.h"

#define BIG 70000
static uint8_t valbuf[BIG * 8 + 64], outbuf[BIG * 8 + 64];
static uint8_t ob[5][BIG + 64];
static char    fname[800];

/* ---------------------------------------------------------------------------------------------- generators */
static const int32 NT[10] = {DFNT_CHAR8, DFNT_UCHAR8, DFNT_INT8, DFNT_UINT8, DFNT_INT16, DFNT_UINT16, DFNT_INT32, DFNT_UINT32, DFNT_FLOAT32, DFNT_FLOAT64};
static int32 gen_nt(int allow_native)
{
    int32 t = NT[hk_range(0, 9)];
    int   r = (int)hk_range(0, 99);
    if (r < 12) t |= DFNT_LITEND;
    else if (r < 16 && allow_native) t |= DFNT_NATIVE;
    return t;
}
static int32 gen_bad_nt(void)
{
    static const int32 bad[6] = {0, 7, 26, 27, 2, DFNT_INT32 | DFNT_CUSTOM};
    return bad[hk_range(0, 5)];
}
static int ntsz(int32 nt) { int s = DFKNTsize(nt); return s < 0 ? 1 : s; }
static int gen_count(int sz)
{
    int r = (int)hk_range(0, 99);
    if (r < 45) return (int)hk_range(1, 6);
    if (r < 60) { static const int b[] = {127, 128, 129, 255, 256, 257, 511, 512, 513, 1023, 1024, 1025, 2047, 2048, 2049, 3000}; return b[hk_range(0, 15)]; }
    if (r < 75) { int k = 1024 / sz; return k + (int)hk_range(-1, 1) > 0 ? k + (int)hk_range(-1, 1) : 1; }
    if (r < 85) { int k = 2048 / sz; return k + (int)hk_range(-1, 1) > 0 ? k + (int)hk_range(-1, 1) : 1; }
    if (r < 97) return (int)hk_range(1, 3000);
    { int k = 65535 / sz; return k + (int)hk_range(-1, 1); } /* around MAX_FIELD_SIZE / MAX_ORDER */
}
static int gen_name(char *out)
{
    int r = (int)hk_range(0, 99), n;
    if (r < 40) { static const char *fam[] = {"a", "ab", "abc", "abcd", "b", "ba", "units", "long_name", "x", "y"}; strcpy(out, fam[hk_range(0, 9)]); return (int)strlen(out); }
    if (r < 80) n = (int)hk_range(1, 12);
    else if (r < 94) { static const int b[] = {63, 64, 65, 127, 128, 129, 255, 256}; n = b[hk_range(0, 7)]; }
    else if (r < 97) n = (int)hk_range(257, 300);
    else n = (int)hk_range(13, 256);
    /* long names share a long common prefix so that truncation makes them collide */
    for (int i = 0; i < n; i++) out[i] = (n > 12 && i < n - 2) ? (char)('k' + (i % 3)) : "abcdefghijklmnopqrstuvwxyz0123456789_"[hk_range(0, 36)];
    out[n] = 0;
    return n;
}
static void gen_val(uint8_t *p, int n)
{
    for (int i = 0; i < n; i++) p[i] = hk_byte();
}
static void phex(const void *p, size_t n) { hk_hex(p, n); }
static void pname(const char *s) { hk_hex(s, strlen(s)); }

/* ---------------------------------------------------------------------------------------------- shadow attribute lists */
typedef struct { char *name; int32 nt; int32 count; uint8_t *val; int vlen; } SAttr;
typedef struct { SAttr *a; int n, cap; } SList;
static void sl_free(SList *l)
{
    for (int i = 0; i < l->n; i++) { free(l->a[i].name); free(l->a[i].val); }
    free(l->a); l->a = NULL; l->n = l->cap = 0;
}
static int sl_find(const SList *l, const char *name)
{
    for (int i = 0; i < l->n; i++) if (strcmp(l->a[i].name, name) == 0) return i;
    return -1;
}
static void sl_set(SList *l, int i, const char *name, int32 nt, int32 count, const uint8_t *val, int vlen)
{
    if (i < 0) {
        if (l->n == l->cap) { l->cap = l->cap ? l->cap * 2 : 8; l->a = realloc(l->a, (size_t)l->cap * sizeof(SAttr)); }
        i = l->n++;
        l->a[i].name = strdup(name); l->a[i].val = NULL;
    }
    free(l->a[i].val);
    l->a[i].nt = nt; l->a[i].count = count; l->a[i].vlen = vlen;
    l->a[i].val = malloc((size_t)vlen + 1); memcpy(l->a[i].val, val, (size_t)vlen);
}
static void sl_copy(SList *dst, const SList *src)
{
    sl_free(dst);
    for (int i = 0; i < src->n; i++) sl_set(dst, -1, src->a[i].name, src->a[i].nt, src->a[i].count, src->a[i].val, src->a[i].vlen);
}
enum { K_SD, K_GR, K_VS };
/* the property's expectation for a set call: 1 = succeeds, 0 = fails and leaves the old value */
static int expect_set(int kind, const SList *l, const char *name, int32 nt, int32 count, int writable)
{
    int sz = DFKNTsize(nt);
    if (!writable) return 0;
    if (sz < 0 || count <= 0 || count > MAX_ORDER || (long)count * sz > MAX_FIELD_SIZE) return 0;
    if (kind == K_SD && (nt & DFNT_NATIVE)) return 0;
    if (kind == K_SD && strlen(name) > VSNAMELENMAX) return 0;   /* a vdata name cannot hold more: refused */
    if (kind == K_GR && strlen(name) > FIELDNAMELENMAX) return 0; /* a vdata field name cannot hold more: refused */
    int i = sl_find(l, name);
    if (i >= 0) {
        if (kind == K_GR) return l->a[i].nt == nt;
        if (kind == K_VS) return l->a[i].nt == nt && l->a[i].count == count;
        return 1;
    }
    if (kind == K_SD && l->n >= H4_MAX_NC_ATTRS) return 0;
    return 1;
}

/* =============================================================================================== SD */
#define MAXV 40
#define MAXD 200
static int32 sdid = FAIL;
static int   sd_rdwr, sd_nvars, sd_ndims_known;
static struct { int rank; int32 nt; int slot[H4_MAX_VAR_DIMS]; int by_query; } sv[MAXV];
static int sd_in_query;
static struct { int v, k, known; } slotvk[MAXD];
static int   nslots;
static SList sh_file, sh_var[MAXV];          /* current session */
static SList ps_file, ps_var[MAXV]; static int ps_nvars; /* as of the last writable SDend */
static int   sd_refs[MAXV];

static char  varnames[MAXV][400];
/* single-change histories: the target and flavour of the next op is imposed (-1 / 0 = random as usual) */
static int   fz_kind = -1, fz_idx, fz_attr;  /* fz_attr: 1 = re-set an existing name with its type and count (values only), 2 = new name, 3 = existing name, random type/count */
static int   sd_single;                      /* in a single-change session: no call that is not the setter may touch NC_HDIRTY (SDgetdimscale does) */
/* what SDsetdimscale stored last, per coordinate VARIABLE (their index never changes; a dimension finds its variable by name) */
static struct { int valid; int32 nt; int len; uint8_t *val; } sc[MAXV];
static void sc_clear(int v) { free(sc[v].val); sc[v].val = NULL; sc[v].valid = 0; sc[v].len = 0; }
static int32 sds(int v) { return SDselect(sdid, v); }
static int32 dimid_of_slot(int s) { return SDgetdimid(sds(slotvk[s].v), slotvk[s].k); }

static void sd_emit_newvars(void)
{
    int32 nv = 0, na = 0;
    if (SDfileinfo(sdid, &nv, &na) == FAIL) return;
    if (nv > sd_nvars && nv <= MAXV) {
        printf("T attr sd.refs %d ", sd_nvars);
        for (int i = sd_nvars; i < nv; i++) {
            int r = (int)SDidtoref(sds(i));
            printf("%s%d", i > sd_nvars ? "," : "", r);
            for (int j = 0; j < i; j++) if (sd_refs[j] == r) hk_fail("sd-ref-not-unique", "vars %d and %d share ndg ref %d", j, i, r);
            sd_refs[i] = r; sv[i].by_query = sd_in_query;
            /* a variable that appeared by itself is a coordinate variable: rank 1 */
            if (i >= sd_nvars) { int32 rank = 0, nt = 0, nat = 0, dsz[H4_MAX_VAR_DIMS]; char nm[H4_MAX_NC_NAME + 8];
                if (SDgetinfo(sds(i), nm, &rank, dsz, &nt, &nat) != FAIL) { sv[i].rank = rank; sv[i].nt = nt; if (i < MAXV) strcpy(varnames[i], nm); } }
        }
        printf(" => ok\n");
        sd_nvars = nv;
    }
}
static void sd_learn_dims(int v)
{
    for (int k = 0; k < sv[v].rank; k++) {
        int32 d = SDgetdimid(sds(v), k);
        printf("T attr sd.getdimid %d %d => ", v, k);
        if (d == FAIL) { printf("fail\n"); continue; }
        int s = d & 0xffff;
        printf("%d\n", s);
        sv[v].slot[k] = s;
        if (s < MAXD) { slotvk[s].v = v; slotvk[s].k = k; slotvk[s].known = 1; if (s >= nslots) nslots = s + 1; }
    }
}
static void sd_start(char mode)
{
    printf("T attr sd.start %c => ", mode);
    sdid = SDstart(fname, mode == 'c' ? DFACC_CREATE : mode == 'w' ? DFACC_WRITE : DFACC_READ);
    printf("%s\n", sdid == FAIL ? "fail" : "ok");
    sd_rdwr = mode != 'r';
    nslots = 0; memset(slotvk, 0, sizeof slotvk);
    if (mode == 'c') { sd_nvars = 0; sl_free(&sh_file); for (int i = 0; i < MAXV; i++) { sl_free(&sh_var[i]); sc_clear(i); } return; }
    /* reopen: learn what is there (every answer is also a T line) */
    int32 nv = 0, na = 0;
    SDfileinfo(sdid, &nv, &na);
    printf("T attr sd.fileinfo => %d %d\n", (int)nv, (int)na);
    sd_nvars = nv > MAXV ? MAXV : nv;
    for (int v = 0; v < sd_nvars; v++) {
        char nm[H4_MAX_NC_NAME + 8]; int32 rank = 0, nt = 0, nat = 0, dsz[H4_MAX_VAR_DIMS];
        int32 id = sds(v);
        printf("T attr sd.getinfo %d => ", v);
        if (SDgetinfo(id, nm, &rank, dsz, &nt, &nat) == FAIL) { printf("fail\n"); sv[v].rank = 0; continue; }
        pname(nm); printf(" %d %d %d\n", (int)rank, (int)nt, (int)nat);
        sv[v].rank = rank; sv[v].nt = nt; strcpy(varnames[v], nm);
        sd_refs[v] = (int)SDidtoref(id);
        sd_learn_dims(v);
    }
}
/* read the attribute list of an SD object into a shadow list (no T lines) */
static void sd_snapshot(int32 id, SList *l)
{
    sl_free(l);
    for (int i = 0;; i++) {
        char nm[H4_MAX_NC_NAME + 8]; int32 nt, cnt;
        if (SDattrinfo(id, i, nm, &nt, &cnt) == FAIL) break;
        int vlen = cnt * ntsz(nt);
        if (vlen > (int)sizeof outbuf) break;
        SDreadattr(id, i, outbuf);
        sl_set(l, -1, nm, nt, cnt, outbuf, vlen);
    }
}
static int is_charlike(int32 nt) { int b = nt & 0xff; return (b == DFNT_CHAR8 || b == DFNT_UCHAR8) && nt != DFNT_CHAR8; }
/* compare what the reopened file has with what the previous writable session left; one key per kind of loss */
static void sd_audit_list(const char *what, int idx, const SList *exp, int32 id)
{
    SList act = {0};
    sd_snapshot(id, &act);
    if (act.n != exp->n) hk_fail("sd-attr-count-changed-on-reopen", "%s %d: %d attributes before close, %d after reopen", what, idx, exp->n, act.n);
    for (int i = 0; i < exp->n && i < act.n; i++) {
        const SAttr *e = &exp->a[i], *a = &act.a[i];
        if (strcmp(e->name, a->name) != 0) {
            if (strlen(e->name) > VSNAMELENMAX && strncmp(e->name, a->name, VSNAMELENMAX) == 0 && strlen(a->name) == VSNAMELENMAX)
                hk_fail("attr-name-truncated-on-reopen", "%s %d attr %d: name of %d chars came back with %d", what, idx, i, (int)strlen(e->name), (int)strlen(a->name));
            else hk_fail("sd-attr-name-changed-on-reopen", "%s %d attr %d", what, idx, i);
        }
        if (e->nt != a->nt) hk_fail("sd-attr-type-changed-on-reopen", "%s %d attr %d: %d -> %d", what, idx, i, (int)e->nt, (int)a->nt);
        if (e->count != a->count) {
            if (is_charlike(e->nt) && a->count == 1) hk_fail("sd-charlike-attr-count-lost-on-reopen", "%s %d attr %d nt %d: count %d -> 1", what, idx, i, (int)e->nt, (int)e->count);
            else hk_fail("sd-attr-count-field-changed-on-reopen", "%s %d attr %d: %d -> %d", what, idx, i, (int)e->count, (int)a->count);
        }
        else if (e->vlen != a->vlen || memcmp(e->val, a->val, (size_t)e->vlen) != 0)
            hk_fail("sd-attr-value-changed-on-reopen", "%s %d attr %d", what, idx, i);
    }
    sl_free(&act);
}
static char ps_dimname[MAXV][4][H4_MAX_NC_NAME + 8]; static int ps_dimnattr[MAXV][4]; static int ps_rank[MAXV];
static int32 ps_dimsize[MAXV][4], ps_dimnt[MAXV][4], ps_vnt[MAXV]; static char ps_vname[MAXV][H4_MAX_NC_NAME + 8];
/* the view of the variable and dimension tables as the session that is about to close sees it (pure getters only) */
static void sd_remember_dims(void)
{
    for (int v = 0; v < sd_nvars && v < MAXV; v++) {
        int32 rank = 0, nt = 0, nat = 0, dsz[H4_MAX_VAR_DIMS];
        ps_rank[v] = sv[v].rank; ps_vnt[v] = -1; ps_vname[v][0] = 0;
        if (SDgetinfo(sds(v), ps_vname[v], &rank, dsz, &nt, &nat) != FAIL) { ps_vnt[v] = nt; ps_rank[v] = rank; }
        for (int k = 0; k < ps_rank[v] && k < 4; k++) {
            int32 sz = 0, nt = 0, na; ps_dimname[v][k][0] = 0; ps_dimnattr[v][k] = -1;
            int32 d = SDgetdimid(sds(v), k);
            if (d != FAIL && SDdiminfo(d, ps_dimname[v][k], &sz, &nt, &na) != FAIL) { ps_dimnattr[v][k] = na; ps_dimsize[v][k] = sz; ps_dimnt[v][k] = nt; }
        }
    }
}
static void sd_audit_dims(void)
{
    for (int v = 0; v < ps_nvars && v < sd_nvars; v++) {
        char vn[H4_MAX_NC_NAME + 8]; int32 rank = 0, vnt = 0, nat = 0, dsz[H4_MAX_VAR_DIMS];
        if (ps_vnt[v] >= 0 && SDgetinfo(sds(v), vn, &rank, dsz, &vnt, &nat) != FAIL) {
            if (vnt != ps_vnt[v]) hk_fail("sd-var-type-changed-on-reopen", "var %d: number type %d before close, %d after reopen", v, (int)ps_vnt[v], (int)vnt);
            if (rank != ps_rank[v]) hk_fail("sd-var-rank-changed-on-reopen", "var %d: %d -> %d", v, ps_rank[v], (int)rank);
            if (strcmp(vn, ps_vname[v]) && !SDiscoordvar(sds(v))) hk_fail("sd-var-name-changed-on-reopen", "var %d", v);
        }
        for (int k = 0; k < ps_rank[v] && k < 4; k++) {
            char nm[H4_MAX_NC_NAME + 8]; int32 sz, nt, na;
            int32 d = SDgetdimid(sds(v), k);
            if (ps_dimnattr[v][k] < 0 || d == FAIL || SDdiminfo(d, nm, &sz, &nt, &na) == FAIL) continue;
            int fake_before = strncmp(ps_dimname[v][k], "fakeDim", 7) == 0;
            if (sz != ps_dimsize[v][k]) hk_fail("sd-dim-size-changed-on-reopen", "var %d dim %d: %d -> %d", v, k, (int)ps_dimsize[v][k], (int)sz);
            if (strcmp(nm, ps_dimname[v][k]) != 0) {
                if (!fake_before) hk_fail("sd-dim-name-changed-on-reopen", "var %d dim %d", v, k);
                else { /* an unnamed dimension may be renumbered, but must keep its metadata */
                    int digits = 1; for (const char *p = ps_dimname[v][k] + 7; *p; p++) if (*p < '0' || *p > '9') digits = 0;
                    if (!digits) hk_fail("sd-fakedim-prefixed-user-name-lost", "var %d dim %d: user name starting with fakeDim was replaced", v, k);
                    else if (na < ps_dimnattr[v][k]) hk_fail("sd-fakedim-renumber-orphans-coordvar", "var %d dim %d: %s -> %s, %d attributes -> %d", v, k, ps_dimname[v][k], nm, ps_dimnattr[v][k], (int)na);
                    else if (nt != ps_dimnt[v][k]) hk_fail("sd-dim-scale-type-changed-on-reopen", "var %d dim %d (%s -> %s): scale type %d before close, %d after reopen", v, k, ps_dimname[v][k], nm, (int)ps_dimnt[v][k], (int)nt);
                }
            }
            else {
                if (na != ps_dimnattr[v][k]) hk_fail("sd-dim-attr-count-changed-on-reopen", "var %d dim %d: %d -> %d", v, k, ps_dimnattr[v][k], (int)na);
                if (nt != ps_dimnt[v][k]) hk_fail("sd-dim-scale-type-changed-on-reopen", "var %d dim %d: scale type %d before close, %d after reopen", v, k, (int)ps_dimnt[v][k], (int)nt);
            }
        }
    }
}
static int sd_coordvar_of(int32 dimid);
/* the scales: every dimension whose coordinate variable was given values by SDsetdimscale (in whatever session) reports the
   number type of the last successful call and, read under that type, returns its values.  SDgetdimscale marks the header
   modified, so the values are read (as T lines) only in read-only sessions. */
static void sd_audit_scales(int read_values)
{
    for (int s = 0; s < nslots; s++) {
        if (!slotvk[s].known) continue;
        char nm[H4_MAX_NC_NAME + 8]; int32 sz = 0, nt = 0, na;
        int32 d = dimid_of_slot(s);
        if (d == FAIL || SDdiminfo(d, nm, &sz, &nt, &na) == FAIL || sz == 0) continue;
        int cv = sd_coordvar_of(d);
        if (cv < 0 || cv >= MAXV || !sc[cv].valid) continue;
        if (nt != sc[cv].nt) { hk_fail("sd-dim-scale-type-changed-on-reopen", "dimension slot %d (variable %d): SDdiminfo reports scale type %d, the last SDsetdimscale gave %d", s, cv, (int)nt, (int)sc[cv].nt); continue; }
        if (!read_values || (long)sz * ntsz(nt) != sc[cv].len) continue;
        memset(outbuf, 0x55, (size_t)sc[cv].len + 8);
        printf("T attr sd.getdimscale %d => ", s);
        if (SDgetdimscale(d, outbuf) == FAIL) { printf("fail\n"); hk_fail("sd-dim-scale-unreadable-on-reopen", "dimension slot %d (variable %d, type %d)", s, cv, (int)nt); continue; }
        phex(outbuf, (size_t)sc[cv].len); printf("\n");
        if (memcmp(outbuf, sc[cv].val, (size_t)sc[cv].len)) hk_fail("sd-dim-scale-values-changed-on-reopen", "dimension slot %d (variable %d, type %d): not the values of the last SDsetdimscale", s, cv, (int)nt);
    }
}
static void sd_end(void)
{
    if (sd_rdwr) sd_remember_dims();
    printf("T attr sd.end => ");
    int rc = SDend(sdid);
    printf("%s\n", rc == FAIL ? "fail" : "ok");
    if (sd_rdwr) { /* what must survive */
        sl_copy(&ps_file, &sh_file);
        for (int i = 0; i < MAXV; i++) sl_copy(&ps_var[i], &sh_var[i]);
        ps_nvars = sd_nvars;
    }
    sdid = FAIL;
}
static void sd_audit_after_reopen(void)
{
    if (sd_nvars < ps_nvars) { /* SDattrinfo/SDreadattr/SDfindattr on a dimension id create an (empty) coordinate variable in memory without marking
                                  the file dirty; if nothing else was changed it is not written: tolerated, it carries no metadata */
        int only_query = 1; for (int v = sd_nvars; v < ps_nvars; v++) if (!sv[v].by_query || ps_var[v].n) only_query = 0;
        if (only_query) ps_nvars = sd_nvars; }
    if (sd_nvars != ps_nvars) hk_fail("sd-var-count-changed-on-reopen", "%d before, %d after", ps_nvars, sd_nvars);
    sd_audit_list("file", 0, &ps_file, sdid);
    for (int v = 0; v < ps_nvars && v < sd_nvars; v++) sd_audit_list("var", v, &ps_var[v], sds(v));
    sd_audit_dims();
    for (int v = sd_nvars; v < MAXV; v++) sc_clear(v);
    sd_audit_scales(!sd_rdwr);
    /* continue from what is really there */
    sd_snapshot(sdid, &sh_file);
    for (int v = 0; v < sd_nvars; v++) sd_snapshot(sds(v), &sh_var[v]);
}

static int sd_pick_slot(void)
{
    if (nslots == 0) return -1;
    int s = (int)hk_range(0, nslots - 1);
    for (int i = 0; i < nslots; i++) { int t = (s + i) % nslots; if (slotvk[t].known) return t; }
    return -1;
}
static const char *sd_objtok(int kind, int idx) { static char b[32]; if (kind == 0) strcpy(b, "f"); else sprintf(b, "%c%d", kind == 1 ? 'v' : 'd', idx); return b; }
/* pick an object: 0 file, 1 var, 2 dim slot; returns id */
static int32 sd_pick(int *kind, int *idx)
{
    if (fz_kind >= 0) { *kind = fz_kind; *idx = fz_idx; return fz_kind == 0 ? sdid : fz_kind == 1 ? sds(fz_idx) : dimid_of_slot(fz_idx); }
    int r = (int)hk_range(0, 99);
    if (sd_nvars == 0 || r < 25) { *kind = 0; *idx = 0; return sdid; }
    if (r < 70 || nslots == 0) { *kind = 1; *idx = (int)hk_range(0, sd_nvars - 1); return sds(*idx); }
    *kind = 2; *idx = sd_pick_slot();
    if (*idx < 0) { *kind = 0; *idx = 0; return sdid; }
    return dimid_of_slot(*idx);
}
/* the coordinate variable a dimension's metadata lives on (rank 1, coordinate kind, same NAME), found without side effects */
static int sd_coordvar_of(int32 dimid)
{
    char dn[H4_MAX_NC_NAME + 8], vn[H4_MAX_NC_NAME + 8]; int32 sz, nt, na, rank, dsz[H4_MAX_VAR_DIMS];
    if (SDdiminfo(dimid, dn, &sz, &nt, &na) == FAIL) return -1;
    for (int v = 0; v < sd_nvars; v++)
        if (SDgetinfo(sds(v), vn, &rank, dsz, &nt, &na) != FAIL && rank == 1 && !strcmp(vn, dn) && SDiscoordvar(sds(v))) {
            char vdn[H4_MAX_NC_NAME + 8]; int32 s2, t2, a2; /* ... and defined on that dimension (an orphan left by a rename is not) */
            if (SDdiminfo(SDgetdimid(sds(v), 0), vdn, &s2, &t2, &a2) != FAIL && !strcmp(vdn, dn)) return v;
        }
    return -1;
}
static SList *sd_shadow(int kind, int idx, int32 id)
{
    static SList empty;
    if (kind == 0) return &sh_file;
    if (kind == 1) return &sh_var[idx];
    int v = sd_coordvar_of(id);
    if (v < 0 || v >= MAXV) { sl_free(&empty); return &empty; }
    sd_snapshot(sds(v), &sh_var[v]);
    return &sh_var[v];
}
static void sd_sync_dimshadow(void)
{
    /* coordinate variables are ordinary entries of the variable table */
    for (int v = 0; v < sd_nvars; v++) if (SDiscoordvar(sds(v))) sd_snapshot(sds(v), &sh_var[v]);
}
static void sd_check_readback(int32 id, const SList *l, const char *name, const char *key)
{
    int i = sl_find(l, name);
    if (i < 0) return;
    char nm[H4_MAX_NC_NAME + 8]; int32 nt, cnt;
    int32 fi = SDfindattr(id, name);
    if (fi != i) { hk_fail(key, "SDfindattr gives %d, shadow index %d", (int)fi, i); return; }
    if (SDattrinfo(id, i, nm, &nt, &cnt) == FAIL || strcmp(nm, name) || nt != l->a[i].nt || cnt != l->a[i].count) { hk_fail(key, "SDattrinfo disagrees at %d", i); return; }
    if (SDreadattr(id, i, outbuf) == FAIL || memcmp(outbuf, l->a[i].val, (size_t)l->a[i].vlen)) hk_fail(key, "SDreadattr disagrees at %d", i);
}
static void sd_op_setattr(int tiny)
{
    int kind, idx; int32 id = sd_pick(&kind, &idx);
    char name[400]; int nl = gen_name(name); (void)nl;
    SList *l = sd_shadow(kind, idx, id);
    if (l->n > 0 && hk_chance(35)) strcpy(name, l->a[hk_range(0, l->n - 1)].name); /* re-set an existing name */
    int32 nt = hk_chance(4) ? gen_bad_nt() : gen_nt(hk_chance(10));
    int sz = ntsz(nt);
    int32 count = tiny ? 1 : hk_chance(3) ? (int32)hk_range(-1, 0) : gen_count(sz);
    if (!tiny && strlen(name) > 100 && count > 64) count = 3;
    if (fz_attr == 2) { while (sl_find(l, name) >= 0 && strlen(name) < 60) strcat(name, "_"); }
    else if (fz_attr && l->n > 0) { const SAttr *e = &l->a[hk_range(0, l->n - 1)]; strcpy(name, e->name); if (fz_attr == 1) { nt = e->nt; count = e->count; sz = ntsz(nt); } }
    int vlen = count > 0 ? count * sz : 0;
    if (vlen > BIG * 8) vlen = 8;
    gen_val(valbuf, vlen);
    printf("T attr sd.setattr %s ", sd_objtok(kind, idx)); pname(name); printf(" %d %d ", (int)nt, (int)count); phex(valbuf, (size_t)vlen);
    int rc = SDsetattr(id, name, nt, count, valbuf);
    printf(" => %s\n", rc == FAIL ? "fail" : "ok");
    if (kind == 2) { sd_in_query = rc == FAIL; /* a refused call may still have made SDIgetcoordvar add an empty variable in memory */
        sd_emit_newvars(); sd_in_query = 0; l = sd_shadow(kind, idx, id); if (rc != FAIL) sd_check_readback(id, l, name, "sd-get-after-set"); sd_sync_dimshadow(); return; }
    int exp = expect_set(K_SD, l, name, nt, count, sd_rdwr);
    int pos = sl_find(l, name), n0 = l->n;
    if (rc != FAIL) {
        if (!sd_rdwr) hk_fail("sd-setattr-on-readonly-file-succeeds", "SDsetattr reported success on a file opened DFACC_READ");
        else if (!exp) hk_fail("sd-setattr-unexpected-success", "nt %d count %d", (int)nt, (int)count);
        sl_set(l, pos, name, nt, count, valbuf, vlen);
        if (pos >= 0 && l->n != n0) hk_fail("sd-replace-changed-count", "-");
        sd_check_readback(id, l, name, "sd-get-after-set");
        /* frame: a random other attribute is untouched */
        if (l->n > 1) { int j = (int)hk_range(0, l->n - 1); if (strcmp(l->a[j].name, name)) sd_check_readback(id, l, l->a[j].name, "sd-frame"); }
    }
    else {
        if (exp) hk_fail("sd-setattr-unexpected-failure", "nt %d count %d name %d chars, %d attrs", (int)nt, (int)count, (int)strlen(name), l->n);
        if (pos >= 0) sd_check_readback(id, l, name, "sd-failed-set-changed-value");
    }
}
static void sd_op_query(void)
{
    int kind, idx; int32 id = sd_pick(&kind, &idx);
    SList *l = sd_shadow(kind, idx, id);
    int r = (int)hk_range(0, 2);
    if (r == 0) {
        char name[400]; gen_name(name);
        if (l->n > 0 && hk_chance(70)) strcpy(name, l->a[hk_range(0, l->n - 1)].name);
        printf("T attr sd.findattr %s ", sd_objtok(kind, idx)); pname(name);
        int32 i = SDfindattr(id, name);
        if (i == FAIL) printf(" => fail\n"); else printf(" => %d\n", (int)i);
        if (kind != 2 && i != sl_find(l, name)) hk_fail("sd-findattr", "got %d shadow %d", (int)i, sl_find(l, name));
    }
    else {
        int i = hk_chance(80) && l->n > 0 ? (int)hk_range(0, l->n - 1) : (int)hk_range(-2, l->n + 2);
        char nm[H4_MAX_NC_NAME + 8]; int32 nt = 0, cnt = 0;
        if (r == 1) {
            printf("T attr sd.attrinfo %s %d => ", sd_objtok(kind, idx), i);
            if (SDattrinfo(id, i, nm, &nt, &cnt) == FAIL) printf("fail\n");
            else { pname(nm); printf(" %d %d\n", (int)nt, (int)cnt);
                if (kind != 2 && (i < 0 || i >= l->n || strcmp(nm, l->a[i].name) || nt != l->a[i].nt || cnt != l->a[i].count)) hk_fail("sd-attrinfo", "index %d", i); }
        }
        else {
            printf("T attr sd.readattr %s %d => ", sd_objtok(kind, idx), i);
            int vlen = (i >= 0 && i < l->n) ? l->a[i].vlen : 0;
            if (SDreadattr(id, i, outbuf) == FAIL) printf("fail\n");
            else { phex(outbuf, (size_t)vlen); printf("\n");
                if (kind != 2 && (i < 0 || i >= l->n || memcmp(outbuf, l->a[i].val, (size_t)vlen))) hk_fail("sd-readattr", "index %d", i); }
        }
    }
    if (kind == 2) { sd_in_query = 1; sd_emit_newvars(); sd_in_query = 0; sd_sync_dimshadow(); }
}
/* optional C string argument: returns pointer or NULL; prints token */
static const char *gen_optstr(char *buf, int maxlen)
{
    int r = (int)hk_range(0, 99);
    if (r < 20) { printf(" N"); return NULL; }
    if (r < 30) { buf[0] = 0; printf(" -"); return buf; }
    int n = r < 85 ? (int)hk_range(1, 10) : (int)hk_range(11, maxlen);
    for (int i = 0; i < n; i++) buf[i] = "abcdefghijklmnopqrstuvwxyz %/.-"[hk_range(0, 30)];
    buf[n] = 0; printf(" "); pname(buf);
    return buf;
}
static void print_strbufs(char **p, int n, int len)
{
    for (int i = 0; i < n; i++) { printf("%s", i ? " " : ""); if (!p[i]) printf("N"); else phex(p[i], (size_t)len + 1); }
    printf("\n");
}
static void sd_op_datastrs_at(int v, int set)
{
    int32 id = sds(v);
    static char sb[4][320];
    if (set) {
        printf("T attr sd.setdatastrs %d", v);
        const char *l = gen_optstr(sb[0], 300), *u = gen_optstr(sb[1], 40), *f = gen_optstr(sb[2], 40), *c = gen_optstr(sb[3], 40);
        int rc = SDsetdatastrs(id, l, u, f, c);
        printf(" => %s\n", rc == FAIL ? "fail" : "ok");
        if (rc != FAIL && sd_rdwr) { /* predefined round trip, with a buffer that is long enough */
            char *o[4]; for (int i = 0; i < 4; i++) { o[i] = (char *)ob[i]; memset(o[i], 0xAA, 400); }
            if (SDgetdatastrs(id, o[0], o[1], o[2], o[3], 350) != FAIL) {
                const char *in[4] = {l, u, f, c};
                for (int i = 0; i < 4; i++) if (in[i] && in[i][0] && strcmp(in[i], o[i])) hk_fail("sd-datastrs-roundtrip", "string %d", i);
            }
        }
        if (rc != FAIL && !sd_rdwr && (l || u || f || c)) hk_fail("sd-setattr-on-readonly-file-succeeds", "SDsetdatastrs on a DFACC_READ file");
        sd_snapshot(id, &sh_var[v]);
    }
    else {
        static const int lens[] = {0, 1, 2, 5, 10, 11, 40, 350};
        int len = lens[hk_range(0, 7)], mask = hk_chance(60) ? 15 : (int)hk_range(0, 15);
        char *o[4]; for (int i = 0; i < 4; i++) { o[i] = (mask >> i) & 1 ? (char *)ob[i] : NULL; if (o[i]) memset(o[i], 0xAA, (size_t)len + 1); }
        printf("T attr sd.getdatastrs %d %d %d => ", v, mask, len);
        if (SDgetdatastrs(id, o[0], o[1], o[2], o[3], len) == FAIL) printf("fail\n"); else print_strbufs(o, 4, len);
    }
}
static void sd_op_datastrs(void)
{
    if (sd_nvars == 0) return;
    int v = (int)hk_range(0, sd_nvars - 1);
    sd_op_datastrs_at(v, hk_chance(50));
}
static double gen_double(void) { return (double)hk_range(-1000000, 1000000) / (double)hk_range(1, 97); }
static void sd_op_cal_at(int v, int set)
{
    int32 id = sds(v);
    if (set) {
        double c[4]; for (int i = 0; i < 4; i++) c[i] = gen_double();
        int32 nt = NT[hk_range(0, 9)];
        printf("T attr sd.setcal %d ", v); for (int i = 0; i < 4; i++) { phex(&c[i], 8); printf(" "); } phex(&nt, 4);
        int rc = SDsetcal(id, c[0], c[1], c[2], c[3], nt);
        printf(" => %s\n", rc == FAIL ? "fail" : "ok");
        if (rc != FAIL) {
            if (!sd_rdwr) hk_fail("sd-setattr-on-readonly-file-succeeds", "SDsetcal on a DFACC_READ file");
            double g[4]; int32 gnt;
            if (SDgetcal(id, &g[0], &g[1], &g[2], &g[3], &gnt) == FAIL || memcmp(g, c, 32) || gnt != nt) hk_fail("sd-cal-roundtrip", "-");
        }
        sd_snapshot(id, &sh_var[v]);
    }
    else {
        for (int i = 0; i < 5; i++) memset(ob[i], 0xAA, BIG);
        printf("T attr sd.getcal %d => ", v);
        if (SDgetcal(id, (float64 *)ob[0], (float64 *)ob[1], (float64 *)ob[2], (float64 *)ob[3], (int32 *)ob[4]) == FAIL) printf("fail\n");
        else { for (int i = 0; i < 4; i++) { phex(ob[i], 8); printf(" "); } phex(ob[4], 4); printf("\n"); }
    }
}
static void sd_op_cal(void)
{
    if (sd_nvars == 0) return;
    int v = (int)hk_range(0, sd_nvars - 1);
    sd_op_cal_at(v, hk_chance(50));
}
static void sd_op_range_fill_at(int v, int r)
{
    int32 id = sds(v);
    { char nm[H4_MAX_NC_NAME + 8]; int32 rank, nt, nat, dsz[H4_MAX_VAR_DIMS]; if (SDgetinfo(id, nm, &rank, dsz, &nt, &nat) != FAIL) sv[v].nt = nt; } /* a coordinate variable may have been retyped */
    int sz = ntsz(sv[v].nt);
    if (r < 0) r = (int)hk_range(0, 3);
    if (r == 0) {
        uint8_t mx[8], mn[8]; gen_val(mx, sz); gen_val(mn, sz);
        printf("T attr sd.setrange %d ", v); phex(mx, (size_t)sz); printf(" "); phex(mn, (size_t)sz);
        int rc = SDsetrange(id, mx, mn);
        printf(" => %s\n", rc == FAIL ? "fail" : "ok");
        if (rc != FAIL) {
            if (!sd_rdwr) hk_fail("sd-setattr-on-readonly-file-succeeds", "SDsetrange on a DFACC_READ file");
            memset(ob[0], 0xAA, BIG); memset(ob[1], 0xAA, BIG);
            if (SDgetrange(id, ob[0], ob[1]) == FAIL || memcmp(ob[0], mx, (size_t)sz) || memcmp(ob[1], mn, (size_t)sz)) hk_fail("sd-range-roundtrip", "-");
        }
        sd_snapshot(id, &sh_var[v]);
    }
    else if (r == 1) {
        memset(ob[0], 0xAA, BIG); memset(ob[1], 0xAA, BIG);
        printf("T attr sd.getrange %d => ", v);
        if (SDgetrange(id, ob[0], ob[1]) == FAIL) printf("fail\n"); else { phex(ob[0], (size_t)sz); printf(" "); phex(ob[1], (size_t)sz); printf("\n"); }
    }
    else if (r == 2) {
        uint8_t fv[8]; gen_val(fv, sz);
        printf("T attr sd.setfill %d ", v); phex(fv, (size_t)sz);
        int rc = SDsetfillvalue(id, fv);
        printf(" => %s\n", rc == FAIL ? "fail" : "ok");
        if (rc != FAIL) {
            if (!sd_rdwr) hk_fail("sd-setattr-on-readonly-file-succeeds", "SDsetfillvalue on a DFACC_READ file");
            memset(ob[0], 0xAA, BIG);
            if (SDgetfillvalue(id, ob[0]) == FAIL || memcmp(ob[0], fv, (size_t)sz)) hk_fail("sd-fill-roundtrip", "-");
        }
        sd_snapshot(id, &sh_var[v]);
    }
    else {
        memset(ob[0], 0xAA, BIG);
        printf("T attr sd.getfill %d => ", v);
        if (SDgetfillvalue(id, ob[0]) == FAIL) printf("fail\n"); else { phex(ob[0], (size_t)sz); printf("\n"); }
    }
}
static void sd_op_range_fill(void)
{
    if (sd_nvars == 0) return;
    int v = (int)hk_range(0, sd_nvars - 1);
    sd_op_range_fill_at(v, -1);
}
static const char *DIMNAMES[] = {"x", "y", "lat", "lon", "time", "a", "fakeDimension"};
static void sd_op_create(int rank32)
{
    if (sd_nvars >= 8 || !sd_rdwr) return;
    char name[400]; int r = (int)hk_range(0, 99);
    if (r < 30 && sd_nvars > 0) strcpy(name, varnames[hk_range(0, sd_nvars - 1)]); /* duplicate dataset name */
    else if (r < 50) strcpy(name, DIMNAMES[hk_range(0, 6)]);                        /* may coincide with a dimension name */
    else if (r < 55) { int n = (int)hk_range(255, 256); memset(name, 'n', (size_t)n); name[n] = 0; }
    else if (r < 58) { memset(name, 'n', 257); name[257] = 0; }
    else gen_name(name), name[hk_range(1, 30) < (long)strlen(name) ? hk_range(1, 30) : strlen(name)] = 0;
    int rank = rank32 ? 32 : (int)hk_range(1, 3);
    int32 dims[H4_MAX_VAR_DIMS];
    for (int i = 0; i < rank; i++) dims[i] = rank32 ? 1 : (int32)hk_range(1, 4);
    if (!rank32 && hk_chance(8)) dims[0] = SD_UNLIMITED;
    int32 nt = hk_chance(3) ? gen_bad_nt() : gen_nt(0);
    printf("T attr sd.create "); pname(name); printf(" %d ", (int)nt);
    for (int i = 0; i < rank; i++) printf("%s%d", i ? "," : "", (int)dims[i]);
    int32 id = SDcreate(sdid, name, nt, rank, dims);
    if (id == FAIL) { printf(" => fail\n"); return; }
    int v = id & 0xffff;
    printf(" => %d\n", v);
    if (v != sd_nvars) hk_fail("sd-create-index", "new dataset has index %d, expected %d", v, sd_nvars);
    if (v >= MAXV) return;
    strcpy(varnames[v], name);
    sv[v].rank = rank; sv[v].nt = nt;
    sl_free(&sh_var[v]);
    sd_emit_newvars();
    sd_learn_dims(v);
}
/* another number type for a scale of type `cur`: same = 1 of the same element size, 0 of another size */
static int32 other_nt(int32 cur, int same)
{
    int32 cand[20]; int n = 0;
    for (int i = 0; i < 10; i++) for (int le = 0; le < 2; le++) {
        int32 t = NT[i] | (le ? DFNT_LITEND : 0);
        if (t != cur && (ntsz(t) == ntsz(cur)) == same) cand[n++] = t;
    }
    return cand[hk_range(0, n - 1)];
}
/* one call on dimension slot s; r selects the call as in sd_op_dim; smode (SDsetdimscale): 0 any type, 1 the type the scale
   has, 2 another type of the same size, 3 a type of another size */
static void sd_op_dim_at(int s, int r, int smode)
{
    int32 d = dimid_of_slot(s);
    static char sb[3][320];
    if (r < 22) {
        char name[400];
        int q = (int)hk_range(0, 99);
        if (q < 60) strcpy(name, DIMNAMES[hk_range(0, 6)]);
        else if (q < 75 && sd_nvars > 0) strcpy(name, varnames[hk_range(0, sd_nvars - 1)]);
        else if (q < 80) { int n = (int)hk_range(255, 257); memset(name, 'd', (size_t)n); name[n] = 0; }
        else gen_name(name);
        if (strncmp(name, "fakeDim", 7) == 0 && name[7] && strspn(name + 7, "0123456789") == strlen(name + 7)) name[0] = 'F'; /* the library's own default names are not a user's to give */
        printf("T attr sd.setdimname %d ", s); pname(name);
        int rc = SDsetdimname(d, name);
        printf(" => %s\n", rc == FAIL ? "fail" : "ok");
        if (rc != FAIL) { char nm[H4_MAX_NC_NAME + 8]; int32 sz, nt, na; if (SDdiminfo(d, nm, &sz, &nt, &na) == FAIL || strcmp(nm, name)) hk_fail("sd-dimname-roundtrip", "-"); }
    }
    else if (r < 40) {
        char nm[H4_MAX_NC_NAME + 8]; int32 sz, nt, na;
        printf("T attr sd.diminfo %d => ", s);
        if (SDdiminfo(d, nm, &sz, &nt, &na) == FAIL) printf("fail\n"); else { pname(nm); printf(" %d %d %d\n", (int)sz, (int)nt, (int)na); }
    }
    else if (r < 55) {
        printf("T attr sd.setdimstrs %d", s);
        const char *l = gen_optstr(sb[0], 300), *u = gen_optstr(sb[1], 40), *f = gen_optstr(sb[2], 40);
        int rc = SDsetdimstrs(d, l, u, f);
        printf(" => %s\n", rc == FAIL ? "fail" : "ok");
        sd_emit_newvars();
        if (rc != FAIL && sd_rdwr) {
            char *o[3]; for (int i = 0; i < 3; i++) { o[i] = (char *)ob[i]; memset(o[i], 0xAA, 400); }
            if (SDgetdimstrs(d, o[0], o[1], o[2], 350) != FAIL) { const char *in[3] = {l, u, f};
                for (int i = 0; i < 3; i++) if (in[i] && in[i][0] && strcmp(in[i], o[i])) hk_fail("sd-dimstrs-roundtrip", "string %d", i); }
        }
        sd_sync_dimshadow();
    }
    else if (r < 68) {
        static const int lens[] = {0, 1, 2, 5, 10, 40, 350};
        int len = lens[hk_range(0, 6)], mask = hk_chance(60) ? 7 : (int)hk_range(0, 7);
        char *o[3]; for (int i = 0; i < 3; i++) { o[i] = (mask >> i) & 1 ? (char *)ob[i] : NULL; if (o[i]) memset(o[i], 0xAA, (size_t)len + 1); }
        printf("T attr sd.getdimstrs %d %d %d => ", s, mask, len);
        if (SDgetdimstrs(d, o[0], o[1], o[2], len) == FAIL) printf("fail\n"); else print_strbufs(o, 3, len);
    }
    else if (r < 88) {
        char nm[H4_MAX_NC_NAME + 8]; int32 sz = 0, nt0, na;
        if (SDdiminfo(d, nm, &sz, &nt0, &na) == FAIL || sz == 0) return; /* unlimited dimensions: no scales here */
        int32 count = hk_chance(10) ? sz + 1 : sz;
        int32 nt = gen_nt(0);
        if (smode && nt0 != 0) nt = smode == 1 ? nt0 : other_nt(nt0, smode == 2);
        int foreign = 0; { int cv = sd_coordvar_of(d); if (cv >= 0) { char vn[H4_MAX_NC_NAME + 8]; int32 rk, vt, va, dsz[H4_MAX_VAR_DIMS];
            if (SDgetinfo(sds(cv), vn, &rk, dsz, &vt, &va) != FAIL && rk == 1 && dsz[0] != sz) foreign = 1; } }
        gen_val(valbuf, count * 8);
        printf("T attr sd.setdimscale %d %d %d ", s, (int)count, (int)nt); phex(valbuf, (size_t)count * 8);
        int rc = SDsetdimscale(d, count, nt, valbuf);
        printf(" => %s\n", rc == FAIL ? "fail" : "ok");
        sd_emit_newvars();
        if (rc != FAIL && !sd_rdwr) hk_fail("sd-setattr-on-readonly-file-succeeds", "SDsetdimscale on a DFACC_READ file");
        else if (rc == FAIL && !sd_rdwr) { }
        else if (rc != FAIL && sd_single) { int32 nt1 = 0; if (SDdiminfo(d, nm, &sz, &nt1, &na) == FAIL || nt1 != nt) hk_fail("sd-dimscale-roundtrip", "SDdiminfo reports type %d after SDsetdimscale with %d", (int)nt1, (int)nt); }
        else if (rc != FAIL) { memset(outbuf, 0, 64); if (SDgetdimscale(d, outbuf) == FAIL || memcmp(outbuf, valbuf, (size_t)count * (size_t)ntsz(nt))) hk_fail("sd-dimscale-roundtrip", "-"); }
        else if (count == sz && foreign) hk_fail("sd-dimscale-on-foreign-coordvar-fails", "the dimension carries the name of a coordinate variable left behind by a rename (other size)");
        else if (count == sz) hk_fail(nt0 != 0 ? "sd-dimscale-wider-type-fails" : "sd-setdimscale-unexpected-failure", "scale type %d -> %d (the data element of an existing scale never grows)", (int)nt0, (int)nt);
        /* what the coordinate variable holds from now on (a call that failed after the variable was found leaves it unknown) */
        if (sd_rdwr && (rc != FAIL || count == sz)) { int cv = sd_coordvar_of(d);
            if (cv >= 0 && cv < MAXV) { sc_clear(cv);
                if (rc != FAIL) { sc[cv].valid = 1; sc[cv].nt = nt; sc[cv].len = count * ntsz(nt); sc[cv].val = malloc((size_t)sc[cv].len + 1); memcpy(sc[cv].val, valbuf, (size_t)sc[cv].len); } } }
        sd_sync_dimshadow();
    }
    else {
        char nm[H4_MAX_NC_NAME + 8]; int32 sz = 0, nt0 = 0, na;
        if (SDdiminfo(d, nm, &sz, &nt0, &na) == FAIL || sz == 0 || nt0 == 0) return; /* only where a scale was stored */
        printf("T attr sd.getdimscale %d => ", s);
        if (SDgetdimscale(d, outbuf) == FAIL) printf("fail\n"); else { phex(outbuf, (size_t)sz * (size_t)ntsz(nt0)); printf("\n"); }
        sd_emit_newvars();
    }
}
static void sd_op_dim(void)
{
    int s = sd_pick_slot(); if (s < 0) return;
    int r = (int)hk_range(0, 99);
    sd_op_dim_at(s, r, 0);
}
static void sd_op_tables(void)
{
    int r = (int)hk_range(0, 5);
    char nm[H4_MAX_NC_NAME + 8];
    if (r == 0 || sd_nvars == 0) {
        int32 nv = 0, na = 0;
        printf("T attr sd.fileinfo => ");
        if (SDfileinfo(sdid, &nv, &na) == FAIL) printf("fail\n"); else printf("%d %d\n", (int)nv, (int)na);
        return;
    }
    int v = (int)hk_range(0, sd_nvars - 1);
    int32 rank = 0, nt = 0, nat = 0, dsz[H4_MAX_VAR_DIMS];
    if (SDgetinfo(sds(v), nm, &rank, dsz, &nt, &nat) == FAIL) nm[0] = 0;
    if (r == 1) {
        const char *q = hk_chance(80) ? nm : DIMNAMES[hk_range(0, 6)];
        printf("T attr sd.nametoindex "); pname(q);
        int32 i = SDnametoindex(sdid, q);
        if (i == FAIL) printf(" => fail\n"); else printf(" => %d\n", (int)i);
        if (q == nm) { /* first variable with that name */
            int first = -1; char n2[H4_MAX_NC_NAME + 8];
            for (int j = 0; j < sd_nvars && first < 0; j++) if (SDgetinfo(sds(j), n2, &rank, dsz, &nt, &nat) != FAIL && !strcmp(n2, nm)) first = j;
            if (i != first) hk_fail("sd-nametoindex-not-first", "got %d want %d", (int)i, first);
        }
    }
    else if (r == 2) {
        hdf_varlist_t vl[MAXV]; int32 n = 0;
        printf("T attr sd.nametoindices "); pname(nm);
        if (SDgetnumvars_byname(sdid, nm, &n) == FAIL || n > MAXV || SDnametoindices(sdid, nm, vl) == FAIL) { printf(" => fail\n"); return; }
        printf(" =>"); if (n == 0) printf(" -");
        for (int i = 0; i < n; i++) printf(" %d %d", (int)vl[i].var_index, (int)vl[i].var_type);
        printf("\n");
        int seen = 0; for (int i = 0; i < n; i++) { if (vl[i].var_index == v) seen = 1; if (i && vl[i].var_index <= vl[i - 1].var_index) hk_fail("sd-nametoindices-order", "-"); }
        if (!seen) hk_fail("sd-nametoindices-misses", "variable %d not listed under its own name", v);
    }
    else if (r == 3) {
        printf("T attr sd.idtoref %d => ", v);
        int32 ref = SDidtoref(sds(v));
        if (ref == FAIL) printf("fail\n"); else printf("%d\n", (int)ref);
        if (ref != FAIL) { int32 back = SDreftoindex(sdid, ref); if (back != v) hk_fail("sd-reftoindex-idtoref", "index %d -> ref %d -> index %d", v, (int)ref, (int)back); }
    }
    else if (r == 4) {
        int32 ref = hk_chance(80) ? SDidtoref(sds(v)) : (int32)hk_range(1, 40);
        printf("T attr sd.reftoindex %d => ", (int)ref);
        int32 i = SDreftoindex(sdid, ref);
        if (i == FAIL) printf("fail\n"); else printf("%d\n", (int)i);
        if (i != FAIL && SDidtoref(sds(i)) != ref) hk_fail("sd-idtoref-reftoindex", "ref %d -> index %d -> ref %d", (int)ref, (int)i, (int)SDidtoref(sds(i)));
    }
    else {
        printf("T attr sd.getinfo %d => ", v); pname(nm); printf(" %d %d %d\n", (int)rank, (int)nt, (int)nat);
        printf("T attr sd.iscoordvar %d => %d\n", v, SDiscoordvar(sds(v)) ? 1 : 0);
        if (hk_chance(30) && rank > 0) { int k = hk_chance(70) ? (int)hk_range(0, rank - 1) : rank; int32 d = SDgetdimid(sds(v), k);
            printf("T attr sd.getdimid %d %d => ", v, k); if (d == FAIL) printf("fail\n"); else printf("%d\n", (int)(d & 0xffff)); }
    }
}
static void sd_ops(int n)
{
    for (int i = 0; i < n; i++) {
        int r = (int)hk_range(0, 99);
        if (r < 12) sd_op_create(0);
        else if (r < 42) sd_op_setattr(0);
        else if (r < 57) sd_op_query();
        else if (r < 65) sd_op_datastrs();
        else if (r < 71) sd_op_cal();
        else if (r < 78) sd_op_range_fill();
        else if (r < 92) sd_op_dim();
        else sd_op_tables();
    }
}
static void run_sd(int k, int limit)
{
    snprintf(fname, sizeof fname, "%s", hk_tmp("sd"));
    snprintf(fname + strlen(fname), 64, "_%d.hdf", k);
    sd_start('c');
    if (limit) {
        int rank32 = hk_chance(50);
        for (int t = 0; t < 50 && sd_nvars == 0; t++) sd_op_create(rank32);
        if (sd_nvars == 0) { sd_end(); return; }
        int kind = hk_chance(70) ? 1 : 0; int32 id = kind ? sds(0) : sdid; SList *l = kind ? &sh_var[0] : &sh_file;
        int total = H4_MAX_NC_ATTRS + (int)hk_range(1, 6);
        for (int i = 0; i < total; i++) {
            char name[32]; sprintf(name, "n%d", i); uint8_t b = hk_byte();
            printf("T attr sd.setattr %s ", sd_objtok(kind, 0)); pname(name); printf(" %d 1 %02x", DFNT_UINT8, b);
            int rc = SDsetattr(id, name, DFNT_UINT8, 1, &b);
            printf(" => %s\n", rc == FAIL ? "fail" : "ok");
            int exp = expect_set(K_SD, l, name, DFNT_UINT8, 1, 1);
            if ((rc != FAIL) != exp) hk_fail(exp ? "sd-setattr-unexpected-failure" : "sd-attr-count-limit-not-enforced", "attribute #%d", i);
            if (rc != FAIL) sl_set(l, -1, name, DFNT_UINT8, 1, &b, 1);
        }
        /* a full list still accepts the replacement of an existing name */
        { uint8_t b = 7; printf("T attr sd.setattr %s ", sd_objtok(kind, 0)); pname("n5"); printf(" %d 1 07", DFNT_UINT8);
          int rc = SDsetattr(id, "n5", DFNT_UINT8, 1, &b); printf(" => %s\n", rc == FAIL ? "fail" : "ok");
          if (rc == FAIL) hk_fail("sd-replace-refused-when-full", "-"); else sl_set(l, sl_find(l, "n5"), "n5", DFNT_UINT8, 1, &b, 1); }
        sd_ops(6);
    }
    else sd_ops((int)hk_range(15, 60));
    sd_end();
    int nsess = limit ? 1 : (int)hk_range(1, 3);
    for (int s = 0; s < nsess; s++) {
        char mode = hk_chance(65) ? 'w' : 'r';
        sd_start(mode);
        if (sdid == FAIL) { hk_fail("sd-reopen-failed", "SDstart after a successful SDend"); return; }
        sd_audit_after_reopen();
        if (limit) { for (int i = 0; i < 12; i++) sd_op_query(); }
        else sd_ops((int)hk_range(8, 30));
        sd_end();
    }
}

/* ---- single-change histories: every read-write session after the first makes ONE setter call and nothing else */
enum { SS_ATTR_FILE, SS_ATTR_VAR, SS_ATTR_DIM, SS_ATTR_VALUES, SS_ATTR_RETYPE, SS_SCALE_SAME, SS_SCALE_SAMESIZE, SS_SCALE_OTHERSIZE, SS_SCALE_ANY,
       SS_DIMSTRS, SS_DATASTRS, SS_CAL, SS_RANGE, SS_FILL, SS_DIMNAME, SS_NKINDS };
/* a dimension slot of fixed size, preferably one whose scale is on disk (want_scale) */
static int sd_pick_fixed_slot(int want_scale)
{
    int cand[MAXD], n = 0, cs[MAXD], ns = 0;
    for (int s = 0; s < nslots; s++) { char nm[H4_MAX_NC_NAME + 8]; int32 sz = 0, nt = 0, na;
        if (!slotvk[s].known || SDdiminfo(dimid_of_slot(s), nm, &sz, &nt, &na) == FAIL || sz == 0) continue;
        cand[n++] = s; if (nt != 0) cs[ns++] = s; }
    if (want_scale && ns > 0) return cs[hk_range(0, ns - 1)];
    return n > 0 ? cand[hk_range(0, n - 1)] : -1;
}
static void sd_single_setter(int kind)
{
    int v = sd_nvars > 0 ? (int)hk_range(0, sd_nvars - 1) : -1;
    int s = sd_pick_slot();
    switch (kind) {
    case SS_ATTR_FILE: fz_kind = 0; fz_idx = 0; fz_attr = hk_chance(60) ? 2 : 0; sd_op_setattr(hk_chance(30)); break;
    case SS_ATTR_VAR: if (v < 0) break; fz_kind = 1; fz_idx = v; fz_attr = hk_chance(60) ? 2 : 0; sd_op_setattr(hk_chance(30)); break;
    case SS_ATTR_DIM: if (s < 0) break; fz_kind = 2; fz_idx = s; fz_attr = hk_chance(60) ? 2 : 0; sd_op_setattr(hk_chance(30)); break;
    case SS_ATTR_VALUES: case SS_ATTR_RETYPE: { /* an attribute that is on disk gets new values only / another type and count */
        int q = (int)hk_range(0, 2);
        if (q == 2 && s >= 0) { fz_kind = 2; fz_idx = s; } else if (q >= 1 && v >= 0) { fz_kind = 1; fz_idx = v; } else { fz_kind = 0; fz_idx = 0; }
        fz_attr = kind == SS_ATTR_VALUES ? 1 : 3; sd_op_setattr(0); break; }
    case SS_SCALE_SAME: case SS_SCALE_SAMESIZE: case SS_SCALE_OTHERSIZE: case SS_SCALE_ANY:
        s = sd_pick_fixed_slot(kind != SS_SCALE_ANY); if (s < 0) break;
        sd_op_dim_at(s, 70, kind == SS_SCALE_SAME ? 1 : kind == SS_SCALE_SAMESIZE ? 2 : kind == SS_SCALE_OTHERSIZE ? 3 : 0); break;
    case SS_DIMSTRS: if (s >= 0) sd_op_dim_at(s, 45, 0); break;
    case SS_DATASTRS: if (v >= 0) sd_op_datastrs_at(v, 1); break;
    case SS_CAL: if (v >= 0) sd_op_cal_at(v, 1); break;
    case SS_RANGE: if (v >= 0) sd_op_range_fill_at(v, 0); break;
    case SS_FILL: if (v >= 0) sd_op_range_fill_at(v, 2); break;
    case SS_DIMNAME: if (s >= 0) sd_op_dim_at(s, 0, 0); break;
    }
    fz_kind = -1; fz_attr = 0;
}
static void run_sd_single(int k)
{
    snprintf(fname, sizeof fname, "%s", hk_tmp("sd1"));
    snprintf(fname + strlen(fname), 64, "_%d.hdf", k);
    sd_start('c');
    for (int t = 0; t < 50 && sd_nvars == 0; t++) sd_op_create(0);
    if (sd_nvars == 0) { sd_end(); return; }
    sd_ops((int)hk_range(8, 30));
    /* most dimensions of fixed size get a scale and strings, most datasets their predefined attributes: things to re-set later */
    for (int s = 0; s < nslots; s++) if (slotvk[s].known) { if (hk_chance(60)) sd_op_dim_at(s, 70, 0); if (hk_chance(40)) sd_op_dim_at(s, 45, 0); }
    for (int v = 0, n = sd_nvars; v < n; v++) { if (hk_chance(40)) sd_op_datastrs_at(v, 1); if (hk_chance(30)) sd_op_cal_at(v, 1); if (hk_chance(30)) sd_op_range_fill_at(v, 0); if (hk_chance(30)) sd_op_range_fill_at(v, 2); }
    sd_end();
    int nsess = (int)hk_range(5, 9), first = (int)hk_range(0, SS_NKINDS - 1);
    for (int i = 0; i < nsess; i++) {
        sd_start('w');
        if (sdid == FAIL) { hk_fail("sd-reopen-failed", "SDstart after a successful SDend"); return; }
        sd_audit_after_reopen();
        sd_single = 1;
        sd_single_setter((first + i * 4) % SS_NKINDS); /* 4 is coprime to the number of kinds: a case walks through different families */
        sd_single = 0;
        sd_end();
        if (i == nsess - 1 || hk_chance(60)) { /* the complete audit, scale values included, needs a read-only session */
            sd_start('r');
            if (sdid == FAIL) { hk_fail("sd-reopen-failed", "SDstart after a successful SDend"); return; }
            sd_audit_after_reopen();
            sd_end();
        }
    }
    hk_stat("sd_single_cases", 1);
}

/* =============================================================================================== GR */
#define MAXI 4
static int32 hfid = FAIL, grid = FAIL, riid[MAXI];
static int   gr_w, gr_nimg;
static SList gh_file, gh_img[MAXI], gps_file, gps_img[MAXI]; static int gps_nimg;
static int   gr_new_cached[2 + MAXI][4096]; /* attribute index created in this session and still only cached (per list) */
static int32 gr_id(int o) { return o < 0 ? grid : riid[o]; }
static SList *gr_sh(int o) { return o < 0 ? &gh_file : &gh_img[o]; }
static const char *gr_tok(int o) { static char b[16]; if (o < 0) strcpy(b, "g"); else sprintf(b, "i%d", o); return b; }
static void gr_snapshot(int32 id, SList *l)
{
    sl_free(l);
    for (int i = 0;; i++) { char nm[1024]; int32 nt, cnt;
        if (GRattrinfo(id, i, nm, &nt, &cnt) == FAIL) break;
        int vlen = cnt * ntsz(nt); if (vlen > (int)sizeof outbuf) break;
        GRgetattr(id, i, outbuf); sl_set(l, -1, nm, nt, cnt, outbuf, vlen); }
}
static void gr_audit_list(const char *what, int idx, const SList *exp, int32 id)
{
    SList act = {0}; gr_snapshot(id, &act);
    if (act.n != exp->n) hk_fail("gr-attr-count-changed-on-reopen", "%s %d: %d -> %d", what, idx, exp->n, act.n);
    for (int i = 0; i < exp->n && i < act.n; i++) {
        const SAttr *e = &exp->a[i], *a = &act.a[i];
        if (strcmp(e->name, a->name)) {
            if (strlen(e->name) > FIELDNAMELENMAX && !strncmp(e->name, a->name, FIELDNAMELENMAX) && strlen(a->name) == FIELDNAMELENMAX)
                hk_fail("attr-name-truncated-on-reopen", "GR %s %d attr %d: %d chars -> %d", what, idx, i, (int)strlen(e->name), (int)strlen(a->name));
            else hk_fail("gr-attr-name-changed-on-reopen", "%s %d attr %d", what, idx, i);
        }
        if (e->nt != a->nt) hk_fail("gr-attr-type-changed-on-reopen", "%s %d attr %d", what, idx, i);
        if (e->count != a->count) {
            if (a->count > e->count) hk_fail("gr-attr-shrink-not-persisted", "%s %d attr %d: count %d set, %d after reopen", what, idx, i, (int)e->count, (int)a->count);
            else hk_fail("gr-attr-count-field-changed-on-reopen", "%s %d attr %d: %d -> %d", what, idx, i, (int)e->count, (int)a->count);
        }
        else if (memcmp(e->val, a->val, (size_t)e->vlen)) hk_fail("gr-attr-value-changed-on-reopen", "%s %d attr %d", what, idx, i);
    }
    sl_free(&act);
}
static void gr_start(char mode)
{
    printf("T attr gr.start %c => ", mode);
    hfid = Hopen(fname, mode == 'c' ? DFACC_CREATE : mode == 'w' ? DFACC_RDWR : DFACC_READ, 0);
    grid = hfid == FAIL ? FAIL : GRstart(hfid);
    printf("%s\n", grid == FAIL ? "fail" : "ok");
    gr_w = mode != 'r';
    memset(gr_new_cached, 0, sizeof gr_new_cached);
    if (mode == 'c') { gr_nimg = 0; sl_free(&gh_file); for (int i = 0; i < MAXI; i++) sl_free(&gh_img[i]); return; }
    int32 ni = 0, na = 0; GRfileinfo(grid, &ni, &na);
    printf("T attr gr.fileinfo => %d %d\n", (int)ni, (int)na);
    gr_nimg = ni > MAXI ? MAXI : ni;
    for (int i = 0; i < gr_nimg; i++) riid[i] = GRselect(grid, i);
    if (gr_nimg != gps_nimg) hk_fail("gr-image-count-changed-on-reopen", "%d -> %d", gps_nimg, gr_nimg);
    gr_audit_list("file", 0, &gps_file, grid);
    for (int i = 0; i < gr_nimg && i < gps_nimg; i++) gr_audit_list("image", i, &gps_img[i], riid[i]);
    gr_snapshot(grid, &gh_file);
    for (int i = 0; i < gr_nimg; i++) gr_snapshot(riid[i], &gh_img[i]);
}
static void gr_end(void)
{
    for (int i = 0; i < gr_nimg; i++) GRendaccess(riid[i]);
    printf("T attr gr.end => ");
    int rc = GRend(grid); if (Hclose(hfid) == FAIL) rc = FAIL;
    printf("%s\n", rc == FAIL ? "fail" : "ok");
    if (gr_w) { sl_copy(&gps_file, &gh_file); for (int i = 0; i < MAXI; i++) sl_copy(&gps_img[i], &gh_img[i]); gps_nimg = gr_nimg; }
}
static void gr_readback(int32 id, const SList *l, const char *name, const char *key)
{
    int i = sl_find(l, name); if (i < 0) return;
    char nm[1024]; int32 nt, cnt;
    if (GRfindattr(id, name) != i) { hk_fail(key, "GRfindattr gives %d, shadow %d", (int)GRfindattr(id, name), i); return; }
    if (GRattrinfo(id, i, nm, &nt, &cnt) == FAIL || strcmp(nm, name) || nt != l->a[i].nt || cnt != l->a[i].count) { hk_fail(key, "GRattrinfo %d", i); return; }
    if (GRgetattr(id, i, outbuf) == FAIL || memcmp(outbuf, l->a[i].val, (size_t)l->a[i].vlen)) hk_fail(key, "GRgetattr %d", i);
}
/* GRsetattr on the file (o < 0) or image o; mode 0 = anything, 1 = an existing attribute gets new values (same type and count),
   2 = a new name, 3 = an existing attribute, same type, another count */
static void gr_op_setattr(int o, int mode)
{
    int32 id = gr_id(o); SList *l = gr_sh(o);
    char name[400]; gen_name(name);
    for (char *p = name; *p; p++) if (*p == ',') *p = '_';
    if (l->n > 0 && hk_chance(40)) strcpy(name, l->a[hk_range(0, l->n - 1)].name);
    int pos = sl_find(l, name);
    int32 nt = hk_chance(4) ? gen_bad_nt() : (pos >= 0 && hk_chance(75)) ? l->a[pos].nt : gen_nt(1);
    int sz = ntsz(nt);
    int32 count = hk_chance(3) ? (int32)hk_range(-1, 0) : gen_count(sz);
    if (mode == 2) { while (sl_find(l, name) >= 0 && strlen(name) < 60) strcat(name, "_"); pos = sl_find(l, name); }
    else if (mode && l->n > 0) { pos = (int)hk_range(0, l->n - 1); strcpy(name, l->a[pos].name); nt = l->a[pos].nt; sz = ntsz(nt); if (mode == 1) count = l->a[pos].count; }
    int vlen = count > 0 ? count * sz : 0; if (vlen > BIG * 8) vlen = 8;
    gen_val(valbuf, vlen);
    printf("T attr gr.setattr %s ", gr_tok(o)); pname(name); printf(" %d %d ", (int)nt, (int)count); phex(valbuf, (size_t)vlen);
    int rc = GRsetattr(id, name, nt, count, valbuf);
    printf(" => %s\n", rc == FAIL ? "fail" : "ok");
    int exp = expect_set(K_GR, l, name, nt, count, gr_w);
    int li = o + 1;
    if (rc != FAIL) {
        if (!exp) hk_fail("gr-setattr-unexpected-success", "nt %d count %d", (int)nt, (int)count);
        if (!gr_w) hk_fail("gr-setattr-on-readonly-file-succeeds", "GRsetattr reported success on a file opened DFACC_READ");
        if (pos < 0 && l->n < 4096) gr_new_cached[li][l->n] = vlen < 2048;
        sl_set(l, pos, name, nt, count, valbuf, vlen);
        gr_readback(id, l, name, "gr-get-after-set");
        if (l->n > 1) { int j = (int)hk_range(0, l->n - 1); if (strcmp(l->a[j].name, name)) gr_readback(id, l, l->a[j].name, "gr-frame"); }
    }
    else {
        if (exp) {
            if (pos >= 0 && pos < 4096 && gr_new_cached[li][pos] && vlen > 2048) hk_fail("gr-setattr-grow-of-unwritten-attr-fails", "attr created in this session with < 2048 bytes, re-set with %d bytes", vlen);
            else hk_fail("gr-setattr-unexpected-failure", "nt %d count %d name %d chars", (int)nt, (int)count, (int)strlen(name));
        }
        if (pos >= 0) gr_readback(id, l, name, "gr-failed-set-changed-value");
    }
}
static void gr_ops(int n)
{
    for (int it = 0; it < n; it++) {
        int r = (int)hk_range(0, 99);
        int o = gr_nimg > 0 && hk_chance(55) ? (int)hk_range(0, gr_nimg - 1) : -1;
        int32 id = gr_id(o); SList *l = gr_sh(o);
        if (r < 8 && gr_nimg < 3 && gr_w) {
            char name[400]; gen_name(name); name[hk_range(1, 40) < (long)strlen(name) ? hk_range(1, 40) : strlen(name)] = 0;
            int32 d[2] = {2, 2}; uint8_t px[4] = {1, 2, 3, 4}; int32 st[2] = {0, 0};
            printf("T attr gr.create "); pname(name);
            int32 ri = GRcreate(grid, name, 1, DFNT_UINT8, MFGR_INTERLACE_PIXEL, d);
            if (ri == FAIL) { printf(" => fail\n"); continue; }
            printf(" => %d\n", gr_nimg);
            if (gr_w) GRwriteimage(ri, st, NULL, d, px);
            riid[gr_nimg] = ri; sl_free(&gh_img[gr_nimg]); gr_nimg++;
        }
        else if (r < 55) gr_op_setattr(o, 0);
        else if (r < 70) {
            char name[400]; gen_name(name);
            if (l->n > 0 && hk_chance(70)) strcpy(name, l->a[hk_range(0, l->n - 1)].name);
            printf("T attr gr.findattr %s ", gr_tok(o)); pname(name);
            int32 i = GRfindattr(id, name);
            if (i == FAIL) printf(" => fail\n"); else printf(" => %d\n", (int)i);
            if (i != sl_find(l, name)) hk_fail("gr-findattr", "got %d shadow %d", (int)i, sl_find(l, name));
        }
        else if (r < 92) {
            int i = hk_chance(80) && l->n > 0 ? (int)hk_range(0, l->n - 1) : (int)hk_range(-2, l->n + 2);
            char nm[1024]; int32 nt = 0, cnt = 0;
            if (hk_chance(50)) {
                printf("T attr gr.attrinfo %s %d => ", gr_tok(o), i);
                if (GRattrinfo(id, i, nm, &nt, &cnt) == FAIL) printf("fail\n");
                else { pname(nm); printf(" %d %d\n", (int)nt, (int)cnt);
                    if (i < 0 || i >= l->n || strcmp(nm, l->a[i].name) || nt != l->a[i].nt || cnt != l->a[i].count) hk_fail("gr-attrinfo", "index %d", i); }
            }
            else {
                int vlen = (i >= 0 && i < l->n) ? l->a[i].vlen : 0;
                printf("T attr gr.getattr %s %d => ", gr_tok(o), i);
                if (GRgetattr(id, i, outbuf) == FAIL) printf("fail\n");
                else { phex(outbuf, (size_t)vlen); printf("\n"); if (i < 0 || i >= l->n || memcmp(outbuf, l->a[i].val, (size_t)vlen)) hk_fail("gr-getattr", "index %d", i); }
            }
        }
        else if (o < 0) { int32 ni = 0, na = 0; printf("T attr gr.fileinfo => "); if (GRfileinfo(grid, &ni, &na) == FAIL) printf("fail\n"); else printf("%d %d\n", (int)ni, (int)na); }
        else { char nm[1024]; int32 nc, nt, il, d[2], na; printf("T attr gr.iminfo %d => ", o);
            if (GRgetiminfo(riid[o], nm, &nc, &nt, &il, d, &na) == FAIL) printf("fail\n"); else { pname(nm); printf(" %d\n", (int)na); } }
    }
}
static void run_gr(int k)
{
    snprintf(fname, sizeof fname, "%s", hk_tmp("gr")); snprintf(fname + strlen(fname), 64, "_%d.hdf", k);
    gr_start('c'); gr_ops((int)hk_range(10, 40)); gr_end();
    int nsess = (int)hk_range(1, 3);
    for (int s = 0; s < nsess; s++) { gr_start(hk_chance(70) ? 'w' : 'r'); if (grid == FAIL) { hk_fail("gr-reopen-failed", "-"); return; } gr_ops((int)hk_range(6, 30)); gr_end(); }
}
/* single-change history: after the first session every read-write session makes ONE GRsetattr call; gr_start audits all lists */
static void run_gr_single(int k)
{
    snprintf(fname, sizeof fname, "%s", hk_tmp("gr1")); snprintf(fname + strlen(fname), 64, "_%d.hdf", k);
    gr_start('c'); gr_ops((int)hk_range(15, 40)); gr_end();
    int nsess = (int)hk_range(4, 8), first = (int)hk_range(0, 5);
    for (int i = 0; i < nsess; i++) {
        gr_start('w'); if (grid == FAIL) { hk_fail("gr-reopen-failed", "-"); return; }
        int c = (first + i) % 6; /* file / image  x  new name, values only, another count */
        int o = (c & 1) && gr_nimg > 0 ? (int)hk_range(0, gr_nimg - 1) : -1;
        gr_op_setattr(o, c / 2 == 0 ? 2 : c / 2 == 1 ? 1 : 3);
        gr_end();
    }
    gr_start('r'); if (grid == FAIL) { hk_fail("gr-reopen-failed", "-"); return; }
    gr_end();
    hk_stat("gr_single_cases", 1);
}

/* =============================================================================================== V / VS */
#define MAXO 4
static int32 vfid = FAIL; static int v_w, v_leaked, v_dead;
static int32 v_gen_nt(int pos_nt, int has) { if (hk_chance(1)) return gen_bad_nt(); if (has && hk_chance(70)) return pos_nt; return gen_nt(1); }
static int32 v_gen_count(int sz, int pos_cnt, int has) { if (hk_chance(1)) return (int32)hk_range(-1, 0); if (has && hk_chance(70)) return pos_cnt; int c = gen_count(sz); if ((long)c * sz > MAX_FIELD_SIZE && hk_chance(80)) c = 3; return c; }
static struct { int ref, nf; int32 id; int w; SList f[6]; /* [0] = vdata itself (findex -1), [1+j] = field j */ int total; } vd[MAXO];
static struct { int ref; int32 id; int w; SList a; } vgp[MAXO];
static int nvd, nvg;
static void v_start(char mode)
{
    printf("T attr v.start %c => ", mode);
    vfid = Hopen(fname, mode == 'c' ? DFACC_CREATE : mode == 'w' ? DFACC_RDWR : DFACC_READ, 0);
    int rc = vfid == FAIL ? FAIL : Vstart(vfid);
    printf("%s\n", rc == FAIL ? "fail" : "ok");
    v_w = mode != 'r';
    if (mode == 'c') { nvd = nvg = 0; }
    for (int i = 0; i < MAXO; i++) { vd[i].id = FAIL; vgp[i].id = FAIL; }
}
static void v_end(void)
{
    for (int i = 0; i < nvd; i++) if (vd[i].id != FAIL) { VSdetach(vd[i].id); vd[i].id = FAIL; }
    for (int i = 0; i < nvg; i++) if (vgp[i].id != FAIL) { Vdetach(vgp[i].id); vgp[i].id = FAIL; }
    printf("T attr v.end => ");
    int rc = Vend(vfid); if (Hclose(vfid) == FAIL) rc = FAIL;
    printf("%s\n", rc == FAIL ? "fail" : "ok");
    if (rc == FAIL) { v_dead = 1; /* the library still holds the file: nothing more can be said about this case */
        if (v_leaked) hk_fail("v-failed-setattr-leaves-file-unclosable", "a VSsetattr/Vsetattr that failed while creating the attribute Vdata left it attached: Hclose reports active AIDs");
        else hk_fail("v-close-failed", "-"); }
}
static void vs_readback(int o, int fx, const char *name, const char *key)
{
    SList *l = &vd[o].f[fx + 1]; int i = sl_find(l, name); if (i < 0) return;
    char nm[256]; int32 nt, cnt, sz;
    int fi = VSfindattr(vd[o].id, fx, name);
    if (fi != i) { hk_fail(key, "VSfindattr gives %d, shadow %d", fi, i); return; }
    if (VSattrinfo(vd[o].id, fx, i, nm, &nt, &cnt, &sz) == FAIL || strcmp(nm, name) || nt != l->a[i].nt || cnt != l->a[i].count) { hk_fail(key, "VSattrinfo %d", i); return; }
    if (VSgetattr(vd[o].id, fx, i, outbuf) == FAIL || memcmp(outbuf, l->a[i].val, (size_t)l->a[i].vlen)) hk_fail(key, "VSgetattr %d", i);
}
static void vg_readback(int o, const char *name, const char *key)
{
    SList *l = &vgp[o].a; int i = sl_find(l, name); if (i < 0) return;
    char nm[256]; int32 nt, cnt, sz;
    int fi = Vfindattr(vgp[o].id, name);
    if (fi != i) { hk_fail(key, "Vfindattr gives %d, shadow %d", fi, i); return; }
    if (Vattrinfo(vgp[o].id, i, nm, &nt, &cnt, &sz) == FAIL || strcmp(nm, name) || nt != l->a[i].nt || cnt != l->a[i].count) { hk_fail(key, "Vattrinfo %d", i); return; }
    if (Vgetattr(vgp[o].id, i, outbuf) == FAIL || memcmp(outbuf, l->a[i].val, (size_t)l->a[i].vlen)) hk_fail(key, "Vgetattr %d", i);
}
static void vs_resync(int o, int fx)
{
    SList *l = &vd[o].f[fx + 1]; sl_free(l);
    int n = VSfnattrs(vd[o].id, fx);
    for (int i = 0; i < n; i++) { char nm[256]; int32 nt, cnt, sz; if (VSattrinfo(vd[o].id, fx, i, nm, &nt, &cnt, &sz) == FAIL) break;
        VSgetattr(vd[o].id, fx, i, outbuf); sl_set(l, -1, nm, nt, cnt, outbuf, cnt * ntsz(nt)); }
}
static void vg_resync(int o)
{
    SList *l = &vgp[o].a; sl_free(l);
    int n = Vnattrs(vgp[o].id);
    for (int i = 0; i < n; i++) { char nm[256]; int32 nt, cnt, sz; if (Vattrinfo(vgp[o].id, i, nm, &nt, &cnt, &sz) == FAIL) break;
        Vgetattr(vgp[o].id, i, outbuf); sl_set(l, -1, nm, nt, cnt, outbuf, cnt * ntsz(nt)); }
}
static void gen_vname(char *name, const SList *l)
{
    gen_name(name);
    if (strlen(name) > 200) name[200] = 0;
    if (l->n > 0 && hk_chance(40)) strcpy(name, l->a[hk_range(0, l->n - 1)].name);
}
/* VSsetattr on Vdata o, field fx (-1 = the Vdata itself); mode 0 = anything, 1 = an existing attribute gets new values, 2 = a new name */
static void v_op_vs_setattr(int o, int fx, int mode)
{
    int okfx = fx >= -1 && fx < vd[o].nf;
    SList *l = &vd[o].f[okfx ? fx + 1 : 0];
    char name[400], tname[400]; gen_vname(name, l);
    strcpy(tname, name); tname[VSNAMELENMAX] = 0; /* the name as a vdata name holds it */
    int pos = okfx ? sl_find(l, tname) : -1;
    int32 nt = v_gen_nt(pos >= 0 ? l->a[pos].nt : 0, pos >= 0);
    int sz = ntsz(nt);
    int32 count = v_gen_count(sz, pos >= 0 ? l->a[pos].count : 0, pos >= 0);
    if (mode == 2) { while (sl_find(l, tname) >= 0 && strlen(name) < 60) { strcat(name, "_"); strcpy(tname, name); } pos = okfx ? sl_find(l, tname) : -1; }
    else if (mode == 1 && okfx && l->n > 0) { pos = (int)hk_range(0, l->n - 1); strcpy(name, l->a[pos].name); strcpy(tname, name); nt = l->a[pos].nt; sz = ntsz(nt); count = l->a[pos].count; }
    int vlen = count > 0 ? count * sz : 0; if (vlen > BIG * 8) vlen = 8;
    gen_val(valbuf, vlen);
    printf("T attr vs.setattr %d %d ", o, fx); pname(name); printf(" %d %d ", (int)nt, (int)count); phex(valbuf, (size_t)vlen);
    int rc = VSsetattr(vd[o].id, fx, name, nt, count, valbuf);
    printf(" => %s\n", rc == FAIL ? "fail" : "ok");
    int exp = okfx && expect_set(K_VS, l, tname, nt, count, vd[o].w);
    if (rc != FAIL) {
        if (!exp) hk_fail("vs-setattr-unexpected-success", "nt %d count %d fx %d", (int)nt, (int)count, fx);
        if (pos < 0) vd[o].total++;
        sl_set(l, pos, tname, nt, count, valbuf, vlen);
        if (VSfindattr(vd[o].id, fx, name) != sl_find(l, tname) || VSfnattrs(vd[o].id, fx) != l->n) { /* a long name must be found again and never duplicated */
            hk_fail("vs-attr-name-truncated", "VSsetattr with a %d-char name: lookup by that name gives %d (want %d), %d attributes (want %d)", (int)strlen(name), VSfindattr(vd[o].id, fx, name), sl_find(l, tname), VSfnattrs(vd[o].id, fx), l->n); vs_resync(o, fx); return; }
        vs_readback(o, fx, tname, "vs-get-after-set");
        if (l->n > 1) { int j = (int)hk_range(0, l->n - 1); if (strcmp(l->a[j].name, tname)) vs_readback(o, fx, l->a[j].name, "vs-frame"); }
    }
    else {
        if (pos < 0 && okfx && vd[o].w) v_leaked = 1;
        if (exp) hk_fail("vs-setattr-unexpected-failure", "nt %d count %d", (int)nt, (int)count);
        if (pos >= 0) vs_readback(o, fx, tname, "vs-failed-set-changed-value");
    }
}
/* Vsetattr on Vgroup o; modes as for v_op_vs_setattr */
static void v_op_vg_setattr(int o, int mode)
{
    SList *l = &vgp[o].a;
    char name[400], tname[400]; gen_vname(name, l);
    strcpy(tname, name); tname[VSNAMELENMAX] = 0;
    int pos = sl_find(l, tname);
    int32 nt = v_gen_nt(pos >= 0 ? l->a[pos].nt : 0, pos >= 0);
    int sz = ntsz(nt);
    int32 count = v_gen_count(sz, pos >= 0 ? l->a[pos].count : 0, pos >= 0);
    if (mode == 2) { while (sl_find(l, tname) >= 0 && strlen(name) < 60) { strcat(name, "_"); strcpy(tname, name); } pos = sl_find(l, tname); }
    else if (mode == 1 && l->n > 0) { pos = (int)hk_range(0, l->n - 1); strcpy(name, l->a[pos].name); strcpy(tname, name); nt = l->a[pos].nt; sz = ntsz(nt); count = l->a[pos].count; }
    int vlen = count > 0 ? count * sz : 0; if (vlen > BIG * 8) vlen = 8;
    gen_val(valbuf, vlen);
    printf("T attr vg.setattr %d ", o); pname(name); printf(" %d %d ", (int)nt, (int)count); phex(valbuf, (size_t)vlen);
    int rc = Vsetattr(vgp[o].id, name, nt, count, valbuf);
    printf(" => %s\n", rc == FAIL ? "fail" : "ok");
    int exp = expect_set(K_VS, l, tname, nt, count, vgp[o].w);
    if (rc != FAIL) {
        if (!exp) hk_fail("vg-setattr-unexpected-success", "nt %d count %d", (int)nt, (int)count);
        sl_set(l, pos, tname, nt, count, valbuf, vlen);
        if (Vfindattr(vgp[o].id, name) != sl_find(l, tname) || Vnattrs(vgp[o].id) != l->n) {
            hk_fail("vs-attr-name-truncated", "Vsetattr with a %d-char name: lookup by that name gives %d (want %d), %d attributes (want %d)", (int)strlen(name), Vfindattr(vgp[o].id, name), sl_find(l, tname), Vnattrs(vgp[o].id), l->n); vg_resync(o); return; }
        vg_readback(o, tname, "vg-get-after-set");
        if (l->n > 1) { int j = (int)hk_range(0, l->n - 1); if (strcmp(l->a[j].name, tname)) vg_readback(o, l->a[j].name, "vg-frame"); }
    }
    else {
        if (pos < 0 && vgp[o].w) v_leaked = 1;
        if (exp) hk_fail("vg-setattr-unexpected-failure", "nt %d count %d", (int)nt, (int)count);
        if (pos >= 0) vg_readback(o, tname, "vg-failed-set-changed-value");
    }
}
static void v_ops(int n)
{
    for (int it = 0; it < n; it++) {
        int r = (int)hk_range(0, 99);
        if (r < 6 && nvd < 3 && v_w) {
            int nf = (int)hk_range(1, 4);
            printf("T attr vs.create %d => ", nf);
            int32 id = VSattach(vfid, -1, "w");
            if (id == FAIL) { printf("fail\n"); continue; }
            char fl[64] = ""; int32 rec[4] = {1, 2, 3, 4};
            for (int j = 0; j < nf; j++) { char fn[8]; sprintf(fn, "f%d", j); VSfdefine(id, fn, DFNT_INT32, 1); strcat(fl, j ? "," : ""); strcat(fl, fn); }
            VSsetfields(id, fl); VSwrite(id, (uint8 *)rec, 1, FULL_INTERLACE);
            char vn[16]; sprintf(vn, "vd%d", nvd); VSsetname(id, vn);
            printf("%d\n", nvd);
            vd[nvd].ref = VSQueryref(id); vd[nvd].nf = nf; vd[nvd].id = id; vd[nvd].w = 1; vd[nvd].total = 0;
            for (int j = 0; j < 6; j++) sl_free(&vd[nvd].f[j]);
            nvd++;
        }
        else if (r < 12 && nvg < 3 && v_w) {
            printf("T attr vg.create => ");
            int32 id = Vattach(vfid, -1, "w");
            if (id == FAIL) { printf("fail\n"); continue; }
            char vn[16]; sprintf(vn, "vg%d", nvg); Vsetname(id, vn);
            printf("%d\n", nvg);
            vgp[nvg].ref = VQueryref(id); vgp[nvg].id = id; vgp[nvg].w = 1; sl_free(&vgp[nvg].a);
            nvg++;
        }
        else if (r < 22) { /* attach / detach */
            if (hk_chance(50) && nvd > 0) { int o = (int)hk_range(0, nvd - 1);
                if (vd[o].id != FAIL) { printf("T attr vs.detach %d => ", o); int rc = VSdetach(vd[o].id); printf("%s\n", rc == FAIL ? "fail" : "ok"); vd[o].id = FAIL; }
                else { int w = hk_chance(70); printf("T attr vs.attach %d %s => ", o, w ? "w" : "r"); vd[o].id = VSattach(vfid, vd[o].ref, w ? "w" : "r"); vd[o].w = w; printf("%s\n", vd[o].id == FAIL ? "fail" : "ok"); } }
            else if (nvg > 0) { int o = (int)hk_range(0, nvg - 1);
                if (vgp[o].id != FAIL) { printf("T attr vg.detach %d => ", o); int rc = Vdetach(vgp[o].id); printf("%s\n", rc == FAIL ? "fail" : "ok"); vgp[o].id = FAIL; }
                else { int w = hk_chance(70); printf("T attr vg.attach %d %s => ", o, w ? "w" : "r"); vgp[o].id = Vattach(vfid, vgp[o].ref, w ? "w" : "r"); vgp[o].w = w; printf("%s\n", vgp[o].id == FAIL ? "fail" : "ok"); } }
        }
        else if (r < 60 && nvd > 0) { /* Vdata / field attribute */
            int o = (int)hk_range(0, nvd - 1); if (vd[o].id == FAIL) continue;
            int fx = hk_chance(6) ? (int)hk_range(vd[o].nf, vd[o].nf + 1) : (int)hk_range(-1, vd[o].nf - 1);
            int okfx = fx >= -1 && fx < vd[o].nf;
            SList *l = &vd[o].f[okfx ? fx + 1 : 0];
            int q = (int)hk_range(0, 99);
            if (q < 50) v_op_vs_setattr(o, fx, 0);
            else if (q < 60) { printf("T attr vs.nattrs %d => %d\n", o, VSnattrs(vd[o].id)); }
            else if (q < 70) { int n2 = VSfnattrs(vd[o].id, fx); printf("T attr vs.fnattrs %d %d => ", o, fx); if (n2 == FAIL) printf("fail\n"); else printf("%d\n", n2); }
            else if (q < 80) { char name[400]; gen_vname(name, l);
                printf("T attr vs.findattr %d %d ", o, fx); pname(name); int i = VSfindattr(vd[o].id, fx, name); if (i == FAIL) printf(" => fail\n"); else printf(" => %d\n", i); }
            else { int i = hk_chance(75) && l->n > 0 ? (int)hk_range(0, l->n - 1) : (int)hk_range(-2, l->n + 2);
                char nm[256]; int32 nt, cnt, sz;
                if (hk_chance(50)) { printf("T attr vs.attrinfo %d %d %d => ", o, fx, i);
                    if (VSattrinfo(vd[o].id, fx, i, nm, &nt, &cnt, &sz) == FAIL) printf("fail\n"); else { pname(nm); printf(" %d %d %d\n", (int)nt, (int)cnt, (int)sz); } }
                else { int32 vl = 0; printf("T attr vs.getattr %d %d %d => ", o, fx, i);
                    if (VSattrinfo(vd[o].id, fx, i, nm, &nt, &cnt, &vl) == FAIL) vl = 0;
                    if (VSgetattr(vd[o].id, fx, i, outbuf) == FAIL) printf("fail\n"); else { phex(outbuf, (size_t)vl); printf("\n"); } } }
        }
        else if (nvg > 0) { /* Vgroup attribute */
            int o = (int)hk_range(0, nvg - 1); if (vgp[o].id == FAIL) continue;
            SList *l = &vgp[o].a;
            int q = (int)hk_range(0, 99);
            if (q < 50) v_op_vg_setattr(o, 0);
            else if (q < 62) printf("T attr vg.nattrs %d => %d\n", o, Vnattrs(vgp[o].id));
            else if (q < 75) { char name[400]; gen_vname(name, l);
                printf("T attr vg.findattr %d ", o); pname(name); int i = Vfindattr(vgp[o].id, name); if (i == FAIL) printf(" => fail\n"); else printf(" => %d\n", i); }
            else { int na = Vnattrs(vgp[o].id); int i = hk_chance(75) && na > 0 ? (int)hk_range(0, na - 1) : (int)hk_range(-2, na + 2);
                char nm[256]; int32 nt, cnt, sz;
                if (hk_chance(50)) { printf("T attr vg.attrinfo %d %d => ", o, i);
                    if (Vattrinfo(vgp[o].id, i, nm, &nt, &cnt, &sz) == FAIL) printf("fail\n"); else { pname(nm); printf(" %d %d %d\n", (int)nt, (int)cnt, (int)sz); } }
                else { int32 vl = 0; printf("T attr vg.getattr %d %d => ", o, i);
                    if (Vattrinfo(vgp[o].id, i, nm, &nt, &cnt, &vl) == FAIL) vl = 0;
                    if (Vgetattr(vgp[o].id, i, outbuf) == FAIL) printf("fail\n"); else { phex(outbuf, (size_t)vl); printf("\n"); } } }
        }
    }
}
static void v_audit_after_reopen(void)
{
    /* everything set so far must still be there: attach "r" and compare with the shadow */
    for (int o = 0; o < nvd; o++) {
        printf("T attr vs.attach %d r => ", o); vd[o].id = VSattach(vfid, vd[o].ref, "r"); vd[o].w = 0; printf("%s\n", vd[o].id == FAIL ? "fail" : "ok");
        if (vd[o].id == FAIL) { hk_fail("vs-reattach-failed", "-"); continue; }
        for (int fx = -1; fx < vd[o].nf; fx++) { SList *l = &vd[o].f[fx + 1]; for (int i = 0; i < l->n; i++) vs_readback(o, fx, l->a[i].name, "vs-attr-lost-on-reopen"); }
    }
    for (int o = 0; o < nvg; o++) {
        printf("T attr vg.attach %d r => ", o); vgp[o].id = Vattach(vfid, vgp[o].ref, "r"); vgp[o].w = 0; printf("%s\n", vgp[o].id == FAIL ? "fail" : "ok");
        if (vgp[o].id == FAIL) { hk_fail("vg-reattach-failed", "-"); continue; }
        for (int i = 0; i < vgp[o].a.n; i++) vg_readback(o, vgp[o].a.a[i].name, "vg-attr-lost-on-reopen");
    }
}
static void run_v(int k)
{
    snprintf(fname, sizeof fname, "%s", hk_tmp("v")); snprintf(fname + strlen(fname), 64, "_%d.hdf", k);
    v_leaked = v_dead = 0;
    v_start('c'); v_ops((int)hk_range(15, 50)); v_end();
    int nsess = (int)hk_range(1, 3);
    for (int s = 0; s < nsess && !v_dead; s++) { v_start(hk_chance(70) ? 'w' : 'r'); if (vfid == FAIL) { hk_fail("v-reopen-failed", "-"); return; } v_audit_after_reopen(); v_ops((int)hk_range(8, 30)); v_end(); }
}

/* single-change history: after the first session every read-write session attaches ONE object for writing and makes ONE
   VSsetattr / Vsetattr call on it; the next session's audit compares every attribute of every object */
static void run_v_single(int k)
{
    snprintf(fname, sizeof fname, "%s", hk_tmp("v1")); snprintf(fname + strlen(fname), 64, "_%d.hdf", k);
    v_leaked = v_dead = 0;
    v_start('c'); v_ops((int)hk_range(25, 60)); v_end();
    int nsess = (int)hk_range(4, 8), first = (int)hk_range(0, 5);
    for (int i = 0; i < nsess && !v_dead; i++) {
        v_start('w'); if (vfid == FAIL) { hk_fail("v-reopen-failed", "-"); return; }
        v_audit_after_reopen();
        int c = (first + i) % 6; /* Vdata / field / Vgroup  x  new name, values only */
        int mode = c & 1 ? 1 : 2;
        if (c / 2 < 2 && nvd > 0) { int o = (int)hk_range(0, nvd - 1);
            int fx = c / 2 == 0 ? -1 : (int)hk_range(0, vd[o].nf - 1);
            if (vd[o].id != FAIL) { printf("T attr vs.detach %d => ", o); int rc = VSdetach(vd[o].id); printf("%s\n", rc == FAIL ? "fail" : "ok"); }
            printf("T attr vs.attach %d w => ", o); vd[o].id = VSattach(vfid, vd[o].ref, "w"); vd[o].w = 1; printf("%s\n", vd[o].id == FAIL ? "fail" : "ok");
            if (vd[o].id != FAIL) v_op_vs_setattr(o, fx, mode); }
        else if (nvg > 0) { int o = (int)hk_range(0, nvg - 1);
            if (vgp[o].id != FAIL) { printf("T attr vg.detach %d => ", o); int rc = Vdetach(vgp[o].id); printf("%s\n", rc == FAIL ? "fail" : "ok"); }
            printf("T attr vg.attach %d w => ", o); vgp[o].id = Vattach(vfid, vgp[o].ref, "w"); vgp[o].w = 1; printf("%s\n", vgp[o].id == FAIL ? "fail" : "ok");
            if (vgp[o].id != FAIL) v_op_vg_setattr(o, mode); }
        v_end();
    }
    if (!v_dead) { v_start('r'); if (vfid == FAIL) { hk_fail("v-reopen-failed", "-"); return; } v_audit_after_reopen(); v_end(); }
    hk_stat("v_single_cases", 1);
}

static void run_case(int k)
{
    int fl = k % 8, single = (k / 8) % 2 == 1;
    if (single && (fl == 1 || fl == 4)) run_sd_single(k);
    else if (single && fl == 6) run_gr_single(k);
    else if (single && fl == 7) run_v_single(k);
    else if (fl == 3) run_sd(k, (k / 8) % 3 == 0);
    else if (fl <= 4) run_sd(k, 0);
    else if (fl <= 6) run_gr(k);
    else run_v(k);
    hk_stat(fl <= 4 ? "sd_cases" : fl <= 6 ? "gr_cases" : "v_cases", 1);
}
int main(int argc, char **argv) { return hk_main(argc, argv, "attr"); }
