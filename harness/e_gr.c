/* e_gr - Tie-B engine for C09 part "region / stride / fill / palette": the real GR API of hdf/src/mfgr.c.
 *
 * One case = one file with one raster image (W,H in 1..9, sometimes up to 40; ncomp 1..5; every number type, also
 * |DFNT_LITEND and |DFNT_NATIVE; interlace at GRcreate in {pixel,line,component}); storage plain, compressed
 * (RLE / deflate / skipping huffman) or chunked (optionally compressed chunks, cache 1..4); FILL_ATTR set or not.
 * Then a random sequence of: region writes and reads (solid and strided, mostly valid and boundary-biased, some
 * outside the image: must FAIL and change nothing), GRreqimageil, GRendaccess+GRselect, GRend/Hclose/reopen,
 * dump of the raw DFTAG_RI element (plain storage), GRgetiminfo, palette writes/reads (valid 256x3 uint8 and
 * shapes the API must refuse), GRreqlutil, GRgetlutinfo.
 *
 * SEVERAL RI IDS ON ONE IMAGE (about half of the cases): the image is open through up to three ids at once (the GRcreate
 * id plus GRselect ids, or several GRselect ids after a reopen); all ids are atoms for one ri_info_t, so they are views of
 * ONE image state. Every call (FILL_ATTR, GRsetcompress, GRsetchunk, region writes and reads, GRreqimageil, palette,
 * a user attribute) goes through a randomly chosen open id; ids are added (GRselect) and released (GRendaccess) between
 * the calls while the others keep working - also the id that wrote the FIRST data of a new image, also the last open id
 * (then the element's access id is closed and a compressed image is flushed); a released id must be refused. The
 * shadow is one array per image whatever id is used.
 *
 * T lines (replayed by the Lean model H4.GRegion through H4.Driver.GR):
 *   T gr create W H ncomp nt il => ok            T gr setfill <hex pixel>        => ok
 *   T gr setcomp => ok                           T gr setchunk                   => ok
 *   T gr reqil il => ok|fail                     T gr reopen => ok               T gr info => W,H,ncomp,nt,il
 *   T gr write sx sy tx ty cx cy <hex buffer in the create interlace>            => ok|fail
 *   T gr read  sx sy tx ty cx cy => <hex buffer in the requested interlace>|fail
 *   T gr raw => <hex of the DFTAG_RI element>|none      (placement, not only net effect)
 *   T gr wlut ncomp nt il n <hex> => ok|fail     T gr reqlutil il => ok|fail
 *   T gr rlut => <hex 768 bytes>                 T gr lutinfo => ncomp,nt,il,nentries
 *   T gr select k => ok      (GRselect into handle k of the model)      T gr endaccess k => ok|fail
 *   T gr use k => ok         (the following calls go through handle k; through a released handle they must fail)
 *
 * Oracles (implementation only, shadow H x W x ncomp array in MEMORY byte order, independent of the model):
 *   gr-read-data            a read returned something else than the last written components / the fill value
 *                           (through whichever id the data were written and are read)
 *   gr-stale-id:<op>        a call through an id that was released with GRendaccess succeeded
 *   gr-attr-data            a user attribute set through one id is not what another id / the next session reads
 *   gr-first-write-fill     after the first partial write a never-written pixel is not the fill value (whole-image read)
 *   gr-valid-rejected:<op>  a valid request returned FAIL
 *   gr-range-unchecked:<op> a request reaching outside the image (or with stride/count < 1, start < 0) succeeded
 *   gr-raw-length           the DFTAG_RI element of a plain image is not W*H*pixel_size bytes long
 *   gr-info                 GRgetiminfo after create / reopen differs from what GRcreate was given
 *   gr-lut-data / gr-lut-accepted / gr-lut-info   palette round trip, unsupported shape accepted, wrong info
 *   gr-api:<fn>             another API call failed
 *   gr-dup-image            after reopen the file lists more than the one image that was created
 *   gr-native-alias:<what>  DFNT_NATIVE image: number type reported as something else than native/its little-endian alias
 *                           after reopen, or GRendaccess/Hclose failing because of it
 *
 * Compressed (non-chunked) images are tied like all others since the gr-comp repairs (buffered whole-element rewrite): reads
 * and further partial writes in the session that created the data, partial rewrites after reopen, GRendaccess+GRselect between.
 */
#ifdef GR_MUT_SRC /* mutation sanity: a mutated private copy of mfgr.c replaces the library object */
#include GR_MUT_SRC
#endif
#include "hdf.h"
#include "mfgr.h"
#include "hk.h"

#define MAXW 40
#define MAXNC 5
#define MAXPSZ (MAXNC * 8)

static const int32 NTS[] = {DFNT_UCHAR8, DFNT_CHAR8, DFNT_INT8, DFNT_UINT8, DFNT_INT16,
                            DFNT_UINT16, DFNT_INT32, DFNT_UINT32, DFNT_FLOAT32, DFNT_FLOAT64};

static int W, H, NC, ESZ, PSZ, IL, IMIL, LUTIL;
static int32 NT;
static uint8_t shadow[MAXW][MAXW][MAXPSZ]; /* [y][x][memory-format pixel] */
static uint8_t fillpix[MAXPSZ];
static int have_lut;
static uint8_t lut_shadow[768];
static int32 fid = FAIL, grid = FAIL, riid = FAIL; /* riid = the id the next call goes through = slot[cur] */
#define NSLOT 3
static int32 slot[NSLOT];  /* RI ids of the one image; a released id is kept to probe that it is refused */
static int sopen[NSLOT];   /* slot holds an open id */
static int cur;            /* current slot */
static int multi;          /* case uses several ids at once */
static int have_attr, attr_n;
static int32 attr_shadow[4];
static char fname[800];
static int plain, chunked, compressed;
static int any_write;
static int native_case;
static int poisoned; /* a GRendaccess of a DFNT_NATIVE image failed (gr-native-alias): its AID leaked, later results are its aftermath */

static const char *datakey(const char *dflt) { return poisoned ? "gr-native-alias:aftermath" : dflt; }
static const char *rejkey(const char *dflt) { return poisoned ? "gr-native-alias:aftermath" : dflt; }

/* textbook element index of component (x,y,c) in a w x h x nc buffer with interlace il */
static size_t addr(int il, int w, int h, int nc, int x, int y, int c)
{
    switch (il) {
        case MFGR_INTERLACE_PIXEL: return ((size_t)y * w + x) * nc + c;
        case MFGR_INTERLACE_LINE: return ((size_t)y * nc + c) * w + x;
        default: return ((size_t)c * h + y) * w + x;
    }
}

/* innermost and outermost entries of the HDF error stack, for the failure text */
static const char *errtxt(void)
{
    static char b[256];
    int32 lvl = 0;
    while (lvl < 16 && HEvalue(lvl + 1) != DFE_NONE) lvl++;
    snprintf(b, sizeof b, "[%s <- %s]", HEstring((hdf_err_code_t)HEvalue(1)), HEstring((hdf_err_code_t)HEvalue(lvl)));
    return b;
}


static int nopen(void) { int n = 0; for (int i = 0; i < NSLOT; i++) n += sopen[i]; return n; }

/* the following calls go through handle k */
static void use_slot(int k)
{
    if (k == cur) return;
    cur = k; riid = slot[k];
    printf("T gr use %d => ok\n", k);
}

/* several ids: the next call goes through a randomly chosen open id */
static void pick_slot(void)
{
    if (!multi || nopen() < 2 || !hk_chance(65)) return;
    int k;
    do k = (int)hk_range(0, NSLOT - 1); while (!sopen[k]);
    use_slot(k);
}

/* GRselect of the image into the free handle k */
static int select_slot(int k)
{
    slot[k] = GRselect(grid, 0);
    if (slot[k] == FAIL) { hk_fail("gr-api:GRselect", "handle %d: %s", k, errtxt()); return 0; }
    sopen[k] = 1;
    if (k == cur) riid = slot[k];
    printf("T gr select %d => ok\n", k);
    return 1;
}

/* GRendaccess of handle k; the other ids of the image stay valid */
static void end_slot(int k)
{
    intn rc = GRendaccess(slot[k]);
    if (rc == FAIL) { hk_fail(native_case ? "gr-native-alias:GRendaccess" : "gr-api:GRendaccess", "%s", errtxt()); if (native_case) poisoned = 1; }
    if (!poisoned) printf("T gr endaccess %d => %s\n", k, rc == FAIL ? "fail" : "ok");
    sopen[k] = 0;
    hk_stat(nopen() ? "endaccess_others_open" : "endaccess_last", 1);
}

/* a released id must be refused (and the refusal must not disturb the image the other ids still work on) */
static void probe_stale(int k)
{
    int back = cur;
    int32 s[2] = {0, 0}, c[2] = {1, 1};
    uint8_t buf[MAXPSZ];
    if (poisoned) return;
    use_slot(k);
    if (hk_chance(50)) {
        memset(buf, 0x33, sizeof buf);
        intn rc = GRreadimage(riid, s, NULL, c, buf);
        printf("T gr read 0 0 1 1 1 1 => ");
        if (rc == FAIL) printf("fail\n"); else { hk_hex(buf, (size_t)PSZ); printf("\n"); }
        if (rc != FAIL) hk_fail("gr-stale-id:read", "GRreadimage through a released id succeeded");
    }
    else {
        for (int i = 0; i < PSZ; i++) buf[i] = (uint8_t)(0x90 + i);
        intn rc = GRwriteimage(riid, s, NULL, c, buf);
        printf("T gr write 0 0 1 1 1 1 "); hk_hex(buf, (size_t)PSZ); printf(" => %s\n", rc == FAIL ? "fail" : "ok");
        if (rc != FAIL) { hk_fail("gr-stale-id:write", "GRwriteimage through a released id succeeded"); memcpy(shadow[0][0], buf, (size_t)PSZ); }
    }
    hk_stat("stale_probe", 1);
    if (!sopen[back]) for (back = 0; back < NSLOT && !sopen[back]; back++) ;
    if (back < NSLOT) use_slot(back); /* else: no id is open right now, the caller selects one */
}

static void attr_check(const char *when)
{
    int32 ix = GRfindattr(riid, "note"), nt = -1, cnt = -1, got[4] = {0, 0, 0, 0};
    char nm[256];
    if (!have_attr) return;
    if (ix == FAIL) { hk_fail("gr-attr-data", "%s: attribute 'note' not found", when); return; }
    if (GRattrinfo(riid, ix, nm, &nt, &cnt) == FAIL || nt != DFNT_INT32 || cnt != attr_n) {
        /* a LARGER count than the one set last, seen after a reopen, is the known finding of C10 (a re-set with fewer values is not persisted:
           the attribute's vdata is overwritten from record 0 and never shortened); everything else keeps the general key */
        int shrink = nt == DFNT_INT32 && cnt > attr_n && strstr(when, "reopen") != NULL;
        hk_fail(shrink ? "gr-attr-shrink-not-persisted" : "gr-attr-data", "%s: GRattrinfo: nt %d count %d, set int32 x%d", when, (int)nt, (int)cnt, attr_n); return; }
    if (GRgetattr(riid, ix, got) == FAIL || memcmp(got, attr_shadow, sizeof(int32) * (size_t)attr_n) != 0)
        hk_fail("gr-attr-data", "%s: value %d.. differs from the one set (%d..), count %d", when, (int)got[0], (int)attr_shadow[0], attr_n);
}

/* a user attribute of the image, set through one id, read through another and in the next session (implementation-side only) */
static void op_attr(void)
{
    if (hk_chance(55) || !have_attr) {
        attr_n = (int)hk_range(1, 4);
        int32 v[4];
        for (int i = 0; i < attr_n; i++) v[i] = (int32)hk_range(-100000, 100000);
        pick_slot();
        if (GRsetattr(riid, "note", DFNT_INT32, attr_n, v) == FAIL) { hk_fail("gr-api:GRsetattr", "note x%d: %s", attr_n, errtxt()); return; }
        memcpy(attr_shadow, v, sizeof v);
        have_attr = 1;
        hk_stat("attr_set", 1);
    }
    pick_slot();
    attr_check("same session");
}

static void do_open(int create)
{
    fid = Hopen(fname, create ? DFACC_CREATE : DFACC_RDWR, 0);
    if (fid == FAIL) { hk_fail("gr-api:Hopen", "create=%d", create); return; }
    grid = GRstart(fid);
    if (grid == FAIL) hk_fail("gr-api:GRstart", "create=%d", create);
}

static void do_close(void)
{
    /* release every open id (any order: the last one closes the element's access id), no T lines: `reopen` does it in the model */
    for (int n = nopen(), st = (int)hk_range(0, NSLOT - 1); n > 0; st++)
        if (sopen[st % NSLOT]) {
            sopen[st % NSLOT] = 0; n--;
            if (GRendaccess(slot[st % NSLOT]) == FAIL) { hk_fail(native_case ? "gr-native-alias:GRendaccess" : "gr-api:GRendaccess", "%s", errtxt()); if (native_case) poisoned = 1; }
        }
    if (grid != FAIL && GRend(grid) == FAIL) hk_fail("gr-api:GRend", "%s", errtxt());
    if (fid != FAIL && Hclose(fid) == FAIL) hk_fail(poisoned ? "gr-native-alias:Hclose" : "gr-api:Hclose", "%s", errtxt());
    riid = grid = fid = FAIL;
}

static void check_info(const char *when)
{
    char name[256];
    int32 nc = -1, nt = -1, il = -1, dims[2] = {-1, -1}, na = -1;
    if (GRgetiminfo(riid, name, &nc, &nt, &il, dims, &na) == FAIL) { hk_fail("gr-api:GRgetiminfo", "%s", when); return; }
    printf("T gr info => %d,%d,%d,%d,%d\n", (int)dims[0], (int)dims[1], (int)nc, (int)nt, (int)il);
    if (nt != NT && (NT & DFNT_NATIVE) && (nt == ((NT & ~DFNT_NATIVE) | DFNT_LITEND) || nt == (NT & ~DFNT_NATIVE))) {
        /* the NT record stores the machine subclass; on this host "native" and "little endian" (or, for chars,
           "standard") are the same subclass, so a native image comes back under its alias: same bytes, same values */
        hk_stat("native_alias", 1);
        NT = nt;
    }
    if (dims[0] != W || dims[1] != H || nc != NC || nt != NT || il != IL || strcmp(name, "img") != 0)
        hk_fail("gr-info", "%s: got %dx%d nc=%d nt=%d il=%d name=%s, created %dx%d nc=%d nt=%d il=%d", when, (int)dims[0],
                (int)dims[1], (int)nc, (int)nt, (int)il, name, W, H, NC, (int)NT, IL);
}

/* pick a request; kind 0 = valid, 1 = outside the image / insane */
static void pick_req(int bad, int32 s[2], int32 t[2], int32 c[2])
{
    int dimv[2] = {W, H};
    for (int d = 0; d < 2; d++) {
        int n = dimv[d];
        int st = hk_chance(55) ? 1 : (int)hk_range(1, n < 4 ? n + 1 : 4);
        int maxc, start;
        if (hk_chance(25)) { start = 0; }
        else start = (int)hk_range(0, n - 1);
        maxc = (n - 1 - start) / st + 1;
        int cnt = hk_chance(35) ? maxc : (int)hk_range(1, maxc);
        s[d] = start; t[d] = st; c[d] = cnt;
    }
    if (hk_chance(12)) { s[0] = s[1] = 0; t[0] = t[1] = 1; c[0] = W; c[1] = H; } /* whole image */
    if (bad) {
        int d = (int)hk_range(0, 1), n = dimv[d];
        switch ((int)hk_range(0, 6)) {
            case 0: c[d] = (n - 1 - s[d]) / t[d] + 2; break;                  /* one selected index too many */
            case 1: s[d] = n; c[d] = 1; break;                               /* start == dim */
            case 2: s[d] = n + (int)hk_range(0, 3); break;                   /* start beyond */
            case 3: t[d] = n + (int)hk_range(1, 5); c[d] = 2; s[d] = hk_range(0, n - 1); break; /* huge stride */
            case 4: t[d] = hk_chance(50) ? 0 : -1; break;                    /* stride < 1 */
            case 5: c[d] = hk_chance(50) ? 0 : -2; break;                    /* count < 1 */
            default: s[d] = -1 - (int)hk_range(0, 2); break;                 /* negative start */
        }
    }
}

static int req_valid(const int32 s[2], const int32 t[2], const int32 c[2])
{
    int dimv[2] = {W, H};
    for (int d = 0; d < 2; d++) {
        if (s[d] < 0 || t[d] < 1 || c[d] < 1) return 0;
        if ((long)s[d] + (long)(c[d] - 1) * t[d] >= dimv[d]) return 0;
    }
    return 1;
}

static void op_write(int bad, int force_partial)
{
    int32 s[2], t[2], c[2];
    pick_req(bad, s, t, c);
    if (force_partial && !bad && c[0] == W && c[1] == H && (W > 1 || H > 1)) {
        if (W > 1) { c[0] = (int)hk_range(1, W - 1); s[0] = (int)hk_range(0, W - c[0]); t[0] = 1; }
        else { c[1] = (int)hk_range(1, H - 1); s[1] = (int)hk_range(0, H - c[1]); t[1] = 1; }
    }
    int valid = req_valid(s, t, c);
    /* buffer: for invalid counts still hand over something non-NULL */
    long cx = c[0] > 0 ? c[0] : 1, cy = c[1] > 0 ? c[1] : 1;
    if (cx > 2 * MAXW) cx = 2 * MAXW;
    if (cy > 2 * MAXW) cy = 2 * MAXW;
    size_t n = (size_t)cx * cy * PSZ;
    uint8_t *buf = malloc(n);
    int pat = (int)hk_range(0, 2);
    for (size_t i = 0; i < n; i++) buf[i] = pat == 0 ? hk_byte() : pat == 1 ? (uint8_t)(0x10 + i) : (uint8_t)(0xC0 + i / ESZ);
    int use_null_stride = (t[0] == 1 && t[1] == 1 && hk_chance(30));
    intn rc = GRwriteimage(riid, s, use_null_stride ? NULL : t, c, buf);
    if (!poisoned) {
        printf("T gr write %d %d %d %d %d %d ", (int)s[0], (int)s[1], (int)t[0], (int)t[1], (int)c[0], (int)c[1]);
        if (valid) hk_hex(buf, n); else printf("-");
        printf(" => %s\n", rc == FAIL ? "fail" : "ok");
    }
    else printf("X gr write %d %d %d %d %d %d => %s\n", (int)s[0], (int)s[1], (int)t[0], (int)t[1], (int)c[0], (int)c[1], rc == FAIL ? "fail" : "ok"); /* not replayed */
    if (valid && rc == FAIL) hk_fail(rejkey(any_write ? "gr-valid-rejected:write" : "gr-valid-rejected:first-write"), "start %d,%d stride %d,%d count %d,%d on %dx%d", (int)s[0], (int)s[1], (int)t[0], (int)t[1], (int)c[0], (int)c[1], W, H);
    if (!valid && rc != FAIL) hk_fail("gr-range-unchecked:write", "start %d,%d stride %d,%d count %d,%d on %dx%d accepted", (int)s[0], (int)s[1], (int)t[0], (int)t[1], (int)c[0], (int)c[1], W, H);
    if (valid && rc != FAIL) {
        for (int i = 0; i < c[1]; i++)
            for (int j = 0; j < c[0]; j++)
                for (int k = 0; k < NC; k++)
                    memcpy(&shadow[s[1] + i * t[1]][s[0] + j * t[0]][k * ESZ], buf + ESZ * addr(IL, c[0], c[1], NC, j, i, k), (size_t)ESZ);
        any_write = 1;
        hk_stat(t[0] == 1 && t[1] == 1 ? "write_solid" : "write_strided", 1);
    }
    else hk_stat("write_refused", 1);
    free(buf);
}

static void op_read(int bad, int whole, const char *key)
{
    int32 s[2], t[2], c[2];
    if (whole) { s[0] = s[1] = 0; t[0] = t[1] = 1; c[0] = W; c[1] = H; }
    else pick_req(bad, s, t, c);
    int valid = req_valid(s, t, c);
    long cx = c[0] > 0 ? c[0] : 1, cy = c[1] > 0 ? c[1] : 1;
    if (cx > 2 * MAXW) cx = 2 * MAXW;
    if (cy > 2 * MAXW) cy = 2 * MAXW;
    size_t n = (size_t)cx * cy * PSZ;
    uint8_t *buf = malloc(n), *keep = malloc(n);
    memset(buf, 0x77, n); memcpy(keep, buf, n);
    if (poisoned) { printf("X gr read %d %d %d %d %d %d\n", (int)s[0], (int)s[1], (int)t[0], (int)t[1], (int)c[0], (int)c[1]); fflush(stdout); } /* not replayed */
    intn rc = GRreadimage(riid, s, (t[0] == 1 && t[1] == 1 && hk_chance(30)) ? NULL : t, c, buf);
    if (!poisoned) {
        printf("T gr read %d %d %d %d %d %d => ", (int)s[0], (int)s[1], (int)t[0], (int)t[1], (int)c[0], (int)c[1]);
        if (rc == FAIL) printf("fail\n"); else { hk_hex(buf, n); printf("\n"); }
    }
    if (valid && rc == FAIL) hk_fail(rejkey("gr-valid-rejected:read"), "start %d,%d stride %d,%d count %d,%d on %dx%d", (int)s[0], (int)s[1], (int)t[0], (int)t[1], (int)c[0], (int)c[1], W, H);
    if (!valid && rc != FAIL) hk_fail("gr-range-unchecked:read", "start %d,%d stride %d,%d count %d,%d on %dx%d accepted", (int)s[0], (int)s[1], (int)t[0], (int)t[1], (int)c[0], (int)c[1], W, H);
    if (!valid && rc == FAIL && memcmp(buf, keep, n) != 0) hk_fail("gr-range-unchecked:read", "refused read modified the buffer");
    if (valid && rc != FAIL) {
        for (int i = 0; i < c[1]; i++)
            for (int j = 0; j < c[0]; j++)
                for (int k = 0; k < NC; k++)
                    if (memcmp(&shadow[s[1] + i * t[1]][s[0] + j * t[0]][k * ESZ], buf + ESZ * addr(IMIL, c[0], c[1], NC, j, i, k), (size_t)ESZ) != 0) {
                        hk_fail(datakey(key), "pixel (%d,%d) comp %d: got %02x.. want %02x.. ; read start %d,%d stride %d,%d count %d,%d il %d->%d on %dx%dx%d nt %d",
                                s[0] + j * t[0], s[1] + i * t[1], k, buf[ESZ * addr(IMIL, c[0], c[1], NC, j, i, k)], shadow[s[1] + i * t[1]][s[0] + j * t[0]][k * ESZ],
                                (int)s[0], (int)s[1], (int)t[0], (int)t[1], (int)c[0], (int)c[1], IL, IMIL, W, H, NC, (int)NT);
                        goto out;
                    }
        hk_stat(t[0] == 1 && t[1] == 1 ? "read_solid" : "read_strided", 1);
    }
out:
    free(buf); free(keep);
}

static void op_raw(void)
{
    uint16 tag, ref;
    int32 off, len;
    /* make the library's own access id let go of the element first */
    tag = 0; ref = 0; /* start a fresh search */
    if (Hfind(fid, DFTAG_RI, DFREF_WILDCARD, &tag, &ref, &off, &len, DF_FORWARD) == FAIL || len <= 0) {
        printf("T gr raw => none\n");
        if (any_write) hk_fail("gr-raw-length", "no DFTAG_RI element although the image was written");
        return;
    }
    uint8_t *b = malloc((size_t)len);
    int32 got = Hgetelement(fid, tag, ref, b);
    if (got == FAIL) { hk_fail("gr-api:Hgetelement", "tag %d ref %d len %d", tag, ref, (int)len); free(b); return; }
    printf("T gr raw => "); hk_hex(b, (size_t)got); printf("\n");
    if (got != W * H * PSZ) hk_fail("gr-raw-length", "DFTAG_RI element is %d bytes, image needs %d", (int)got, W * H * PSZ);
    hk_stat("raw", 1);
    free(b);
}

static void op_lut(void)
{
    int32 lutid = GRgetlutid(riid, 0);
    if (lutid == FAIL) { hk_fail("gr-api:GRgetlutid", "-"); return; }
    if (GRgetlutid(riid, 1) != FAIL) hk_fail("gr-lut-accepted", "GRgetlutid index 1 accepted");
    switch ((int)hk_range(0, 5)) {
        case 0: case 1: { /* valid palette */
            uint8_t pal[768];
            for (int i = 0; i < 768; i++) pal[i] = hk_byte();
            int32 nt = hk_chance(50) ? DFNT_UINT8 : DFNT_UCHAR8;
            intn rc = GRwritelut(lutid, 3, nt, MFGR_INTERLACE_PIXEL, 256, pal);
            printf("T gr wlut 3 %d 0 256 ", (int)nt); hk_hex(pal, 768); printf(" => %s\n", rc == FAIL ? "fail" : "ok");
            if (rc == FAIL) hk_fail("gr-valid-rejected:wlut", "256x3 uint8 palette refused");
            else { memcpy(lut_shadow, pal, 768); have_lut = 1; }
            hk_stat("lut_write", 1);
            break;
        }
        case 2: { /* shapes the API does not support: must be refused and change nothing */
            static const int32 bad_nt[] = {DFNT_INT8, DFNT_UINT16, DFNT_FLOAT32, DFNT_UINT8};
            int32 nc = 3, nt = DFNT_UINT8, il = 0, n = 256;
            switch ((int)hk_range(0, 3)) {
                case 0: nc = hk_chance(50) ? 1 : 4; break;
                case 1: nt = bad_nt[hk_range(0, 2)]; break;
                case 2: il = (int)hk_range(1, 2); break;
                default: n = hk_chance(50) ? 16 : 255; break;
            }
            uint8_t *pal = malloc((size_t)nc * n * 4);
            for (int i = 0; i < nc * n * 4; i++) pal[i] = hk_byte();
            intn rc = GRwritelut(lutid, nc, nt, il, n, pal);
            printf("T gr wlut %d %d %d %d - => %s\n", (int)nc, (int)nt, (int)il, (int)n, rc == FAIL ? "fail" : "ok");
            if (rc != FAIL) hk_fail("gr-lut-accepted", "unsupported palette shape ncomp=%d nt=%d il=%d n=%d accepted", (int)nc, (int)nt, (int)il, (int)n);
            free(pal);
            break;
        }
        case 3: {
            int il = hk_chance(85) ? (int)hk_range(0, 2) : (hk_chance(50) ? -1 : 3);
            intn rc = GRreqlutil(riid, il);
            printf("T gr reqlutil %d => %s\n", il, rc == FAIL ? "fail" : "ok");
            if (il >= 0 && il <= 2) { if (rc == FAIL) hk_fail("gr-api:GRreqlutil", "il %d", il); else LUTIL = il; }
            else if (rc != FAIL) hk_fail("gr-lut-accepted", "GRreqlutil(%d) accepted", il);
            break;
        }
        default: break;
    }
    /* read back + info */
    uint8_t got[768];
    memset(got, 0x5a, 768);
    intn rc = GRreadlut(lutid, got);
    if (rc == FAIL) { if (have_lut) hk_fail("gr-valid-rejected:rlut", "-"); printf("T gr rlut => fail\n"); }
    else {
        printf("T gr rlut => "); hk_hex(got, 768); printf("\n");
        if (have_lut) {
            for (int e = 0; e < 256; e++)
                for (int k = 0; k < 3; k++)
                    if (got[addr(LUTIL, 1, 256, 3, 0, e, k)] != lut_shadow[e * 3 + k]) { hk_fail("gr-lut-data", "entry %d comp %d lut_il %d", e, k, LUTIL); goto info; }
        }
        else for (int i = 0; i < 768; i++) if (got[i] != 0x5a) { hk_fail("gr-lut-data", "no palette but GRreadlut changed the buffer"); break; }
    }
info: {
        int32 nc = -7, nt = -7, il = -7, n = -7;
        if (GRgetlutinfo(lutid, &nc, &nt, &il, &n) == FAIL) hk_fail("gr-api:GRgetlutinfo", "-");
        printf("T gr lutinfo => %d,%d,%d,%d\n", (int)nc, (int)nt, (int)il, (int)n);
        if (have_lut ? (nc != 3 || (nt != DFNT_UINT8 && nt != DFNT_UCHAR8) || il != 0 || n != 256) : (nc != 0 || n != 0))
            hk_fail("gr-lut-info", "have=%d got ncomp=%d nt=%d il=%d n=%d", have_lut, (int)nc, (int)nt, (int)il, (int)n);
    }
}

static void op_reopen(void)
{
    do_close();
    do_open(0);
    if (grid == FAIL) return;
    int32 nimg = -1, nattr = -1;
    if (GRfileinfo(grid, &nimg, &nattr) == FAIL || nimg < 1) hk_fail("gr-api:GRfileinfo", "nimg=%d after reopen", (int)nimg);
    else if (nimg != 1) hk_fail("gr-dup-image", "GRfileinfo reports %d images after reopen, one was created (%s data, palette %d)", (int)nimg, any_write ? "with" : "without", have_lut);
    riid = slot[0] = GRselect(grid, 0);
    cur = 0;
    if (riid == FAIL) { hk_fail("gr-api:GRselect", "after reopen"); return; }
    sopen[0] = 1;
    printf("T gr reopen => ok\n"); /* model: every id released, new session, handle 0 selected and current */
    IMIL = MFGR_INTERLACE_PIXEL; LUTIL = MFGR_INTERLACE_PIXEL;
    /* by design (comment in GRIupdatemeta): the data are always stored pixel-interlaced and the file says so; the
       interlace given to GRcreate describes the write buffers of that session only */
    IL = MFGR_INTERLACE_PIXEL;
    check_info("reopen");
    attr_check("after reopen");
    hk_stat("reopen", 1);
}

static void run_case(int k)
{
    W = (int)hk_range(1, 9); H = (int)hk_range(1, 9);
    if (hk_chance(8)) W = (int)hk_range(10, MAXW);
    if (hk_chance(8)) H = (int)hk_range(10, MAXW);
    if (hk_chance(10)) W = 1;
    if (hk_chance(10)) H = 1;
    NC = (int)hk_range(1, MAXNC);
    NT = HK_PICK(NTS);
    ESZ = DFKNTsize(NT);
    if (hk_chance(12)) NT |= DFNT_LITEND; else if (hk_chance(6)) NT |= DFNT_NATIVE;
    PSZ = NC * ESZ;
    IL = (int)hk_range(0, 2);
    IMIL = MFGR_INTERLACE_PIXEL; LUTIL = MFGR_INTERLACE_PIXEL;
    have_lut = 0; any_write = 0; poisoned = 0; have_attr = 0;
    for (int i = 0; i < NSLOT; i++) { sopen[i] = 0; slot[i] = FAIL; }
    cur = 0;
    multi = hk_chance(55);
    native_case = (NT & DFNT_NATIVE) != 0;
    int mode = (int)hk_range(0, 99);
    plain = mode < 45; compressed = mode >= 45 && mode < 75; chunked = mode >= 75;
    snprintf(fname, sizeof fname, "%s", hk_tmp("gr"));
    snprintf(fname + strlen(fname), sizeof fname - strlen(fname), "_%d.hdf", k);
    memset(shadow, 0, sizeof shadow);
    memset(fillpix, 0, sizeof fillpix);

    printf("INFO mode=%s%s %dx%dx%d nt=%d il=%d\n", plain ? "plain" : compressed ? "comp" : "chunk", multi ? " multi-id" : "", W, H, NC, (int)NT, IL);
    do_open(1);
    if (grid == FAIL) { do_close(); return; }
    int32 dims[2] = {W, H};
    riid = slot[0] = GRcreate(grid, "img", NC, NT, IL, dims);
    printf("T gr create %d %d %d %d %d => %s\n", W, H, NC, (int)NT, IL, riid == FAIL ? "fail" : "ok"); /* model: handle 0 open and current */
    if (riid == FAIL) { hk_fail("gr-api:GRcreate", "%dx%d nc=%d nt=%d il=%d", W, H, NC, (int)NT, IL); do_close(); return; }
    sopen[0] = 1;
    check_info("create");
    if (multi) {
        hk_stat("multi_id", 1);
        /* more ids on the new image before it has any data / fill value / storage layout (or later, in the op loop) */
        if (hk_chance(60)) select_slot(1);
        if (hk_chance(25)) select_slot(2);
    }

    int with_fill = hk_chance(60);
    if (with_fill) {
        for (int i = 0; i < PSZ; i++) fillpix[i] = hk_chance(70) ? (uint8_t)(0xE0 + i) : hk_byte();
        pick_slot();
        if (GRsetattr(riid, FILL_ATTR, NT, NC, fillpix) == FAIL) hk_fail("gr-api:GRsetattr", "FILL_ATTR");
        printf("T gr setfill "); hk_hex(fillpix, (size_t)PSZ); printf(" => ok\n");
    }
    for (int y = 0; y < H; y++) for (int x = 0; x < W; x++) memcpy(shadow[y][x], fillpix, (size_t)PSZ);

    if (compressed || (chunked && hk_chance(40))) {
        comp_info ci;
        memset(&ci, 0, sizeof ci);
        comp_coder_t ct;
        switch ((int)hk_range(0, 2)) {
            case 0: ct = COMP_CODE_RLE; break;
            case 1: ct = COMP_CODE_DEFLATE; ci.deflate.level = (int)hk_range(1, 9); break;
            default: ct = COMP_CODE_SKPHUFF; ci.skphuff.skp_size = ESZ; break;
        }
        pick_slot();
        if (compressed) {
            if (GRsetcompress(riid, ct, &ci) == FAIL) hk_fail("gr-api:GRsetcompress", "coder %d", (int)ct);
            printf("T gr setcomp => ok\n");
            hk_stat(ct == COMP_CODE_RLE ? "comp_rle" : ct == COMP_CODE_DEFLATE ? "comp_deflate" : "comp_skphuff", 1);
        }
        else {
            HDF_CHUNK_DEF cd;
            memset(&cd, 0, sizeof cd);
            cd.comp.chunk_lengths[0] = (int32)hk_range(1, W); cd.comp.chunk_lengths[1] = (int32)hk_range(1, H);
            cd.comp.comp_type = ct; cd.comp.cinfo = ci;
            if (GRsetchunk(riid, cd, HDF_CHUNK | HDF_COMP) == FAIL) hk_fail("gr-api:GRsetchunk", "comp coder %d chunk %dx%d", (int)ct, (int)cd.comp.chunk_lengths[0], (int)cd.comp.chunk_lengths[1]);
            printf("T gr setchunk => ok\n");
            hk_stat("chunk_comp", 1);
        }
    }
    else if (chunked) {
        HDF_CHUNK_DEF cd;
        memset(&cd, 0, sizeof cd);
        cd.chunk_lengths[0] = (int32)hk_range(1, W); cd.chunk_lengths[1] = (int32)hk_range(1, H);
        if (hk_chance(20)) { cd.chunk_lengths[0] = W; cd.chunk_lengths[1] = H; }
        pick_slot();
        if (GRsetchunk(riid, cd, HDF_CHUNK) == FAIL) hk_fail("gr-api:GRsetchunk", "chunk %dx%d", (int)cd.chunk_lengths[0], (int)cd.chunk_lengths[1]);
        printf("T gr setchunk => ok\n");
        hk_stat("chunk_plain", 1);
    }
    if (chunked && hk_chance(60)) {
        int32 mc = (int32)hk_range(1, 4);
        pick_slot();
        if (GRsetchunkcache(riid, mc, 0) == FAIL) hk_fail("gr-api:GRsetchunkcache", "maxcache %d", (int)mc);
    }
    if (plain) hk_stat("plain", 1);

    int nops = (int)hk_range(4, 14);
    int first_partial = hk_chance(75);
    if (hk_chance(15)) { op_read(0, hk_chance(50), "gr-read-data"); }              /* read before any data: fill value */
    if (hk_chance(12)) { op_reopen(); if (riid == FAIL) { do_close(); return; } } /* first write happens in a later session */
    for (int o = 0; o < nops && riid != FAIL; o++) {
        int r = (int)hk_range(0, 99);
        if (multi && hk_chance(30)) { /* ids come and go while the image is being worked on */
            int k = (int)hk_range(0, NSLOT - 1);
            if (!sopen[k]) { select_slot(k); hk_stat("select_more", 1); }
            else if (nopen() >= 2) {
                /* release one id, the others keep working (also the current one, also the one that wrote the first data) */
                if (hk_chance(50)) k = cur;
                end_slot(k);
                if (k == cur) { int j = 0; while (!sopen[j]) j++; use_slot(j); }
                if (hk_chance(35)) probe_stale(k);
            }
            else { /* the only open id is released: the element's access id is closed; then the image is selected again */
                end_slot(k);
                if (hk_chance(35)) probe_stale(k);
                int j = hk_chance(50) ? k : (int)hk_range(0, NSLOT - 1);
                if (!select_slot(j)) { riid = FAIL; break; }
                use_slot(j); riid = slot[j];
                hk_stat("reselect", 1);
            }
        }
        pick_slot();
        if (!any_write && r < 70) {
            op_write(0, first_partial);
            if (any_write) {
                hk_stat("first_write", 1);
                if (multi && nopen() >= 2 && hk_chance(40)) { /* the id that wrote the first data leaves at once */
                    int k = cur, j = 0;
                    end_slot(k);
                    while (!sopen[j]) j++;
                    use_slot(j);
                    hk_stat("first_writer_released", 1);
                }
                else pick_slot();
                op_read(0, 1, "gr-first-write-fill");
                if (plain && hk_chance(70)) op_raw();
            }
        }
        else if (r < 30) op_write(hk_chance(12), 0);
        else if (r < 62) op_read(hk_chance(12), hk_chance(15), "gr-read-data");
        else if (r < 72) {
            int il = hk_chance(90) ? (int)hk_range(0, 2) : (hk_chance(50) ? -1 : 3);
            intn rc = GRreqimageil(riid, il);
            printf("T gr reqil %d => %s\n", il, rc == FAIL ? "fail" : "ok");
            if (il >= 0 && il <= 2) { if (rc == FAIL) hk_fail("gr-api:GRreqimageil", "il %d", il); else IMIL = il; }
            else if (rc != FAIL) hk_fail("gr-range-unchecked:reqil", "GRreqimageil(%d) accepted", il);
        }
        else if (r < 80) { op_reopen(); if (riid != FAIL) op_read(0, 1, "gr-read-data"); }
        else if (r < 84) { /* drop and regain the id inside the session */
            int k = cur;
            end_slot(k);
            if (!select_slot(k)) { riid = FAIL; break; }
            hk_stat("reselect", 1);
        }
        else if (r < 90) { if (plain) op_raw(); else op_read(0, 1, "gr-read-data"); }
        else if (r < 93 && multi) op_attr();
        else op_lut();
    }
    if (riid != FAIL) {
        op_read(0, 1, "gr-read-data");
        op_reopen();
        if (riid != FAIL) {
            op_read(0, 1, "gr-read-data");
            if (plain) op_raw();
            if (have_lut || hk_chance(20)) { int32 l = GRgetlutid(riid, 0); uint8_t got[768]; memset(got, 0x5a, 768);
                if (GRreadlut(l, got) != FAIL) { printf("T gr rlut => "); hk_hex(got, 768); printf("\n");
                    if (have_lut && memcmp(got, lut_shadow, 768) != 0) hk_fail("gr-lut-data", "palette differs after reopen"); }
                else if (have_lut) hk_fail("gr-valid-rejected:rlut", "after reopen"); }
        }
    }
    do_close();
    if (!getenv("HK_KEEP")) unlink(fname);
    hk_stat(with_fill ? "fill_set" : "fill_unset", 1);
    hk_stat("pixels", (long)W * H);
    if (k < 2) printf("SAMPLE gr %dx%d ncomp=%d nt=%d il=%d mode=%s fill=%d\n", W, H, NC, (int)NT, IL, plain ? "plain" : compressed ? "comp" : "chunk", with_fill);
}

int main(int argc, char **argv) { return hk_main(argc, argv, "gr"); }
