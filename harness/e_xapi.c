/* e_xapi - Tie-B engine for C15 (all interfaces agree): the REAL library, one cross-interface scenario per case.
 *   case kinds (k % NKIND): dfrle direct | DFSD->SD | SD->DFSD (+Vgroup view) | DFR8->GR (+DFP, raw RLE) | GR->DFR8 (+Vgroup view)
 *                           | DF24<->GR | DFP<->GR LUT | DFAN<->AN | nc*<->SD | legacy file | SD/nc objects over several sessions
 *                           | DFSD metadata + DFAN/AN annotations -> SD attributes | record codecs direct
 * T lines:  `T xapi ndgattrs ...` (the character attributes SD makes of an NDG's strings and annotations, xapi_meta.h)
 *           `T dfrle enc|dec|rows ...` (real DFCIrle/DFCIunrle, also the rows of DFR8 RLE images as stored in the file)
 *           `T xapi sdd|sddrd|dim|dim8|dimrd ...` (record bytes found in the files / real Decode_diminfo, hdf_read_rank+hdf_read_dimsizes)
 * Oracles (model-independent): the shadow copy kept in C; keys `xapi-<writer>-<reader>:<what>`.
 * Static functions are reached by #including mfgr.c and hdfsds.c; -DMUT_C="file.c" compiles a (mutated) copy of another
 * library source into the engine instead of the library's object (mutation sanity). */
#ifdef MUT_C
/* file-local names several library sources share */
#define library_terminate mut_library_terminate
#define ptbuf mut_ptbuf
#define Ref mut_Ref
#include MUT_C
#undef library_terminate
#undef ptbuf
#undef Ref
#endif
#ifndef MFGR_C
#define MFGR_C "hdf/src/mfgr.c" /* resolved through -I<REPO> (vk.cc_harness) */
#endif
#ifndef NO_MFGR_INCLUDE
#include MFGR_C
#endif
#ifndef HDFSDS_C
#define HDFSDS_C "mfhdf/src/hdfsds.c"
#endif
#ifndef NO_HDFSDS_INCLUDE
#define ptbuf xapi_hdfsds_ptbuf
#include HDFSDS_C
#undef ptbuf
#endif
#include "hdf.h"
#include "mfhdf.h"
#include "nc_priv.h"
#include "hk.h"
#include <dirent.h>

static int case_no;
static char pathbuf[800];
/* every case gets its own file names */
static const char *cpath(const char *stem) { snprintf(pathbuf, sizeof pathbuf, "%s/%s_%d.hdf", hk_tmpdir, stem, case_no); return pathbuf; }
static void reset_single_file_apis(void) { DFSDclear(); DFSDrestart(); DFR8restart(); DF24restart(); DFPrestart(); DFANclear(); DFR8setpalette(NULL); }
static void swap_elems(uint8_t *dst, const uint8_t *src, int n, int sz) { for (int i = 0; i < n; i++) for (int j = 0; j < sz; j++) dst[i * sz + j] = src[i * sz + sz - 1 - j]; }
static void put_intlist(const int32 *d, int n) { if (n == 0) { printf("-"); return; } for (int i = 0; i < n; i++) printf("%s%d", i ? "," : "", (int)d[i]); }
/* ------------------------------------------------------------------------------------------------ dfrle.c direct */
static int gen_row(uint8_t *d, int cap)
{
    static const int L[] = {1, 1, 2, 2, 3, 3, 4, 5, 118, 119, 120, 121, 122, 123, 127, 128, 129, 130, 239, 240, 241, 242, 255, 256, 300, 363, 364};
    int kind = (int)hk_range(0, 7), n = 0, target;
    switch ((int)hk_range(0, 5)) {
        case 0: target = (int)hk_range(0, 6); break;
        case 1: target = (int)hk_range(115, 126); break;
        case 2: target = (int)hk_range(236, 250); break;
        default: target = (int)hk_range(0, cap); break;
    }
    if (target > cap) target = cap;
    while (n < target) {
        int len, i; uint8_t v = hk_byte();
        switch (kind) {
            case 0: len = HK_PICK(L); for (i = 0; i < len && n < target; i++) d[n++] = v; break;          /* runs around the limits */
            case 1: len = (int)hk_range(1, 3); for (i = 0; i < len && n < target; i++) d[n++] = v; break; /* pseudo runs */
            case 2: d[n++] = v; break;                                                                    /* incompressible */
            case 3: d[n++] = (uint8_t)((n & 1) ? 0xAA : 0x55); break;                                     /* alternating */
            case 4: len = HK_PICK(L); for (i = 0; i < len && n < target; i++) d[n++] = (uint8_t)(i * 7 + v); /* distinct block then a run */
                    len = (int)hk_range(0, 5); for (i = 0; i < len && n < target; i++) d[n++] = v; break;
            case 5: d[n++] = (uint8_t)(v & 1); break;                                                     /* tiny alphabet */
            case 6: d[n++] = 0; break;
            default: len = (int)hk_range(1, hk_chance(20) ? 400 : 6); for (i = 0; i < len && n < target; i++) d[n++] = v; break;
        }
    }
    return n;
}

/* one row through the real DFCIrle / DFCIunrle; buffers are malloc'ed at the exact sizes the library itself uses
 * (DFputcomp: xdim*121/120+1 per row) so that ASan sees an overrun of that bound */
static void rle_direct(int maxrow)
{
    uint8_t *row = malloc((size_t)maxrow + 1);
    int n = gen_row(row, maxrow);
    size_t cap = (size_t)n * 121 / 120 + 1;
    uint8_t *enc = malloc(cap);
    int32 m = DFCIrle(row, enc, n);
    if (m < 0 || (size_t)m > cap) { hk_fail("dfrle-enc-size", "DFCIrle(len=%d) returned %d, DFputcomp's bound is %d", n, (int)m, (int)cap); free(row); free(enc); return; }
    printf("T dfrle enc "); hk_hex(row, (size_t)n); printf(" => "); hk_hex(enc, (size_t)m); printf("\n");
    hk_stat("dfrle_rows", 1); hk_stat("dfrle_bytes", n);
    /* decode: whole row, exact-size input copy and output */
    uint8_t *in = malloc((size_t)m + 1), *out = malloc((size_t)n + 1);
    memcpy(in, enc, (size_t)m);
    memset(out, 0xA5, (size_t)n + 1);
    int32 used = n > 0 ? DFCIunrle(in, out, n, 1) : 0;
    if (n > 0) {
        printf("T dfrle dec "); hk_hex(in, (size_t)m); printf(" %d => ", n); hk_hex(out, (size_t)n); printf(" %d\n", (int)used);
        if (used != m) hk_fail("dfrle-used", "DFCIunrle consumed %d of %d bytes (row %d)", (int)used, (int)m, n);
        if (memcmp(out, row, (size_t)n)) hk_fail("dfrle-roundtrip", "DFCIunrle(DFCIrle(row)) != row (len %d)", n);
    }
    /* the same stream decoded in pieces: resetsave only on the first call, input pointer advanced by the return value */
    if (n > 0) {
        int pieces[16], np = 0, left = n, pos = 0, upos = 0, ok = 1;
        while (left > 0 && np < 15) { int p = (int)hk_range(1, left < 200 ? left : 200); if (hk_chance(30)) p = (int)hk_range(1, 3) > left ? left : (int)hk_range(1, 3); if (p > left) p = left; pieces[np++] = p; left -= p; }
        if (left > 0) pieces[np++] = left;
        memset(out, 0xA5, (size_t)n + 1);
        for (int i = 0; i < np; i++) {
            int32 u = DFCIunrle(in + upos, out + pos, pieces[i], i == 0);
            if (u < 0 || upos + u > m) { hk_fail("dfrle-split-used", "piece %d consumed %d at %d of %d", i, (int)u, upos, (int)m); ok = 0; break; }
            upos += u; pos += pieces[i];
        }
        if (ok) {
            printf("T dfrle rows "); hk_hex(in, (size_t)m); printf(" ");
            for (int i = 0; i < np; i++) printf("%s%d", i ? "," : "", pieces[i]);
            printf(" => ");
            pos = 0; for (int i = 0; i < np; i++) { if (i) printf(","); hk_hex(out + pos, (size_t)pieces[i]); pos += pieces[i]; }
            printf(" %d\n", upos);
            if (memcmp(out, row, (size_t)n)) hk_fail("dfrle-split-roundtrip", "piecewise DFCIunrle differs from the row (len %d, %d pieces)", n, np);
            if (upos != m) hk_fail("dfrle-split-used", "piecewise decoding consumed %d of %d", upos, (int)m);
            hk_stat("dfrle_split", 1);
        }
    }
    free(in); free(out); free(row); free(enc);
}

/* arbitrary bytes through DFCIunrle: random stream + enough 0xff padding that decoding ends inside the buffer
 * (a 0xff control byte is a run of 127 x the next byte, every padding byte used as literal data yields one output byte,
 * and the last literal block is read to its end - up to 127 bytes - even when the output is already full) */
static void rle_garbage(void)
{
    int g = (int)hk_range(0, 40), n = (int)hk_range(1, 300);
    size_t tot = (size_t)g + (size_t)n + 130;
    uint8_t *in = malloc(tot), *out = malloc((size_t)n + 1);
    for (int i = 0; i < g; i++) in[i] = hk_chance(25) ? (uint8_t)(hk_chance(50) ? 0 : 128) : hk_byte();
    memset(in + g, 0xff, tot - (size_t)g);
    int32 used = DFCIunrle(in, out, n, 1);
    printf("T dfrle dec "); hk_hex(in, tot); printf(" %d => ", n); hk_hex(out, (size_t)n); printf(" %d\n", (int)used);
    hk_stat("dfrle_garbage", 1);
    free(in); free(out);
}

#include "xapi_sd.h"
#include "xapi_gr.h"
#include "xapi_misc.h"
#include "xapi_meta.h"
#include "xapi_sess.h"

#define NKIND 13
static void run_case(int k)
{
    case_no = k;
    reset_single_file_apis();
    switch (k % NKIND) {
        case 0: { int reps = (int)hk_range(1, 4); for (int i = 0; i < reps; i++) rle_direct(hk_chance(10) ? 2000 : 400); rle_garbage(); break; }
        case 1: case_dfsd_sd(); break;
        case 2: case_sd_dfsd(); break;
        case 3: case_dfr8_gr(); break;
        case 4: case_gr_dfr8(); break;
        case 5: case_df24_gr(); break;
        case 6: case_dfp_gr(); break;
        case 7: case_an(); break;
        case 8: case_nc_sd(); break;
        case 9: case_legacy(k / NKIND + (int)(hk_seed0 % 1000) * 37); break; /* different files per seed; thorough tier covers all */
        case 10: case_sessions(); break;
        case 11: case_dfsd_meta(); break;
        default: case_codecs(); break;
    }
    reset_single_file_apis();
}

int main(int argc, char **argv) { return hk_main(argc, argv, "xapi"); }
