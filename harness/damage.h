/* damage.h - damaged HDF files for the engines: the DD list of a file read from its raw bytes, and files that are cut / patched so
 * that an entry point of the library must FAIL on them (used by e_ids.c for the family "a failed call leaves every other handle alone").
 *
 * Nothing here calls the library: a damaged file is made from the bytes of a good one.
 */
#ifndef DAMAGE_H
#define DAMAGE_H
#include <stdio.h>
#include <stdlib.h>
#include <string.h>
#include <unistd.h>
#include <sys/stat.h>
#include <sys/wait.h>
#include <signal.h>

typedef struct { long pos; int tag, ref; long off, len; int blk; } dmg_dd_t;   /* pos = file offset of the 12-byte descriptor */
#define DMG_MAXDD 512
#define DMG_MAXBLK 64
typedef struct {
    unsigned char *b; long n;                 /* the bytes of the file */
    dmg_dd_t dd[DMG_MAXDD]; int ndd;          /* every descriptor, in chain order (empty ones included: tag 1) */
    long blk_pos[DMG_MAXBLK]; int blk_ndds[DMG_MAXBLK]; int blk_used[DMG_MAXBLK]; int nblk;   /* blk_used = descriptors that are not DFTAG_NULL */
} dmg_file_t;

static long dmg_be(const unsigned char *b, int n) { long v = 0; for (int i = 0; i < n; i++) v = (v << 8) | b[i]; return v; }
static void dmg_put(unsigned char *b, int n, long v) { for (int i = n - 1; i >= 0; i--) { b[i] = (unsigned char)(v & 0xff); v >>= 8; } }

static void dmg_free(dmg_file_t *f) { free(f->b); f->b = NULL; f->n = 0; }
/* read the file and walk its DD block chain (stops at the first block that is not inside the file) */
static int dmg_load(const char *path, dmg_file_t *f)
{
    memset(f, 0, sizeof *f);
    FILE *fp = fopen(path, "rb"); if (!fp) return -1;
    fseek(fp, 0, SEEK_END); f->n = ftell(fp); fseek(fp, 0, SEEK_SET);
    f->b = malloc((size_t)f->n + 1); if (!f->b || fread(f->b, 1, (size_t)f->n, fp) != (size_t)f->n) { fclose(fp); free(f->b); f->b = NULL; return -1; }
    fclose(fp);
    long at = 4;
    while (at != 0 && f->nblk < DMG_MAXBLK && at + 6 <= f->n) {
        int ndds = (int)dmg_be(f->b + at, 2); long next = dmg_be(f->b + at + 2, 4);
        if (ndds <= 0 || at + 6 + 12L * ndds > f->n) break;
        int k = f->nblk++; f->blk_pos[k] = at; f->blk_ndds[k] = ndds; f->blk_used[k] = 0;
        for (int i = 0; i < ndds && f->ndd < DMG_MAXDD; i++) { const unsigned char *d = f->b + at + 6 + 12L * i; dmg_dd_t *x = &f->dd[f->ndd++];
            x->pos = at + 6 + 12L * i; x->tag = (int)dmg_be(d, 2); x->ref = (int)dmg_be(d + 2, 2); x->off = dmg_be(d + 4, 4); x->len = dmg_be(d + 8, 4); x->blk = k;
            if (x->tag != 1) f->blk_used[k]++; }
        at = next;
    }
    return f->nblk > 0 ? 0 : -1;
}
static int dmg_save(const char *path, const unsigned char *b, long n)
{
    FILE *fp = fopen(path, "wb"); if (!fp) return -1;
    int ok = n == 0 || fwrite(b, 1, (size_t)n, fp) == (size_t)n; fclose(fp); return ok ? 0 : -1;
}
static dmg_dd_t *dmg_find(dmg_file_t *f, int tag, int ref) { for (int i = 0; i < f->ndd; i++) if (f->dd[i].tag == tag && f->dd[i].ref == ref) return &f->dd[i]; return NULL; }
/* patch the descriptor itself (in the bytes held in memory) */
static void dmg_set_tag(dmg_file_t *f, dmg_dd_t *d, int tag) { dmg_put(f->b + d->pos, 2, tag); d->tag = tag; }
static void dmg_set_off(dmg_file_t *f, dmg_dd_t *d, long off) { dmg_put(f->b + d->pos + 4, 4, off); d->off = off; }
static void dmg_set_len(dmg_file_t *f, dmg_dd_t *d, long len) { dmg_put(f->b + d->pos + 8, 4, len); d->len = len; }

/* ------------------------------------------------------------------ files on which Hopen must fail
 * stage: where Hopen gives up. 0 = the operating system refuses the open, 1 = no magic number, 2 = HTPstart (DD blocks unreadable) */
enum { DMG_HDRCUT, DMG_NDDS0, DMG_NDDSNEG, DMG_NEXTPAST, DMG_NEXTCUT, DMG_DDCUT, DMG_BLK2CUT, DMG_CYCLE, DMG_SHORT, DMG_MAGIC, DMG_DIR, DMG_NOTDIR,
       DMG_LONGNAME, DMG_NOPERM, DMG_NKINDS };
static const char *dmg_kind_name[DMG_NKINDS] = {"dd-header-cut", "ndds-zero", "ndds-negative", "next-offset-beyond-eof", "next-block-header-cut", "dd-list-cut",
    "later-block-cut", "cyclic-chain", "shorter-than-magic", "wrong-magic", "directory", "component-not-a-directory", "name-too-long", "no-permission"};
static const char *dmg_stage_tok[3] = {"os", "magic", "dd"};

/* make the damaged file of kind `kind` at `out` from the good file `tmpl` (`r` = a random number chosen by the caller: which byte, which
 * block); returns the stage, or -1 when the kind cannot be made here (needs two DD blocks, needs a user that is not root ...).
 * `good` = a path of an existing regular file (for DMG_NOTDIR). */
static int dmg_make_unopenable(int kind, const dmg_file_t *t, const char *good, char *out, size_t outsz, unsigned long r)
{
    unsigned char *b = malloc((size_t)t->n + 16); if (!b) return -1; memcpy(b, t->b, (size_t)t->n);
    long n = t->n; int stage = 2, last = t->nblk - 1;
    switch (kind) {
        case DMG_HDRCUT: n = 4 + (long)(r % 6); break;                                       /* the magic number and 0..5 bytes of ndds / offset */
        case DMG_NDDS0: dmg_put(b + t->blk_pos[r % t->nblk], 2, 0); break;
        case DMG_NDDSNEG: dmg_put(b + t->blk_pos[r % t->nblk], 2, (r & 64) ? 0xffff : 0x8000 | (long)(r % 77)); break;
        case DMG_NEXTPAST: dmg_put(b + t->blk_pos[r % t->nblk] + 2, 4, n + (long)(r % 5000)); break;   /* seek beyond the end, read fails */
        case DMG_NEXTCUT: dmg_put(b + t->blk_pos[r % t->nblk] + 2, 4, n - 1 - (long)(r % 5)); break;   /* 1..5 bytes of a block header are left */
        case DMG_DDCUT: n = 4 + 6 + (long)(r % (unsigned long)(12 * t->blk_ndds[0])); break;      /* inside the first DD list */
        case DMG_BLK2CUT: { if (t->nblk < 2) { free(b); return -1; } int j = 1 + (int)(r % (unsigned long)(t->nblk - 1));
            n = t->blk_pos[j] + (long)((r >> 8) % (unsigned long)(6 + 12 * t->blk_ndds[j])); } break;
        case DMG_CYCLE: { /* the last block points back to a block that holds a real descriptor: the second visit ends with DFE_DUPDD.  (A cycle over
                             blocks of empty descriptors only never ends: observation hopen-cyclic-dd-chain, not made here.) */
            int j = (int)(r % (unsigned long)t->nblk), tries = 0; while (t->blk_used[j] == 0 && tries++ < t->nblk) j = (j + 1) % t->nblk;
            if (t->blk_used[j] == 0) { free(b); return -1; }
            dmg_put(b + t->blk_pos[last] + 2, 4, t->blk_pos[j]); } break;
        case DMG_SHORT: n = (long)(r % 4); stage = 1; break;
        case DMG_MAGIC: if (r & 1) memcpy(b, "CDF\001", 4); else b[r % 4] ^= (unsigned char)(1u << ((r >> 4) % 8)); stage = 1; break;
        case DMG_DIR: free(b); rmdir(out); unlink(out); return mkdir(out, 0755) == 0 ? 0 : -1;   /* reading: fopen succeeds, the magic cannot be read */
        case DMG_NOTDIR: free(b); snprintf(out, outsz, "%s/below.hdf", good); return 0;
        case DMG_LONGNAME: { free(b); char *sl = strrchr(out, '/'); size_t dir = sl ? (size_t)(sl - out) + 1 : 0; if (dir + 300 >= outsz) return -1;
            memset(out + dir, 'n', 290); strcpy(out + dir + 290, ".hdf"); return 0; }
        case DMG_NOPERM: if (geteuid() == 0) { free(b); return -1; } stage = 0; break;
        default: free(b); return -1;
    }
    if (n < 0) n = 0;
    unlink(out);
    int rc = dmg_save(out, b, n); free(b);
    if (rc == 0 && kind == DMG_NOPERM) chmod(out, 0);
    return rc == 0 ? stage : -1;
}
static void dmg_remove(int kind, const char *path) { if (kind == DMG_DIR) rmdir(path); else if (kind != DMG_NOTDIR) { chmod(path, 0600); unlink(path); } }

/* does `call` (run in a forked child, stderr closed) come back within `secs` seconds?  0 = it returned, 1 = it did not (killed), 2 = it crashed */
#define DMG_RETURNS(res, secs, call) do { fflush(stdout); fflush(stderr); pid_t p_ = fork(); if (p_ == 0) { close(2); alarm(secs); (void)(call); _exit(0); } \
        int st_ = 0; waitpid(p_, &st_, 0); (res) = (WIFEXITED(st_) && WEXITSTATUS(st_) == 0) ? 0 : (WIFSIGNALED(st_) && WTERMSIG(st_) == SIGALRM) ? 1 : 2; } while (0)

/* ------------------------------------------------------------------ higher-level structures that cannot be read: the descriptor stays, its data
 * is beyond the end of the file (every read of it FAILS cleanly; no parser sees garbage) */
static int dmg_is_structure_tag(int tag)
{
    static const int tags[] = {1962 /*VH*/, 1963 /*VS*/, 1965 /*VG*/, 306 /*RIG*/, 300 /*ID*/, 301 /*LUT*/, 302 /*RI*/, 303 /*CI*/, 720 /*NDG*/, 721, 701 /*SDD*/, 702 /*SD*/,
        106 /*NT*/, 104 /*DIL*/, 105 /*DIA*/, 100 /*FID*/, 101 /*FD*/, 200, 201, 202 /*ID8 IP8 RI8*/, 704, 705, 706, 707, 731, 732 /*SDL SDU SDF SDM CAL FV*/};
    int base = tag & ~0x4000;
    for (unsigned i = 0; i < sizeof tags / sizeof tags[0]; i++) if (base == tags[i]) return 1;
    return 0;
}
#endif
