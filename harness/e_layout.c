/* e_layout - implementation oracle for C04 ("storage layout and tuning knobs never change the data an application sees").
 * ONE logical history of SDwritedata/SDreaddata calls (random slabs, strides, close/reopen) is applied to the same data set stored in
 * up to nine configurations, each in its own file:
 *   0 contiguous (baseline)          1 chunked (any shape, incl. shapes that do not divide the extent), random chunk-cache size
 *   2 compressed (RLE/deflate/skphuff)   3 chunked + compressed   4 n-bit (full width = lossless)
 *   5 external file (SDsetexternalfile with an offset), written with HXsetcreatedir, later FOUND through an HXsetdir("a|b|c") list
 *   6 unlimited first dimension + small SDsetblocksize (linked blocks)
 *   7 file created with a small DD-block size (Hopen(.., ndds) before SDstart)     8 SDsetaccesstype(DFACC_PARALLEL/SERIAL)
 * After every read the bytes of every configuration must equal the baseline's (key layout-mismatch:<config>) and, for cells whose
 * value is defined (written, or fill value set), the shadow array (layout-shadow:<config>).  A call that succeeds on the baseline
 * must succeed on every configuration (layout-call-failed:<config>:<api>).
 * Number types: every base type the SD interface stores (char8, uchar8, int8 .. uint32, float32, float64) in the standard, the
 * native (DFNT_NATIVE) and the little-endian (DFNT_LITEND) flavour; the 64-bit integer types are offered too (SDcreate refuses them
 * today: STAT nt_refused).  With and without a user fill value.  Never-written cells are compared like any other cell, and when no
 * fill value was set they must carry the documented default of the BASE type (0 for the character types, -127, -32767, -2147483647,
 * 9.9692099683868690e+36) whatever the flavour and the configuration (layout-default-fill:<config>; the values are typed here, not
 * taken from the library's macros).
 * Whole-chunk access: SDreadchunk of a chunk (random chunks during the history, EVERY chunk after the final reopen, which is
 * read-only half of the time) must succeed also for a chunk that was never written (layout-call-failed:<config>:SDreadchunk) and every
 * in-bounds cell of it must equal what the contiguous baseline returns for that cell (layout-readchunk-mismatch:<config>), what the
 * same data set returns by hyperslab (layout-chunk-vs-slab) and the shadow / the default fill value; the cells of an edge chunk that
 * lie outside the extent must be the fill value, or what the last SDwritechunk of that chunk put there (layout-chunk-ghost:<config>).
 * SDwritechunk is part of the history: the chunked configuration writes a whole chunk, every other configuration (incl. the other
 * chunked one, whose shape differs) writes the in-bounds part of the same region by hyperslab.
 * Coders only support rewriting a whole element, so configurations 2 and 4 take part only in histories made of whole-array writes.
 * No model is involved (no T lines): the array model side of C04 is H4/Props/C04Chunk.lean + engine chunk; this engine is the
 * cross-configuration comparison the property text asks for.
 */
#include "hdf.h"
#include "mfhdf.h"
#include "hk.h"
#include <sys/stat.h>

#define MAXR 3
#define MAXB 4096
enum { NCFG = 9 };
static const char *CN[NCFG] = {"contig", "chunk", "comp", "chunkcomp", "nbit", "external", "unlimited-blocks", "ddsize", "accesstype"};

typedef struct {
    int   on, unlimited;
    char  path[600];
    int32 sd, sds;
    int32 cshape[MAXR];
    int   chunked;
} Cfg;
static Cfg   cf[NCFG];
static int   rank, sz, nelem;
static int32 dims[MAXR], nt;
static uint8_t shadow[MAXB], known[MAXB], written[MAXB], fillv[8];
static int   hasfill;
static uint8_t deffill[8]; static int havedef;   /* default fill value of the base type in memory representation, when documented */
#define GMAX 2048                                /* cells of the padded (whole-chunk) space of a chunked configuration */
static uint8_t gsh[2][GMAX * 8], gwr[2][GMAX];   /* what SDwritechunk last put into each chunk element, per chunked configuration (1 -> 0, 3 -> 1) */
static int   gtrack[2];

/* the default fill values of the SD interface (User's Guide, "fill values": netCDF defaults), typed here independently of mfhdf.h */
static int default_fill(int32 t, uint8_t *out)
{
    switch (t & 0xff) {
        case DFNT_CHAR8: case DFNT_UCHAR8: { uint8_t v = 0; memcpy(out, &v, 1); return 1; }
        case DFNT_INT8: case DFNT_UINT8: { int8_t v = -127; memcpy(out, &v, 1); return 1; }
        case DFNT_INT16: case DFNT_UINT16: { int16_t v = -32767; memcpy(out, &v, 2); return 1; }
        case DFNT_INT32: case DFNT_UINT32: { int32_t v = -2147483647; memcpy(out, &v, 4); return 1; }
        case DFNT_FLOAT32: { float v = 9.9692099683868690e+36F; memcpy(out, &v, 4); return 1; }
        case DFNT_FLOAT64: { double v = 9.9692099683868690e+36; memcpy(out, &v, 8); return 1; }
        default: return 0;
    }
}
static char  dirA[600], dirB[600], dirC[600];

static int idx_of(const int32 *c) { int i = 0; for (int d = 0; d < rank; d++) i = i * dims[d] + c[d]; return i; }

static int open_ro; /* the reopen in progress is read-only */
static int open_cfg(int k, int create)
{
    Cfg *c = &cf[k];
    if (k == 5) { /* the external file lives in dirB: created there, later found through a directory LIST */
        if (create) { HXsetcreatedir(dirB); HXsetdir(dirB); } /* the search path must cover the create directory: the library reopens the file by name */
        else { char list[2000]; snprintf(list, sizeof list, "%s|%s|%s", dirA, dirB, dirC); HXsetcreatedir(NULL); HXsetdir(hk_chance(70) ? list : dirB); }
    }
    if (create && k == 7) { int32 f = Hopen(c->path, DFACC_CREATE, (int16)hk_range(1, 6)); if (f == FAIL) return -1; Hclose(f); c->sd = SDstart(c->path, DFACC_RDWR); }
    else c->sd = SDstart(c->path, create ? DFACC_CREATE : open_ro ? DFACC_READ : DFACC_RDWR);
    if (c->sd == FAIL) { hk_fail("layout-call-failed", "%s SDstart(%s)", CN[k], create ? "create" : open_ro ? "read" : "rdwr"); return -1; }
    if (!create) {
        c->sds = SDselect(c->sd, 0);
        if (c->sds == FAIL) { hk_fail("layout-call-failed", "%s SDselect", CN[k]); return -1; }
        if (c->chunked && hk_chance(50)) SDsetchunkcache(c->sds, (int32)hk_range(1, 8), 0);
        if (k == 8 && hk_chance(50)) SDsetaccesstype(c->sds, hk_chance(50) ? DFACC_PARALLEL : DFACC_SERIAL);
    }
    return 0;
}

static int create_cfg(int k, int fullonly)
{
    Cfg *c = &cf[k]; char key[80];
    int32 d[MAXR]; memcpy(d, dims, sizeof d);
    if (open_cfg(k, 1) < 0) return -1;
    if (c->unlimited) d[0] = SD_UNLIMITED;
    c->sds = SDcreate(c->sd, "data", nt, rank, d);
    snprintf(key, sizeof key, "layout-call-failed:%s:create", CN[k]);
    if (c->sds == FAIL) { if (k == 0) hk_stat("nt_refused", 1); else hk_fail(key, "SDcreate"); return -1; }
    if (hasfill && SDsetfillvalue(c->sds, fillv) == FAIL) hk_fail(key, "SDsetfillvalue");
    if (k == 1 || k == 3) {
        HDF_CHUNK_DEF cd; memset(&cd, 0, sizeof cd); int32 flags = HDF_CHUNK;
        for (int i = 0; i < rank; i++) { c->cshape[i] = (int32)hk_range(1, dims[i] + (hk_chance(20) ? 2 : 0)); cd.chunk_lengths[i] = c->cshape[i]; }
        if (k == 3) {
            flags = HDF_CHUNK | HDF_COMP; for (int i = 0; i < rank; i++) cd.comp.chunk_lengths[i] = c->cshape[i];
            int w = (int)hk_range(0, 2);
            cd.comp.comp_type = w == 0 ? COMP_CODE_RLE : w == 1 ? COMP_CODE_DEFLATE : COMP_CODE_SKPHUFF;
            cd.comp.cinfo.deflate.level = (int)hk_range(1, 9);
            if (w == 2) cd.comp.cinfo.skphuff.skp_size = sz;
        }
        if (SDsetchunk(c->sds, cd, flags) == FAIL) { hk_fail(key, "SDsetchunk"); return -1; }
        c->chunked = 1;
        if (SDsetchunkcache(c->sds, (int32)hk_range(1, 8), 0) == FAIL) hk_fail(key, "SDsetchunkcache");
    }
    if (k == 2) {
        comp_info ci; memset(&ci, 0, sizeof ci); int w = (int)hk_range(0, 2);
        ci.deflate.level = (int)hk_range(1, 9); if (w == 2) ci.skphuff.skp_size = sz;
        if (SDsetcompress(c->sds, w == 0 ? COMP_CODE_RLE : w == 1 ? COMP_CODE_DEFLATE : COMP_CODE_SKPHUFF, &ci) == FAIL) { hk_fail(key, "SDsetcompress"); return -1; }
    }
    if (k == 4) { if (SDsetnbitdataset(c->sds, 8 * sz - 1, 8 * sz, hk_chance(50), hk_chance(50)) == FAIL) { hk_fail(key, "SDsetnbitdataset"); return -1; } }
    if (k == 5) { if (SDsetexternalfile(c->sds, "ext.dat", (int32)hk_range(0, 64)) == FAIL) { hk_fail(key, "SDsetexternalfile"); return -1; } }
    if (k == 6) { if (SDsetblocksize(c->sds, (int32)hk_range(1, 64)) == FAIL) hk_fail(key, "SDsetblocksize"); }
    if (k == 8) SDsetaccesstype(c->sds, hk_chance(50) ? DFACC_PARALLEL : DFACC_SERIAL);
    (void)fullonly;
    return 0;
}

static void close_cfg(int k)
{
    Cfg *c = &cf[k]; char key[80]; snprintf(key, sizeof key, "layout-call-failed:%s:close", CN[k]);
    if (c->sds != FAIL && SDendaccess(c->sds) == FAIL) hk_fail(key, "SDendaccess");
    if (c->sd != FAIL && SDend(c->sd) == FAIL) hk_fail(key, "SDend");
    c->sds = c->sd = FAIL;
}

static void gen_slab(int32 *st, int32 *str, int32 *cnt, int full)
{
    for (int d = 0; d < rank; d++) {
        if (full) { st[d] = 0; str[d] = 1; cnt[d] = dims[d]; continue; }
        st[d] = (int32)hk_range(0, dims[d] - 1);
        str[d] = hk_chance(25) ? (int32)hk_range(1, 3) : 1;
        int maxc = (dims[d] - 1 - st[d]) / str[d] + 1;
        cnt[d] = (int32)hk_range(1, maxc);
    }
}
static int slab_n(const int32 *cnt) { int n = 1; for (int d = 0; d < rank; d++) n *= cnt[d]; return n; }
/* visit the cells of a slab in row-major order of the count box */
static void slab_cells(const int32 *st, const int32 *str, const int32 *cnt, int *out)
{
    int n = slab_n(cnt); int32 c[MAXR], i[MAXR] = {0, 0, 0};
    for (int k = 0; k < n; k++) {
        for (int d = 0; d < rank; d++) c[d] = st[d] + i[d] * str[d];
        out[k] = idx_of(c);
        for (int d = rank - 1; d >= 0; d--) { if (++i[d] < cnt[d]) break; i[d] = 0; }
    }
}

/* ---- whole-chunk access ---- */
static int chunk_elems(int k) { int n = 1; for (int d = 0; d < rank; d++) n *= cf[k].cshape[d]; return n; }
static int chunk_count(int k) { int n = 1; for (int d = 0; d < rank; d++) n *= (dims[d] + cf[k].cshape[d] - 1) / cf[k].cshape[d]; return n; }
static int chunk_no(int k, const int32 *org) { int n = 0; for (int d = 0; d < rank; d++) n = n * ((dims[d] + cf[k].cshape[d] - 1) / cf[k].cshape[d]) + org[d]; return n; }
static void chunk_org(int k, int no, int32 *org) { for (int d = rank - 1; d >= 0; d--) { int nch = (dims[d] + cf[k].cshape[d] - 1) / cf[k].cshape[d]; org[d] = no % nch; no /= nch; } }
/* the part of chunk org that lies inside the extent */
static void chunk_box(int k, const int32 *org, int32 *bst, int32 *bcnt)
{
    for (int d = 0; d < rank; d++) { bst[d] = org[d] * cf[k].cshape[d]; bcnt[d] = cf[k].cshape[d]; if (bst[d] + bcnt[d] > dims[d]) bcnt[d] = dims[d] - bst[d]; }
}
/* element e of the chunk: global cell index (or -1 when outside the extent) and its index in the in-bounds box */
static int chunk_cell(int k, const int32 *org, const int32 *bcnt, int e, int *boxidx)
{
    int32 ci[MAXR], c[MAXR]; int inside = 1, j = 0;
    for (int d = rank - 1; d >= 0; d--) { ci[d] = e % cf[k].cshape[d]; e /= cf[k].cshape[d]; }
    for (int d = 0; d < rank; d++) { c[d] = org[d] * cf[k].cshape[d] + ci[d]; if (c[d] >= dims[d]) inside = 0; j = j * bcnt[d] + ci[d]; }
    if (!inside) return -1;
    *boxidx = j; return idx_of(c);
}

/* SDreadchunk of one chunk of chunked configuration k against the baseline, the hyperslab view of k itself, the shadow and the fill value */
static void check_readchunk(int k, const int32 *org, const char *when)
{
    static uint8_t cb[MAXB], b0[MAXB], b1[MAXB]; char key[80];
    int32 bst[MAXR], bcnt[MAXR]; int cn = chunk_elems(k), g2 = k == 1 ? 0 : 1, no = chunk_no(k, org);
    if (cn * sz > MAXB) return;
    memset(cb, 0xA5, (size_t)(cn * sz));
    if (SDreadchunk(cf[k].sds, (int32 *)org, cb) == FAIL) { /* a chunk that was never written has no storage, but it has a value: the fill value */
        snprintf(key, sizeof key, "layout-call-failed:%s:SDreadchunk", CN[k]); hk_fail(key, "%s: chunk %d cannot be read (rank %d nt %d)", when, no, rank, (int)nt); return; }
    chunk_box(k, org, bst, bcnt);
    memset(b0, 0xA5, sizeof b0); memset(b1, 0xA5, sizeof b1);
    int r0 = SDreaddata(cf[0].sds, bst, NULL, bcnt, b0), r1 = SDreaddata(cf[k].sds, bst, NULL, bcnt, b1);
    if (r0 == FAIL) { hk_fail("layout-call-failed:contig:SDreaddata", "%s: region of chunk %d", when, no); return; }
    if (r1 == FAIL) { snprintf(key, sizeof key, "layout-call-failed:%s:SDreaddata", CN[k]); hk_fail(key, "%s: region of chunk %d", when, no); return; }
    for (int e = 0; e < cn; e++) {
        int j = 0, g = chunk_cell(k, org, bcnt, e, &j); const uint8_t *v = cb + e * sz;
        if (g >= 0) {
            if (memcmp(v, b0 + j * sz, (size_t)sz)) { snprintf(key, sizeof key, "layout-readchunk-mismatch:%s", CN[k]);
                hk_fail(key, "%s: SDreadchunk cell %d (chunk %d element %d, %s) differs from what the contiguous baseline reads (rank %d nt %d fill %d)", when, g, no, e, written[g] ? "written" : "never written", rank, (int)nt, hasfill); break; }
            if (memcmp(v, b1 + j * sz, (size_t)sz)) { hk_fail("layout-chunk-vs-slab", "%s: %s: SDreadchunk cell %d (chunk %d element %d) differs from the hyperslab view of the same data set", when, CN[k], g, no, e); break; }
            if (known[g] && memcmp(v, shadow + g * sz, (size_t)sz)) { hk_fail("layout-chunk-vs-slab", "%s: %s: SDreadchunk cell %d (chunk element %d) is not the last written value / fill value", when, CN[k], g, e); break; }
            if (!known[g] && havedef && memcmp(v, deffill, (size_t)sz)) { snprintf(key, sizeof key, "layout-default-fill:%s", CN[k]);
                hk_fail(key, "%s: SDreadchunk: never-written cell %d is not the default fill value of number type %d", when, g, (int)nt); break; }
        }
        else if (gtrack[g2]) { /* outside the extent: only whole-chunk access sees these cells */
            const uint8_t *want = gwr[g2][no * cn + e] ? gsh[g2] + (no * cn + e) * sz : hasfill ? fillv : havedef ? deffill : NULL;
            if (want && memcmp(v, want, (size_t)sz)) { snprintf(key, sizeof key, "layout-chunk-ghost:%s", CN[k]);
                hk_fail(key, "%s: chunk %d element %d (outside the extent) is not %s (rank %d nt %d)", when, no, e, gwr[g2][no * cn + e] ? "what SDwritechunk stored" : "the fill value", rank, (int)nt); break; }
        }
    }
    hk_stat("readchunks", 1);
}

static void run_case(int kcase)
{
    static const int32 NTS[] = {DFNT_CHAR8, DFNT_UCHAR8, DFNT_INT8, DFNT_UINT8, DFNT_INT16, DFNT_UINT16, DFNT_INT32, DFNT_UINT32, DFNT_FLOAT32, DFNT_FLOAT64};
    static const int32 NTS64[] = {DFNT_INT64, DFNT_UINT64};
    static const int32 FLAV[] = {0, 0, 0, DFNT_NATIVE, DFNT_LITEND};
    char sub[700];
    rank = (int)hk_range(1, MAXR); nt = hk_chance(3) ? HK_PICK(NTS64) : HK_PICK(NTS); nt |= HK_PICK(FLAV);
    sz = DFKNTsize((nt | DFNT_NATIVE) & ~DFNT_LITEND); nelem = 1; /* size of one element in memory */
    if (sz <= 0 || sz > 8) { hk_stat("nt_refused", 1); return; }
    havedef = default_fill(nt, deffill); memset(gwr, 0, sizeof gwr); gtrack[0] = gtrack[1] = 0; open_ro = 0;
    for (int d = 0; d < rank; d++) { dims[d] = (int32)hk_range(1, rank == 1 ? 24 : rank == 2 ? 8 : 5); nelem *= dims[d]; }
    hasfill = hk_chance(70); for (int i = 0; i < 8; i++) fillv[i] = hk_byte();
    int fullonly = hk_chance(30);  /* history of whole-array writes: the coder configurations take part */
    int firstfull = fullonly || hk_chance(50);
    memset(known, 0, sizeof known); memset(written, 0, sizeof written);
    for (int e = 0; e < nelem; e++) { memcpy(shadow + e * sz, fillv, (size_t)sz); known[e] = (uint8_t)hasfill; }
    snprintf(dirA, sizeof dirA, "%s", hk_tmp("dA")); snprintf(dirB, sizeof dirB, "%s", hk_tmp("dB")); snprintf(dirC, sizeof dirC, "%s", hk_tmp("dC"));
    mkdir(dirA, 0777); mkdir(dirB, 0777); mkdir(dirC, 0777);
    snprintf(sub, sizeof sub, "%s/ext.dat", dirB); remove(sub);
    for (int k = 0; k < NCFG; k++) {
        Cfg *c = &cf[k]; memset(c, 0, sizeof *c); c->sd = c->sds = FAIL;
        char nm[40]; snprintf(nm, sizeof nm, "lay%d.hdf", k); snprintf(c->path, sizeof c->path, "%s", hk_tmp(nm)); remove(c->path);
        c->on = 1;
        if ((k == 2 || k == 4) && !fullonly) c->on = 0;
        if (k == 4 && (nt == DFNT_FLOAT32 || nt == DFNT_FLOAT64)) c->on = 0;       /* n-bit is for integer types */
        if (k == 6) { c->unlimited = 1; if (!firstfull) c->on = 0; }                /* the extent of a record variable follows the writes */
        if (k != 0 && c->on && !hk_chance(75)) c->on = 0;                           /* a random subset per case keeps cases short */
        if (c->on && create_cfg(k, fullonly) < 0) { c->on = 0; if (c->sd != FAIL) { SDend(c->sd); c->sd = FAIL; } }
        if (c->on) hk_stat(CN[k], 1);
        if (c->on && c->chunked) gtrack[k == 1 ? 0 : 1] = chunk_count(k) * chunk_elems(k) <= GMAX;
        if (k == 0 && !c->on) break; /* the number type is not one the SD interface stores: nothing to compare */
    }
    if (!cf[0].on) return;
    { char st[40]; snprintf(st, sizeof st, "nt_%s%s", (nt & DFNT_NATIVE) ? "native_" : (nt & DFNT_LITEND) ? "litend_" : "", (nt & 0xff) == DFNT_CHAR8 || (nt & 0xff) == DFNT_UCHAR8 ? "char" : (nt & 0xff) == DFNT_FLOAT32 || (nt & 0xff) == DFNT_FLOAT64 ? "float" : "int"); hk_stat(st, 1); }
    int nops = (int)hk_range(2, 14);
    static uint8_t wbuf[MAXB], rb[NCFG][MAXB]; static int cells[MAXB / 1];
    for (int op = 0; op < nops; op++) {
        int32 st[MAXR], str[MAXR], cnt[MAXR];
        int usestride;
        /* whole-chunk write on one chunked configuration = hyperslab write of the in-bounds part of that region everywhere else */
        if (!fullonly && !(op == 0 && firstfull) && (cf[1].on || cf[3].on) && hk_chance(15)) {
            int kk = cf[1].on && cf[3].on ? (hk_chance(50) ? 1 : 3) : cf[1].on ? 1 : 3, g2 = kk == 1 ? 0 : 1, cn = chunk_elems(kk);
            int32 org[MAXR], bst[MAXR], bcnt[MAXR]; static uint8_t cbuf[MAXB];
            if (cn * sz <= MAXB) {
                int no = (int)hk_range(0, chunk_count(kk) - 1); chunk_org(kk, no, org); chunk_box(kk, org, bst, bcnt);
                for (int i = 0; i < cn * sz; i++) cbuf[i] = hk_byte();
                int nb = 0;
                for (int e = 0; e < cn; e++) { int j = 0, g = chunk_cell(kk, org, bcnt, e, &j); if (g >= 0) { memcpy(wbuf + j * sz, cbuf + e * sz, (size_t)sz); cells[j] = g; nb++; } }
                int r0 = SDwritedata(cf[0].sds, bst, NULL, bcnt, wbuf);
                if (r0 == FAIL) { hk_fail("layout-call-failed:contig:SDwritedata", "valid write refused on the baseline"); break; }
                for (int k = 1; k < NCFG; k++) if (cf[k].on) {
                    int r = k == kk ? SDwritechunk(cf[k].sds, org, cbuf) : SDwritedata(cf[k].sds, bst, NULL, bcnt, wbuf);
                    if (r != r0) { char key[80]; snprintf(key, sizeof key, "layout-call-failed:%s:%s", CN[k], k == kk ? "SDwritechunk" : "SDwritedata");
                        hk_fail(key, "returns %d, baseline %d (region of chunk %d of %s, rank %d nt %d op %d)", r, r0, no, CN[kk], rank, (int)nt, op); cf[k].on = 0; close_cfg(k); }
                }
                for (int i = 0; i < nb; i++) { memcpy(shadow + cells[i] * sz, wbuf + i * sz, (size_t)sz); known[cells[i]] = 1; written[cells[i]] = 1; }
                if (gtrack[g2]) for (int e = 0; e < cn; e++) { memcpy(gsh[g2] + (no * cn + e) * sz, cbuf + e * sz, (size_t)sz); gwr[g2][no * cn + e] = 1; }
                hk_stat("writechunks", 1);
                if (cf[kk].on && hk_chance(50)) check_readchunk(kk, org, "after SDwritechunk");
                continue;
            }
        }
        if (op == 0 ? firstfull : 0) gen_slab(st, str, cnt, 1);
        else gen_slab(st, str, cnt, fullonly && hk_chance(100));
        usestride = 0; for (int d = 0; d < rank; d++) if (str[d] != 1) usestride = 1;
        int n = slab_n(cnt); slab_cells(st, str, cnt, cells);
        int iswrite = (op == 0 && firstfull) || hk_chance(fullonly ? 50 : 55);
        if (iswrite) {
            for (int i = 0; i < n * sz; i++) wbuf[i] = hk_byte();
            if (hasfill && hk_chance(10)) for (int i = 0; i < n; i++) memcpy(wbuf + i * sz, fillv, (size_t)sz); /* data equal to the fill value */
            int r0 = -2;
            for (int k = 0; k < NCFG; k++) if (cf[k].on) {
                int r = SDwritedata(cf[k].sds, st, usestride ? str : NULL, cnt, wbuf);
                if (k == 0) r0 = r;
                else if (r != r0) { char key[80]; snprintf(key, sizeof key, "layout-call-failed:%s:SDwritedata", CN[k]);
                    if (getenv("LAY_DEBUG")) { printf("INFO error stack of %s:\n", CN[k]); HEprint(stdout, 0); }
                    hk_fail(key, "returns %d, baseline %d (rank %d nt %d op %d%s)", r, r0, rank, (int)nt, op, usestride ? " strided" : ""); cf[k].on = 0; close_cfg(k); }
            }
            if (r0 == FAIL) { hk_fail("layout-call-failed:contig:SDwritedata", "valid write refused on the baseline"); break; }
            for (int i = 0; i < n; i++) { memcpy(shadow + cells[i] * sz, wbuf + i * sz, (size_t)sz); known[cells[i]] = 1; written[cells[i]] = 1; }
            hk_stat("writes", 1);
        }
        else {
            int r0 = -2;
            for (int k = 0; k < NCFG; k++) if (cf[k].on) {
                memset(rb[k], 0xA5, (size_t)(n * sz));
                int r = SDreaddata(cf[k].sds, st, usestride ? str : NULL, cnt, rb[k]);
                if (k == 0) r0 = r;
                else if (r != r0) { char key[80]; int unw = 0; for (int i = 0; i < n; i++) if (!written[cells[i]]) unw = 1;
                    /* root cause key: the element SDsetexternalfile creates before the first write is never filled (see known_findings.json) */
                    if (k == 5 && unw) snprintf(key, sizeof key, "layout-external-unfilled"); else snprintf(key, sizeof key, "layout-call-failed:%s:SDreaddata", CN[k]);
                    hk_fail(key, "returns %d, baseline %d (rank %d nt %d op %d)", r, r0, rank, (int)nt, op); if (!(k == 5 && unw)) { cf[k].on = 0; close_cfg(k); } continue; }
                if (r == FAIL) continue;
                for (int i = 0; i < n; i++) {
                    if (k == 5 && !written[cells[i]]) { if (memcmp(rb[k] + i * sz, rb[0] + i * sz, (size_t)sz)) { hk_fail("layout-external-unfilled", "never-written cell %d is not the fill value the baseline returns", cells[i]); break; } continue; }
                    if (k != 0 && memcmp(rb[k] + i * sz, rb[0] + i * sz, (size_t)sz)) { char key[80]; snprintf(key, sizeof key, "layout-mismatch:%s", CN[k]);
                        hk_fail(key, "cell %d differs from the contiguous baseline (rank %d nt %d op %d%s)", cells[i], rank, (int)nt, op, usestride ? " strided" : ""); break; }
                    if (known[cells[i]] && memcmp(rb[k] + i * sz, shadow + cells[i] * sz, (size_t)sz)) { char key[80]; snprintf(key, sizeof key, "layout-shadow:%s", CN[k]);
                        hk_fail(key, "cell %d is not the last written value / fill value (rank %d nt %d op %d)", cells[i], rank, (int)nt, op); break; }
                    if (!known[cells[i]] && havedef && memcmp(rb[k] + i * sz, deffill, (size_t)sz)) { char key[80]; snprintf(key, sizeof key, "layout-default-fill:%s", CN[k]);
                        hk_fail(key, "never-written cell %d is not the default fill value of number type %d (rank %d op %d)", cells[i], (int)nt, rank, op); break; }
                }
            }
            hk_stat("reads", 1);
        }
        /* whole-chunk read against the baseline, the hyperslab view, the shadow and the fill value */
        for (int k = 1; k <= 3; k += 2) if (cf[k].on && cf[k].chunked && hk_chance(30)) {
            int32 org[MAXR]; chunk_org(k, (int)hk_range(0, chunk_count(k) - 1), org);
            check_readchunk(k, org, "in session");
        }
        /* close and reopen everything now and then */
        if (hk_chance(25)) { for (int k = 0; k < NCFG; k++) if (cf[k].on) { close_cfg(k); if (open_cfg(k, 0) < 0) { cf[k].on = 0; if (cf[k].sd != FAIL) { SDend(cf[k].sd); cf[k].sd = FAIL; } } } hk_stat("reopens", 1); }
    }
    /* final: reopen read-only-ish and compare the whole array */
    {
        int32 st[MAXR] = {0, 0, 0}, cnt[MAXR]; memcpy(cnt, dims, sizeof cnt);
        open_ro = hk_chance(50);
        for (int k = 0; k < NCFG; k++) if (cf[k].on) { close_cfg(k); if (open_cfg(k, 0) < 0) { cf[k].on = 0; if (cf[k].sd != FAIL) { SDend(cf[k].sd); cf[k].sd = FAIL; } } }
        int r0 = -2; int32 gnt0 = 0;
        for (int k = 0; k < NCFG; k++) if (cf[k].on) {
            memset(rb[k], 0xA5, (size_t)(nelem * sz));
            int32 got[MAXR], gr = 0, gnt = 0, na = 0; char nm[80];
            /* the native flavour is reported after reopen as the flavour of the creating host (little-endian, plain for the character types) under every configuration alike */
            if (SDgetinfo(cf[k].sds, nm, &gr, got, &gnt, &na) == FAIL || gr != rank || (gnt & 0xff) != (nt & 0xff) || (!(nt & DFNT_NATIVE) && gnt != nt) || (k == 0 ? (gnt0 = gnt, 0) : gnt != gnt0)) { char key[80]; snprintf(key, sizeof key, "layout-info:%s", CN[k]); hk_fail(key, "SDgetinfo rank %d nt %d, created with rank %d nt %d", (int)gr, (int)gnt, rank, (int)nt); }
            int full = 1; if (cf[k].unlimited && got[0] != dims[0]) full = 0;
            if (!full) { char key[80]; snprintf(key, sizeof key, "layout-info:%s", CN[k]); hk_fail(key, "extent %d after a whole-array write, expected %d", (int)got[0], (int)dims[0]); continue; }
            int r = SDreaddata(cf[k].sds, st, NULL, cnt, rb[k]);
            if (k == 0) r0 = r;
            else if (r != r0) { char key[80]; int unw = 0; for (int e = 0; e < nelem; e++) if (!written[e]) unw = 1;
                if (k == 5 && unw) snprintf(key, sizeof key, "layout-external-unfilled"); else snprintf(key, sizeof key, "layout-call-failed:%s:SDreaddata", CN[k]);
                hk_fail(key, "final read returns %d, baseline %d", r, r0); continue; }
            if (r == FAIL) continue;
            for (int e = 0; e < nelem; e++) {
                if (k == 5 && !written[e]) { if (memcmp(rb[k] + e * sz, rb[0] + e * sz, (size_t)sz)) { hk_fail("layout-external-unfilled", "after reopen: never-written cell %d is not the fill value the baseline returns", e); break; } continue; }
                if (k != 0 && memcmp(rb[k] + e * sz, rb[0] + e * sz, (size_t)sz)) { char key[80]; snprintf(key, sizeof key, "layout-mismatch:%s", CN[k]); hk_fail(key, "after reopen: cell %d differs from the baseline (rank %d nt %d)", e, rank, (int)nt); break; }
                if (known[e] && memcmp(rb[k] + e * sz, shadow + e * sz, (size_t)sz)) { char key[80]; snprintf(key, sizeof key, "layout-shadow:%s", CN[k]); hk_fail(key, "after reopen: cell %d is not the last written value / fill value", e); break; }
                if (!known[e] && havedef && memcmp(rb[k] + e * sz, deffill, (size_t)sz)) { char key[80]; snprintf(key, sizeof key, "layout-default-fill:%s", CN[k]); hk_fail(key, "after reopen: never-written cell %d is not the default fill value of number type %d", e, (int)nt); break; }
            }
        }
        /* every chunk of the chunked configurations, written or not, by whole-chunk read */
        if (cf[0].on && r0 != FAIL) for (int k = 1; k <= 3; k += 2) if (cf[k].on && cf[k].chunked) {
            int nc = chunk_count(k), first = nc > 48 ? (int)hk_range(0, nc - 48) : 0; int32 org[MAXR];
            long nf = hk_nfail;
            for (int no = first; no < nc && no < first + 48 && hk_nfail == nf; no++) { chunk_org(k, no, org); check_readchunk(k, org, open_ro ? "after read-only reopen" : "after reopen"); }
        }
        for (int k = 0; k < NCFG; k++) if (cf[k].on) close_cfg(k);
        open_ro = 0;
    }
    HXsetdir(NULL); HXsetcreatedir(NULL);
    if (kcase < 3) printf("SAMPLE layout rank=%d nt=%d nelem=%d fullonly=%d hasfill=%d\n", rank, (int)nt, nelem, fullonly, hasfill);
}

int main(int argc, char **argv) { return hk_main(argc, argv, "layout"); }
