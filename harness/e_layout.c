/* e_layout - implementation oracle for C04 ("storage layout and tuning knobs never change the data an application sees").
 * ONE logical history of SDwritedata/SDreaddata calls (random slabs, strides, close/reopen) is applied to the same data set stored in
 * up to nine configurations, each in its own file:
 *   0 contiguous (baseline)          1 chunked (any shape, incl. shapes that do not divide the extent), random chunk-cache size
 *   2 compressed (RLE/deflate/skphuff)   3 chunked + compressed   4 n-bit (full width = lossless)
 *   5 external file (SDsetexternalfile with an offset), written with HXsetcreatedir, later FOUND through an HXsetdir("a|b|c") list
 *   6 unlimited first dimension + small SDsetblocksize (linked blocks)
 *   7 file created with a small DD-block size (Hopen(.., ndds) before SDstart)     8 SDsetaccesstype(DFACC_PARALLEL/SERIAL)
 * After every read the bytes of every configuration must equal the baseline's (key layout-mismatch:<config>) and, for cells whose
 * value is defined (written, or fill value set), the shadow array (layout-shadow:<config>).  A call that succeeds on the baseline
 * must succeed on every configuration (layout-call-failed:<config>:<api>).  For chunked configurations SDreadchunk of a random chunk
 * must agree with the hyperslab view of that region (layout-chunk-vs-slab).
 * Coders only support rewriting a whole element, so configurations 2 and 4 take part only in histories made of whole-array writes.
 * No model is involved (no T lines): the array model side of C04 is H4/Props/C04Chunk.lean + engine chunk; this engine is the
 * cross-configuration comparison the property text asks for.
 */
#include "hdf.h"
#include "mfhdf.h"
#include "hk.h"
#include <sys/stat.h>

#define MAXR 3
#define MAXB 4096
enum { NCFG = 9 };
static const char *CN[NCFG] = {"contig", "chunk", "comp", "chunkcomp", "nbit", "external", "unlimited-blocks", "ddsize", "accesstype"};

typedef struct {
    int   on, unlimited;
    char  path[600];
    int32 sd, sds;
    int32 cshape[MAXR];
    int   chunked;
} Cfg;
static Cfg   cf[NCFG];
static int   rank, sz, nelem;
static int32 dims[MAXR], nt;
static uint8_t shadow[MAXB], known[MAXB], written[MAXB], fillv[8];
static int   hasfill;
static char  dirA[600], dirB[600], dirC[600];

static int idx_of(const int32 *c) { int i = 0; for (int d = 0; d < rank; d++) i = i * dims[d] + c[d]; return i; }

static int open_cfg(int k, int create)
{
    Cfg *c = &cf[k];
    if (k == 5) { /* the external file lives in dirB: created there, later found through a directory LIST */
        if (create) { HXsetcreatedir(dirB); HXsetdir(dirB); } /* the search path must cover the create directory: the library reopens the file by name */
        else { char list[2000]; snprintf(list, sizeof list, "%s|%s|%s", dirA, dirB, dirC); HXsetcreatedir(NULL); HXsetdir(hk_chance(70) ? list : dirB); }
    }
    if (create && k == 7) { int32 f = Hopen(c->path, DFACC_CREATE, (int16)hk_range(1, 6)); if (f == FAIL) return -1; Hclose(f); c->sd = SDstart(c->path, DFACC_RDWR); }
    else c->sd = SDstart(c->path, create ? DFACC_CREATE : DFACC_RDWR);
    if (c->sd == FAIL) { hk_fail("layout-call-failed", "%s SDstart(%s)", CN[k], create ? "create" : "rdwr"); return -1; }
    if (!create) {
        c->sds = SDselect(c->sd, 0);
        if (c->sds == FAIL) { hk_fail("layout-call-failed", "%s SDselect", CN[k]); return -1; }
        if (c->chunked && hk_chance(50)) SDsetchunkcache(c->sds, (int32)hk_range(1, 8), 0);
        if (k == 8 && hk_chance(50)) SDsetaccesstype(c->sds, hk_chance(50) ? DFACC_PARALLEL : DFACC_SERIAL);
    }
    return 0;
}

static int create_cfg(int k, int fullonly)
{
    Cfg *c = &cf[k]; char key[80];
    int32 d[MAXR]; memcpy(d, dims, sizeof d);
    if (open_cfg(k, 1) < 0) return -1;
    if (c->unlimited) d[0] = SD_UNLIMITED;
    c->sds = SDcreate(c->sd, "data", nt, rank, d);
    snprintf(key, sizeof key, "layout-call-failed:%s:create", CN[k]);
    if (c->sds == FAIL) { hk_fail(key, "SDcreate"); return -1; }
    if (hasfill && SDsetfillvalue(c->sds, fillv) == FAIL) hk_fail(key, "SDsetfillvalue");
    if (k == 1 || k == 3) {
        HDF_CHUNK_DEF cd; memset(&cd, 0, sizeof cd); int32 flags = HDF_CHUNK;
        for (int i = 0; i < rank; i++) { c->cshape[i] = (int32)hk_range(1, dims[i] + (hk_chance(20) ? 2 : 0)); cd.chunk_lengths[i] = c->cshape[i]; }
        if (k == 3) {
            flags = HDF_CHUNK | HDF_COMP; for (int i = 0; i < rank; i++) cd.comp.chunk_lengths[i] = c->cshape[i];
            int w = (int)hk_range(0, 2);
            cd.comp.comp_type = w == 0 ? COMP_CODE_RLE : w == 1 ? COMP_CODE_DEFLATE : COMP_CODE_SKPHUFF;
            cd.comp.cinfo.deflate.level = (int)hk_range(1, 9);
            if (w == 2) cd.comp.cinfo.skphuff.skp_size = sz;
        }
        if (SDsetchunk(c->sds, cd, flags) == FAIL) { hk_fail(key, "SDsetchunk"); return -1; }
        c->chunked = 1;
        if (SDsetchunkcache(c->sds, (int32)hk_range(1, 8), 0) == FAIL) hk_fail(key, "SDsetchunkcache");
    }
    if (k == 2) {
        comp_info ci; memset(&ci, 0, sizeof ci); int w = (int)hk_range(0, 2);
        ci.deflate.level = (int)hk_range(1, 9); if (w == 2) ci.skphuff.skp_size = sz;
        if (SDsetcompress(c->sds, w == 0 ? COMP_CODE_RLE : w == 1 ? COMP_CODE_DEFLATE : COMP_CODE_SKPHUFF, &ci) == FAIL) { hk_fail(key, "SDsetcompress"); return -1; }
    }
    if (k == 4) { if (SDsetnbitdataset(c->sds, 8 * sz - 1, 8 * sz, hk_chance(50), hk_chance(50)) == FAIL) { hk_fail(key, "SDsetnbitdataset"); return -1; } }
    if (k == 5) { if (SDsetexternalfile(c->sds, "ext.dat", (int32)hk_range(0, 64)) == FAIL) { hk_fail(key, "SDsetexternalfile"); return -1; } }
    if (k == 6) { if (SDsetblocksize(c->sds, (int32)hk_range(1, 64)) == FAIL) hk_fail(key, "SDsetblocksize"); }
    if (k == 8) SDsetaccesstype(c->sds, hk_chance(50) ? DFACC_PARALLEL : DFACC_SERIAL);
    (void)fullonly;
    return 0;
}

static void close_cfg(int k)
{
    Cfg *c = &cf[k]; char key[80]; snprintf(key, sizeof key, "layout-call-failed:%s:close", CN[k]);
    if (c->sds != FAIL && SDendaccess(c->sds) == FAIL) hk_fail(key, "SDendaccess");
    if (c->sd != FAIL && SDend(c->sd) == FAIL) hk_fail(key, "SDend");
    c->sds = c->sd = FAIL;
}

static void gen_slab(int32 *st, int32 *str, int32 *cnt, int full)
{
    for (int d = 0; d < rank; d++) {
        if (full) { st[d] = 0; str[d] = 1; cnt[d] = dims[d]; continue; }
        st[d] = (int32)hk_range(0, dims[d] - 1);
        str[d] = hk_chance(25) ? (int32)hk_range(1, 3) : 1;
        int maxc = (dims[d] - 1 - st[d]) / str[d] + 1;
        cnt[d] = (int32)hk_range(1, maxc);
    }
}
static int slab_n(const int32 *cnt) { int n = 1; for (int d = 0; d < rank; d++) n *= cnt[d]; return n; }
/* visit the cells of a slab in row-major order of the count box */
static void slab_cells(const int32 *st, const int32 *str, const int32 *cnt, int *out)
{
    int n = slab_n(cnt); int32 c[MAXR], i[MAXR] = {0, 0, 0};
    for (int k = 0; k < n; k++) {
        for (int d = 0; d < rank; d++) c[d] = st[d] + i[d] * str[d];
        out[k] = idx_of(c);
        for (int d = rank - 1; d >= 0; d--) { if (++i[d] < cnt[d]) break; i[d] = 0; }
    }
}

static void run_case(int kcase)
{
    static const int32 NTS[] = {DFNT_INT8, DFNT_UINT8, DFNT_INT16, DFNT_UINT16, DFNT_INT32, DFNT_UINT32, DFNT_FLOAT32, DFNT_FLOAT64};
    char sub[700];
    rank = (int)hk_range(1, MAXR); nt = HK_PICK(NTS); sz = DFKNTsize(nt); nelem = 1;
    for (int d = 0; d < rank; d++) { dims[d] = (int32)hk_range(1, rank == 1 ? 24 : rank == 2 ? 8 : 5); nelem *= dims[d]; }
    hasfill = hk_chance(70); for (int i = 0; i < 8; i++) fillv[i] = hk_byte();
    int fullonly = hk_chance(30);  /* history of whole-array writes: the coder configurations take part */
    int firstfull = fullonly || hk_chance(50);
    memset(known, 0, sizeof known); memset(written, 0, sizeof written);
    for (int e = 0; e < nelem; e++) { memcpy(shadow + e * sz, fillv, (size_t)sz); known[e] = (uint8_t)hasfill; }
    snprintf(dirA, sizeof dirA, "%s", hk_tmp("dA")); snprintf(dirB, sizeof dirB, "%s", hk_tmp("dB")); snprintf(dirC, sizeof dirC, "%s", hk_tmp("dC"));
    mkdir(dirA, 0777); mkdir(dirB, 0777); mkdir(dirC, 0777);
    snprintf(sub, sizeof sub, "%s/ext.dat", dirB); remove(sub);
    for (int k = 0; k < NCFG; k++) {
        Cfg *c = &cf[k]; memset(c, 0, sizeof *c); c->sd = c->sds = FAIL;
        char nm[40]; snprintf(nm, sizeof nm, "lay%d.hdf", k); snprintf(c->path, sizeof c->path, "%s", hk_tmp(nm)); remove(c->path);
        c->on = 1;
        if ((k == 2 || k == 4) && !fullonly) c->on = 0;
        if (k == 4 && (nt == DFNT_FLOAT32 || nt == DFNT_FLOAT64)) c->on = 0;       /* n-bit is for integer types */
        if (k == 6) { c->unlimited = 1; if (!firstfull) c->on = 0; }                /* the extent of a record variable follows the writes */
        if (k != 0 && c->on && !hk_chance(75)) c->on = 0;                           /* a random subset per case keeps cases short */
        if (c->on && create_cfg(k, fullonly) < 0) { c->on = 0; if (c->sd != FAIL) { SDend(c->sd); c->sd = FAIL; } }
        if (c->on) hk_stat(CN[k], 1);
    }
    if (!cf[0].on) return;
    int nops = (int)hk_range(2, 14);
    static uint8_t wbuf[MAXB], rb[NCFG][MAXB]; static int cells[MAXB / 1];
    for (int op = 0; op < nops; op++) {
        int32 st[MAXR], str[MAXR], cnt[MAXR];
        int usestride;
        if (op == 0 ? firstfull : 0) gen_slab(st, str, cnt, 1);
        else gen_slab(st, str, cnt, fullonly && hk_chance(100));
        usestride = 0; for (int d = 0; d < rank; d++) if (str[d] != 1) usestride = 1;
        int n = slab_n(cnt); slab_cells(st, str, cnt, cells);
        int iswrite = (op == 0 && firstfull) || hk_chance(fullonly ? 50 : 55);
        if (iswrite) {
            for (int i = 0; i < n * sz; i++) wbuf[i] = hk_byte();
            if (hasfill && hk_chance(10)) for (int i = 0; i < n; i++) memcpy(wbuf + i * sz, fillv, (size_t)sz); /* data equal to the fill value */
            int r0 = -2;
            for (int k = 0; k < NCFG; k++) if (cf[k].on) {
                int r = SDwritedata(cf[k].sds, st, usestride ? str : NULL, cnt, wbuf);
                if (k == 0) r0 = r;
                else if (r != r0) { char key[80]; snprintf(key, sizeof key, "layout-call-failed:%s:SDwritedata", CN[k]);
                    if (getenv("LAY_DEBUG")) { printf("INFO error stack of %s:\n", CN[k]); HEprint(stdout, 0); }
                    hk_fail(key, "returns %d, baseline %d (rank %d nt %d op %d%s)", r, r0, rank, (int)nt, op, usestride ? " strided" : ""); cf[k].on = 0; close_cfg(k); }
            }
            if (r0 == FAIL) { hk_fail("layout-call-failed:contig:SDwritedata", "valid write refused on the baseline"); break; }
            for (int i = 0; i < n; i++) { memcpy(shadow + cells[i] * sz, wbuf + i * sz, (size_t)sz); known[cells[i]] = 1; written[cells[i]] = 1; }
            hk_stat("writes", 1);
        }
        else {
            int r0 = -2;
            for (int k = 0; k < NCFG; k++) if (cf[k].on) {
                memset(rb[k], 0xA5, (size_t)(n * sz));
                int r = SDreaddata(cf[k].sds, st, usestride ? str : NULL, cnt, rb[k]);
                if (k == 0) r0 = r;
                else if (r != r0) { char key[80]; int unw = 0; for (int i = 0; i < n; i++) if (!written[cells[i]]) unw = 1;
                    /* root cause key: the element SDsetexternalfile creates before the first write is never filled (see known_findings.json) */
                    if (k == 5 && unw) snprintf(key, sizeof key, "layout-external-unfilled"); else snprintf(key, sizeof key, "layout-call-failed:%s:SDreaddata", CN[k]);
                    hk_fail(key, "returns %d, baseline %d (rank %d nt %d op %d)", r, r0, rank, (int)nt, op); if (!(k == 5 && unw)) { cf[k].on = 0; close_cfg(k); } continue; }
                if (r == FAIL) continue;
                for (int i = 0; i < n; i++) {
                    if (k == 5 && !written[cells[i]]) { if (memcmp(rb[k] + i * sz, rb[0] + i * sz, (size_t)sz)) { hk_fail("layout-external-unfilled", "never-written cell %d is not the fill value the baseline returns", cells[i]); break; } continue; }
                    if (k != 0 && memcmp(rb[k] + i * sz, rb[0] + i * sz, (size_t)sz)) { char key[80]; snprintf(key, sizeof key, "layout-mismatch:%s", CN[k]);
                        hk_fail(key, "cell %d differs from the contiguous baseline (rank %d nt %d op %d%s)", cells[i], rank, (int)nt, op, usestride ? " strided" : ""); break; }
                    if (known[cells[i]] && memcmp(rb[k] + i * sz, shadow + cells[i] * sz, (size_t)sz)) { char key[80]; snprintf(key, sizeof key, "layout-shadow:%s", CN[k]);
                        hk_fail(key, "cell %d is not the last written value / fill value (rank %d nt %d op %d)", cells[i], rank, (int)nt, op); break; }
                }
            }
            hk_stat("reads", 1);
        }
        /* whole-chunk read against the hyperslab view */
        for (int k = 1; k <= 3; k += 2) if (cf[k].on && cf[k].chunked && hk_chance(30)) {
            int32 org[MAXR], cst[MAXR], ccnt[MAXR]; int cn = 1, inside = 1;
            for (int d = 0; d < rank; d++) { int nch = (dims[d] + cf[k].cshape[d] - 1) / cf[k].cshape[d]; org[d] = (int32)hk_range(0, nch - 1); cn *= cf[k].cshape[d]; }
            if (cn * sz > MAXB) continue;
            static uint8_t cb[MAXB];
            if (SDreadchunk(cf[k].sds, org, cb) == FAIL) { hk_stat("readchunk_failed", 1); continue; } /* a chunk never written may have no storage */
            /* compare the in-bounds cells of the chunk with the shadow */
            int32 ci[MAXR] = {0, 0, 0};
            for (int e = 0; e < cn; e++) {
                inside = 1; for (int d = 0; d < rank; d++) { cst[d] = org[d] * cf[k].cshape[d] + ci[d]; if (cst[d] >= dims[d]) inside = 0; }
                if (inside) { int g = idx_of(cst); if (known[g] && memcmp(cb + e * sz, shadow + g * sz, (size_t)sz)) {
                    hk_fail("layout-chunk-vs-slab", "%s: SDreadchunk cell %d (chunk element %d) differs from the hyperslab view", CN[k], g, e); break; } }
                for (int d = rank - 1; d >= 0; d--) { if (++ci[d] < cf[k].cshape[d]) break; ci[d] = 0; }
            }
            (void)ccnt; hk_stat("readchunks", 1);
        }
        /* close and reopen everything now and then */
        if (hk_chance(25)) { for (int k = 0; k < NCFG; k++) if (cf[k].on) { close_cfg(k); if (open_cfg(k, 0) < 0) { cf[k].on = 0; if (cf[k].sd != FAIL) { SDend(cf[k].sd); cf[k].sd = FAIL; } } } hk_stat("reopens", 1); }
    }
    /* final: reopen read-only-ish and compare the whole array */
    {
        int32 st[MAXR] = {0, 0, 0}, cnt[MAXR]; memcpy(cnt, dims, sizeof cnt);
        for (int k = 0; k < NCFG; k++) if (cf[k].on) { close_cfg(k); if (open_cfg(k, 0) < 0) { cf[k].on = 0; if (cf[k].sd != FAIL) { SDend(cf[k].sd); cf[k].sd = FAIL; } } }
        int r0 = -2;
        for (int k = 0; k < NCFG; k++) if (cf[k].on) {
            memset(rb[k], 0xA5, (size_t)(nelem * sz));
            int32 got[MAXR], gr = 0, gnt = 0, na = 0; char nm[80];
            if (SDgetinfo(cf[k].sds, nm, &gr, got, &gnt, &na) == FAIL || gr != rank || gnt != nt) { char key[80]; snprintf(key, sizeof key, "layout-info:%s", CN[k]); hk_fail(key, "SDgetinfo rank %d nt %d", (int)gr, (int)gnt); }
            int full = 1; if (cf[k].unlimited && got[0] != dims[0]) full = 0;
            if (!full) { char key[80]; snprintf(key, sizeof key, "layout-info:%s", CN[k]); hk_fail(key, "extent %d after a whole-array write, expected %d", (int)got[0], (int)dims[0]); continue; }
            int r = SDreaddata(cf[k].sds, st, NULL, cnt, rb[k]);
            if (k == 0) r0 = r;
            else if (r != r0) { char key[80]; int unw = 0; for (int e = 0; e < nelem; e++) if (!written[e]) unw = 1;
                if (k == 5 && unw) snprintf(key, sizeof key, "layout-external-unfilled"); else snprintf(key, sizeof key, "layout-call-failed:%s:SDreaddata", CN[k]);
                hk_fail(key, "final read returns %d, baseline %d", r, r0); continue; }
            if (r == FAIL) continue;
            for (int e = 0; e < nelem; e++) {
                if (k == 5 && !written[e]) { if (memcmp(rb[k] + e * sz, rb[0] + e * sz, (size_t)sz)) { hk_fail("layout-external-unfilled", "after reopen: never-written cell %d is not the fill value the baseline returns", e); break; } continue; }
                if (k != 0 && memcmp(rb[k] + e * sz, rb[0] + e * sz, (size_t)sz)) { char key[80]; snprintf(key, sizeof key, "layout-mismatch:%s", CN[k]); hk_fail(key, "after reopen: cell %d differs from the baseline (rank %d nt %d)", e, rank, (int)nt); break; }
                if (known[e] && memcmp(rb[k] + e * sz, shadow + e * sz, (size_t)sz)) { char key[80]; snprintf(key, sizeof key, "layout-shadow:%s", CN[k]); hk_fail(key, "after reopen: cell %d is not the last written value / fill value", e); break; }
            }
        }
        for (int k = 0; k < NCFG; k++) if (cf[k].on) close_cfg(k);
    }
    HXsetdir(NULL); HXsetcreatedir(NULL);
    if (kcase < 3) printf("SAMPLE layout rank=%d nt=%d nelem=%d fullonly=%d hasfill=%d\n", rank, (int)nt, nelem, fullonly, hasfill);
}

int main(int argc, char **argv) { return hk_main(argc, argv, "layout"); }
