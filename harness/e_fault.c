/* e_fault - C16: exhaustive single-fault (and sticky-fault) enumeration over the workload library.
 * Case index c enumerates (workload w, call index k, sticky?) over ALL stdio calls of the fault-free run
 * of every workload: c in [0, 2*sum_w N_w).  For each case a child process runs prep (fault-free) and
 * then the session with the k-th wrapped stdio call failing (sticky: that call and every later one).
 * Oracles: no crash / sanitizer report, no hang (20 s), and if EVERY API call including the final
 * close reported success then the resulting file is byte-identical to the fault-free one (and, for
 * the read workload, the data read is identical).
 * Keys: fault-crash:<workload>:<function>, fault-hang:<workload>, fault-silent:<workload>:<call kind>.
 * Build: needs --wrap (props.py wrap=True).
 */
#include "wrap.h"
#include "workloads.h"
#include "hk.h"
#include <sys/wait.h>
#include <signal.h>
#include <fcntl.h>

static long N[NWORKLOADS], CUM[NWORKLOADS + 1];
static unsigned long refsum[NWORKLOADS];
static char kinds[NWORKLOADS][4096];
static char fault_api[64];

static long file_bytes(const char *p, unsigned char **out)
{
    FILE *f = __real_fopen(p, "rb"); if (!f) { *out = NULL; return -1; }
    __real_fseek(f, 0, SEEK_END); long n = __real_ftell(f); __real_fseek(f, 0, SEEK_SET);
    *out = malloc((size_t)n + 1); long r = (long)__real_fread(*out, 1, (size_t)n, f); __real_fclose(f);
    return r;
}

/* run workload w in a child; fail_at < 0 = fault-free. returns 0 ok, 1 crash, 2 hang; fills res[] */
static int child_run(int w, long fail_at, int sticky, const char *path, const char *errpath, long res[4])
{
    int pfd[2]; if (pipe(pfd)) return 1;
    fflush(stdout);
    pid_t pid = fork();
    if (pid == 0) {
        close(pfd[0]);
        int efd = open(errpath, O_WRONLY | O_CREAT | O_TRUNC, 0644); if (efd >= 0) { dup2(efd, 2); close(efd); }
        unlink(path);
        wr_enabled = 0;
        if (WORKLOADS[w].prep && WORKLOADS[w].prep(path) == FAIL) _exit(3);
        wr_reset(); wr_enabled = 1; wr_fail_at = fail_at; wr_sticky = sticky;
        alarm(20);
        int nf = WORKLOADS[w].run(path);
        wr_enabled = 0;
        long out[4 + 64]; out[0] = nf; out[1] = wr_faults_fired; out[2] = wr_calls; out[3] = (long)wl_read_sum;
        if (write(pfd[1], out, sizeof(long) * 4) < 0) _exit(4);
        if (write(pfd[1], wr_fault_ctx, sizeof wr_fault_ctx) < 0) _exit(4);
        if (fail_at < 0 && wr_calls < 4096) { if (write(pfd[1], wr_kinds, (size_t)wr_calls) < 0) _exit(4); }
        _exit(0);
    }
    close(pfd[1]);
    long got = read(pfd[0], res, sizeof(long) * 4);
    fault_api[0] = 0;
    if (got == (long)sizeof(long) * 4) { long r2 = read(pfd[0], fault_api, sizeof fault_api); (void)r2; fault_api[sizeof fault_api - 1] = 0; }
    if (fail_at < 0 && got == (long)sizeof(long) * 4 && res[2] < 4096) { long r = read(pfd[0], kinds[w], (size_t)res[2]); (void)r; }
    close(pfd[0]);
    int st = 0; waitpid(pid, &st, 0);
    if (WIFSIGNALED(st) && WTERMSIG(st) == SIGALRM) return 2;
    if (WIFSIGNALED(st) || (WIFEXITED(st) && WEXITSTATUS(st) != 0) || got != (long)sizeof(long) * 4) return 1;
    return 0;
}

static void crash_func(const char *errpath, char *out, size_t n)
{
    snprintf(out, n, "unknown");
    FILE *f = __real_fopen(errpath, "r"); if (!f) return;
    char line[1024]; int shown = 0;
    while (fgets(line, sizeof line, f)) {
        if (shown < 14 && (strstr(line, "ERROR") || strstr(line, "runtime error") || (strchr(line, '#') && strstr(line, " in ")))) { printf("INFO asan: %s", line); shown++; }
        char *in = strstr(line, " in "), *rp = strstr(line, "/hdf/src/") ? strstr(line, "/hdf/src/") : strstr(line, "/mfhdf/");
        if (line[0] == ' ' && strchr(line, '#') && in && rp && strcmp(out, "unknown") == 0) { char fn[128]; if (sscanf(in + 4, "%127s", fn) == 1) snprintf(out, n, "%s", fn); }
        if (strstr(line, "runtime error")) { char *c = strrchr(line, '/'); (void)c; }
    }
    __real_fclose(f);
}

static int inited = 0;
static void init_counts(void)
{
    char ref[600], err[600];
    CUM[0] = 0;
    for (int w = 0; w < NWORKLOADS; w++) {
        long res[4];
        /* same path as the faulted runs: SD files record the path they were created under */
        snprintf(ref, sizeof ref, "%s", hk_tmp("f.hdf")); snprintf(err, sizeof err, "%s", hk_tmp("ff.err"));
        int rc = child_run(w, -1, 0, ref, err, res);
        if (rc != 0 || res[0] != 0) { hk_fail("fault-free-run-fails", "workload %s rc=%d api failures=%ld", WORKLOADS[w].name, rc, rc ? -1 : res[0]); N[w] = 0; }
        else { N[w] = res[2]; refsum[w] = (unsigned long)res[3]; }
        char keep[640]; snprintf(keep, sizeof keep, "%s.%d", hk_tmp("ref.hdf"), w);
        rename(ref, keep);
        CUM[w + 1] = CUM[w] + 2 * N[w];
    }
    inited = 1;
}

static void run_case(int c)
{
    if (!inited) init_counts();
    if (c == 0) { for (int w = 0; w < NWORKLOADS; w++) printf("INFO workload %s stdio_calls=%ld\n", WORKLOADS[w].name, N[w]); printf("INFO total_cases=%ld\n", CUM[NWORKLOADS]); }
    if (c >= CUM[NWORKLOADS]) return;
    int w = 0; while (c >= CUM[w + 1]) w++;
    long k = (c - CUM[w]) / 2; int sticky = (int)((c - CUM[w]) % 2);
    char path[600], err[600], keep[640];
    snprintf(path, sizeof path, "%s", hk_tmp("f.hdf")); snprintf(err, sizeof err, "%s", hk_tmp("f.err"));
    snprintf(keep, sizeof keep, "%s.%d", hk_tmp("ref.hdf"), w);
    long res[4] = {0, 0, 0, 0};
    int rc = child_run(w, k, sticky, path, err, res);
    char kind = kinds[w][k] ? kinds[w][k] : '?';
    hk_stat("fault_runs", 1);
    if (rc == 2) { hk_fail("fault-hang", "workload %s call %ld (%c) sticky=%d", WORKLOADS[w].name, k, kind, sticky); return; }
    if (rc == 1) {
        char fn[128], key[256]; crash_func(err, fn, sizeof fn);
        snprintf(key, sizeof key, "fault-crash:%s:%s", WORKLOADS[w].name, fn);
        hk_fail(key, "workload %s call %ld (%c) sticky=%d: child crashed / sanitizer report", WORKLOADS[w].name, k, kind, sticky);
        return;
    }
    if (res[1] == 0) { hk_stat("fault_not_reached", 1); return; } /* the faulted call index was not reached (earlier divergence) */
    if (res[0] > 0) { hk_stat("fault_reported", 1); return; }
    /* every API call reported success although a fault fired: the result must equal the fault-free one */
    hk_stat("fault_unreported", 1);
    unsigned char *a, *b; long na = file_bytes(path, &a), nb = file_bytes(keep, &b);
    int same = (na == nb && na >= 0 && memcmp(a, b, (size_t)na) == 0);
    if (WORKLOADS[w].reads_only) same = same && ((unsigned long)res[3] == refsum[w]);
    free(a); free(b);
    if (!same) {
        char key[256]; snprintf(key, sizeof key, "fault-silent:%s:%s:%c", WORKLOADS[w].name, fault_api[0] ? fault_api : "?", kind);
        hk_fail(key, "workload %s: call %ld (%c) failed (sticky=%d), every API call incl. the close returned success, but the result differs from the fault-free run (file %ld vs %ld bytes)", WORKLOADS[w].name, k, kind, sticky, na, nb);
    }
    else hk_stat("fault_benign", 1);
}

int main(int argc, char **argv) { return hk_main(argc, argv, "fault"); }
