/* e_fault - C16: exhaustive single-fault (and sticky-fault) enumeration over the workload library.
 * Case index c enumerates (workload w, call index k, sticky?) over ALL stdio calls of the fault-free run
 * of every workload: c in [0, 2*sum_w N_w).  For each case a child process runs prep (fault-free) and
 * then the session with the k-th wrapped stdio call failing (sticky: that call and every later one).
 * Oracles: no crash / sanitizer report, no hang (20 s), and if EVERY API call including the final
 * close reported success then the resulting file is byte-identical to the fault-free one (and, for
 * the read workload, the data read is identical).
 * Keys: a failure whose root cause is in the table ROOTS below is reported under that root cause
 * (fault-silent:<root cause> / fault-crash:<root cause>): the child records the library call chain in which the
 * first fault fired (<errfile>.stk) and the table names the function that drops the failure.  Everything else keeps the
 * generic keys fault-crash:<workload>:<function>, fault-hang:<workload>, fault-silent:<workload>:<api>:<call kind>.
 * Build: needs --wrap (props.py wrap=True).
 */
#include "wrap.h"
#include "workloads.h"
#include "hk.h"
#include <sys/wait.h>
#include <signal.h>
#include <fcntl.h>
#include <execinfo.h>
#include <sanitizer/common_interface_defs.h>

/* child side: the return addresses of the stdio call in which the first fault fires go to <errfile>.stk; the parent (same image,
   the child is a fork) turns them into the chain of library functions, innermost first, '<' separated, only when it has
   a failure to report (symbolising in every child costs ~0.5 s per case) */
static char stk_path[700];
static void record_fault_stack(void)
{
    void *pc[48]; int depth = backtrace(pc, 48);
    int fd = open(stk_path, O_WRONLY | O_CREAT | O_TRUNC, 0644);
    if (fd >= 0) { if (write(fd, pc, sizeof(void *) * (size_t)depth) < 0) {} close(fd); }
}
static void read_fault_chain(const char *errpath, char *out, size_t cap)
{
    void *pc[48]; char sp[700]; size_t n = 0; int started = 0; out[0] = 0;
    snprintf(sp, sizeof sp, "%s.stk", errpath);
    int fd = open(sp, O_RDONLY); if (fd < 0) return;
    long got = read(fd, pc, sizeof pc); close(fd);
    for (int i = 0; i < (int)(got / (long)sizeof(void *)) && n + 130 < cap; i++) {
        char fn[128]; fn[0] = 0; __sanitizer_symbolize_pc((char *)pc[i] - 1, "%f", fn, sizeof fn);
        if (!started) { if (strncmp(fn, "__wrap_", 7) == 0) { started = 1; n += (size_t)snprintf(out + n, cap - n, "%s", fn + 7); } continue; }
        if (strncmp(fn, "run_", 4) == 0 || strcmp(fn, "child_run") == 0) break;
        n += (size_t)snprintf(out + n, cap - n, "<%s", fn[0] ? fn : "?");
    }
}

/* root causes: a failure is attributed to the first row whose conditions all hold.
   what: 's' silent, 'c' crash/exit; chain: substring of the fault call chain (inlined callers do not appear in it, so rows name
   the innermost function that identifies the path); crashfn: substring of the crashing function ("" = any) */
static const struct { char what; const char *chain, *crashfn, *root; } ROOTS[] = {
    {'c', "HXcreate",                     "HXcreate",           "hxcreate-error-path-double-free"},
    {'c', "HXPwrite",                     "hi_close_stdio",     "hxpwrite-retry-closes-null-stream"},
    {'c', "",                             "libjpeg-error_exit", "dfjpeg-exit-on-write-error"},
    {'c', "Hlength<hdf_read_vars",        "",                   "hdf-read-vars-ignores-hlength-failure"},
    {'c', "",                             "DFANIlocate",        "dfan-open-failure-tested-against-zero"},
    {'c', "hdf_get_sdc",                  "hdf_get_sdc",        "hdf-get-sdc-double-free"},
    {'c', "hdf_get_pred_str_attr",        "",                   "hdf-read-ndgs-ignores-pred-str-attr-failure"},
    {'s', "hdf_get_pred_str_attr",        "",                   "hdf-read-ndgs-ignores-pred-str-attr-failure"},
    {'s', "hdf_vg_clobber<hdf_cdf_clobber", "",                 "hdf-cdf-clobber-ignores-hdf-vg-clobber"},
    {'s', "Hlength<hdf_read_vars",        "",                   "hdf-read-vars-ignores-hlength-failure"},
    {'s', "Hsetlength<Hwrite",            "",                   "hwrite-ignores-hsetlength"},
    {'s', "HIwrite2read",                 "",                   "hbitread-ignores-hiwrite2read"},
    {'s', "Hclose<DFGRIaddimlut",         "",                   "dfgriaddimlut-ignores-hclose"},
    {'s', "fopen<HXcreate",               "",                   "hxcreate-truncates-on-open-failure"},
    {'s', "Hlength<GRwriteimage",         "",                   "grwriteimage-hlength-failure-as-new-image"},
    {'s', "<hdf_close<",                  "",                   "hdf-close-skips-sdd-record-count"},
    {'s', "HIupdate_version<Hclose",      "",                   "hclose-ignores-hiupdate-version"},
};
static const char *root_cause(char what, const char *chain, const char *crashfn)
{
    for (size_t i = 0; i < sizeof ROOTS / sizeof ROOTS[0]; i++)
        if (ROOTS[i].what == what && strstr(chain, ROOTS[i].chain) && (!ROOTS[i].crashfn[0] || strstr(crashfn, ROOTS[i].crashfn))) return ROOTS[i].root;
    return NULL;
}

static long N[NWORKLOADS], CUM[NWORKLOADS + 1];
static unsigned long refsum[NWORKLOADS];
static char kinds[NWORKLOADS][4096];
static char fault_api[64];

static long file_bytes(const char *p, unsigned char **out)
{
    FILE *f = __real_fopen(p, "rb"); if (!f) { *out = NULL; return -1; }
    __real_fseek(f, 0, SEEK_END); long n = __real_ftell(f); __real_fseek(f, 0, SEEK_SET);
    *out = malloc((size_t)n + 1); long r = (long)__real_fread(*out, 1, (size_t)n, f); __real_fclose(f);
    return r;
}

/* run workload w in a child; fail_at < 0 = fault-free. returns 0 ok, 1 crash, 2 hang; fills res[] */
static int child_run(int w, long fail_at, int sticky, const char *path, const char *errpath, long res[4])
{
    int pfd[2]; if (pipe(pfd)) return 1;
    fflush(stdout);
    pid_t pid = fork();
    if (pid == 0) {
        close(pfd[0]);
        int efd = open(errpath, O_WRONLY | O_CREAT | O_TRUNC, 0644); if (efd >= 0) { dup2(efd, 2); close(efd); }
        unlink(path);
        { char side[700]; snprintf(side, sizeof side, "%s.x", path); unlink(side); }   /* external file of workload h_ext */
        wr_enabled = 0;
        if (WORKLOADS[w].prep && WORKLOADS[w].prep(path) == FAIL) _exit(3);
        wr_reset(); wr_enabled = 1; wr_fail_at = fail_at; wr_sticky = sticky;
        snprintf(stk_path, sizeof stk_path, "%s.stk", errpath); unlink(stk_path); wr_on_first_fault = record_fault_stack;
        alarm(20);
        int nf = WORKLOADS[w].run(path);
        wr_enabled = 0;
        long out[4 + 64]; out[0] = nf; out[1] = wr_faults_fired; out[2] = wr_calls; out[3] = (long)wl_read_sum;
        if (write(pfd[1], out, sizeof(long) * 4) < 0) _exit(4);
        if (write(pfd[1], wr_fault_ctx, sizeof wr_fault_ctx) < 0) _exit(4);
        if (fail_at < 0 && wr_calls < 4096) { if (write(pfd[1], wr_kinds, (size_t)wr_calls) < 0) _exit(4); }
        _exit(0);
    }
    close(pfd[1]);
    long got = read(pfd[0], res, sizeof(long) * 4);
    fault_api[0] = 0;
    if (got == (long)sizeof(long) * 4) { long r2 = read(pfd[0], fault_api, sizeof fault_api); (void)r2; fault_api[sizeof fault_api - 1] = 0; }
    if (fail_at < 0 && got == (long)sizeof(long) * 4 && res[2] < 4096) { long r = read(pfd[0], kinds[w], (size_t)res[2]); (void)r; }
    close(pfd[0]);
    int st = 0; waitpid(pid, &st, 0);
    if (WIFSIGNALED(st) && WTERMSIG(st) == SIGALRM) return 2;
    if (WIFSIGNALED(st) || (WIFEXITED(st) && WEXITSTATUS(st) != 0) || got != (long)sizeof(long) * 4) return 1;
    return 0;
}

static void crash_func(const char *errpath, char *out, size_t n)
{
    snprintf(out, n, "unknown");
    FILE *f = __real_fopen(errpath, "r"); if (!f) return;
    char line[1024]; int shown = 0;
    while (fgets(line, sizeof line, f)) {
        if (shown < 14 && (strstr(line, "ERROR") || strstr(line, "runtime error") || (strchr(line, '#') && strstr(line, " in ")))) { printf("INFO asan: %s", line); shown++; }
        char *in = strstr(line, " in "), *rp = strstr(line, "/hdf/src/") ? strstr(line, "/hdf/src/") : strstr(line, "/mfhdf/");
        if (line[0] == ' ' && strchr(line, '#') && in && rp && strcmp(out, "unknown") == 0) { char fn[128]; if (sscanf(in + 4, "%127s", fn) == 1) snprintf(out, n, "%s", fn); }
        if (strstr(line, "Output file write error") && strcmp(out, "unknown") == 0) snprintf(out, n, "libjpeg-error_exit");   /* jpeg_std_error: message + exit() */
    }
    __real_fclose(f);
}

static int inited = 0;
static void init_counts(void)
{
    char ref[600], err[600];
    CUM[0] = 0;
    for (int w = 0; w < NWORKLOADS; w++) {
        long res[4];
        /* same path as the faulted runs: SD files record the path they were created under */
        snprintf(ref, sizeof ref, "%s", hk_tmp("f.hdf")); snprintf(err, sizeof err, "%s", hk_tmp("ff.err"));
        int rc = child_run(w, -1, 0, ref, err, res);
        if (rc != 0 || res[0] != 0) { hk_fail("fault-free-run-fails", "workload %s rc=%d api failures=%ld", WORKLOADS[w].name, rc, rc ? -1 : res[0]); N[w] = 0; }
        else { N[w] = res[2]; refsum[w] = (unsigned long)res[3]; }
        char keep[640]; snprintf(keep, sizeof keep, "%s.%d", hk_tmp("ref.hdf"), w);
        rename(ref, keep);
        { char side[700], keeps[700]; snprintf(side, sizeof side, "%s.x", ref); snprintf(keeps, sizeof keeps, "%s.x", keep); rename(side, keeps); }
        CUM[w + 1] = CUM[w] + 2 * N[w];
    }
    inited = 1;
}

static void run_case(int c)
{
    if (!inited) init_counts();
    if (c == 0) { for (int w = 0; w < NWORKLOADS; w++) printf("INFO workload %s stdio_calls=%ld\n", WORKLOADS[w].name, N[w]); printf("INFO total_cases=%ld\n", CUM[NWORKLOADS]); }
    if (c >= CUM[NWORKLOADS]) return;
    int w = 0; while (c >= CUM[w + 1]) w++;
    long k = (c - CUM[w]) / 2; int sticky = (int)((c - CUM[w]) % 2);
    char path[600], err[600], keep[640];
    snprintf(path, sizeof path, "%s", hk_tmp("f.hdf")); snprintf(err, sizeof err, "%s", hk_tmp("f.err"));
    snprintf(keep, sizeof keep, "%s.%d", hk_tmp("ref.hdf"), w);
    long res[4] = {0, 0, 0, 0};
    int rc = child_run(w, k, sticky, path, err, res);
    char kind = kinds[w][k] ? kinds[w][k] : '?';
    char chain[1100]; chain[0] = 0;
    hk_stat("fault_runs", 1);
    if (rc == 2) { hk_fail("fault-hang", "workload %s call %ld (%c) sticky=%d", WORKLOADS[w].name, k, kind, sticky); return; }
    if (rc == 1) {
        char fn[128], key[256]; crash_func(err, fn, sizeof fn); read_fault_chain(err, chain, sizeof chain);
        const char *root = root_cause('c', chain, fn);
        if (root) snprintf(key, sizeof key, "fault-crash:%s", root); else snprintf(key, sizeof key, "fault-crash:%s:%s", WORKLOADS[w].name, fn);
        hk_fail(key, "workload %s call %ld (%c) sticky=%d: child crashed / exited / sanitizer report in %s; fault fired in %s", WORKLOADS[w].name, k, kind, sticky, fn, chain[0] ? chain : "?");
        return;
    }
    if (res[1] == 0) { hk_stat("fault_not_reached", 1); return; } /* the faulted call index was not reached (earlier divergence) */
    if (res[0] > 0) { hk_stat("fault_reported", 1); return; }
    /* every API call reported success although a fault fired: the result must equal the fault-free one */
    hk_stat("fault_unreported", 1);
    unsigned char *a, *b; long na = file_bytes(path, &a), nb = file_bytes(keep, &b);
    int same = (na == nb && na >= 0 && memcmp(a, b, (size_t)na) == 0);
    if (WORKLOADS[w].reads_only) same = same && ((unsigned long)res[3] == refsum[w]);
    free(a); free(b);
    if (same) {   /* the external file <path>.x (workload h_ext), when the fault-free run made one */
        char side[700], keeps[700]; snprintf(side, sizeof side, "%s.x", path); snprintf(keeps, sizeof keeps, "%s.x", keep);
        long xa = file_bytes(side, &a), xb = file_bytes(keeps, &b);
        if (xb >= 0) { same = (xa == xb && memcmp(a, b, (size_t)xa) == 0); if (!same) { na = xa; nb = xb; } }
        free(a); free(b);
    }
    if (!same) {
        char key[256]; read_fault_chain(err, chain, sizeof chain); const char *root = root_cause('s', chain, "");
        if (root) snprintf(key, sizeof key, "fault-silent:%s", root); else snprintf(key, sizeof key, "fault-silent:%s:%s:%c", WORKLOADS[w].name, fault_api[0] ? fault_api : "?", kind);
        hk_fail(key, "workload %s: call %ld (%c) in %s failed (sticky=%d), every API call incl. the close returned success, but the result differs from the fault-free run (file %ld vs %ld bytes); fault fired in %s", WORKLOADS[w].name, k, kind, fault_api[0] ? fault_api : "?", sticky, na, nb, chain[0] ? chain : "?");
    }
    else hk_stat("fault_benign", 1);
}

int main(int argc, char **argv) { return hk_main(argc, argv, "fault"); }
