/* e_mcache - Tie-B engine for C04 (chunk page cache, hdf/src/mcache.c).
 *
 * The REAL mcache.c is compiled into this engine (so that its `malloc` can be wrapped: a fresh page buffer is filled
 * with 0xEE and the "new page" path of mcache_get becomes deterministic) and driven through its public functions
 * mcache_open/filter/get/put/sync/set_maxcache/close over an in-memory backing store `store[]` with logging
 * pgin/pgout callbacks.  Pages are 4 bytes (one uint32 = the page "content").
 *
 * One case = one random history (see run_case):  maxcache 0..4, npages 1..8 (sometimes 129..300 so that several
 * pages share a hash bucket), flags 0 (pages exist) or 1 (pages do not exist yet), then 5..70 client actions:
 *   get / modify+put(DIRTY) / put(clean) / sync / set_maxcache / sync?+close+reopen / callback fault toggles,
 * either hchunks-style (every get immediately followed by its put) or with several pins held at once.
 * T lines (replayed by the Lean model, engine `mcache`, see lean/H4/Driver/MCache.lean):
 *   T mcache open <maxcache> <npages> <flags> <garbage> <b1,..,bn> => ok
 *   T mcache get <pg> => <content>|fail io=<callbacks>
 *   T mcache write <pg> <v> => ok          T mcache put <pg> <flags> => ok
 *   T mcache sync => ok|fail io=<callbacks>
 *   T mcache setmax <n> => <maxcache>      T mcache close => ok
 *   T mcache failin|failout <pg> <0|1> => ok
 *   T mcache backing => <b1,..,bn>         (the store as it is now)
 *   T mcache state => cur=<curcache> max=<maxcache> lru=<pg[d][P],..> hq=<k:pg.pg;..> le=<k:pg/eflags. ..;..>
 *                                          (white-box walk over mp->lqh, mp->hqh[], mp->lhqh[])
 * so the model's eviction ORDER, callback sequence and list-element flags are pinned, not only the net effect.
 *
 * Implementation-side oracles (do not use the model):
 *   mcache-get-stale        a get returned something else than the last content put dirty (else the store content)
 *   mcache-pgout-wrong-data a write-back carried something else than the last content put dirty
 *   mcache-sync-lost        after a successful sync (and after sync+close) store != shadow
 *   mcache-pinned-clobbered the buffer of a page we hold pinned changed under us (pinned page evicted/reused)
 *   mcache-curcache-bound   curcache > max(maxcache ever set, most pins ever held at once)   (no callback faults)
 *   mcache-evict-writefail-frees-linked-bucket   after a failed mcache_get a bucket on the LRU queue is freed memory
 * Every 5th case (k % 5 == 4) is an API-level case instead (no T lines, oracle only): a chunked SDS (rank 1..3, optional
 * RLE/deflate per chunk) or a chunked GR image is written and read with random slabs while SDsetchunkcache /
 * GRsetchunkcache switch the cache size between 1 and 4, with endaccess/reselect and file close/reopen in between;
 * every read is compared with a shadow array (api-sds-chunkcache-mismatch / api-gr-chunkcache-mismatch).  Because
 * mcache.c is compiled into this engine these histories run through the very same (wrapped) copy of the cache.
 * extra args: [4] percentage of fault cases in which pgout may fail during an eviction (default 25).
 */
#include "hdf.h"
#include "hdf_priv.h"
#include "mcache_priv.h"
#include "mfhdf.h"
#include "hk.h"

#if defined(__SANITIZE_ADDRESS__)
#include <sanitizer/asan_interface.h>
#define IS_POISONED(p) __asan_address_is_poisoned(p)
#define HAVE_POISON 1
#else
#define IS_POISONED(p) 0
#define HAVE_POISON 0
#endif

static void *mc_malloc(size_t n)
{
    void *p = malloc(n);
    if (p) memset(p, 0xEE, n);
    return p;
}
#ifndef MCACHE_SRC
#define MCACHE_SRC "hdf/src/mcache.c" /* resolved through -I<REPO> (vk.cc_harness) */
#endif
#define malloc(n) mc_malloc(n)
#include MCACHE_SRC
#undef malloc

#define GARBAGE 4008636142u /* 0xEEEEEEEE */
#define MAXPG   320

static uint32_t store[MAXPG + 2];   /* backing store, index = page number (1-based) */
static uint32_t shadow[MAXPG + 2];  /* logical content the client must see */
static int      defined[MAXPG + 2]; /* shadow[pg] is meaningful */
static int      fail_in[MAXPG + 2], fail_out[MAXPG + 2];
static uint32_t *ptr[MAXPG + 2];    /* buffer returned by the last get of pg */
static int      held[MAXPG + 2];    /* we hold a pin on pg */
static uint32_t bufval[MAXPG + 2];  /* what the pinned buffer must contain */
static int      recent[MAXPG + 2];  /* unpinned, but no mcache_get happened since: pointer certainly still valid */
static int      npages, nheld, pinhw, maxhw, anyfault, last_failed_out;

static char iolog[4096];
static int  iolen;
static void io_reset(void) { iolen = 0; iolog[0] = 0; }
static void io_add(const char *fmt, long a, unsigned long b)
{
    if (iolen > (int)sizeof iolog - 64) return;
    if (iolen) iolog[iolen++] = ',';
    iolen += snprintf(iolog + iolen, sizeof iolog - (size_t)iolen, fmt, a, b);
}
static const char *io_str(void) { return iolen ? iolog : "-"; }

static int32 cb_pgin(void *cookie, int32 chunk, void *page)
{
    int pg = chunk + 1;
    (void)cookie;
    if (pg < 1 || pg > npages) { hk_fail("mcache-callback-range", "pgin chunk %d", (int)chunk); return FAIL; }
    if (fail_in[pg]) { io_add("I%ld", chunk, 0); return FAIL; }
    io_add("i%ld", chunk, 0);
    memcpy(page, &store[pg], 4);
    return SUCCEED;
}
static int32 cb_pgout(void *cookie, int32 chunk, const void *page)
{
    int pg = chunk + 1;
    uint32_t v;
    (void)cookie;
    memcpy(&v, page, 4);
    if (pg < 1 || pg > npages) { hk_fail("mcache-callback-range", "pgout chunk %d", (int)chunk); return FAIL; }
    if (defined[pg] && v != shadow[pg])
        hk_fail("mcache-pgout-wrong-data", "pgout page %d writes %u, last dirty content %u", pg, v, shadow[pg]);
    if (fail_out[pg]) { io_add("O%ld:%lu", chunk, v); last_failed_out = pg; return FAIL; }
    io_add("o%ld:%lu", chunk, v);
    store[pg] = v;
    return SUCCEED;
}

static void t_state(MCACHE *mp)
{
    BKT *bp; L_ELEM *lp; int k, first = 1, firstk;
    printf("T mcache state => cur=%d max=%d lru=", (int)mp->curcache, (int)mp->maxcache);
    for (bp = mp->lqh.cqh_first; bp != (void *)&mp->lqh; bp = bp->q.cqe_next) {
        printf("%s%d%s%s", first ? "" : ",", (int)bp->pgno, (bp->flags & MCACHE_DIRTY) ? "d" : "", (bp->flags & MCACHE_PINNED) ? "P" : "");
        first = 0;
    }
    if (first) printf("-");
    printf(" hq=");
    firstk = 1;
    for (k = 0; k < HASHSIZE; k++) {
        if (mp->hqh[k].cqh_first == (void *)&mp->hqh[k]) continue;
        printf("%s%d:", firstk ? "" : ";", k); firstk = 0; first = 1;
        for (bp = mp->hqh[k].cqh_first; bp != (void *)&mp->hqh[k]; bp = bp->hq.cqe_next) { printf("%s%d", first ? "" : ".", (int)bp->pgno); first = 0; }
    }
    if (firstk) printf("-");
    printf(" le=");
    firstk = 1;
    for (k = 0; k < HASHSIZE; k++) {
        if (mp->hqh[k].cqh_first == (void *)&mp->hqh[k]) continue;
        printf("%s%d:", firstk ? "" : ";", k); firstk = 0; first = 1;
        for (lp = mp->lhqh[k].cqh_first; lp != (void *)&mp->lhqh[k]; lp = lp->hl.cqe_next) { printf("%s%d/%d", first ? "" : ".", (int)lp->pgno, (int)lp->eflags); first = 0; }
    }
    if (firstk) printf("-");
    printf("\n");
}

static void t_backing(void)
{
    int i;
    printf("T mcache backing => ");
    for (i = 1; i <= npages; i++) printf("%s%u", i > 1 ? "," : "", store[i]);
    if (npages == 0) printf("-");
    printf("\n");
}

/* a bucket still on the LRU queue lies in freed memory? */
static int lru_has_freed_bucket(MCACHE *mp)
{
    BKT *bp;
    for (bp = mp->lqh.cqh_first; bp != (void *)&mp->lqh; bp = bp->q.cqe_next)
        if (IS_POISONED(bp)) return 1;
    return 0;
}

static void check_pins(const char *when)
{
    int pg;
    for (pg = 1; pg <= npages; pg++)
        if (held[pg] && *ptr[pg] != bufval[pg])
            hk_fail("mcache-pinned-clobbered", "%s: pinned page %d buffer holds %u, expected %u", when, pg, *ptr[pg], bufval[pg]);
}

static void check_synced(const char *when)
{
    int pg;
    for (pg = 1; pg <= npages; pg++)
        if (defined[pg] && store[pg] != shadow[pg])
            hk_fail("mcache-sync-lost", "%s: page %d store %u shadow %u", when, pg, store[pg], shadow[pg]);
}

static MCACHE *do_open(int maxcache, int flags)
{
    MCACHE *mp;
    int i;
    printf("T mcache open %d %d %d %u ", maxcache, npages, flags, GARBAGE);
    for (i = 1; i <= npages; i++) printf("%s%u", i > 1 ? "," : "", store[i]);
    if (npages == 0) printf("-");
    mp = mcache_open(NULL, 7, 4, maxcache, npages, flags);
    printf(" => %s\n", mp ? "ok" : "fail");
    if (!mp) return NULL;
    mcache_filter(mp, cb_pgin, cb_pgout, NULL);
    for (i = 1; i <= npages; i++) {
        held[i] = recent[i] = 0; ptr[i] = NULL;
        shadow[i] = store[i];
        defined[i] = (flags == 0);
    }
    nheld = 0;
    if ((maxcache ? maxcache : DEF_MAXCACHE) > maxhw) maxhw = maxcache ? maxcache : DEF_MAXCACHE;
    return mp;
}

static long evict_fail_pct = 25;
static int wset[16], nw;
static int pick_page(void)
{
    if (hk_chance(3)) return npages + (int)hk_range(1, 3); /* non-existent page: must fail */
    return wset[hk_range(0, nw - 1)];
}
static int pick_held(void)
{
    int c[MAXPG + 2], n = 0, pg;
    for (pg = 1; pg <= npages; pg++) if (held[pg]) c[n++] = pg;
    return n ? c[hk_range(0, n - 1)] : 0;
}
static int pick_recent(void)
{
    int c[MAXPG + 2], n = 0, pg;
    for (pg = 1; pg <= npages; pg++) if (recent[pg] && !held[pg]) c[n++] = pg;
    return n ? c[hk_range(0, n - 1)] : 0;
}

static uint32_t newval;
static uint32_t fresh_value(void) { return ++newval; }

/* returns 0 if the cache must not be used any more (freed-bucket accident) */
static int do_get(MCACHE *mp, int pg)
{
    uint32_t *p;
    int i;
    io_reset(); last_failed_out = 0;
    p = (uint32_t *)mcache_get(mp, pg, 0);
    for (i = 1; i <= npages; i++) recent[i] = 0;
    if (p == NULL) {
        printf("T mcache get %d => fail io=%s\n", pg, io_str());
        /* regression oracle (fixed by /repo commit 42dfaa3): when mcache_bkt's write-back of the eviction victim failed,
           the victim - still linked on the LRU and hash queues - was free()d.  Look without touching freed memory. */
        if (last_failed_out && HAVE_POISON && lru_has_freed_bucket(mp)) {
            hk_fail("mcache-evict-writefail-frees-linked-bucket",
                    "mcache_get(%d): pgout of page %d failed during eviction; its bucket was free()d but is still on the LRU/hash queues",
                    pg, last_failed_out);
            return 0;
        }
        check_pins("after failed get");
        return 1;
    }
    printf("T mcache get %d => %u io=%s\n", pg, *p, io_str());
    if (pg < 1 || pg > npages) { hk_fail("mcache-get-range", "get(%d) succeeded with npages=%d", pg, npages); return 0; }
    if (defined[pg] && *p != shadow[pg])
        hk_fail("mcache-get-stale", "get(%d) returned %u, expected %u", pg, *p, shadow[pg]);
    if (held[pg] && p != ptr[pg])
        hk_fail("mcache-pinned-clobbered", "second get of pinned page %d returned another buffer", pg);
    if (!held[pg]) { held[pg] = 1; nheld++; if (nheld > pinhw) pinhw = nheld; }
    ptr[pg] = p; bufval[pg] = *p;
    check_pins("after get");
    return 1;
}

static void do_write(int pg, uint32_t v)
{
    *ptr[pg] = v;
    if (held[pg]) bufval[pg] = v;
    printf("T mcache write %d %u => ok\n", pg, v);
}

static void do_put(MCACHE *mp, int pg, int flags)
{
    int r = mcache_put(mp, ptr[pg], flags);
    printf("T mcache put %d %d => %s\n", pg, flags, r == RET_SUCCESS ? "ok" : "fail");
    if (held[pg]) { held[pg] = 0; nheld--; }
    recent[pg] = 1;
}

/* modify + put dirty: the contract the theorems talk about */
static void put_dirty(MCACHE *mp, int pg)
{
    uint32_t v = fresh_value();
    do_write(pg, v);
    shadow[pg] = v; defined[pg] = 1;
    do_put(mp, pg, hk_chance(15) ? (MCACHE_DIRTY | MCACHE_PINNED) : MCACHE_DIRTY);
}

static int do_sync(MCACHE *mp)
{
    int r;
    io_reset(); last_failed_out = 0;
    r = mcache_sync(mp);
    printf("T mcache sync => %s io=%s\n", r == RET_SUCCESS ? "ok" : "fail", io_str());
    if (r == RET_SUCCESS) check_synced("after sync");
    check_pins("after sync");
    return r == RET_SUCCESS;
}


/* ------------------------------------------------------------------ API level: chunk cache size must be invisible */
#define API_MAXEL 2000
static int32 a_shadow[API_MAXEL * 3], a_buf[API_MAXEL * 3], a_rd[API_MAXEL * 3];
static uint8_t g_shadow[API_MAXEL * 3], g_buf[API_MAXEL * 3], g_rd[API_MAXEL * 3];

static void api_sds(void)
{
    const char *fn = hk_tmp("mc_sd.hdf");
    int32 sd, sds, dims[3], cdims[3], start[3], edge[3], rank = (int32)hk_range(1, 3), fill = 0x5a5a5a5a, val = 1;
    int   i, nops, op, total = 1, comp = (int)hk_range(0, 3), maxc;
    HDF_CHUNK_DEF cd;
    for (i = 0; i < rank; i++) {
        dims[i]  = (int32)hk_range(1, rank == 1 ? 40 : (rank == 2 ? 12 : 7));
        cdims[i] = (int32)hk_range(1, dims[i]);
        total *= dims[i];
    }
    memset(&cd, 0, sizeof cd);
    if (comp == 1 || comp == 2) {
        for (i = 0; i < rank; i++) cd.comp.chunk_lengths[i] = cdims[i];
        cd.comp.comp_type = comp == 1 ? COMP_CODE_RLE : COMP_CODE_DEFLATE;
        cd.comp.cinfo.deflate.level = 6;
    }
    else
        for (i = 0; i < rank; i++) cd.chunk_lengths[i] = cdims[i];
    if ((sd = SDstart(fn, DFACC_CREATE)) == FAIL) { hk_fail("api-sds-call-failed", "SDstart"); return; }
    sds = SDcreate(sd, "d", DFNT_INT32, rank, dims);
    if (sds == FAIL || SDsetfillvalue(sds, &fill) == FAIL ||
        SDsetchunk(sds, cd, (comp == 1 || comp == 2) ? HDF_COMP : HDF_CHUNK) == FAIL) {
        hk_fail("api-sds-call-failed", "create/setchunk rank %d", (int)rank); SDend(sd); return;
    }
    for (i = 0; i < total; i++) a_shadow[i] = fill;
    maxc = (int)hk_range(1, 4);
    if (SDsetchunkcache(sds, maxc, 0) == FAIL) hk_fail("api-sds-call-failed", "SDsetchunkcache %d", maxc);
    nops = (int)hk_range(4, 30);
    for (op = 0; op < nops; op++) {
        int r = (int)hk_range(0, 99), n = 1, idx[3], j, whole = hk_chance(15);
        for (i = 0; i < rank; i++) {
            start[i] = whole ? 0 : (int32)hk_range(0, dims[i] - 1);
            edge[i]  = whole ? dims[i] : (int32)hk_range(1, dims[i] - start[i]);
            n *= edge[i];
        }
        if (r < 45) { /* write slab; sometimes the values written EQUAL the fill value (a written chunk that happens to
                         hold only fill values is still a written chunk and must be stored) */
            int write_fill = hk_chance(25);
            if (write_fill && hk_chance(60)) { /* cover whole chunks: align the slab to the chunk grid */
                n = 1;
                for (i = 0; i < rank; i++) {
                    start[i] = (start[i] / cdims[i]) * cdims[i];
                    edge[i]  = cdims[i] * (int32)hk_range(1, 2);
                    if (start[i] + edge[i] > dims[i]) edge[i] = dims[i] - start[i];
                    n *= edge[i];
                }
            }
            for (j = 0; j < n; j++) a_buf[j] = write_fill ? fill : val++;
            if (SDwritedata(sds, start, NULL, edge, a_buf) == FAIL) { hk_fail("api-sds-call-failed", "SDwritedata"); break; }
            for (j = 0; j < n; j++) {
                int rem = j, off = 0, mul = 1;
                for (i = rank - 1; i >= 0; i--) { idx[i] = start[i] + rem % edge[i]; rem /= edge[i]; }
                for (i = rank - 1; i >= 0; i--) { off += idx[i] * mul; mul *= dims[i]; }
                a_shadow[off] = a_buf[j];
            }
        }
        else if (r < 80) { /* read slab */
            if (SDreaddata(sds, start, NULL, edge, a_rd) == FAIL) { hk_fail("api-sds-call-failed", "SDreaddata"); break; }
            for (j = 0; j < n; j++) {
                int rem = j, off = 0, mul = 1;
                for (i = rank - 1; i >= 0; i--) { idx[i] = start[i] + rem % edge[i]; rem /= edge[i]; }
                for (i = rank - 1; i >= 0; i--) { off += idx[i] * mul; mul *= dims[i]; }
                if (a_rd[j] != a_shadow[off]) {
                    hk_fail("api-sds-chunkcache-mismatch", "rank %d comp %d cache %d: element %d reads %d, expected %d", (int)rank, comp, maxc, off, (int)a_rd[j], (int)a_shadow[off]);
                    op = nops; break;
                }
            }
        }
        else if (r < 90) { /* the tuning knob */
            maxc = (int)hk_range(1, 4);
            if (SDsetchunkcache(sds, maxc, 0) == FAIL) hk_fail("api-sds-call-failed", "SDsetchunkcache %d", maxc);
        }
        else { /* end access (cache synced + closed), maybe close the file, come back */
            SDendaccess(sds);
            if (hk_chance(50)) { SDend(sd); if ((sd = SDstart(fn, DFACC_RDWR)) == FAIL) { hk_fail("api-sds-call-failed", "reopen"); return; } }
            if ((sds = SDselect(sd, 0)) == FAIL) { hk_fail("api-sds-call-failed", "SDselect"); SDend(sd); return; }
            maxc = (int)hk_range(1, 4);
            SDsetchunkcache(sds, maxc, 0);
        }
    }
    SDendaccess(sds); SDend(sd);
    /* final: fresh session, whole array */
    if ((sd = SDstart(fn, DFACC_READ)) != FAIL && (sds = SDselect(sd, 0)) != FAIL) {
        for (i = 0; i < rank; i++) { start[i] = 0; edge[i] = dims[i]; }
        if (SDreaddata(sds, start, NULL, edge, a_rd) == FAIL) hk_fail("api-sds-call-failed", "final SDreaddata");
        else
            for (i = 0; i < total; i++)
                if (a_rd[i] != a_shadow[i]) { hk_fail("api-sds-chunkcache-mismatch", "after reopen: element %d reads %d, expected %d", i, (int)a_rd[i], (int)a_shadow[i]); break; }
        SDendaccess(sds); SDend(sd);
    }
    else hk_fail("api-sds-call-failed", "final reopen");
    hk_stat("api_sds", 1);
}

static void api_gr(void)
{
    const char *fn = hk_tmp("mc_gr.hdf");
    int32 fid, gr, ri, dims[2], start[2], edge[2], stride[2] = {1, 1}, ncomp = (int32)hk_range(1, 3);
    int   nops, op, maxc, x, y, c;
    uint8_t val = 1;
    HDF_CHUNK_DEF cd;
    dims[0] = (int32)hk_range(1, 14); dims[1] = (int32)hk_range(1, 14);
    memset(&cd, 0, sizeof cd);
    cd.chunk_lengths[0] = (int32)hk_range(1, dims[0]); cd.chunk_lengths[1] = (int32)hk_range(1, dims[1]);
    if ((fid = Hopen(fn, DFACC_CREATE, 0)) == FAIL) { hk_fail("api-gr-call-failed", "Hopen"); return; }
    gr = GRstart(fid);
    ri = GRcreate(gr, "img", ncomp, DFNT_UINT8, MFGR_INTERLACE_PIXEL, dims);
    if (ri == FAIL || GRsetchunk(ri, cd, HDF_CHUNK) == FAIL) { hk_fail("api-gr-call-failed", "GRcreate/GRsetchunk"); GRend(gr); Hclose(fid); return; }
    maxc = (int)hk_range(1, 4);
    if (GRsetchunkcache(ri, maxc, 0) == FAIL) hk_fail("api-gr-call-failed", "GRsetchunkcache %d", maxc);
    /* whole image first (partial first writes of an image with fill are another property's business) */
    start[0] = start[1] = 0; edge[0] = dims[0]; edge[1] = dims[1];
    for (y = 0; y < dims[1]; y++) for (x = 0; x < dims[0]; x++) for (c = 0; c < ncomp; c++)
        g_shadow[(y * dims[0] + x) * ncomp + c] = val++;
    if (GRwriteimage(ri, start, stride, edge, g_shadow) == FAIL) { hk_fail("api-gr-call-failed", "GRwriteimage whole"); GRendaccess(ri); GRend(gr); Hclose(fid); return; }
    nops = (int)hk_range(4, 25);
    for (op = 0; op < nops; op++) {
        int r = (int)hk_range(0, 99);
        start[0] = (int32)hk_range(0, dims[0] - 1); start[1] = (int32)hk_range(0, dims[1] - 1);
        edge[0] = (int32)hk_range(1, dims[0] - start[0]); edge[1] = (int32)hk_range(1, dims[1] - start[1]);
        if (r < 45) {
            for (y = 0; y < edge[1]; y++) for (x = 0; x < edge[0]; x++) for (c = 0; c < ncomp; c++) {
                g_buf[(y * edge[0] + x) * ncomp + c] = val;
                g_shadow[((start[1] + y) * dims[0] + start[0] + x) * ncomp + c] = val++;
            }
            if (GRwriteimage(ri, start, stride, edge, g_buf) == FAIL) { hk_fail("api-gr-call-failed", "GRwriteimage"); break; }
        }
        else if (r < 80) {
            if (GRreadimage(ri, start, stride, edge, g_rd) == FAIL) { hk_fail("api-gr-call-failed", "GRreadimage"); break; }
            for (y = 0; y < edge[1]; y++) for (x = 0; x < edge[0]; x++) for (c = 0; c < ncomp; c++)
                if (g_rd[(y * edge[0] + x) * ncomp + c] != g_shadow[((start[1] + y) * dims[0] + start[0] + x) * ncomp + c]) {
                    hk_fail("api-gr-chunkcache-mismatch", "cache %d: pixel (%d,%d,%d) reads %d, expected %d", maxc, (int)start[0] + x, (int)start[1] + y, c,
                            g_rd[(y * edge[0] + x) * ncomp + c], g_shadow[((start[1] + y) * dims[0] + start[0] + x) * ncomp + c]);
                    y = edge[1]; x = edge[0]; op = nops; break;
                }
        }
        else if (r < 90) {
            maxc = (int)hk_range(1, 4);
            if (GRsetchunkcache(ri, maxc, 0) == FAIL) hk_fail("api-gr-call-failed", "GRsetchunkcache %d", maxc);
        }
        else {
            GRendaccess(ri);
            if (hk_chance(50)) {
                GRend(gr); Hclose(fid);
                if ((fid = Hopen(fn, DFACC_RDWR, 0)) == FAIL) { hk_fail("api-gr-call-failed", "reopen"); return; }
                gr = GRstart(fid);
            }
            if ((ri = GRselect(gr, 0)) == FAIL) { hk_fail("api-gr-call-failed", "GRselect"); GRend(gr); Hclose(fid); return; }
            maxc = (int)hk_range(1, 4);
            GRsetchunkcache(ri, maxc, 0);
        }
    }
    GRendaccess(ri); GRend(gr); Hclose(fid);
    if ((fid = Hopen(fn, DFACC_READ, 0)) != FAIL) {
        gr = GRstart(fid); ri = GRselect(gr, 0);
        start[0] = start[1] = 0; edge[0] = dims[0]; edge[1] = dims[1];
        if (ri == FAIL || GRreadimage(ri, start, stride, edge, g_rd) == FAIL) hk_fail("api-gr-call-failed", "final read");
        else if (memcmp(g_rd, g_shadow, (size_t)(dims[0] * dims[1] * ncomp)) != 0) hk_fail("api-gr-chunkcache-mismatch", "after reopen: whole image differs");
        if (ri != FAIL) GRendaccess(ri);
        GRend(gr); Hclose(fid);
    }
    else hk_fail("api-gr-call-failed", "final reopen");
    hk_stat("api_gr", 1);
}

static void run_case(int k)
{
    MCACHE *mp;
    int maxcache, flags, nops, op, i, pg, style, faults, evict_faults, alive = 1;
    if (k % 5 == 4) { if (hk_chance(60)) api_sds(); else api_gr(); return; }

    /* shape */
    maxcache = hk_chance(5) ? 0 : (int)hk_range(1, 4);
    if (hk_chance(12)) {
        int c = (int)hk_range(1, 40);
        npages = (int)hk_range(129, 300);
        nw = 0;
        for (pg = c; pg <= npages && nw < 3; pg += HASHSIZE) wset[nw++] = pg; /* same bucket */
        while (nw < 6) wset[nw++] = (int)hk_range(1, npages);
    }
    else {
        npages = (int)hk_range(1, 8);
        nw = 0;
        for (pg = 1; pg <= npages; pg++) wset[nw++] = pg;
    }
    flags  = hk_chance(15) ? 1 : 0;
    style  = (int)hk_range(0, 2); /* 0: hchunks-like  1,2: several pins */
    faults = hk_chance(20);
    evict_faults = faults && hk_chance((int)evict_fail_pct);
    anyfault = 0; pinhw = 0; maxhw = 0; newval = (uint32_t)hk_range(1, 9) * 100000u;
    for (pg = 1; pg <= npages; pg++) { store[pg] = (uint32_t)hk_range(1, 99999); fail_in[pg] = fail_out[pg] = 0; }
    mp = do_open(maxcache, flags);
    if (!mp) { hk_fail("mcache-open", "mcache_open failed"); return; }
    hk_stat(style == 0 ? "style_hchunks" : "style_multipin", 1);
    if (flags) hk_stat("flags1", 1);
    if (npages > 128) hk_stat("shared_bucket", 1);
    if (faults) hk_stat("fault_case", 1);

    nops = (int)hk_range(5, 70);
    for (op = 0; op < nops && alive; op++) {
        int r = (int)hk_range(0, 99);
        if (r < 45) { /* get (+ immediate put in hchunks style) */
            pg = pick_page();
            alive = do_get(mp, pg);
            if (!alive) break;
            if (pg <= npages && held[pg] && (style == 0 || hk_chance(35))) {
                if (hk_chance(50)) put_dirty(mp, pg);
                else do_put(mp, pg, hk_chance(10) ? MCACHE_PINNED : 0);
            }
        }
        else if (r < 65) { /* put something we hold */
            pg = pick_held();
            if (!pg) continue;
            if (*ptr[pg] != bufval[pg]) hk_fail("mcache-pinned-clobbered", "before put: page %d holds %u expected %u", pg, *ptr[pg], bufval[pg]);
            if (hk_chance(55)) put_dirty(mp, pg);
            else if (hk_chance(8)) { /* contract violation: modify, put clean -> content no longer specified */
                do_write(pg, fresh_value()); defined[pg] = 0; do_put(mp, pg, 0);
            }
            else do_put(mp, pg, 0);
        }
        else if (r < 70) { /* second put of a page just put (pointer still valid: no get since) */
            pg = pick_recent();
            if (!pg) continue;
            if (hk_chance(30)) { do_write(pg, fresh_value()); defined[pg] = 0; } /* write through a stale pointer */
            if (hk_chance(50)) { uint32_t v = fresh_value(); do_write(pg, v); shadow[pg] = v; defined[pg] = 1; do_put(mp, pg, MCACHE_DIRTY); }
            else do_put(mp, pg, 0);
        }
        else if (r < 78) { /* sync */
            if (faults && hk_chance(50)) { /* a failing write-back during sync is well defined: sync stops and reports */
                pg = wset[hk_range(0, nw - 1)];
                fail_out[pg] = 1; anyfault = 1; printf("T mcache failout %d 1 => ok\n", pg);
                do_sync(mp);
                fail_out[pg] = 0; printf("T mcache failout %d 0 => ok\n", pg);
            }
            else do_sync(mp);
            t_backing();
        }
        else if (r < 84) { /* tuning knob */
            int n = (int)hk_range(0, 5), got;
            got = (int)mcache_set_maxcache(mp, n);
            printf("T mcache setmax %d => %d\n", n, got);
            if (got > maxhw) maxhw = got;
        }
        else if (r < 87) { /* close and reopen over the same store */
            int synced = hk_chance(80) ? do_sync(mp) : 0;
            int rc = mcache_close(mp);
            printf("T mcache close => %s\n", rc == RET_SUCCESS ? "ok" : "fail");
            if (synced) check_synced("after sync+close");
            t_backing();
            maxcache = (int)hk_range(1, 4);
            flags = hk_chance(10) ? 1 : 0;
            mp = do_open(maxcache, flags);
            if (!mp) { hk_fail("mcache-open", "mcache_open failed"); return; }
        }
        else if (r < 95 && faults) { /* toggle callback faults */
            pg = wset[hk_range(0, nw - 1)];
            if (hk_chance(60)) { fail_in[pg] = !fail_in[pg]; printf("T mcache failin %d %d => ok\n", pg, fail_in[pg]); }
            else if (evict_faults) { fail_out[pg] = !fail_out[pg]; printf("T mcache failout %d %d => ok\n", pg, fail_out[pg]); }
            anyfault = 1;
        }
        else continue;
        if (hk_chance(45)) t_state(mp);
        if (!anyfault && mp->curcache > (maxhw > pinhw ? maxhw : pinhw))
            hk_fail("mcache-curcache-bound", "curcache %d maxcache(max) %d most pins held %d", (int)mp->curcache, maxhw, pinhw);
    }
    if (!alive) { hk_stat("freed_bucket_cases", 1); return; } /* the cookie is unusable (and leaks): stop here */
    /* orderly end as HMCPcloseAID does: sync, close */
    for (pg = 1; pg <= npages; pg++) if (fail_out[pg]) { fail_out[pg] = 0; printf("T mcache failout %d 0 => ok\n", pg); }
    t_state(mp);
    if (do_sync(mp)) check_synced("final sync");
    t_backing();
    i = mcache_close(mp);
    printf("T mcache close => %s\n", i == RET_SUCCESS ? "ok" : "fail");
    check_synced("after final close");
    hk_stat("ops", nops);
}

int main(int argc, char **argv)
{
    if (argc > 4) evict_fail_pct = atol(argv[4]);
    return hk_main(argc, argv, "mcache");
}
