/* toolgen.h - file generator and API-level content comparator shared by the tool engines (C18 e_repack.c, C19 e_tools.c).
 *
 *  tg_random(&spec)            random, structured, boundary-biased description of an HDF file
 *  tg_write(path, &spec)       create the file with the library (SD, GR, VS, V, AN, DFP)
 *  tg_compare(a, b, flags)     enumerate both files through the library API and compare
 *                              names, hierarchy, ranks, dims, types, attributes, dimension names/scales,
 *                              palettes, annotations and data.  Shares no code with hdiff.
 *                              Differences are reported through the callback tg_diff(key, text).
 *  Everything random comes from hk_range/hk_chance/hk_byte.
 */
#ifndef TOOLGEN_H
#define TOOLGEN_H
#include "hdf.h"
#include "mfhdf.h"
#include "hk.h"

#define TG_MAXSDS  5
#define TG_MAXGR   3
#define TG_MAXVS   3
#define TG_MAXVG   4
#define TG_MAXATTR 3
#define TG_MAXRANK 5
#define TG_MAXFLD  4
#define TG_NAME    320 /* room for the longest legal names (vgroup names are unbounded, SD / GR names 256) */

typedef struct {
    char  name[TG_NAME];
    int32 nt;
    int32 count;
    uint8 data[80] __attribute__((aligned(8)));
} tg_attr_t;

/* layout: comp = comp_coder_t code (0 none, 1 RLE, 3 SKPHUFF, 4 DEFLATE), cparm = skip size / level */
typedef struct {
    int   comp, cparm;
    int   chunked;
    int32 chunk[TG_MAXRANK];
} tg_layout_t;

typedef struct {
    char        name[TG_NAME];
    int32       nt;
    int         rank;
    int32       dims[TG_MAXRANK]; /* actual extents (records written for an unlimited dimension) */
    int         unlimited;
    int         empty; /* created, no data written */
    tg_layout_t lay;
    int         nattr;
    tg_attr_t   attr[TG_MAXATTR];
    int         dimnamed[TG_MAXRANK];
    char        dimname[TG_MAXRANK][TG_NAME];
    int         dimscale[TG_MAXRANK]; /* 0 none, else number type of the scale */
    int         dimattr[TG_MAXRANK];  /* SDsetdimstrs */
    int         fill;                 /* SDsetfillvalue */
    int         strs;                 /* SDsetdatastrs */
    int         parent;               /* vgroup index or -1 */
    int         label, desc;          /* data annotations */
    int         salt;
    int32       ref;                  /* filled by tg_write */
} tg_sds_t;

typedef struct {
    char        name[TG_NAME];
    int32       nt;
    int32       ncomp;
    int32       il;
    int32       dims[2]; /* GR order: dims[0] = x (width), dims[1] = y (height) */
    tg_layout_t lay;
    int         nattr;
    tg_attr_t   attr[TG_MAXATTR];
    int         pal;
    int         parent;
    int         label, desc;
    int         salt;
    int32       ref;
} tg_gr_t;

typedef struct {
    char      name[TG_NAME];
    char      cls[TG_NAME];
    int       nfld;
    char      fname[TG_MAXFLD][TG_NAME];
    int32     ftype[TG_MAXFLD];
    int32     forder[TG_MAXFLD];
    int32     nrec;
    int32     il;
    int       nattr;
    tg_attr_t attr[TG_MAXATTR];
    int       fattr[TG_MAXFLD]; /* one attribute on this field */
    int       parent;
    int       label, desc;
    int       salt;
    int32     ref;
} tg_vs_t;

typedef struct {
    char      name[TG_NAME];
    char      cls[TG_NAME];
    int       parent; /* index of an EARLIER vgroup or -1 */
    int       nattr;
    tg_attr_t attr[TG_MAXATTR];
    int       label, desc;
    int32     ref;
} tg_vg_t;

typedef struct {
    int       nsds, ngr, nvs, nvg;
    tg_sds_t  sds[TG_MAXSDS];
    tg_gr_t   gr[TG_MAXGR];
    tg_vs_t   vs[TG_MAXVS];
    tg_vg_t   vg[TG_MAXVG];
    int       nsdattr, ngrattr;
    tg_attr_t sdattr[TG_MAXATTR], grattr[TG_MAXATTR];
    int       nflabel, nfdesc;
    int       lonepal;
    int       big; /* index of the SDS made larger than 1 MiB, or -1 */
    int       features; /* bit mask of TG_F_*: what the generator may use */
} tg_spec_t;

#define TG_F_VG     1
#define TG_F_VS     2
#define TG_F_GR     4
#define TG_F_AN     8
#define TG_F_DIMS   16
#define TG_F_LAYOUT 32
#define TG_F_UNLIM  64
#define TG_F_EMPTY  128
#define TG_F_PAL    256
#define TG_F_BIG    512
#define TG_F_ALL    1023
#define TG_F_SPECIAL 1024 /* (not in TG_F_ALL) float32 / float64 values - SDS data, dimension scales, fill values, attributes, vdata
                             fields, images - include NaN (quiet / signalling, both signs, payloads), +-Inf, -0.0, denormals, +-FLT_MAX / DBL_MAX */
#define TG_F_ADVNAMES 2048 /* names / classes of USER objects adversarial w.r.t. the library's internal names (not part of TG_F_ALL) */

static const int32 TG_NTS[] = {DFNT_INT8, DFNT_UINT8, DFNT_INT16, DFNT_UINT16, DFNT_INT32, DFNT_UINT32,
                               DFNT_FLOAT32, DFNT_FLOAT64, DFNT_CHAR8, DFNT_UCHAR8};
#define TG_NNT 10

static int tg_ntsize(int32 nt) { return DFKNTsize((nt & DFNT_MASK) | DFNT_NATIVE); }

/* the IEEE special values, as bit patterns (a signalling NaN must not go through a floating-point conversion) */
static const uint32_t TG_SP32[] = {0x7fc00000u /* quiet NaN */, 0xffc00000u /* -NaN */, 0x7f800001u /* signalling NaN */, 0x7fc12345u /* payload */,
                                   0xffa00001u /* -sNaN, payload */, 0x7f800000u /* +Inf */, 0xff800000u /* -Inf */, 0x80000000u /* -0.0 */,
                                   0x00000001u /* least denormal */, 0x807fffffu /* -greatest denormal */, 0x7f7fffffu /* FLT_MAX */, 0xff7fffffu,
                                   0x00800000u /* FLT_MIN */, 0x7f800000u, 0x7fc00000u};
static const uint64_t TG_SP64[] = {0x7ff8000000000000ull, 0xfff8000000000000ull, 0x7ff0000000000001ull, 0x7ff8000000012345ull,
                                   0xfff4000000000001ull, 0x7ff0000000000000ull, 0xfff0000000000000ull, 0x8000000000000000ull,
                                   0x0000000000000001ull, 0x800fffffffffffffull, 0x7fefffffffffffffull, 0xffefffffffffffffull,
                                   0x0010000000000000ull, 0x7ff0000000000000ull, 0x7ff8000000000000ull};
#define TG_NSP 15
static int tg_special; /* set from the TG_F_SPECIAL bit of the spec by tg_random / tg_write */

/* does element k of the buffer derived from salt hold a special value?  (one object in three has none, the others about one in five) */
static int tg_sp_at(long k, int salt)
{
    uint32_t h = (uint32_t)k * 2654435761u + (uint32_t)salt * 40503u;
    return tg_special && salt % 3 != 0 && ((h >> 9) % 5 == 0);
}

/* deterministic values (NaN-free unless TG_F_SPECIAL): element k of a buffer of type nt, derived from salt */
static void tg_fill(void *buf, int32 nt, long n, int salt)
{
    long k;
    for (k = 0; k < n; k++) {
        long v = (k * 7 + salt * 13 + (k >> 5) + ((k % 11 == 0) ? salt : 0)) % 251;
        if ((nt == DFNT_FLOAT32 || nt == DFNT_FLOAT64) && tg_sp_at(k, salt)) {
            int w = (int)((k * 5 + salt + (k >> 3)) % TG_NSP);
            if (nt == DFNT_FLOAT32) memcpy((float32 *)buf + k, &TG_SP32[w], 4); else memcpy((float64 *)buf + k, &TG_SP64[w], 8);
            continue;
        }
        switch (nt) {
            case DFNT_INT8: ((int8 *)buf)[k] = (int8)(v - 100); break;
            case DFNT_UINT8:
            case DFNT_UCHAR8: ((uint8 *)buf)[k] = (uint8)v; break;
            case DFNT_CHAR8: ((char *)buf)[k] = (char)('a' + v % 26); break;
            case DFNT_INT16: ((int16 *)buf)[k] = (int16)(v * 131 - 16000); break;
            case DFNT_UINT16: ((uint16 *)buf)[k] = (uint16)(v * 257); break;
            case DFNT_INT32: ((int32 *)buf)[k] = (int32)(v * 8388593L - 1000000000L); break;
            case DFNT_UINT32: ((uint32 *)buf)[k] = (uint32)(v * 16777259UL); break;
            case DFNT_FLOAT32: ((float32 *)buf)[k] = (float32)(v - 120) / 8.0f; break;
            case DFNT_FLOAT64: ((float64 *)buf)[k] = (float64)(v - 120) / 16.0 + (float64)salt; break;
            default: break;
        }
    }
}

static void tg_rand_attr(tg_attr_t *a, const char *prefix, int idx)
{
    snprintf(a->name, sizeof a->name, "%s_att%d", prefix, idx);
    a->nt    = TG_NTS[hk_range(0, TG_NNT - 1)];
    a->count = (int32)hk_range(1, 80 / 8);
    if (a->nt == DFNT_CHAR8) a->count = (int32)hk_range(1, 40);
    tg_fill(a->data, a->nt, a->count, (int)hk_range(0, 200));
}

static void tg_rand_layout(tg_layout_t *l, int rank, const int32 *dims, int allow)
{
    int i;
    memset(l, 0, sizeof *l);
    if (!allow || hk_chance(55)) return;
    switch ((int)hk_range(0, 3)) {
        case 0: l->comp = COMP_CODE_RLE; break;
        case 1: l->comp = COMP_CODE_SKPHUFF; l->cparm = (int)hk_range(1, 4); break;
        case 2: l->comp = COMP_CODE_DEFLATE; l->cparm = (int)hk_range(1, 9); break;
        default: l->comp = COMP_CODE_NONE; break;
    }
    if (hk_chance(50) || l->comp == COMP_CODE_NONE) {
        l->chunked = 1;
        for (i = 0; i < rank; i++) l->chunk[i] = (int32)hk_range(1, dims[i] > 1 ? dims[i] : 1);
    }
}

static void tg_adversarial(tg_spec_t *s);

static void tg_random(tg_spec_t *s, int features)
{
    int i, j;
    memset(s, 0, sizeof *s);
    s->features = features;
    tg_special  = (features & TG_F_SPECIAL) != 0;
    s->big      = -1;
    s->nvg      = (features & TG_F_VG) ? (int)hk_range(0, TG_MAXVG) : 0;
    for (i = 0; i < s->nvg; i++) {
        tg_vg_t *g = &s->vg[i];
        snprintf(g->name, sizeof g->name, "grp%d", i);
        if (hk_chance(60)) snprintf(g->cls, sizeof g->cls, "cls%d", (int)hk_range(0, 2));
        g->parent = (i > 0 && hk_chance(60)) ? (int)hk_range(0, i - 1) : -1;
        g->nattr  = hk_chance(40) ? (int)hk_range(1, TG_MAXATTR) : 0;
        for (j = 0; j < g->nattr; j++) tg_rand_attr(&g->attr[j], g->name, j);
        if (features & TG_F_AN) { g->label = hk_chance(20); g->desc = hk_chance(20); }
    }
    s->nsds = (int)hk_range((features & (TG_F_GR | TG_F_VS)) ? 0 : 1, TG_MAXSDS);
    for (i = 0; i < s->nsds; i++) {
        tg_sds_t *d = &s->sds[i];
        snprintf(d->name, sizeof d->name, "sds%d", i);
        d->nt   = TG_NTS[hk_range(0, TG_NNT - 1)];
        d->rank = (int)hk_range(1, hk_chance(15) ? TG_MAXRANK : 3);
        for (j = 0; j < d->rank; j++) d->dims[j] = (int32)(hk_chance(20) ? 1 : hk_range(1, 7));
        d->salt = (int)hk_range(0, 250);
        if ((features & TG_F_UNLIM) && hk_chance(15)) d->unlimited = 1;
        if ((features & TG_F_EMPTY) && hk_chance(10)) d->empty = 1;
        if (hk_chance(15) && d->rank <= 2) d->dims[d->rank - 1] = (int32)hk_range(200, 400); /* above the 1024-byte threshold */
        tg_rand_layout(&d->lay, d->rank, d->dims, (features & TG_F_LAYOUT) && !d->unlimited);
        d->nattr = hk_chance(50) ? (int)hk_range(1, TG_MAXATTR) : 0;
        for (j = 0; j < d->nattr; j++) tg_rand_attr(&d->attr[j], d->name, j);
        if (features & TG_F_DIMS)
            for (j = 0; j < d->rank; j++) {
                if (hk_chance(40)) {
                    d->dimnamed[j] = 1;
                    if (d->unlimited && j == 0) snprintf(d->dimname[j], TG_NAME, "urec%d", i);
                    else snprintf(d->dimname[j], TG_NAME, "dim%d_%d", (int)d->dims[j], (int)hk_range(0, 1));
                    if (hk_chance(40) && !(d->empty && d->unlimited && j == 0)) {
                        static const int32 snt[] = {DFNT_INT32, DFNT_FLOAT32, DFNT_INT16, DFNT_FLOAT64, DFNT_UINT8};
                        d->dimscale[j] = snt[hk_range(0, 4)];
                    }
                    d->dimattr[j] = hk_chance(25);
                }
            }
        d->fill   = hk_chance(25);
        d->strs   = hk_chance(20);
        d->parent = (s->nvg > 0 && hk_chance(50)) ? (int)hk_range(0, s->nvg - 1) : -1;
        if (features & TG_F_AN) { d->label = hk_chance(20); d->desc = hk_chance(20); }
    }
    /* dimension names are shared between datasets: the first user decides the scale type (one scale per name) */
    for (i = 0; i < s->nsds; i++)
        for (j = 0; j < s->sds[i].rank; j++) {
            int i2, j2;
            if (!s->sds[i].dimnamed[j]) continue;
            for (i2 = 0; i2 <= i; i2++)
                for (j2 = 0; j2 < s->sds[i2].rank; j2++) {
                    if (i2 == i && j2 >= j) break;
                    if (s->sds[i2].dimnamed[j2] && strcmp(s->sds[i2].dimname[j2], s->sds[i].dimname[j]) == 0) {
                        s->sds[i].dimscale[j] = 0; /* written once, by the first user */
                        s->sds[i].dimattr[j]  = 0;
                    }
                }
        }
    if ((features & TG_F_BIG) && s->nsds > 0 && hk_chance(6)) {
        tg_sds_t *d = &s->sds[0];
        int       esz;
        s->big    = 0;
        d->nt     = hk_chance(50) ? DFNT_INT32 : (hk_chance(50) ? DFNT_FLOAT64 : DFNT_UINT8);
        esz       = tg_ntsize(d->nt);
        d->rank   = (int)hk_range(1, 3);
        d->empty  = 0;
        /* a little above 1 MiB, with shapes that make the strip-mine tile cut a middle dimension */
        if (d->rank == 1) d->dims[0] = (int32)(1048576 / esz + hk_range(0, 5000));
        else if (d->rank == 2) { d->dims[0] = (int32)hk_range(2, 9); d->dims[1] = (int32)(1048576 / esz / d->dims[0] + hk_range(1, 3000)); }
        else { d->dims[0] = (int32)hk_range(2, 5); d->dims[1] = (int32)hk_range(3, 40); d->dims[2] = (int32)(1048576 / esz / (d->dims[0] * d->dims[1]) + hk_range(1, 2000)); }
        for (j = 0; j < d->rank; j++) { d->dimnamed[j] = 0; d->dimscale[j] = 0; d->dimattr[j] = 0; }
        memset(&d->lay, 0, sizeof d->lay);
        if ((features & TG_F_LAYOUT) && !d->unlimited && hk_chance(40)) {
            d->lay.chunked = 1;
            for (j = 0; j < d->rank; j++) d->lay.chunk[j] = (d->dims[j] + (int32)hk_range(1, 3)) / (int32)hk_range(1, 4) + 1;
            if (hk_chance(50)) { d->lay.comp = COMP_CODE_DEFLATE; d->lay.cparm = 1; }
        }
    }
    s->ngr = (features & TG_F_GR) ? (int)hk_range(0, TG_MAXGR) : 0;
    for (i = 0; i < s->ngr; i++) {
        tg_gr_t *g = &s->gr[i];
        static const int32 gnt[] = {DFNT_UINT8, DFNT_UINT8, DFNT_INT16, DFNT_UINT16, DFNT_INT32, DFNT_FLOAT32, DFNT_CHAR8, DFNT_FLOAT64};
        snprintf(g->name, sizeof g->name, "img%d", i);
        g->nt      = gnt[hk_range(0, 7)];
        g->ncomp   = (int32)hk_range(1, 4);
        g->il      = (int32)hk_range(0, 2);
        g->dims[0] = (int32)hk_range(1, 9);
        g->dims[1] = (int32)hk_range(1, 9);
        if (hk_chance(15)) g->dims[0] = (int32)hk_range(300, 600);
        if ((features & TG_F_BIG) && hk_chance(3)) { g->dims[0] = (int32)hk_range(700, 1100); g->dims[1] = (int32)(1048576 / (g->dims[0] * g->ncomp * tg_ntsize(g->nt)) + 2); }
        g->salt = (int)hk_range(0, 250);
        tg_rand_layout(&g->lay, 2, g->dims, features & TG_F_LAYOUT);
        g->nattr = hk_chance(40) ? (int)hk_range(1, TG_MAXATTR) : 0;
        for (j = 0; j < g->nattr; j++) tg_rand_attr(&g->attr[j], g->name, j);
        g->pal    = (features & TG_F_PAL) && hk_chance(35);
        g->parent = (s->nvg > 0 && hk_chance(40)) ? (int)hk_range(0, s->nvg - 1) : -1;
        if (features & TG_F_AN) { g->label = hk_chance(15); g->desc = hk_chance(15); }
    }
    s->nvs = (features & TG_F_VS) ? (int)hk_range(0, TG_MAXVS) : 0;
    for (i = 0; i < s->nvs; i++) {
        tg_vs_t *v = &s->vs[i];
        snprintf(v->name, sizeof v->name, "vd%d", i);
        if (hk_chance(50)) snprintf(v->cls, sizeof v->cls, "vcls%d", (int)hk_range(0, 2));
        v->nfld = (int)hk_range(1, TG_MAXFLD);
        for (j = 0; j < v->nfld; j++) {
            snprintf(v->fname[j], TG_NAME, "f%d_%d", i, j);
            v->ftype[j]  = TG_NTS[hk_range(0, TG_NNT - 1)];
            v->forder[j] = (int32)hk_range(1, 3);
            v->fattr[j]  = hk_chance(15);
        }
        v->nrec  = (int32)(hk_chance(4) ? 0 : hk_range(1, 12));
        v->il    = hk_chance(50) ? FULL_INTERLACE : NO_INTERLACE;
        v->nattr = hk_chance(30) ? (int)hk_range(1, 2) : 0;
        for (j = 0; j < v->nattr; j++) tg_rand_attr(&v->attr[j], v->name, j);
        v->salt   = (int)hk_range(0, 250);
        v->parent = (s->nvg > 0 && hk_chance(40)) ? (int)hk_range(0, s->nvg - 1) : -1;
        if (features & TG_F_AN) { v->label = hk_chance(15); v->desc = hk_chance(15); }
    }
    s->nsdattr = hk_chance(40) ? (int)hk_range(1, TG_MAXATTR) : 0;
    for (j = 0; j < s->nsdattr; j++) tg_rand_attr(&s->sdattr[j], "sdglob", j);
    s->ngrattr = ((features & TG_F_GR) && hk_chance(25)) ? (int)hk_range(1, 2) : 0;
    for (j = 0; j < s->ngrattr; j++) tg_rand_attr(&s->grattr[j], "grglob", j);
    if (features & TG_F_AN) {
        s->nflabel = hk_chance(25) ? (int)hk_range(1, 2) : 0;
        s->nfdesc  = hk_chance(25) ? (int)hk_range(1, 2) : 0;
    }
    s->lonepal = (features & TG_F_PAL) && hk_chance(10);
    if (features & TG_F_ADVNAMES) tg_adversarial(s);
}

/* ------------------------------------------------------------------------------------------------ adversarial names
 *
 * hrepack (and hdiff, hdp, the library itself) decide from NAMES and CLASSES which vgroups / vdatas are the library's own
 * bookkeeping objects.  With TG_F_ADVNAMES the names and classes of the USER objects are drawn from the family around
 * those tables: an internal name placed in the other field, an internal name plus a suffix, a proper prefix, another
 * case, the empty string, the longest legal names, names containing the separators of hrepack's option syntax.
 */
static const char *TG_INTERNAL[] = {_HDF_ATTRIBUTE, _HDF_VARIABLE, _HDF_DIMENSION, _HDF_UDIMENSION, DIM_VALS, DIM_VALS01, _HDF_CDF, GR_NAME,
                                    RI_NAME, RIGATTRNAME, RIGATTRCLASS, _HDF_CHK_TBL_CLASS, _HDF_SDSVAR, _HDF_CRDVAR, "fakeDim", "fakeDim0", "VALUES", FILL_ATTR};
#define TG_NINTERNAL ((int)(sizeof TG_INTERNAL / sizeof TG_INTERNAL[0]))

/* is this vdata / vgroup class one of the library's own (exact list, independent of hrepack's and of Visinternal)? */
static int tg_internal_class(const char *c);

/* the classes of the objects the library creates as lone vdatas / as vgroups (attribute, dimension, variable, file, image
   bookkeeping, chunk tables): a user object carrying one of them cannot be told from the library's own by its class.
   (_HDF_SDSVAR / _HDF_CRDVAR only ever mark a vdata INSIDE a variable's vgroup.) */
static int tg_reserved_class(const char *c)
{
    static const char *R[] = {_HDF_ATTRIBUTE, _HDF_VARIABLE, _HDF_DIMENSION, _HDF_UDIMENSION, DIM_VALS, DIM_VALS01, _HDF_CDF, GR_NAME, RI_NAME, RIGATTRNAME, RIGATTRCLASS};
    unsigned i;
    for (i = 0; i < sizeof R / sizeof R[0]; i++)
        if (strcmp(c, R[i]) == 0) return 1;
    return strncmp(c, _HDF_CHK_TBL_CLASS, strlen(_HDF_CHK_TBL_CLASS)) == 0;
}

/* longest names the generator asks for: VSNAMELENMAX = 64 for vdata names / classes and the names of vgroup and vdata attributes,
   H4_MAX_NC_NAME = 256 for data set and dimension names (hrepack's buffers were one byte short for exactly those values: fixed by
   88cb01e and 0150cb3).  Image names: GRcreate accepts up to H4_MAX_GR_NAME - 1 = 255 characters since 5f16e67 (before: 65535, and
   GRgetiminfo overflowed the char[H4_MAX_GR_NAME] of every tool) */
#ifndef TG_VSNAME_MAX
#define TG_VSNAME_MAX 64
#endif
#ifndef TG_SDNAME_MAX
#define TG_SDNAME_MAX 256
#endif
#ifndef TG_GRNAME_MAX
#define TG_GRNAME_MAX 255
#endif

#define TG_ADV_EMPTY   1  /* the empty string is a legal value of this field */
#define TG_ADV_EXACT   2  /* an internal name itself is allowed */
#define TG_ADV_COMMA   4  /* ',' allowed (not in vdata field names) */
#define TG_ADV_LEADSP  8  /* may begin with a blank (SDcreate replaces such names) */
#define TG_ADV_GRNAME  16 /* GR_NAME itself allowed (the GR interface finds ITS vgroup by that name) */

static int tg_adv_kinds[10]; /* statistics: how often each variant was produced */

/* one adversarial string of at most `safemax` characters (`hardmax` >= safemax: longest value the library accepts; chosen rarely).
   Returns the variant: 0 exact, 1 suffix, 2 proper prefix, 3 case, 4 empty, 5 long, 6 separators, 7 embedded, 8 tame */
static const char *tg_adv_focus; /* when set: the internal name that matters most for the field being generated (half of the draws) */
static int tg_adv_string(char *out, int safemax, int hardmax, int allow, const char *tame)
{
    static const char *suffix[] = {"1", ".1", "_user", "-index", "0", "N", " ", ".0", "x"};
    static const char  seps[]   = {' ', ',', ':', ' ', ':'};
    const char *base = TG_INTERNAL[hk_range(0, TG_NINTERNAL - 1)];
    int         v    = (int)hk_range(0, 99), variant, n, i;
    if (tg_adv_focus && hk_chance(50)) base = tg_adv_focus;
    char        tmp[TG_NAME];
    if (safemax > TG_NAME - 1) safemax = TG_NAME - 1;
    if (hardmax > TG_NAME - 1) hardmax = TG_NAME - 1;
    variant = v < 14 ? 0 : v < 34 ? 1 : v < 46 ? 2 : v < 58 ? 3 : v < 63 ? 4 : v < 70 ? 5 : v < 85 ? 6 : v < 90 ? 7 : 8;
    if (variant == 0 && !(allow & TG_ADV_EXACT)) variant = 1;
    if (variant == 4 && !(allow & TG_ADV_EMPTY)) variant = 2;
    switch (variant) {
        case 0: snprintf(out, TG_NAME, "%s", base); break;
        case 1: snprintf(out, TG_NAME, "%s%s", base, suffix[hk_range(0, 8)]); break;
        case 2: n = (int)strlen(base); snprintf(out, TG_NAME, "%.*s", (int)(hk_chance(60) ? n - 1 : hk_range(1, n - 1)), base); break;
        case 3:
            snprintf(out, TG_NAME, "%s", base); n = (int)strlen(out);
            if (hk_chance(50)) { /* one letter */
                int tries = 0; i = (int)hk_range(0, n - 1);
                while (tries++ < 20 && !((out[i] | 32) >= 'a' && (out[i] | 32) <= 'z')) i = (i + 1) % n;
                out[i] ^= 32;
            }
            else { int up = hk_chance(50); for (i = 0; i < n; i++) if ((out[i] | 32) >= 'a' && (out[i] | 32) <= 'z') out[i] = (char)(up ? (out[i] & ~32) : (out[i] | 32)); }
            if (strcmp(out, base) == 0) strcat(out, "_"); /* no letter to change */
            break;
        case 4: out[0] = 0; break;
        case 5:
            n = hk_chance(25) ? hardmax : hk_chance(50) ? safemax : safemax - 1;
            if (n < 1) n = 1;
            snprintf(out, TG_NAME, "%s", hk_chance(50) ? base : tame);
            for (i = (int)strlen(out); i < n; i++) out[i] = (char)('a' + i % 26);
            out[n] = 0;
            break;
        case 6: {
            const char *b = hk_chance(60) ? base : tame; char c = seps[hk_range(0, 4)]; int pos;
            if (c == ',' && !(allow & TG_ADV_COMMA)) c = ':';
            n = (int)strlen(b); pos = (int)hk_range((allow & TG_ADV_LEADSP) || c != ' ' ? 0 : 1, n);
            snprintf(out, TG_NAME, "%.*s%c%s", pos, b, c, b + pos);
            if (hk_chance(25)) { char c2 = seps[hk_range(0, 4)]; if (c2 == ',' && !(allow & TG_ADV_COMMA)) c2 = ' '; snprintf(tmp, sizeof tmp, "%s%cz", out, c2); snprintf(out, TG_NAME, "%s", tmp); }
            break;
        }
        case 7: snprintf(out, TG_NAME, "%s%s", hk_chance(50) ? "x" : "my", base); break;
        default: snprintf(out, TG_NAME, "%s", tame); break;
    }
    if ((int)strlen(out) > hardmax) out[hardmax] = 0;
    if (!(allow & TG_ADV_GRNAME) && strcmp(out, GR_NAME) == 0) strcat(out, "_"), variant = 1;
    if (!(allow & TG_ADV_EMPTY) && !out[0]) { snprintf(out, TG_NAME, "%s", tame); variant = 8; }
    if (!(allow & TG_ADV_LEADSP) && out[0] == ' ') out[0] = '_';
    tg_adv_kinds[variant]++;
    return variant;
}

/* make `name` differ from the `n` strings at base, base + stride, ... (names of one kind must identify the objects) */
static void tg_adv_unique(char *name, const char *base, size_t stride, int n, int maxlen, int idx)
{
    int i, clash = 0;
    for (i = 0; i < n; i++) if (strcmp(base + (size_t)i * stride, name) == 0) clash = 1;
    if (!clash) return;
    {
        char t[16]; size_t l = strlen(name);
        snprintf(t, sizeof t, "~%d", idx);
        if ((int)(l + strlen(t)) > maxlen) l = (size_t)maxlen - strlen(t);
        strcpy(name + l, t);
    }
    for (i = 0; i < n; i++) if (strcmp(base + (size_t)i * stride, name) == 0) snprintf(name, TG_NAME, "uniq~%d~%d", idx, n);
}

static void tg_adv_attrs(tg_attr_t *a, int n, int safemax, int hardmax, int percent, int gr)
{
    int j;
    for (j = 0; j < n; j++)
        if (hk_chance(percent)) {
            char tame[TG_NAME]; snprintf(tame, sizeof tame, "%.60s", a[j].name);
            tg_adv_string(a[j].name, safemax, hardmax, (gr ? 0 : TG_ADV_EXACT | TG_ADV_COMMA) | TG_ADV_LEADSP, tame);
            tg_adv_unique(a[j].name, a[0].name, sizeof a[0], j, safemax, j);
        }
}

/* a user vgroup that hrepack (by its documented rule: class equal to a library class, chunk-table class prefix, vgroup NAME
   equal to GR_NAME) and every other HDF tool takes for one of the library's own */
static int tg_vg_reserved(const tg_vg_t *g) { return tg_reserved_class(g->cls) || strcmp(g->name, GR_NAME) == 0; }

static void tg_adversarial(tg_spec_t *s)
{
    int i, j;
    char tame[TG_NAME];
    for (i = 0; i < s->nvg; i++) {
        tg_vg_t *g = &s->vg[i];
        int      vn = 8, vc = 8;
        /* a vgroup NAMED like the GR vgroup only in files without GR content (GRstart looks its own vgroup up by name) */
        int      grname = (s->ngr == 0 && s->ngrattr == 0) ? TG_ADV_GRNAME : 0;
        if (hk_chance(65)) { snprintf(tame, sizeof tame, "%s", g->cls); vc = tg_adv_string(g->cls, 300, 300, TG_ADV_EMPTY | TG_ADV_EXACT | TG_ADV_COMMA | TG_ADV_LEADSP | TG_ADV_GRNAME, tame[0] ? tame : "ucls"); }
        tg_adv_focus = GR_NAME; /* the one NAME the tools give a meaning to */
        if (hk_chance(65)) { snprintf(tame, sizeof tame, "%s", g->name); vn = tg_adv_string(g->name, 300, 300, TG_ADV_EMPTY | TG_ADV_COMMA | TG_ADV_LEADSP | (tg_reserved_class(g->cls) ? 0 : TG_ADV_EXACT | grname), tame); }
        tg_adv_focus = NULL;
        (void)vn; (void)vc;
        tg_adv_unique(g->name, s->vg[0].name, sizeof s->vg[0], i, 300, i);
        tg_adv_attrs(g->attr, g->nattr, 63, TG_VSNAME_MAX, 35, 0);
    }
    for (i = 0; i < s->nvs; i++) {
        tg_vs_t *v = &s->vs[i];
        if (hk_chance(65)) { snprintf(tame, sizeof tame, "%s", v->cls); tg_adv_string(v->cls, 63, TG_VSNAME_MAX, TG_ADV_EMPTY | TG_ADV_EXACT | TG_ADV_COMMA | TG_ADV_LEADSP | TG_ADV_GRNAME, tame[0] ? tame : "uvcls"); }
        if (hk_chance(65)) { snprintf(tame, sizeof tame, "%s", v->name); tg_adv_string(v->name, 63, TG_VSNAME_MAX, TG_ADV_EMPTY | TG_ADV_COMMA | TG_ADV_LEADSP | TG_ADV_GRNAME | (tg_reserved_class(v->cls) ? 0 : TG_ADV_EXACT), tame); }
        tg_adv_unique(v->name, s->vs[0].name, sizeof s->vs[0], i, 63, i);
        if (hk_chance(25))
            for (j = 0; j < v->nfld; j++) {
                snprintf(tame, sizeof tame, "%s", v->fname[j]);
                tg_adv_string(v->fname[j], 100, 100, TG_ADV_EXACT | TG_ADV_GRNAME, tame);
                { char *c; for (c = v->fname[j]; *c; c++) if (*c == ',' || *c == ' ') *c = '_'; } /* separators of VSsetfields */
                tg_adv_unique(v->fname[j], v->fname[0], sizeof v->fname[0], j, 100, j);
            }
        tg_adv_attrs(v->attr, v->nattr, 63, TG_VSNAME_MAX, 35, 0);
    }
    for (i = 0; i < s->nsds; i++) {
        tg_sds_t *d = &s->sds[i];
        if (hk_chance(50)) {
            snprintf(tame, sizeof tame, "%s", d->name);
            tg_adv_string(d->name, 255, TG_SDNAME_MAX, TG_ADV_EXACT | TG_ADV_COMMA, tame); /* not GR_NAME: the GR interface finds ITS vgroup by that name, a data set is a vgroup of that name */
            if (strncmp(d->name, "fakeDim", 7) == 0) d->name[0] = 'F'; /* a data set named like a dimension is that dimension's coordinate variable */
        }
        tg_adv_unique(d->name, s->sds[0].name, sizeof s->sds[0], i, 255, i);
        tg_adv_attrs(d->attr, d->nattr, 64, 64, 35, 0);
        for (j = 0; j < d->rank; j++)
            if (d->dimnamed[j] && hk_chance(40)) {
                /* the extent stays part of the name: dimensions of one name share one size */
                char b[TG_NAME]; snprintf(tame, sizeof tame, "dim");
                tg_adv_string(b, 240, 240, TG_ADV_EXACT | TG_ADV_COMMA | TG_ADV_LEADSP | TG_ADV_GRNAME, tame);
                if (d->unlimited && j == 0) snprintf(d->dimname[j], TG_NAME, "%.240s_u%d", b, i);
                else snprintf(d->dimname[j], TG_NAME, "%.240s_%d", b, (int)d->dims[j]);
                if (strlen(b) >= 239) { /* the long variant: up to the longest name */
                    size_t l = strlen(d->dimname[j]), want = (size_t)(hk_chance(50) ? TG_SDNAME_MAX : 255);
                    memmove(d->dimname[j] + (want - l), d->dimname[j], l + 1); memset(d->dimname[j], 'd', want - l);
                }
            }
    }
    /* dimension names are shared: the first user of a name owns scale and attributes (same rule as in tg_random) */
    for (i = 0; i < s->nsds; i++)
        for (j = 0; j < s->sds[i].rank; j++) {
            int i2, j2;
            if (!s->sds[i].dimnamed[j]) continue;
            for (i2 = 0; i2 <= i; i2++)
                for (j2 = 0; j2 < s->sds[i2].rank; j2++) {
                    if (i2 == i && j2 >= j) break;
                    if (s->sds[i2].dimnamed[j2] && strcmp(s->sds[i2].dimname[j2], s->sds[i].dimname[j]) == 0) {
                        s->sds[i].dimscale[j] = 0; s->sds[i].dimattr[j] = 0;
                        if (s->sds[i2].dims[j2] != s->sds[i].dims[j] || (s->sds[i2].unlimited && j2 == 0) != (s->sds[i].unlimited && j == 0)) s->sds[i].dimnamed[j] = 0;
                    }
                }
        }
    for (i = 0; i < s->ngr; i++) {
        tg_gr_t *g = &s->gr[i];
        if (hk_chance(50)) { snprintf(tame, sizeof tame, "%s", g->name); tg_adv_string(g->name, 255, TG_GRNAME_MAX, TG_ADV_EXACT | TG_ADV_COMMA | TG_ADV_LEADSP, tame); }
        tg_adv_unique(g->name, s->gr[0].name, sizeof s->gr[0], i, 255, i);
        /* GRsetattr gives the name FILL_ATTR a meaning of its own; the name becomes a vdata FIELD name (no ',') */
        tg_adv_attrs(g->attr, g->nattr, 64, 64, 35, 1);
    }
    tg_adv_attrs(s->sdattr, s->nsdattr, 64, 64, 35, 0);
    tg_adv_attrs(s->grattr, s->ngrattr, 64, 64, 35, 1);
    /* what lives below a vgroup that every tool takes for the library's own is not reachable as a user object: keep
       user vgroups / vdatas out of there (data sets and images may stay: they are found through the SD / GR interfaces) */
    for (i = 0; i < s->nvg; i++) if (s->vg[i].parent >= 0 && tg_vg_reserved(&s->vg[s->vg[i].parent])) s->vg[i].parent = -1;
    for (i = 0; i < s->nvs; i++) if (s->vs[i].parent >= 0 && tg_vg_reserved(&s->vg[s->vs[i].parent])) s->vs[i].parent = -1;
    /* a vdata of class _HDF_ATTRIBUTE inside a vgroup IS an (old style) attribute of that vgroup by the file format
       (Vnoldattrs): such a vdata stays lone. With any other library class a vdata inside a user vgroup is an ordinary member */
    for (i = 0; i < s->nvs; i++) if (strcmp(s->vs[i].cls, _HDF_ATTRIBUTE) == 0) s->vs[i].parent = -1;
    /* an object that carries a class the library uses is told from the library's own objects of that class by its name alone */
    for (i = 0; i < s->nvg; i++) if (tg_internal_class(s->vg[i].cls) && strcmp(s->vg[i].name, GR_NAME)) snprintf(s->vg[i].name, TG_NAME, "user vgroup %d", i);
    for (i = 0; i < s->nvs; i++) if (tg_internal_class(s->vs[i].cls)) snprintf(s->vs[i].name, TG_NAME, "user vdata %d", i);
    /* what goes with such an object (annotations) is not looked for either */
    for (i = 0; i < s->nvg; i++) if (tg_vg_reserved(&s->vg[i])) s->vg[i].label = s->vg[i].desc = 0;
    for (i = 0; i < s->nvs; i++) if (s->vs[i].parent < 0 && tg_reserved_class(s->vs[i].cls)) s->vs[i].label = s->vs[i].desc = 0;
}

static long tg_nelem(int rank, const int32 *dims)
{
    long n = 1;
    int  i;
    for (i = 0; i < rank; i++) n *= dims[i];
    return n;
}

static void tg_set_chunkdef(HDF_CHUNK_DEF *c, int32 *flags, const tg_layout_t *l, int rank)
{
    int i;
    memset(c, 0, sizeof *c);
    *flags = HDF_CHUNK;
    for (i = 0; i < rank; i++) c->chunk_lengths[i] = l->chunk[i];
    if (l->comp != COMP_CODE_NONE) {
        *flags            = HDF_CHUNK | HDF_COMP;
        c->comp.comp_type = l->comp;
        if (l->comp == COMP_CODE_SKPHUFF) c->comp.cinfo.skphuff.skp_size = l->cparm;
        if (l->comp == COMP_CODE_DEFLATE) c->comp.cinfo.deflate.level = l->cparm;
    }
}
static void tg_set_cinfo(comp_info *ci, const tg_layout_t *l)
{
    memset(ci, 0, sizeof *ci);
    if (l->comp == COMP_CODE_SKPHUFF) ci->skphuff.skp_size = l->cparm;
    if (l->comp == COMP_CODE_DEFLATE) ci->deflate.level = l->cparm;
}

static int tg_nerr;
#define TGCK(x) do { if ((long)(x) == FAIL) { tg_nerr++; fprintf(stderr, "tg_write: %s failed (line %d)\n", #x, __LINE__); } } while (0)

static void tg_ann(int32 an_id, uint16 tag, uint16 ref, int label, const char *who, int salt)
{
    char  txt[120];
    int32 a = ANcreate(an_id, tag, ref, label ? AN_DATA_LABEL : AN_DATA_DESC);
    snprintf(txt, sizeof txt, "%s of %s #%d%s", label ? "label" : "description", who, salt, label ? "" : "\nsecond line");
    TGCK(a);
    if (a != FAIL) { TGCK(ANwriteann(a, txt, (int32)strlen(txt))); TGCK(ANendaccess(a)); }
}

static int tg_write(const char *path, tg_spec_t *s)
{
    int32 sd, fid, gr, an;
    int   i, j;
    int32 vgid[TG_MAXVG];
    tg_nerr    = 0;
    tg_special = (s->features & TG_F_SPECIAL) != 0;
    sd         = SDstart(path, DFACC_CREATE);
    if (sd == FAIL) return -1;
    for (i = 0; i < s->nsds; i++) {
        tg_sds_t *d = &s->sds[i];
        int32     cdims[TG_MAXRANK], start[TG_MAXRANK], id;
        long      n = tg_nelem(d->rank, d->dims);
        for (j = 0; j < d->rank; j++) { cdims[j] = d->dims[j]; start[j] = 0; }
        if (d->unlimited) cdims[0] = SD_UNLIMITED;
        id = SDcreate(sd, d->name, d->nt, d->rank, cdims);
        TGCK(id);
        if (id == FAIL) continue;
        if (d->fill) { uint8 fv[8] __attribute__((aligned(8))); tg_fill(fv, d->nt, 1, d->salt + 3); TGCK(SDsetfillvalue(id, fv)); }
        if (d->lay.chunked) {
            HDF_CHUNK_DEF c; int32 fl;
            tg_set_chunkdef(&c, &fl, &d->lay, d->rank);
            TGCK(SDsetchunk(id, c, fl));
        }
        else if (d->lay.comp != COMP_CODE_NONE) {
            comp_info ci; tg_set_cinfo(&ci, &d->lay);
            TGCK(SDsetcompress(id, (comp_coder_t)d->lay.comp, &ci));
        }
        for (j = 0; j < d->rank; j++) {
            int32 dim = SDgetdimid(id, j);
            if (d->dimnamed[j]) {
                TGCK(SDsetdimname(dim, d->dimname[j]));
                if (d->dimscale[j]) {
                    void *sc = calloc((size_t)d->dims[j] + 1, 8);
                    tg_fill(sc, d->dimscale[j], d->dims[j], d->salt + j);
                    TGCK(SDsetdimscale(dim, d->dims[j], d->dimscale[j], sc));
                    free(sc);
                }
                if (d->dimattr[j]) TGCK(SDsetdimstrs(dim, "dlabel", "dunit", "dformat"));
            }
        }
        if (!d->empty && n > 0) {
            void *buf = malloc((size_t)n * 8);
            tg_fill(buf, d->nt, n, d->salt);
            TGCK(SDwritedata(id, start, NULL, d->dims, buf));
            free(buf);
        }
        for (j = 0; j < d->nattr; j++) TGCK(SDsetattr(id, d->attr[j].name, d->attr[j].nt, d->attr[j].count, d->attr[j].data));
        if (d->strs) TGCK(SDsetdatastrs(id, "the label", "the unit", "F7.2", "cartesian"));
        d->ref = SDidtoref(id);
        TGCK(SDendaccess(id));
    }
    for (j = 0; j < s->nsdattr; j++) TGCK(SDsetattr(sd, s->sdattr[j].name, s->sdattr[j].nt, s->sdattr[j].count, s->sdattr[j].data));
    TGCK(SDend(sd));
    if (s->lonepal) {
        /* before any GR palette exists: DFPaddpal picks a reference number that is new for DFTAG_IP8 only and would
           replace a DFTAG_LUT of the same number written by GRwritelut */
        uint8 pal[768];
        tg_fill(pal, DFNT_UINT8, 768, 77);
        TGCK(DFPaddpal(path, pal));
    }

    fid = Hopen(path, DFACC_WRITE, 0);
    if (fid == FAIL) return -1;
    TGCK(Vstart(fid));
    if (s->ngr > 0 || s->ngrattr > 0) {
        gr = GRstart(fid);
        TGCK(gr);
        for (i = 0; i < s->ngr; i++) {
            tg_gr_t *g = &s->gr[i];
            int32    start[2] = {0, 0}, id;
            long     n = (long)g->dims[0] * g->dims[1] * g->ncomp;
            void    *buf;
            id = GRcreate(gr, g->name, g->ncomp, g->nt, g->il, g->dims);
            TGCK(id);
            if (id == FAIL) continue;
            if (g->lay.chunked) {
                HDF_CHUNK_DEF c; int32 fl;
                tg_set_chunkdef(&c, &fl, &g->lay, 2);
                TGCK(GRsetchunk(id, c, fl));
            }
            else if (g->lay.comp != COMP_CODE_NONE) {
                comp_info ci; tg_set_cinfo(&ci, &g->lay);
                TGCK(GRsetcompress(id, (comp_coder_t)g->lay.comp, &ci));
            }
            buf = malloc((size_t)n * 8);
            tg_fill(buf, g->nt, n, g->salt);
            TGCK(GRwriteimage(id, start, NULL, g->dims, buf));
            free(buf);
            for (j = 0; j < g->nattr; j++) TGCK(GRsetattr(id, g->attr[j].name, g->attr[j].nt, g->attr[j].count, g->attr[j].data));
            if (g->pal) {
                uint8 pal[768]; int32 pid = GRgetlutid(id, 0);
                tg_fill(pal, DFNT_UINT8, 768, g->salt + 1);
                TGCK(GRwritelut(pid, 3, DFNT_UINT8, 0, 256, pal));
            }
            g->ref = GRidtoref(id);
            TGCK(GRendaccess(id));
        }
        for (j = 0; j < s->ngrattr; j++) TGCK(GRsetattr(gr, s->grattr[j].name, s->grattr[j].nt, s->grattr[j].count, s->grattr[j].data));
        TGCK(GRend(gr));
    }
    for (i = 0; i < s->nvs; i++) {
        tg_vs_t *v = &s->vs[i];
        int32    id = VSattach(fid, -1, "w");
        char     flist[TG_MAXFLD * TG_NAME + 8] = "";
        int      recsz = 0;
        TGCK(id);
        if (id == FAIL) continue;
        TGCK(VSsetname(id, v->name));
        if (v->cls[0]) TGCK(VSsetclass(id, v->cls));
        for (j = 0; j < v->nfld; j++) {
            TGCK(VSfdefine(id, v->fname[j], v->ftype[j], v->forder[j]));
            if (j) strcat(flist, ",");
            strcat(flist, v->fname[j]);
            recsz += tg_ntsize(v->ftype[j]) * v->forder[j];
        }
        TGCK(VSsetfields(id, flist));
        TGCK(VSsetinterlace(id, v->il));
        if (v->nrec > 0) {
            /* build the buffer field by field in the requested interlace */
            uint8 *buf = calloc((size_t)recsz * v->nrec + 8, 1);
            uint8 *p   = buf;
            if (v->il == FULL_INTERLACE) {
                int r;
                for (r = 0; r < v->nrec; r++)
                    for (j = 0; j < v->nfld; j++) {
                        uint8 tmp[64] __attribute__((aligned(8)));
                        int   sz = tg_ntsize(v->ftype[j]) * v->forder[j];
                        tg_fill(tmp, v->ftype[j], v->forder[j], v->salt + r * 5 + j);
                        memcpy(p, tmp, (size_t)sz); p += sz;
                    }
            }
            else {
                for (j = 0; j < v->nfld; j++) {
                    int r;
                    for (r = 0; r < v->nrec; r++) {
                        uint8 tmp[64] __attribute__((aligned(8)));
                        int   sz = tg_ntsize(v->ftype[j]) * v->forder[j];
                        tg_fill(tmp, v->ftype[j], v->forder[j], v->salt + r * 5 + j);
                        memcpy(p, tmp, (size_t)sz); p += sz;
                    }
                }
            }
            TGCK(VSwrite(id, buf, v->nrec, v->il));
            free(buf);
        }
        for (j = 0; j < v->nattr; j++) TGCK(VSsetattr(id, _HDF_VDATA, v->attr[j].name, v->attr[j].nt, v->attr[j].count, v->attr[j].data));
        for (j = 0; j < v->nfld; j++)
            if (v->fattr[j]) { int32 val = 1000 + j; TGCK(VSsetattr(id, j, "fieldatt", DFNT_INT32, 1, &val)); }
        v->ref = VSQueryref(id);
        TGCK(VSdetach(id));
    }
    for (i = 0; i < s->nvg; i++) {
        tg_vg_t *g = &s->vg[i];
        vgid[i]    = Vattach(fid, -1, "w");
        TGCK(vgid[i]);
        TGCK(Vsetname(vgid[i], g->name));
        if (g->cls[0]) TGCK(Vsetclass(vgid[i], g->cls));
        for (j = 0; j < g->nattr; j++) TGCK(Vsetattr(vgid[i], g->attr[j].name, g->attr[j].nt, g->attr[j].count, g->attr[j].data));
        g->ref = VQueryref(vgid[i]);
    }
    for (i = 0; i < s->nvg; i++)
        if (s->vg[i].parent >= 0) TGCK(Vinsert(vgid[s->vg[i].parent], vgid[i]));
    for (i = 0; i < s->nsds; i++)
        if (s->sds[i].parent >= 0) TGCK(Vaddtagref(vgid[s->sds[i].parent], DFTAG_NDG, s->sds[i].ref));
    for (i = 0; i < s->ngr; i++)
        if (s->gr[i].parent >= 0) TGCK(Vaddtagref(vgid[s->gr[i].parent], DFTAG_RIG, s->gr[i].ref));
    for (i = 0; i < s->nvs; i++)
        if (s->vs[i].parent >= 0) TGCK(Vaddtagref(vgid[s->vs[i].parent], DFTAG_VH, s->vs[i].ref));
    for (i = 0; i < s->nvg; i++) TGCK(Vdetach(vgid[i]));

    an = ANstart(fid);
    TGCK(an);
    for (i = 0; i < s->nflabel; i++) {
        char txt[64]; int32 a = ANcreatef(an, AN_FILE_LABEL);
        snprintf(txt, sizeof txt, "file label %d", i);
        TGCK(a); TGCK(ANwriteann(a, txt, (int32)strlen(txt))); TGCK(ANendaccess(a));
    }
    for (i = 0; i < s->nfdesc; i++) {
        char txt[64]; int32 a = ANcreatef(an, AN_FILE_DESC);
        snprintf(txt, sizeof txt, "file description %d\nline two", i);
        TGCK(a); TGCK(ANwriteann(a, txt, (int32)strlen(txt))); TGCK(ANendaccess(a));
    }
    for (i = 0; i < s->nsds; i++) {
        if (s->sds[i].label) tg_ann(an, DFTAG_NDG, (uint16)s->sds[i].ref, 1, s->sds[i].name, i);
        if (s->sds[i].desc) tg_ann(an, DFTAG_NDG, (uint16)s->sds[i].ref, 0, s->sds[i].name, i);
    }
    for (i = 0; i < s->ngr; i++) {
        if (s->gr[i].label) tg_ann(an, DFTAG_RIG, (uint16)s->gr[i].ref, 1, s->gr[i].name, i);
        if (s->gr[i].desc) tg_ann(an, DFTAG_RIG, (uint16)s->gr[i].ref, 0, s->gr[i].name, i);
    }
    for (i = 0; i < s->nvs; i++) {
        if (s->vs[i].label) tg_ann(an, DFTAG_VH, (uint16)s->vs[i].ref, 1, s->vs[i].name, i);
        if (s->vs[i].desc) tg_ann(an, DFTAG_VH, (uint16)s->vs[i].ref, 0, s->vs[i].name, i);
    }
    for (i = 0; i < s->nvg; i++) {
        if (s->vg[i].label) tg_ann(an, DFTAG_VG, (uint16)s->vg[i].ref, 1, s->vg[i].name, i);
        if (s->vg[i].desc) tg_ann(an, DFTAG_VG, (uint16)s->vg[i].ref, 0, s->vg[i].name, i);
    }
    TGCK(ANend(an));
    TGCK(Vend(fid));
    TGCK(Hclose(fid));
    return tg_nerr ? -1 : 0;
}

/* ------------------------------------------------------------------------------------------------ comparator */

static void tg_diff(const char *key, const char *fmt, ...) __attribute__((format(printf, 2, 3)));
static long tg_ndiff;
static char tg_first[400];
static char tg_firstkey[64];
static int  tg_report = 1; /* 1: call hk_fail for every difference; 0: only count (e_tools uses the count) */
static void tg_diff(const char *key, const char *fmt, ...)
{
    char    msg[360];
    va_list ap;
    va_start(ap, fmt); vsnprintf(msg, sizeof msg, fmt, ap); va_end(ap);
    if (tg_ndiff == 0) { snprintf(tg_first, sizeof tg_first, "%s", msg); snprintf(tg_firstkey, sizeof tg_firstkey, "%s", key); }
    tg_ndiff++;
    if (tg_report) hk_fail(key, "%s", msg);
}

static int tg_attr_same_sd(int32 a, int32 b, int32 na, const char *who, const char *key)
{
    int32 i;
    int   same = 1;
    for (i = 0; i < na; i++) {
        char  n1[H4_MAX_NC_NAME + 1], n2[H4_MAX_NC_NAME + 1];
        int32 t1, t2, c1, c2;
        if (SDattrinfo(a, i, n1, &t1, &c1) == FAIL || SDattrinfo(b, i, n2, &t2, &c2) == FAIL) { tg_diff(key, "%s: attribute %d unreadable", who, (int)i); same = 0; continue; }
        if (strcmp(n1, n2) || t1 != t2 || c1 != c2) { tg_diff(key, "%s: attribute %d is %s/%d/%d vs %s/%d/%d", who, (int)i, n1, (int)t1, (int)c1, n2, (int)t2, (int)c2); same = 0; continue; }
        {
            size_t sz = (size_t)c1 * (size_t)tg_ntsize(t1);
            void  *v1 = calloc(sz + 1, 1), *v2 = calloc(sz + 1, 1);
            if (SDreadattr(a, i, v1) == FAIL || SDreadattr(b, i, v2) == FAIL || memcmp(v1, v2, sz)) { tg_diff(key, "%s: attribute %s values differ", who, n1); same = 0; }
            free(v1); free(v2);
        }
    }
    return same;
}

static int tg_default_dimname(const char *n)
{
    return strncmp(n, "fakeDim", 7) == 0 && n[7] != 0 && strspn(n + 7, "0123456789") == strlen(n + 7);
}

static void tg_cmp_sd(const char *fa, const char *fb)
{
    int32 a = SDstart(fa, DFACC_READ), b = SDstart(fb, DFACC_READ);
    int32 nda, ndb, naa, nab, i;
    int   nreal_a = 0, nreal_b = 0;
    if (a == FAIL || b == FAIL) { tg_diff("sd-open", "SDstart failed (%d,%d)", (int)a, (int)b); if (a != FAIL) SDend(a); if (b != FAIL) SDend(b); return; }
    SDfileinfo(a, &nda, &naa);
    SDfileinfo(b, &ndb, &nab);
    if (naa != nab) tg_diff("sd-globattr", "SD global attribute count %d vs %d", (int)naa, (int)nab);
    else tg_attr_same_sd(a, b, naa, "SD file", "sd-globattr");
    for (i = 0; i < ndb; i++) { int32 id = SDselect(b, i); if (!SDiscoordvar(id)) nreal_b++; SDendaccess(id); }
    for (i = 0; i < nda; i++) {
        int32 ia = SDselect(a, i), ib, idx;
        char  name[H4_MAX_NC_NAME + 1], name2[H4_MAX_NC_NAME + 1];
        int32 ra, rb, da[H4_MAX_VAR_DIMS], db[H4_MAX_VAR_DIMS], ta, tb, nata, natb;
        int   j, ea = 0, eb = 0;
        SDgetinfo(ia, name, &ra, da, &ta, &nata);
        if (SDiscoordvar(ia)) { SDendaccess(ia); continue; }
        nreal_a++;
        idx = SDnametoindex(b, name);
        if (idx == FAIL) { tg_diff("sds-missing", "SDS %s missing in second file", name); SDendaccess(ia); continue; }
        ib = SDselect(b, idx);
        SDgetinfo(ib, name2, &rb, db, &tb, &natb);
        if (ra != rb || ta != tb) { tg_diff("sds-type", "SDS %s rank/type %d/%d vs %d/%d", name, (int)ra, (int)ta, (int)rb, (int)tb); goto next; }
        for (j = 0; j < ra; j++)
            if (da[j] != db[j]) { tg_diff("sds-dims", "SDS %s dim %d: %d vs %d", name, j, (int)da[j], (int)db[j]); goto next; }
        if (SDisrecord(ia) != SDisrecord(ib)) tg_diff("sds-unlimited-lost", "SDS %s unlimited %d vs %d", name, (int)SDisrecord(ia), (int)SDisrecord(ib));
        if (nata != natb) tg_diff("sds-attr", "SDS %s attribute count %d vs %d", name, (int)nata, (int)natb);
        else tg_attr_same_sd(ia, ib, nata, name, "sds-attr");
        SDcheckempty(ia, &ea); SDcheckempty(ib, &eb);
        if (ea != eb) tg_diff("sds-empty", "SDS %s empty %d vs %d", name, ea, eb);
        {
            long n = tg_nelem(ra, da);
            if (n > 0) {
                size_t sz = (size_t)n * (size_t)tg_ntsize(ta);
                void  *v1 = calloc(sz + 1, 1), *v2 = calloc(sz + 1, 1);
                int32  st[H4_MAX_VAR_DIMS] = {0};
                intn   r1 = SDreaddata(ia, st, NULL, da, v1), r2 = SDreaddata(ib, st, NULL, da, v2);
                if (r1 == FAIL || r2 == FAIL) tg_diff("sds-read", "SDS %s SDreaddata %d vs %d", name, r1, r2);
                else if (memcmp(v1, v2, sz)) {
                    size_t k = 0; while (k < sz && ((uint8 *)v1)[k] == ((uint8 *)v2)[k]) k++;
                    tg_diff("sds-data", "SDS %s data differ at byte %lu of %lu", name, (unsigned long)k, (unsigned long)sz);
                }
                free(v1); free(v2);
            }
        }
        for (j = 0; j < ra; j++) {
            int32 d1 = SDgetdimid(ia, j), d2 = SDgetdimid(ib, j), s1, s2, t1, t2, n1, n2;
            char  dn1[H4_MAX_NC_NAME + 1], dn2[H4_MAX_NC_NAME + 1];
            if (SDdiminfo(d1, dn1, &s1, &t1, &n1) == FAIL || SDdiminfo(d2, dn2, &s2, &t2, &n2) == FAIL) { tg_diff("sds-dim", "SDS %s SDdiminfo failed dim %d", name, j); continue; }
            /* "fakeDim<n>" are the library's default names (numbered in creation order): not content. Only exactly that
               shape: "fakeDim", "fakeDimX", "fakeDim1 " ... are names a user chose */
            if (strcmp(dn1, dn2) && !(tg_default_dimname(dn1) && tg_default_dimname(dn2)))
                tg_diff((tg_default_dimname(dn1) || tg_default_dimname(dn2)) ? "fakedim-rename-collision" : "sds-dimname", "SDS %s dim %d name %s vs %s", name, j, dn1, dn2);
            if (s1 != s2) tg_diff("sds-dimsize", "SDS %s dim %d size %d vs %d", name, j, (int)s1, (int)s2);
            if (t1 != t2) tg_diff("sds-dimscale", "SDS %s dim %d (%s) scale type %d vs %d", name, j, dn1, (int)t1, (int)t2);
            else if (t1 != 0) {
                size_t sz = (size_t)da[j] * (size_t)tg_ntsize(t1);
                void  *v1 = calloc(sz + 8, 1), *v2 = calloc(sz + 8, 1);
                intn   r1 = SDgetdimscale(d1, v1), r2 = SDgetdimscale(d2, v2);
                if (r1 != r2 || (r1 != FAIL && memcmp(v1, v2, sz))) tg_diff("sds-dimscale", "SDS %s dim %d scale values differ (%d,%d)", name, j, r1, r2);
                free(v1); free(v2);
            }
            if (n1 != n2) tg_diff("sds-dimattr", "SDS %s dim %d attribute count %d vs %d", name, j, (int)n1, (int)n2);
            else if (n1 > 0) { char who[300]; snprintf(who, sizeof who, "%s.dim%d", name, j); tg_attr_same_sd(d1, d2, n1, who, "sds-dimattr"); }
        }
    next:
        SDendaccess(ia); SDendaccess(ib);
    }
    if (nreal_a != nreal_b) tg_diff("sds-count", "number of datasets %d vs %d", nreal_a, nreal_b);
    SDend(a); SDend(b);
}

static void tg_cmp_gr(int32 fa, int32 fb)
{
    int32 a = GRstart(fa), b = GRstart(fb), na, nb, ga, gb, i;
    if (a == FAIL || b == FAIL) { tg_diff("gr-open", "GRstart failed"); return; }
    GRfileinfo(a, &na, &ga); GRfileinfo(b, &nb, &gb);
    if (na != nb) tg_diff("gr-count", "number of images %d vs %d", (int)na, (int)nb);
    if (ga != gb) tg_diff("gr-globattr", "GR global attribute count %d vs %d", (int)ga, (int)gb);
    else
        for (i = 0; i < ga; i++) {
            char n1[H4_MAX_GR_NAME + 1], n2[H4_MAX_GR_NAME + 1]; int32 t1, t2, c1, c2;
            GRattrinfo(a, i, n1, &t1, &c1); GRattrinfo(b, i, n2, &t2, &c2);
            if (strcmp(n1, n2) || t1 != t2 || c1 != c2) tg_diff("gr-globattr", "GR global attribute %d: %s/%d/%d vs %s/%d/%d", (int)i, n1, (int)t1, (int)c1, n2, (int)t2, (int)c2);
            else { size_t sz = (size_t)c1 * tg_ntsize(t1); void *v1 = calloc(sz + 1, 1), *v2 = calloc(sz + 1, 1);
                   if (GRgetattr(a, i, v1) == FAIL || GRgetattr(b, i, v2) == FAIL || memcmp(v1, v2, sz)) tg_diff("gr-globattr", "GR global attribute %s values differ", n1);
                   free(v1); free(v2); }
        }
    for (i = 0; i < na; i++) {
        int32 ia = GRselect(a, i), ib, idx, c1, c2, t1, t2, l1, l2, d1[2], d2[2], n1, n2, j;
        char  name[H4_MAX_GR_NAME + 1], name2[H4_MAX_GR_NAME + 1];
        GRgetiminfo(ia, name, &c1, &t1, &l1, d1, &n1);
        idx = GRnametoindex(b, name);
        if (idx == FAIL) { tg_diff("gr-missing", "image %s missing in second file", name); GRendaccess(ia); continue; }
        ib = GRselect(b, idx);
        GRgetiminfo(ib, name2, &c2, &t2, &l2, d2, &n2);
        if (c1 != c2 || t1 != t2 || l1 != l2 || d1[0] != d2[0] || d1[1] != d2[1]) {
            tg_diff("gr-info", "image %s ncomp/type/il/dims %d/%d/%d/%dx%d vs %d/%d/%d/%dx%d", name, (int)c1, (int)t1, (int)l1, (int)d1[0], (int)d1[1], (int)c2, (int)t2, (int)l2, (int)d2[0], (int)d2[1]);
        }
        else {
            size_t sz = (size_t)d1[0] * d1[1] * c1 * tg_ntsize(t1);
            void  *v1 = calloc(sz + 1, 1), *v2 = calloc(sz + 1, 1);
            int32  st[2] = {0, 0};
            intn   r1 = GRreadimage(ia, st, NULL, d1, v1), r2 = GRreadimage(ib, st, NULL, d1, v2);
            if (r1 == FAIL || r2 == FAIL) tg_diff("gr-read", "image %s GRreadimage %d vs %d", name, r1, r2);
            else if (memcmp(v1, v2, sz)) tg_diff("gr-data", "image %s data differ", name);
            free(v1); free(v2);
        }
        if (n1 != n2) tg_diff("gr-attr", "image %s attribute count %d vs %d", name, (int)n1, (int)n2);
        else
            for (j = 0; j < n1; j++) {
                char an1[H4_MAX_GR_NAME + 1], an2[H4_MAX_GR_NAME + 1]; int32 at1, at2, ac1, ac2;
                GRattrinfo(ia, j, an1, &at1, &ac1); GRattrinfo(ib, j, an2, &at2, &ac2);
                if (strcmp(an1, an2) || at1 != at2 || ac1 != ac2) tg_diff("gr-attr", "image %s attribute %d: %s/%d/%d vs %s/%d/%d", name, (int)j, an1, (int)at1, (int)ac1, an2, (int)at2, (int)ac2);
                else { size_t sz = (size_t)ac1 * tg_ntsize(at1); void *v1 = calloc(sz + 1, 1), *v2 = calloc(sz + 1, 1);
                       if (GRgetattr(ia, j, v1) == FAIL || GRgetattr(ib, j, v2) == FAIL || memcmp(v1, v2, sz)) tg_diff("gr-attr", "image %s attribute %s values differ", name, an1);
                       free(v1); free(v2); }
            }
        {
            int32 p1 = GRgetlutid(ia, 0), p2 = GRgetlutid(ib, 0), pc1 = 0, pt1 = 0, pi1 = 0, pn1 = 0, pc2 = 0, pt2 = 0, pi2 = 0, pn2 = 0;
            intn  r1 = GRgetlutinfo(p1, &pc1, &pt1, &pi1, &pn1), r2 = GRgetlutinfo(p2, &pc2, &pt2, &pi2, &pn2);
            int   h1 = (r1 != FAIL && pc1 > 0 && pn1 > 0), h2 = (r2 != FAIL && pc2 > 0 && pn2 > 0);
            if (h1 != h2) tg_diff("gr-palette", "image %s has palette %d vs %d", name, h1, h2);
            else if (h1) {
                if (pc1 != pc2 || pt1 != pt2 || pn1 != pn2) tg_diff("gr-palette", "image %s palette info differs", name);
                else { uint8 q1[256 * 4 * 8] = {0}, q2[256 * 4 * 8] = {0};
                       if (GRreadlut(p1, q1) == FAIL || GRreadlut(p2, q2) == FAIL || memcmp(q1, q2, (size_t)pc1 * pn1 * tg_ntsize(pt1))) tg_diff("gr-palette", "image %s palette data differ", name); }
            }
        }
        GRendaccess(ia); GRendaccess(ib);
    }
    GRend(a); GRend(b);
}

/* is this vdata / vgroup created by the library for its own bookkeeping? */
static int tg_internal_class(const char *c)
{
    static const char *R[] = {_HDF_ATTRIBUTE, _HDF_VARIABLE, _HDF_DIMENSION, _HDF_UDIMENSION, DIM_VALS, DIM_VALS01, _HDF_CDF, GR_NAME, RI_NAME, RIGATTRNAME, RIGATTRCLASS, _HDF_SDSVAR, _HDF_CRDVAR};
    unsigned i;
    for (i = 0; i < sizeof R / sizeof R[0]; i++)
        if (strcmp(c, R[i]) == 0) return 1;
    return strncmp(c, "_HDF_CHK_TBL_", 13) == 0;
}

#define TG_ENT 512 /* vgroup names / classes have no upper bound in the file format; longer ones are reported, not read */
typedef struct { int32 ref; char name[TG_ENT]; char cls[TG_ENT]; } tg_ent_t;

/* Vgetname / Vgetclass into bounded buffers */
static void tg_vg_strings(int32 id, char *name, char *cls, size_t cap)
{
    uint16 ln = 0, lc = 0;
    name[0] = cls[0] = 0;
    if (Vgetnamelen(id, &ln) != FAIL) { if ((size_t)ln < cap) Vgetname(id, name); else snprintf(name, cap, "?name of %u characters", (unsigned)ln); }
    if (Vgetclassnamelen(id, &lc) != FAIL) { if ((size_t)lc < cap) Vgetclass(id, cls); else snprintf(cls, cap, "?class of %u characters", (unsigned)lc); }
}

static int tg_list_vs(int32 f, tg_ent_t *e, int cap)
{
    int32 ref = -1; int n = 0;
    while ((ref = VSgetid(f, ref)) != FAIL && n < cap) {
        int32 id = VSattach(f, ref, "r");
        if (id == FAIL) continue;
        e[n].ref = ref; e[n].name[0] = e[n].cls[0] = 0;
        VSgetname(id, e[n].name); VSgetclass(id, e[n].cls);
        VSdetach(id);
        if (!tg_internal_class(e[n].cls)) n++;
    }
    return n;
}

/* number of vdatas of a given class (attribute vdatas: one per attribute of an SDS / vdata / vgroup / field) */
static int tg_lone_attr_class;
static int tg_count_class(int32 f, const char *cls)
{
    int32 ref = -1; int n = 0;
    while ((ref = VSgetid(f, ref)) != FAIL) {
        int32 id = VSattach(f, ref, "r"); char c[VSNAMELENMAX + 1] = "";
        if (id == FAIL) continue;
        VSgetclass(id, c); VSdetach(id);
        if (strcmp(c, cls) == 0) n++;
    }
    return n;
}

static int tg_list_vg(int32 f, tg_ent_t *e, int cap)
{
    int32 ref = -1; int n = 0;
    while ((ref = Vgetid(f, ref)) != FAIL && n < cap) {
        int32 id = Vattach(f, ref, "r");
        if (id == FAIL) continue;
        e[n].ref = ref;
        tg_vg_strings(id, e[n].name, e[n].cls, TG_ENT);
        Vdetach(id);
        if (!tg_internal_class(e[n].cls) && strcmp(e[n].name, GR_NAME)) n++;
    }
    return n;
}

static void tg_cmp_vsattrs(int32 a, int32 b, int32 fld, const char *who)
{
    int n1 = VSfnattrs(a, fld), n2 = VSfnattrs(b, fld), j;
    if (n1 != n2) { tg_diff("vs-attr", "%s field %d attribute count %d vs %d", who, (int)fld, n1, n2); return; }
    for (j = 0; j < n1; j++) {
        char an1[H4_MAX_NC_NAME + 1], an2[H4_MAX_NC_NAME + 1]; int32 t1, t2, c1, c2, s1, s2;
        VSattrinfo(a, fld, j, an1, &t1, &c1, &s1); VSattrinfo(b, fld, j, an2, &t2, &c2, &s2);
        if (strcmp(an1, an2) || t1 != t2 || c1 != c2) tg_diff("vs-attr", "%s field %d attribute %d: %s/%d/%d vs %s/%d/%d", who, (int)fld, j, an1, (int)t1, (int)c1, an2, (int)t2, (int)c2);
        else { size_t sz = (size_t)c1 * tg_ntsize(t1); void *v1 = calloc(sz + 1, 1), *v2 = calloc(sz + 1, 1);
               if (VSgetattr(a, fld, j, v1) == FAIL || VSgetattr(b, fld, j, v2) == FAIL || memcmp(v1, v2, sz)) tg_diff("vs-attr", "%s attribute %s values differ", who, an1);
               free(v1); free(v2); }
    }
}

/* annotations of one object: count and texts, in order */
static void tg_cmp_ann_obj(int32 ana, int32 anb, uint16 tag, uint16 ra, uint16 rb, const char *who)
{
    int t;
    for (t = 0; t < 2; t++) {
        ann_type ty = t ? AN_DATA_DESC : AN_DATA_LABEL;
        intn     n1 = ANnumann(ana, ty, tag, ra), n2 = ANnumann(anb, ty, tag, rb);
        if (n1 < 0) n1 = 0;
        if (n2 < 0) n2 = 0;
        if (n1 != n2) { tg_diff(t ? "an-desc-count" : "an-label-count", "%s: %d vs %d data %s", who, n1, n2, t ? "descriptions" : "labels"); continue; }
        if (n1 > 0) {
            int32 l1[16], l2[16]; int k;
            if (n1 > 16) n1 = 16;
            ANannlist(ana, ty, tag, ra, l1); ANannlist(anb, ty, tag, rb, l2);
            for (k = 0; k < n1; k++) {
                int32 len1 = ANannlen(l1[k]), len2 = ANannlen(l2[k]);
                char *b1 = calloc((size_t)(len1 > 0 ? len1 : 0) + 2, 1), *b2 = calloc((size_t)(len2 > 0 ? len2 : 0) + 2, 1);
                ANreadann(l1[k], b1, len1 + 1); ANreadann(l2[k], b2, len2 + 1);
                if (len1 != len2) tg_diff(t ? "an-desc-len" : "an-label-len", "%s: data %s length %d vs %d", who, t ? "description" : "label", (int)len1, (int)len2);
                else if (memcmp(b1, b2, (size_t)len1)) tg_diff(t ? "an-desc-text" : "an-label-text", "%s: data %s text differs: <%.40s> vs <%.40s>", who, t ? "description" : "label", b1, b2);
                free(b1); free(b2);
                ANendaccess(l1[k]); ANendaccess(l2[k]);
            }
        }
    }
}

#define TG_MEMB 400
static void tg_member_names(int32 f, int32 vg, char out[][TG_MEMB], int *n, int cap)
{
    int32 nt = Vntagrefs(vg), k;
    *n = 0;
    for (k = 0; k < nt && *n < cap; k++) {
        int32 tag, ref;
        if (Vgettagref(vg, k, &tag, &ref) == FAIL) continue;
        if (tag == DFTAG_VG) {
            int32 id = Vattach(f, ref, "r"); char nm[TG_ENT] = "", cl[TG_ENT] = "";
            if (id == FAIL) { snprintf(out[(*n)++], TG_MEMB, "VG:?dangling ref %d", (int)ref); continue; }
            tg_vg_strings(id, nm, cl, TG_ENT); Vdetach(id);
            if (tg_internal_class(cl) || strcmp(nm, GR_NAME) == 0) continue; /* as in tg_list_vg */
            snprintf(out[(*n)++], TG_MEMB, "VG:%s", nm);
        }
        else if (tag == DFTAG_VH) {
            int32 id = VSattach(f, ref, "r"); char nm[VSNAMELENMAX + 1] = "", cl[VSNAMELENMAX + 1] = "";
            if (id == FAIL) { snprintf(out[(*n)++], TG_MEMB, "VS:?dangling ref %d", (int)ref); continue; }
            VSgetname(id, nm); VSgetclass(id, cl); VSdetach(id);
            if (tg_internal_class(cl)) continue;
            snprintf(out[(*n)++], TG_MEMB, "VS:%s", nm);
        }
        else if (tag == DFTAG_NDG || tag == DFTAG_SDG || tag == DFTAG_SD) snprintf(out[(*n)++], TG_MEMB, "SD:%d", (int)ref);
        else if (tag == DFTAG_RIG || tag == DFTAG_RI || tag == DFTAG_CI) snprintf(out[(*n)++], TG_MEMB, "GR:%d", (int)ref);
        else snprintf(out[(*n)++], TG_MEMB, "T%d", (int)tag);
    }
}

/* SD:<ref> / GR:<ref> -> SD:<name> using the per-file ref->name tables */
typedef struct { int n; int32 ref[64]; char name[64][H4_MAX_NC_NAME + 4]; } tg_refnames_t;
static void tg_resolve(char m[][TG_MEMB], int n, const tg_refnames_t *sd, const tg_refnames_t *gr)
{
    int k, q;
    for (k = 0; k < n; k++) {
        const tg_refnames_t *t = (strncmp(m[k], "SD:", 3) == 0) ? sd : (strncmp(m[k], "GR:", 3) == 0) ? gr : NULL;
        if (!t) continue;
        for (q = 0; q < t->n; q++)
            if (t->ref[q] == atoi(m[k] + 3)) { snprintf(m[k] + 3, TG_MEMB - 6, "%s", t->name[q]); break; }
        if (q == t->n) strcat(m[k], "?unknown-ref");
    }
}
static int tg_strcmp96(const void *a, const void *b) /* elements of TG_MEMB bytes */ { return strcmp((const char *)a, (const char *)b); }

static void tg_refnames(const char *path, int32 fid, tg_refnames_t *sd, tg_refnames_t *gr)
{
    int32 s = SDstart(path, DFACC_READ), n, na, i, g;
    sd->n = gr->n = 0;
    if (s != FAIL) {
        SDfileinfo(s, &n, &na);
        for (i = 0; i < n && sd->n < 64; i++) {
            int32 id = SDselect(s, i), r, d[H4_MAX_VAR_DIMS], t, a; char nm[H4_MAX_NC_NAME + 1];
            SDgetinfo(id, nm, &r, d, &t, &a);
            sd->ref[sd->n] = SDidtoref(id); snprintf(sd->name[sd->n], sizeof sd->name[0], "%s", nm); sd->n++;
            SDendaccess(id);
        }
        SDend(s);
    }
    g = GRstart(fid);
    if (g != FAIL) {
        GRfileinfo(g, &n, &na);
        for (i = 0; i < n && gr->n < 64; i++) {
            int32 id = GRselect(g, i), c, t, l, d[2], a; char nm[H4_MAX_GR_NAME + 1];
            GRgetiminfo(id, nm, &c, &t, &l, d, &a);
            gr->ref[gr->n] = GRidtoref(id); snprintf(gr->name[gr->n], sizeof gr->name[0], "%s", nm); gr->n++;
            GRendaccess(id);
        }
        GRend(g);
    }
}


/* ------------------------------------------------------------------------------------------------ description vs file
 *
 * tg_user_check(path, spec): every USER object of the description is in the file exactly once, with its name, class,
 * attributes, members and place in the hierarchy.  Unlike tg_compare this check does not enumerate "the user objects of a
 * file" (which needs an opinion about what is internal): it starts from the objects the generator created and looks each
 * one up by (name, class) among ALL vgroups / vdatas of the file.  Objects a tool may legitimately take for the library's
 * own (tg_vg_reserved, lone vdatas with tg_internal_class) are not required; whether they are there is reported through
 * tg_present_vg / tg_present_vs for the tie with the model.
 */
typedef struct { int32 ref; char *name; char *cls; } tg_vobj_t;

static int tg_all_vgroups(int32 f, tg_vobj_t *o, int cap)
{
    int32 ref = -1; int n = 0;
    while ((ref = Vgetid(f, ref)) != FAIL && n < cap) {
        int32 id = Vattach(f, ref, "r"); uint16 ln = 0, lc = 0;
        if (id == FAIL) continue;
        Vgetnamelen(id, &ln); Vgetclassnamelen(id, &lc);
        o[n].ref = ref; o[n].name = calloc((size_t)ln + 2, 1); o[n].cls = calloc((size_t)lc + 2, 1);
        Vgetname(id, o[n].name); Vgetclass(id, o[n].cls);
        Vdetach(id); n++;
    }
    return n;
}
static int tg_all_vdatas(int32 f, tg_vobj_t *o, int cap)
{
    int32 ref = -1; int n = 0;
    while ((ref = VSgetid(f, ref)) != FAIL && n < cap) {
        int32 id = VSattach(f, ref, "r");
        if (id == FAIL) continue;
        o[n].ref = ref; o[n].name = calloc(VSNAMELENMAX + 2, 1); o[n].cls = calloc(VSNAMELENMAX + 2, 1);
        VSgetname(id, o[n].name); VSgetclass(id, o[n].cls);
        VSdetach(id); n++;
    }
    return n;
}
static void tg_free_vobjs(tg_vobj_t *o, int n) { int i; for (i = 0; i < n; i++) { free(o[i].name); free(o[i].cls); } }
static int tg_find_vobj(const tg_vobj_t *o, int n, const char *name, const char *cls, int *count)
{
    int i, hit = -1; *count = 0;
    for (i = 0; i < n; i++) if (strcmp(o[i].name, name) == 0 && strcmp(o[i].cls, cls) == 0) { if (hit < 0) hit = i; (*count)++; }
    return hit;
}
static int tg_ref_in(const int32 *refs, int n, int32 ref) { int i; for (i = 0; i < n; i++) if (refs[i] == ref) return 1; return 0; }
static int tg_cmp_strp(const void *a, const void *b) { return strcmp(*(char *const *)a, *(char *const *)b); }
static char *tg_mstr(const char *kind, const char *a, const char *b)
{
    size_t l = strlen(kind) + strlen(a) + (b ? strlen(b) : 0) + 4; char *r = malloc(l);
    if (b) snprintf(r, l, "%s%s|%s", kind, a, b); else snprintf(r, l, "%s%s", kind, a);
    return r;
}

/* presence flags filled by tg_user_check (1 = exactly one object of that name and class, 0 = none, 2 = several) */
static int tg_present_vg[TG_MAXVG], tg_present_vs[TG_MAXVS];

static long tg_user_check(const char *path, const tg_spec_t *s)
{
    static tg_vobj_t vg[256], vs[1024];
    static tg_refnames_t sdn, grn;
    int   nvg, nvs, i, j, k;
    int32 f, *lone_vg = NULL, *lone_vs = NULL, nlvg, nlvs;
    tg_ndiff = 0; tg_first[0] = 0; tg_firstkey[0] = 0;
    f = Hopen(path, DFACC_READ, 0);
    if (f == FAIL) { tg_diff("h-open", "Hopen(%s) failed", path); return tg_ndiff; }
    Vstart(f);
    tg_refnames(path, f, &sdn, &grn);
    nvg = tg_all_vgroups(f, vg, 256); nvs = tg_all_vdatas(f, vs, 1024);
    nlvg = Vlone(f, NULL, 0); if (nlvg < 0) nlvg = 0;
    lone_vg = calloc((size_t)nlvg + 1, sizeof(int32)); Vlone(f, lone_vg, nlvg);
    nlvs = VSlone(f, NULL, 0); if (nlvs < 0) nlvs = 0;
    lone_vs = calloc((size_t)nlvs + 1, sizeof(int32)); VSlone(f, lone_vs, nlvs);

    for (i = 0; i < s->nvg; i++) {
        const tg_vg_t *g = &s->vg[i];
        int   cnt, m = tg_find_vobj(vg, nvg, g->name, g->cls, &cnt), ne = 0, na = 0;
        int32 id, nt;
        char *exp[64], *act[64];
        tg_present_vg[i] = cnt > 1 ? 2 : cnt;
        if (tg_vg_reserved(g)) continue;
        if (cnt == 0) { tg_diff("user-vgroup-lost", "vgroup <%.80s> of class <%.80s> is not in %s", g->name, g->cls, path); continue; }
        if (cnt > 1) { tg_diff("user-vgroup-duplicated", "%d vgroups <%.80s> of class <%.80s>", cnt, g->name, g->cls); continue; }
        if ((g->parent < 0) != tg_ref_in(lone_vg, nlvg, vg[m].ref)) tg_diff("user-vgroup-position", "vgroup <%.80s> (class <%.80s>) %s a top-level vgroup", g->name, g->cls, g->parent < 0 ? "is no longer" : "has become");
        id = Vattach(f, vg[m].ref, "r");
        if (id == FAIL) { tg_diff("user-vgroup-lost", "vgroup <%.80s> cannot be attached", g->name); continue; }
        if (Vnattrs(id) != g->nattr) tg_diff("user-vgroup-attrs", "vgroup <%.80s> (class <%.80s>) has %d attributes, created with %d", g->name, g->cls, (int)Vnattrs(id), g->nattr);
        else
            for (j = 0; j < g->nattr; j++) {
                char an[H4_MAX_NC_NAME + 1] = ""; int32 t = 0, c = 0, sz = 0; uint8 val[96] = {0};
                if (Vattrinfo(id, j, an, &t, &c, &sz) == FAIL || strcmp(an, g->attr[j].name) || t != g->attr[j].nt || c != g->attr[j].count)
                    tg_diff("user-vgroup-attrs", "vgroup <%.80s> attribute %d is <%.80s>/%d/%d, created as <%.80s>/%d/%d", g->name, j, an, (int)t, (int)c, g->attr[j].name, (int)g->attr[j].nt, (int)g->attr[j].count);
                else if (Vgetattr(id, j, val) == FAIL || memcmp(val, g->attr[j].data, (size_t)c * (size_t)tg_ntsize(t)))
                    tg_diff("user-vgroup-attrs", "vgroup <%.80s> attribute <%.80s>: other values", g->name, an);
            }
        /* members */
        for (k = 0; k < s->nvg; k++) if (s->vg[k].parent == i && !tg_vg_reserved(&s->vg[k])) exp[ne++] = tg_mstr("VG:", s->vg[k].name, s->vg[k].cls);
        for (k = 0; k < s->nsds; k++) if (s->sds[k].parent == i) exp[ne++] = tg_mstr("SD:", s->sds[k].name, NULL);
        for (k = 0; k < s->ngr; k++) if (s->gr[k].parent == i) exp[ne++] = tg_mstr("GR:", s->gr[k].name, NULL);
        for (k = 0; k < s->nvs; k++) if (s->vs[k].parent == i) exp[ne++] = tg_mstr("VS:", s->vs[k].name, s->vs[k].cls);
        nt = Vntagrefs(id);
        for (k = 0; k < nt && na < 64; k++) {
            int32 tag, ref; int q;
            if (Vgettagref(id, k, &tag, &ref) == FAIL) continue;
            if (tag == DFTAG_VG) {
                for (q = 0; q < nvg; q++) if (vg[q].ref == ref) break;
                if (q == nvg) act[na++] = tg_mstr("VG:", "?dangling", NULL);
                else if (!(tg_reserved_class(vg[q].cls) || strcmp(vg[q].name, GR_NAME) == 0)) act[na++] = tg_mstr("VG:", vg[q].name, vg[q].cls);
            }
            else if (tag == DFTAG_VH) {
                for (q = 0; q < nvs; q++) if (vs[q].ref == ref) break;
                if (q == nvs) act[na++] = tg_mstr("VS:", "?dangling", NULL);
                else act[na++] = tg_mstr("VS:", vs[q].name, vs[q].cls);
            }
            else if (tag == DFTAG_NDG || tag == DFTAG_SDG || tag == DFTAG_SD) {
                for (q = 0; q < sdn.n; q++) if (sdn.ref[q] == ref) break;
                act[na++] = tg_mstr("SD:", q < sdn.n ? sdn.name[q] : "?unknown ref", NULL);
            }
            else if (tag == DFTAG_RIG || tag == DFTAG_RI || tag == DFTAG_CI) {
                for (q = 0; q < grn.n; q++) if (grn.ref[q] == ref) break;
                act[na++] = tg_mstr("GR:", q < grn.n ? grn.name[q] : "?unknown ref", NULL);
            }
            else { char t[32]; snprintf(t, sizeof t, "%d/%d", (int)tag, (int)ref); act[na++] = tg_mstr("T:", t, NULL); }
        }
        qsort(exp, (size_t)ne, sizeof exp[0], tg_cmp_strp); qsort(act, (size_t)na, sizeof act[0], tg_cmp_strp);
        if (ne != na) tg_diff("user-vgroup-members", "vgroup <%.80s> (class <%.80s>) has %d members, created with %d", g->name, g->cls, na, ne);
        else
            for (k = 0; k < ne; k++)
                if (strcmp(exp[k], act[k])) { tg_diff("user-vgroup-members", "vgroup <%.80s>: member <%.100s> instead of <%.100s>", g->name, act[k], exp[k]); break; }
        for (k = 0; k < ne; k++) free(exp[k]);
        for (k = 0; k < na; k++) free(act[k]);
        Vdetach(id);
    }

    for (i = 0; i < s->nvs; i++) {
        const tg_vs_t *v = &s->vs[i];
        int   cnt, m = tg_find_vobj(vs, nvs, v->name, v->cls, &cnt);
        int32 id, n = 0, il = 0, sz = 0;
        tg_present_vs[i] = cnt > 1 ? 2 : cnt;
        if (v->parent < 0 && tg_reserved_class(v->cls)) continue;
        if (cnt == 0) { tg_diff("user-vdata-lost", "vdata <%.80s> of class <%.80s> is not in %s", v->name, v->cls, path); continue; }
        if (cnt > 1) { tg_diff("user-vdata-duplicated", "%d vdatas <%.80s> of class <%.80s>", cnt, v->name, v->cls); continue; }
        if ((v->parent < 0) != tg_ref_in(lone_vs, nlvs, vs[m].ref)) tg_diff("user-vdata-position", "vdata <%.80s> (class <%.80s>) %s a lone vdata", v->name, v->cls, v->parent < 0 ? "is no longer" : "has become");
        id = VSattach(f, vs[m].ref, "r");
        if (id == FAIL) { tg_diff("user-vdata-lost", "vdata <%.80s> cannot be attached", v->name); continue; }
        VSinquire(id, &n, &il, NULL, &sz, NULL);
        if (n != v->nrec || VFnfields(id) != v->nfld || (v->nrec > 0 && il != v->il)) tg_diff("user-vdata-content", "vdata <%.80s>: %d records / %d fields / interlace %d, created with %d / %d / %d", v->name, (int)n, (int)VFnfields(id), (int)il, (int)v->nrec, v->nfld, (int)v->il);
        else
            for (j = 0; j < v->nfld; j++) {
                const char *fn = VFfieldname(id, j);
                if (!fn || strcmp(fn, v->fname[j]) || VFfieldtype(id, j) != v->ftype[j] || VFfieldorder(id, j) != v->forder[j])
                    tg_diff("user-vdata-content", "vdata <%.80s> field %d is <%.80s>/%d/%d, created as <%.80s>/%d/%d", v->name, j, fn ? fn : "?", (int)VFfieldtype(id, j), (int)VFfieldorder(id, j), v->fname[j], (int)v->ftype[j], (int)v->forder[j]);
                else if (VSfnattrs(id, j) != (v->fattr[j] ? 1 : 0)) tg_diff("user-vdata-attrs", "vdata <%.80s> field %d has %d attributes, created with %d", v->name, j, (int)VSfnattrs(id, j), v->fattr[j] ? 1 : 0);
            }
        if (VSfnattrs(id, _HDF_VDATA) != v->nattr) tg_diff("user-vdata-attrs", "vdata <%.80s> (class <%.80s>) has %d attributes, created with %d", v->name, v->cls, (int)VSfnattrs(id, _HDF_VDATA), v->nattr);
        else
            for (j = 0; j < v->nattr; j++) {
                char an[H4_MAX_NC_NAME + 1] = ""; int32 t = 0, c = 0, asz = 0; uint8 val[96] = {0};
                if (VSattrinfo(id, _HDF_VDATA, j, an, &t, &c, &asz) == FAIL || strcmp(an, v->attr[j].name) || t != v->attr[j].nt || c != v->attr[j].count)
                    tg_diff("user-vdata-attrs", "vdata <%.80s> attribute %d is <%.80s>/%d/%d, created as <%.80s>/%d/%d", v->name, j, an, (int)t, (int)c, v->attr[j].name, (int)v->attr[j].nt, (int)v->attr[j].count);
                else if (VSgetattr(id, _HDF_VDATA, j, val) == FAIL || memcmp(val, v->attr[j].data, (size_t)c * (size_t)tg_ntsize(t)))
                    tg_diff("user-vdata-attrs", "vdata <%.80s> attribute <%.80s>: other values", v->name, an);
            }
        VSdetach(id);
    }
    /* data sets and images: by name through their own interfaces */
    {
        int32 sd = SDstart(path, DFACC_READ);
        if (sd == FAIL) { if (s->nsds > 0) tg_diff("sd-open", "SDstart(%s) failed", path); }
        else {
            for (i = 0; i < s->nsds; i++) {
                const tg_sds_t *d = &s->sds[i];
                int32 idx = SDnametoindex(sd, d->name), id, rank = 0, dims[H4_MAX_VAR_DIMS], nt = 0, na = 0;
                char  nm[H4_MAX_NC_NAME + 2] = "";
                if (idx == FAIL || (id = SDselect(sd, idx)) == FAIL) { tg_diff("user-sds-lost", "data set <%.80s> is not in %s", d->name, path); continue; }
                SDgetinfo(id, nm, &rank, dims, &nt, &na);
                if (rank != d->rank || nt != d->nt) tg_diff("user-sds-lost", "data set <%.80s> has rank/type %d/%d, created with %d/%d", d->name, (int)rank, (int)nt, d->rank, (int)d->nt);
                for (j = 0; j < d->nattr; j++) {
                    int32 ai = SDfindattr(id, d->attr[j].name), t = 0, c = 0; char an[H4_MAX_NC_NAME + 2] = ""; uint8 val[96] = {0};
                    if (ai == FAIL || SDattrinfo(id, ai, an, &t, &c) == FAIL || t != d->attr[j].nt || c != d->attr[j].count || SDreadattr(id, ai, val) == FAIL || memcmp(val, d->attr[j].data, (size_t)c * (size_t)tg_ntsize(t)))
                        tg_diff("user-sds-attrs", "data set <%.80s>: attribute <%.80s> missing or changed", d->name, d->attr[j].name);
                }
                for (j = 0; j < d->rank && j < rank; j++)
                    if (d->dimnamed[j]) {
                        char dn[H4_MAX_NC_NAME + 2] = ""; int32 dsz, dt, dna;
                        if (SDdiminfo(SDgetdimid(id, j), dn, &dsz, &dt, &dna) == FAIL || strcmp(dn, d->dimname[j])) tg_diff("user-sds-dimname", "data set <%.80s> dimension %d is named <%.80s>, created as <%.80s>", d->name, j, dn, d->dimname[j]);
                    }
                SDendaccess(id);
            }
            for (j = 0; j < s->nsdattr; j++) {
                int32 ai = SDfindattr(sd, s->sdattr[j].name), t = 0, c = 0; char an[H4_MAX_NC_NAME + 2] = ""; uint8 val[96] = {0};
                if (ai == FAIL || SDattrinfo(sd, ai, an, &t, &c) == FAIL || t != s->sdattr[j].nt || c != s->sdattr[j].count || SDreadattr(sd, ai, val) == FAIL || memcmp(val, s->sdattr[j].data, (size_t)c * (size_t)tg_ntsize(t)))
                    tg_diff("user-globattr", "SD file attribute <%.80s> missing or changed", s->sdattr[j].name);
            }
            SDend(sd);
        }
    }
    if (s->ngr > 0 || s->ngrattr > 0) {
        int32 gr = GRstart(f);
        if (gr == FAIL) tg_diff("gr-open", "GRstart failed");
        else {
            for (i = 0; i < s->ngr; i++) {
                const tg_gr_t *g = &s->gr[i];
                int32 idx = GRnametoindex(gr, g->name), id;
                if (idx == FAIL || (id = GRselect(gr, idx)) == FAIL) { tg_diff("user-image-lost", "image <%.80s> is not in %s", g->name, path); continue; }
                for (j = 0; j < g->nattr; j++) {
                    int32 ai = GRfindattr(id, g->attr[j].name), t = 0, c = 0; char an[H4_MAX_GR_NAME + 2] = ""; uint8 val[96] = {0};
                    if (ai == FAIL || GRattrinfo(id, ai, an, &t, &c) == FAIL || t != g->attr[j].nt || c != g->attr[j].count || GRgetattr(id, ai, val) == FAIL || memcmp(val, g->attr[j].data, (size_t)c * (size_t)tg_ntsize(t)))
                        tg_diff("user-image-attrs", "image <%.80s>: attribute <%.80s> missing or changed", g->name, g->attr[j].name);
                }
                GRendaccess(id);
            }
            for (j = 0; j < s->ngrattr; j++) {
                int32 ai = GRfindattr(gr, s->grattr[j].name), t = 0, c = 0; char an[H4_MAX_GR_NAME + 2] = ""; uint8 val[96] = {0};
                if (ai == FAIL || GRattrinfo(gr, ai, an, &t, &c) == FAIL || t != s->grattr[j].nt || c != s->grattr[j].count || GRgetattr(gr, ai, val) == FAIL || memcmp(val, s->grattr[j].data, (size_t)c * (size_t)tg_ntsize(t)))
                    tg_diff("user-globattr", "GR file attribute <%.80s> missing or changed", s->grattr[j].name);
            }
            GRend(gr);
        }
    }
    free(lone_vg); free(lone_vs);
    tg_free_vobjs(vg, nvg); tg_free_vobjs(vs, nvs);
    Vend(f); Hclose(f);
    return tg_ndiff;
}

#define TG_CMP_NOAN 1 /* skip annotations */

static long tg_compare(const char *fa, const char *fb, int flags)
{
    int32         a, b, ana, anb;
    static tg_ent_t      ea[64], eb[64];
    int                  na, nb, i, j;
    static tg_refnames_t sda, gra, sdb, grb;
    tg_ndiff = 0; tg_first[0] = 0; tg_firstkey[0] = 0;
    tg_cmp_sd(fa, fb);
    a = Hopen(fa, DFACC_READ, 0); b = Hopen(fb, DFACC_READ, 0);
    if (a == FAIL || b == FAIL) { tg_diff("h-open", "Hopen failed (%d,%d)", (int)a, (int)b); if (a != FAIL) Hclose(a); if (b != FAIL) Hclose(b); return tg_ndiff; }
    Vstart(a); Vstart(b);
    tg_cmp_gr(a, b);
    tg_refnames(fa, a, &sda, &gra); tg_refnames(fb, b, &sdb, &grb);
    ana = ANstart(a); anb = ANstart(b);
    /* vdatas */
    na = tg_list_vs(a, ea, 64); nb = tg_list_vs(b, eb, 64);
    if (na != nb) tg_diff("vs-count", "number of user vdatas %d vs %d", na, nb);
    for (i = 0; i < na; i++) {
        int32 ia, ib, n1, n2, l1, l2, s1, s2;
        char  f1[VSFIELDMAX * (FIELDNAMELENMAX + 1)] = "", f2[VSFIELDMAX * (FIELDNAMELENMAX + 1)] = "", nm[VSNAMELENMAX + 1];
        for (j = 0; j < nb; j++) if (strcmp(ea[i].name, eb[j].name) == 0) break;
        if (j == nb) { tg_diff("vs-missing", "vdata %s missing in second file", ea[i].name); continue; }
        if (strcmp(ea[i].cls, eb[j].cls)) tg_diff("vs-class", "vdata %s class <%s> vs <%s>", ea[i].name, ea[i].cls, eb[j].cls);
        ia = VSattach(a, ea[i].ref, "r"); ib = VSattach(b, eb[j].ref, "r");
        if (ia == FAIL || ib == FAIL) { tg_diff("vs-attach", "vdata %s cannot be attached", ea[i].name); continue; }
        VSinquire(ia, &n1, &l1, f1, &s1, nm); VSinquire(ib, &n2, &l2, f2, &s2, nm);
        if (n1 != n2 || strcmp(f1, f2) || s1 != s2) tg_diff("vs-info", "vdata %s nrec/fields/size %d/%s/%d vs %d/%s/%d", ea[i].name, (int)n1, f1, (int)s1, (int)n2, f2, (int)s2);
        else {
            int k, nf = VFnfields(ia), same = (nf == VFnfields(ib));
            for (k = 0; same && k < nf; k++)
                if (VFfieldtype(ia, k) != VFfieldtype(ib, k) || VFfieldorder(ia, k) != VFfieldorder(ib, k)) same = 0;
            if (!same) tg_diff("vs-fields", "vdata %s field types/orders differ", ea[i].name);
            else if (n1 > 0) {
                size_t sz = (size_t)n1 * (size_t)VSsizeof(ia, f1);
                uint8 *v1 = calloc(sz + 8, 1), *v2 = calloc(sz + 8, 1);
                VSsetfields(ia, f1); VSsetfields(ib, f2);
                if (VSread(ia, v1, n1, FULL_INTERLACE) == FAIL || VSread(ib, v2, n1, FULL_INTERLACE) == FAIL) tg_diff("vs-read", "vdata %s VSread failed", ea[i].name);
                else if (memcmp(v1, v2, sz)) tg_diff("vs-data", "vdata %s data differ", ea[i].name);
                free(v1); free(v2);
            }
            if (l1 != l2) tg_diff("vs-interlace", "vdata %s interlace %d vs %d", ea[i].name, (int)l1, (int)l2);
            if (same) {
                tg_cmp_vsattrs(ia, ib, _HDF_VDATA, ea[i].name);
                for (k = 0; k < nf; k++) tg_cmp_vsattrs(ia, ib, k, ea[i].name);
            }
        }
        if (!(flags & TG_CMP_NOAN)) { char who[TG_ENT + 16]; snprintf(who, sizeof who, "vdata %s", ea[i].name); tg_cmp_ann_obj(ana, anb, DFTAG_VH, (uint16)ea[i].ref, (uint16)eb[j].ref, who); }
        VSdetach(ia); VSdetach(ib);
    }
    {
        /* tg_lone_attr_class: user vdatas of the first file that are lone and of class _HDF_ATTRIBUTE (set by the caller; a tool takes them for attributes nobody owns) */
        int c1 = tg_count_class(a, _HDF_ATTRIBUTE) - tg_lone_attr_class, c2 = tg_count_class(b, _HDF_ATTRIBUTE);
        if (c1 != c2) tg_diff("vs-attribute-vdata-duplicated", "number of attribute vdatas (class %s) %d vs %d", _HDF_ATTRIBUTE, c1, c2);
    }
    /* vgroups */
    na = tg_list_vg(a, ea, 64); nb = tg_list_vg(b, eb, 64);
    if (na != nb) tg_diff("vg-count", "number of user vgroups %d vs %d", na, nb);
    for (i = 0; i < na; i++) {
        int32 ia, ib;
        static char m1[64][TG_MEMB], m2[64][TG_MEMB];
        int   c1, c2, k;
        for (j = 0; j < nb; j++) if (strcmp(ea[i].name, eb[j].name) == 0) break;
        if (j == nb) { tg_diff("vg-missing", "vgroup %s missing in second file", ea[i].name); continue; }
        if (strcmp(ea[i].cls, eb[j].cls)) tg_diff("vg-class", "vgroup %s class <%s> vs <%s>", ea[i].name, ea[i].cls, eb[j].cls);
        ia = Vattach(a, ea[i].ref, "r"); ib = Vattach(b, eb[j].ref, "r");
        if (ia == FAIL || ib == FAIL) { tg_diff("vg-attach", "vgroup %s cannot be attached", ea[i].name); continue; }
        tg_member_names(a, ia, m1, &c1, 64); tg_member_names(b, ib, m2, &c2, 64);
        tg_resolve(m1, c1, &sda, &gra); tg_resolve(m2, c2, &sdb, &grb);
        qsort(m1, (size_t)c1, TG_MEMB, tg_strcmp96); qsort(m2, (size_t)c2, TG_MEMB, tg_strcmp96);
        if (c1 != c2) tg_diff("vg-members", "vgroup %s has %d vs %d members", ea[i].name, c1, c2);
        else
            for (k = 0; k < c1; k++)
                if (strcmp(m1[k], m2[k])) { tg_diff("vg-members", "vgroup %s member %s vs %s", ea[i].name, m1[k], m2[k]); break; }
        {
            int n1 = Vnattrs(ia), n2 = Vnattrs(ib);
            if (n1 != n2) tg_diff("vg-attr", "vgroup %s attribute count %d vs %d", ea[i].name, n1, n2);
            else
                for (k = 0; k < n1; k++) {
                    char an1[H4_MAX_NC_NAME + 1], an2[H4_MAX_NC_NAME + 1]; int32 t1, t2, cc1, cc2, s1, s2;
                    Vattrinfo(ia, k, an1, &t1, &cc1, &s1); Vattrinfo(ib, k, an2, &t2, &cc2, &s2);
                    if (strcmp(an1, an2) || t1 != t2 || cc1 != cc2) tg_diff("vg-attr", "vgroup %s attribute %d: %s/%d/%d vs %s/%d/%d", ea[i].name, k, an1, (int)t1, (int)cc1, an2, (int)t2, (int)cc2);
                    else { size_t sz = (size_t)cc1 * tg_ntsize(t1); void *v1 = calloc(sz + 1, 1), *v2 = calloc(sz + 1, 1);
                           if (Vgetattr(ia, k, v1) == FAIL || Vgetattr(ib, k, v2) == FAIL || memcmp(v1, v2, sz)) tg_diff("vg-attr", "vgroup %s attribute %s values differ", ea[i].name, an1);
                           free(v1); free(v2); }
                }
        }
        if (!(flags & TG_CMP_NOAN)) { char who[TG_ENT + 16]; snprintf(who, sizeof who, "vgroup %s", ea[i].name); tg_cmp_ann_obj(ana, anb, DFTAG_VG, (uint16)ea[i].ref, (uint16)eb[j].ref, who); }
        Vdetach(ia); Vdetach(ib);
    }
    if (!(flags & TG_CMP_NOAN)) {
        int32 fl1, fd1, dl1, dd1, fl2, fd2, dl2, dd2;
        int   t;
        ANfileinfo(ana, &fl1, &fd1, &dl1, &dd1); ANfileinfo(anb, &fl2, &fd2, &dl2, &dd2);
        if (fl1 != fl2 || fd1 != fd2) tg_diff("an-file-count", "file labels/descriptions %d/%d vs %d/%d", (int)fl1, (int)fd1, (int)fl2, (int)fd2);
        else
            for (t = 0; t < 2; t++) {
                /* compared as multisets (the order ANselect enumerates them in is not the creation order) */
                int32 n = t ? fd1 : fl1, k;
                char  (*t1)[96] = calloc((size_t)n + 1, 96), (*t2)[96] = calloc((size_t)n + 1, 96);
                for (k = 0; k < n; k++) {
                    int32 x = ANselect(ana, k, t ? AN_FILE_DESC : AN_FILE_LABEL), y = ANselect(anb, k, t ? AN_FILE_DESC : AN_FILE_LABEL);
                    int32 len1 = ANannlen(x), len2 = ANannlen(y);
                    char *b1 = calloc((size_t)(len1 > 0 ? len1 : 0) + 2, 1), *b2 = calloc((size_t)(len2 > 0 ? len2 : 0) + 2, 1);
                    ANreadann(x, b1, len1 + 1); ANreadann(y, b2, len2 + 1);
                    snprintf(t1[k], 96, "%d:%.80s", (int)len1, b1); snprintf(t2[k], 96, "%d:%.80s", (int)len2, b2);
                    free(b1); free(b2); ANendaccess(x); ANendaccess(y);
                }
                qsort(t1, (size_t)n, 96, tg_strcmp96); qsort(t2, (size_t)n, 96, tg_strcmp96);
                for (k = 0; k < n; k++)
                    if (strcmp(t1[k], t2[k])) { tg_diff("an-file-text", "file %s: <%.40s> vs <%.40s>", t ? "description" : "label", t1[k], t2[k]); break; }
                free(t1); free(t2);
            }
        if (dl1 != dl2 || dd1 != dd2) tg_diff("an-data-count", "data labels/descriptions in file %d/%d vs %d/%d", (int)dl1, (int)dd1, (int)dl2, (int)dd2);
        /* SDS and image annotations */
        for (i = 0; i < sda.n; i++)
            for (j = 0; j < sdb.n; j++)
                if (strcmp(sda.name[i], sdb.name[j]) == 0) { char who[300]; snprintf(who, sizeof who, "SDS %s", sda.name[i]); tg_cmp_ann_obj(ana, anb, DFTAG_NDG, (uint16)sda.ref[i], (uint16)sdb.ref[j], who); break; }
        for (i = 0; i < gra.n; i++)
            for (j = 0; j < grb.n; j++)
                if (strcmp(gra.name[i], grb.name[j]) == 0) { char who[300]; snprintf(who, sizeof who, "image %s", gra.name[i]); tg_cmp_ann_obj(ana, anb, DFTAG_RIG, (uint16)gra.ref[i], (uint16)grb.ref[j], who); break; }
    }
    ANend(ana); ANend(anb);
    Vend(a); Vend(b);
    Hclose(a); Hclose(b);
    /* lone palettes */
    {
        int p1, p2;
        DFPrestart(); p1 = DFPnpals(fa);
        DFPrestart(); p2 = DFPnpals(fb);
        if (p1 != p2) tg_diff("lone-palette-count", "number of palettes %d vs %d", p1, p2);
    }
    return tg_ndiff;
}
#endif
