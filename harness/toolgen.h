/* toolgen.h - file generator and API-level content comparator shared by the tool engines (C18 e_repack.c, C19 e_tools.c).
 *
 *  tg_random(&spec)            random, structured, boundary-biased description of an HDF file
 *  tg_write(path, &spec)       create the file with the library (SD, GR, VS, V, AN, DFP)
 *  tg_compare(a, b, flags)     enumerate both files through the library API and compare
 *                              names, hierarchy, ranks, dims, types, attributes, dimension names/scales,
 *                              palettes, annotations and data.  Shares no code with hdiff.
 *                              Differences are reported through the callback tg_diff(key, text).
 *  Everything random comes from hk_range/hk_chance/hk_byte.
 */
#ifndef TOOLGEN_H
#define TOOLGEN_H
#include "hdf.h"
#include "mfhdf.h"
#include "hk.h"

#define TG_MAXSDS  5
#define TG_MAXGR   3
#define TG_MAXVS   3
#define TG_MAXVG   4
#define TG_MAXATTR 3
#define TG_MAXRANK 5
#define TG_MAXFLD  4
#define TG_NAME    48

typedef struct {
    char  name[TG_NAME];
    int32 nt;
    int32 count;
    uint8 data[80] __attribute__((aligned(8)));
} tg_attr_t;

/* layout: comp = comp_coder_t code (0 none, 1 RLE, 3 SKPHUFF, 4 DEFLATE), cparm = skip size / level */
typedef struct {
    int   comp, cparm;
    int   chunked;
    int32 chunk[TG_MAXRANK];
} tg_layout_t;

typedef struct {
    char        name[TG_NAME];
    int32       nt;
    int         rank;
    int32       dims[TG_MAXRANK]; /* actual extents (records written for an unlimited dimension) */
    int         unlimited;
    int         empty; /* created, no data written */
    tg_layout_t lay;
    int         nattr;
    tg_attr_t   attr[TG_MAXATTR];
    int         dimnamed[TG_MAXRANK];
    char        dimname[TG_MAXRANK][TG_NAME];
    int         dimscale[TG_MAXRANK]; /* 0 none, else number type of the scale */
    int         dimattr[TG_MAXRANK];  /* SDsetdimstrs */
    int         fill;                 /* SDsetfillvalue */
    int         strs;                 /* SDsetdatastrs */
    int         parent;               /* vgroup index or -1 */
    int         label, desc;          /* data annotations */
    int         salt;
    int32       ref;                  /* filled by tg_write */
} tg_sds_t;

typedef struct {
    char        name[TG_NAME];
    int32       nt;
    int32       ncomp;
    int32       il;
    int32       dims[2]; /* GR order: dims[0] = x (width), dims[1] = y (height) */
    tg_layout_t lay;
    int         nattr;
    tg_attr_t   attr[TG_MAXATTR];
    int         pal;
    int         parent;
    int         label, desc;
    int         salt;
    int32       ref;
} tg_gr_t;

typedef struct {
    char      name[TG_NAME];
    char      cls[TG_NAME];
    int       nfld;
    char      fname[TG_MAXFLD][TG_NAME];
    int32     ftype[TG_MAXFLD];
    int32     forder[TG_MAXFLD];
    int32     nrec;
    int32     il;
    int       nattr;
    tg_attr_t attr[TG_MAXATTR];
    int       fattr[TG_MAXFLD]; /* one attribute on this field */
    int       parent;
    int       label, desc;
    int       salt;
    int32     ref;
} tg_vs_t;

typedef struct {
    char      name[TG_NAME];
    char      cls[TG_NAME];
    int       parent; /* index of an EARLIER vgroup or -1 */
    int       nattr;
    tg_attr_t attr[TG_MAXATTR];
    int       label, desc;
    int32     ref;
} tg_vg_t;

typedef struct {
    int       nsds, ngr, nvs, nvg;
    tg_sds_t  sds[TG_MAXSDS];
    tg_gr_t   gr[TG_MAXGR];
    tg_vs_t   vs[TG_MAXVS];
    tg_vg_t   vg[TG_MAXVG];
    int       nsdattr, ngrattr;
    tg_attr_t sdattr[TG_MAXATTR], grattr[TG_MAXATTR];
    int       nflabel, nfdesc;
    int       lonepal;
    int       big; /* index of the SDS made larger than 1 MiB, or -1 */
    int       features; /* bit mask of TG_F_*: what the generator may use */
} tg_spec_t;

#define TG_F_VG     1
#define TG_F_VS     2
#define TG_F_GR     4
#define TG_F_AN     8
#define TG_F_DIMS   16
#define TG_F_LAYOUT 32
#define TG_F_UNLIM  64
#define TG_F_EMPTY  128
#define TG_F_PAL    256
#define TG_F_BIG    512
#define TG_F_ALL    1023
#define TG_F_SPECIAL 1024 /* (not in TG_F_ALL) float32 / float64 values - SDS data, dimension scales, fill values, attributes, vdata
                             fields, images - include NaN (quiet / signalling, both signs, payloads), +-Inf, -0.0, denormals, +-FLT_MAX / DBL_MAX */

static const int32 TG_NTS[] = {DFNT_INT8, DFNT_UINT8, DFNT_INT16, DFNT_UINT16, DFNT_INT32, DFNT_UINT32,
                               DFNT_FLOAT32, DFNT_FLOAT64, DFNT_CHAR8, DFNT_UCHAR8};
#define TG_NNT 10

static int tg_ntsize(int32 nt) { return DFKNTsize((nt & DFNT_MASK) | DFNT_NATIVE); }

/* the IEEE special values, as bit patterns (a signalling NaN must not go through a floating-point conversion) */
static const uint32_t TG_SP32[] = {0x7fc00000u /* quiet NaN */, 0xffc00000u /* -NaN */, 0x7f800001u /* signalling NaN */, 0x7fc12345u /* payload */,
                                   0xffa00001u /* -sNaN, payload */, 0x7f800000u /* +Inf */, 0xff800000u /* -Inf */, 0x80000000u /* -0.0 */,
                                   0x00000001u /* least denormal */, 0x807fffffu /* -greatest denormal */, 0x7f7fffffu /* FLT_MAX */, 0xff7fffffu,
                                   0x00800000u /* FLT_MIN */, 0x7f800000u, 0x7fc00000u};
static const uint64_t TG_SP64[] = {0x7ff8000000000000ull, 0xfff8000000000000ull, 0x7ff0000000000001ull, 0x7ff8000000012345ull,
                                   0xfff4000000000001ull, 0x7ff0000000000000ull, 0xfff0000000000000ull, 0x8000000000000000ull,
                                   0x0000000000000001ull, 0x800fffffffffffffull, 0x7fefffffffffffffull, 0xffefffffffffffffull,
                                   0x0010000000000000ull, 0x7ff0000000000000ull, 0x7ff8000000000000ull};
#define TG_NSP 15
static int tg_special; /* set from the TG_F_SPECIAL bit of the spec by tg_random / tg_write */

/* does element k of the buffer derived from salt hold a special value?  (one object in three has none, the others about one in five) */
static int tg_sp_at(long k, int salt)
{
    uint32_t h = (uint32_t)k * 2654435761u + (uint32_t)salt * 40503u;
    return tg_special && salt % 3 != 0 && ((h >> 9) % 5 == 0);
}

/* deterministic values (NaN-free unless TG_F_SPECIAL): element k of a buffer of type nt, derived from salt */
static void tg_fill(void *buf, int32 nt, long n, int salt)
{
    long k;
    for (k = 0; k < n; k++) {
        long v = (k * 7 + salt * 13 + (k >> 5) + ((k % 11 == 0) ? salt : 0)) % 251;
        if ((nt == DFNT_FLOAT32 || nt == DFNT_FLOAT64) && tg_sp_at(k, salt)) {
            int w = (int)((k * 5 + salt + (k >> 3)) % TG_NSP);
            if (nt == DFNT_FLOAT32) memcpy((float32 *)buf + k, &TG_SP32[w], 4); else memcpy((float64 *)buf + k, &TG_SP64[w], 8);
            continue;
        }
        switch (nt) {
            case DFNT_INT8: ((int8 *)buf)[k] = (int8)(v - 100); break;
            case DFNT_UINT8:
            case DFNT_UCHAR8: ((uint8 *)buf)[k] = (uint8)v; break;
            case DFNT_CHAR8: ((char *)buf)[k] = (char)('a' + v % 26); break;
            case DFNT_INT16: ((int16 *)buf)[k] = (int16)(v * 131 - 16000); break;
            case DFNT_UINT16: ((uint16 *)buf)[k] = (uint16)(v * 257); break;
            case DFNT_INT32: ((int32 *)buf)[k] = (int32)(v * 8388593L - 1000000000L); break;
            case DFNT_UINT32: ((uint32 *)buf)[k] = (uint32)(v * 16777259UL); break;
            case DFNT_FLOAT32: ((float32 *)buf)[k] = (float32)(v - 120) / 8.0f; break;
            case DFNT_FLOAT64: ((float64 *)buf)[k] = (float64)(v - 120) / 16.0 + (float64)salt; break;
            default: break;
        }
    }
}

static void tg_rand_attr(tg_attr_t *a, const char *prefix, int idx)
{
    snprintf(a->name, sizeof a->name, "%s_att%d", prefix, idx);
    a->nt    = TG_NTS[hk_range(0, TG_NNT - 1)];
    a->count = (int32)hk_range(1, 80 / 8);
    if (a->nt == DFNT_CHAR8) a->count = (int32)hk_range(1, 40);
    tg_fill(a->data, a->nt, a->count, (int)hk_range(0, 200));
}

static void tg_rand_layout(tg_layout_t *l, int rank, const int32 *dims, int allow)
{
    int i;
    memset(l, 0, sizeof *l);
    if (!allow || hk_chance(55)) return;
    switch ((int)hk_range(0, 3)) {
        case 0: l->comp = COMP_CODE_RLE; break;
        case 1: l->comp = COMP_CODE_SKPHUFF; l->cparm = (int)hk_range(1, 4); break;
        case 2: l->comp = COMP_CODE_DEFLATE; l->cparm = (int)hk_range(1, 9); break;
        default: l->comp = COMP_CODE_NONE; break;
    }
    if (hk_chance(50) || l->comp == COMP_CODE_NONE) {
        l->chunked = 1;
        for (i = 0; i < rank; i++) l->chunk[i] = (int32)hk_range(1, dims[i] > 1 ? dims[i] : 1);
    }
}

static void tg_random(tg_spec_t *s, int features)
{
    int i, j;
    memset(s, 0, sizeof *s);
    s->features = features;
    tg_special  = (features & TG_F_SPECIAL) != 0;
    s->big      = -1;
    s->nvg      = (features & TG_F_VG) ? (int)hk_range(0, TG_MAXVG) : 0;
    for (i = 0; i < s->nvg; i++) {
        tg_vg_t *g = &s->vg[i];
        snprintf(g->name, sizeof g->name, "grp%d", i);
        if (hk_chance(60)) snprintf(g->cls, sizeof g->cls, "cls%d", (int)hk_range(0, 2));
        g->parent = (i > 0 && hk_chance(60)) ? (int)hk_range(0, i - 1) : -1;
        g->nattr  = hk_chance(40) ? (int)hk_range(1, TG_MAXATTR) : 0;
        for (j = 0; j < g->nattr; j++) tg_rand_attr(&g->attr[j], g->name, j);
        if (features & TG_F_AN) { g->label = hk_chance(20); g->desc = hk_chance(20); }
    }
    s->nsds = (int)hk_range((features & (TG_F_GR | TG_F_VS)) ? 0 : 1, TG_MAXSDS);
    for (i = 0; i < s->nsds; i++) {
        tg_sds_t *d = &s->sds[i];
        snprintf(d->name, sizeof d->name, "sds%d", i);
        d->nt   = TG_NTS[hk_range(0, TG_NNT - 1)];
        d->rank = (int)hk_range(1, hk_chance(15) ? TG_MAXRANK : 3);
        for (j = 0; j < d->rank; j++) d->dims[j] = (int32)(hk_chance(20) ? 1 : hk_range(1, 7));
        d->salt = (int)hk_range(0, 250);
        if ((features & TG_F_UNLIM) && hk_chance(15)) d->unlimited = 1;
        if ((features & TG_F_EMPTY) && hk_chance(10)) d->empty = 1;
        if (hk_chance(15) && d->rank <= 2) d->dims[d->rank - 1] = (int32)hk_range(200, 400); /* above the 1024-byte threshold */
        tg_rand_layout(&d->lay, d->rank, d->dims, (features & TG_F_LAYOUT) && !d->unlimited);
        d->nattr = hk_chance(50) ? (int)hk_range(1, TG_MAXATTR) : 0;
        for (j = 0; j < d->nattr; j++) tg_rand_attr(&d->attr[j], d->name, j);
        if (features & TG_F_DIMS)
            for (j = 0; j < d->rank; j++) {
                if (hk_chance(40)) {
                    d->dimnamed[j] = 1;
                    if (d->unlimited && j == 0) snprintf(d->dimname[j], TG_NAME, "urec%d", i);
                    else snprintf(d->dimname[j], TG_NAME, "dim%d_%d", (int)d->dims[j], (int)hk_range(0, 1));
                    if (hk_chance(40) && !(d->empty && d->unlimited && j == 0)) {
                        static const int32 snt[] = {DFNT_INT32, DFNT_FLOAT32, DFNT_INT16, DFNT_FLOAT64, DFNT_UINT8};
                        d->dimscale[j] = snt[hk_range(0, 4)];
                    }
                    d->dimattr[j] = hk_chance(25);
                }
            }
        d->fill   = hk_chance(25);
        d->strs   = hk_chance(20);
        d->parent = (s->nvg > 0 && hk_chance(50)) ? (int)hk_range(0, s->nvg - 1) : -1;
        if (features & TG_F_AN) { d->label = hk_chance(20); d->desc = hk_chance(20); }
    }
    /* dimension names are shared between datasets: the first user decides the scale type (one scale per name) */
    for (i = 0; i < s->nsds; i++)
        for (j = 0; j < s->sds[i].rank; j++) {
            int i2, j2;
            if (!s->sds[i].dimnamed[j]) continue;
            for (i2 = 0; i2 <= i; i2++)
                for (j2 = 0; j2 < s->sds[i2].rank; j2++) {
                    if (i2 == i && j2 >= j) break;
                    if (s->sds[i2].dimnamed[j2] && strcmp(s->sds[i2].dimname[j2], s->sds[i].dimname[j]) == 0) {
                        s->sds[i].dimscale[j] = 0; /* written once, by the first user */
                        s->sds[i].dimattr[j]  = 0;
                    }
                }
        }
    if ((features & TG_F_BIG) && s->nsds > 0 && hk_chance(6)) {
        tg_sds_t *d = &s->sds[0];
        int       esz;
        s->big    = 0;
        d->nt     = hk_chance(50) ? DFNT_INT32 : (hk_chance(50) ? DFNT_FLOAT64 : DFNT_UINT8);
        esz       = tg_ntsize(d->nt);
        d->rank   = (int)hk_range(1, 3);
        d->empty  = 0;
        /* a little above 1 MiB, with shapes that make the strip-mine tile cut a middle dimension */
        if (d->rank == 1) d->dims[0] = (int32)(1048576 / esz + hk_range(0, 5000));
        else if (d->rank == 2) { d->dims[0] = (int32)hk_range(2, 9); d->dims[1] = (int32)(1048576 / esz / d->dims[0] + hk_range(1, 3000)); }
        else { d->dims[0] = (int32)hk_range(2, 5); d->dims[1] = (int32)hk_range(3, 40); d->dims[2] = (int32)(1048576 / esz / (d->dims[0] * d->dims[1]) + hk_range(1, 2000)); }
        for (j = 0; j < d->rank; j++) { d->dimnamed[j] = 0; d->dimscale[j] = 0; d->dimattr[j] = 0; }
        memset(&d->lay, 0, sizeof d->lay);
        if ((features & TG_F_LAYOUT) && !d->unlimited && hk_chance(40)) {
            d->lay.chunked = 1;
            for (j = 0; j < d->rank; j++) d->lay.chunk[j] = (d->dims[j] + (int32)hk_range(1, 3)) / (int32)hk_range(1, 4) + 1;
            if (hk_chance(50)) { d->lay.comp = COMP_CODE_DEFLATE; d->lay.cparm = 1; }
        }
    }
    s->ngr = (features & TG_F_GR) ? (int)hk_range(0, TG_MAXGR) : 0;
    for (i = 0; i < s->ngr; i++) {
        tg_gr_t *g = &s->gr[i];
        static const int32 gnt[] = {DFNT_UINT8, DFNT_UINT8, DFNT_INT16, DFNT_UINT16, DFNT_INT32, DFNT_FLOAT32, DFNT_CHAR8, DFNT_FLOAT64};
        snprintf(g->name, sizeof g->name, "img%d", i);
        g->nt      = gnt[hk_range(0, 7)];
        g->ncomp   = (int32)hk_range(1, 4);
        g->il      = (int32)hk_range(0, 2);
        g->dims[0] = (int32)hk_range(1, 9);
        g->dims[1] = (int32)hk_range(1, 9);
        if (hk_chance(15)) g->dims[0] = (int32)hk_range(300, 600);
        if ((features & TG_F_BIG) && hk_chance(3)) { g->dims[0] = (int32)hk_range(700, 1100); g->dims[1] = (int32)(1048576 / (g->dims[0] * g->ncomp * tg_ntsize(g->nt)) + 2); }
        g->salt = (int)hk_range(0, 250);
        tg_rand_layout(&g->lay, 2, g->dims, features & TG_F_LAYOUT);
        g->nattr = hk_chance(40) ? (int)hk_range(1, TG_MAXATTR) : 0;
        for (j = 0; j < g->nattr; j++) tg_rand_attr(&g->attr[j], g->name, j);
        g->pal    = (features & TG_F_PAL) && hk_chance(35);
        g->parent = (s->nvg > 0 && hk_chance(40)) ? (int)hk_range(0, s->nvg - 1) : -1;
        if (features & TG_F_AN) { g->label = hk_chance(15); g->desc = hk_chance(15); }
    }
    s->nvs = (features & TG_F_VS) ? (int)hk_range(0, TG_MAXVS) : 0;
    for (i = 0; i < s->nvs; i++) {
        tg_vs_t *v = &s->vs[i];
        snprintf(v->name, sizeof v->name, "vd%d", i);
        if (hk_chance(50)) snprintf(v->cls, sizeof v->cls, "vcls%d", (int)hk_range(0, 2));
        v->nfld = (int)hk_range(1, TG_MAXFLD);
        for (j = 0; j < v->nfld; j++) {
            snprintf(v->fname[j], TG_NAME, "f%d_%d", i, j);
            v->ftype[j]  = TG_NTS[hk_range(0, TG_NNT - 1)];
            v->forder[j] = (int32)hk_range(1, 3);
            v->fattr[j]  = hk_chance(15);
        }
        v->nrec  = (int32)(hk_chance(4) ? 0 : hk_range(1, 12));
        v->il    = hk_chance(50) ? FULL_INTERLACE : NO_INTERLACE;
        v->nattr = hk_chance(30) ? (int)hk_range(1, 2) : 0;
        for (j = 0; j < v->nattr; j++) tg_rand_attr(&v->attr[j], v->name, j);
        v->salt   = (int)hk_range(0, 250);
        v->parent = (s->nvg > 0 && hk_chance(40)) ? (int)hk_range(0, s->nvg - 1) : -1;
        if (features & TG_F_AN) { v->label = hk_chance(15); v->desc = hk_chance(15); }
    }
    s->nsdattr = hk_chance(40) ? (int)hk_range(1, TG_MAXATTR) : 0;
    for (j = 0; j < s->nsdattr; j++) tg_rand_attr(&s->sdattr[j], "sdglob", j);
    s->ngrattr = ((features & TG_F_GR) && hk_chance(25)) ? (int)hk_range(1, 2) : 0;
    for (j = 0; j < s->ngrattr; j++) tg_rand_attr(&s->grattr[j], "grglob", j);
    if (features & TG_F_AN) {
        s->nflabel = hk_chance(25) ? (int)hk_range(1, 2) : 0;
        s->nfdesc  = hk_chance(25) ? (int)hk_range(1, 2) : 0;
    }
    s->lonepal = (features & TG_F_PAL) && hk_chance(10);
}

static long tg_nelem(int rank, const int32 *dims)
{
    long n = 1;
    int  i;
    for (i = 0; i < rank; i++) n *= dims[i];
    return n;
}

static void tg_set_chunkdef(HDF_CHUNK_DEF *c, int32 *flags, const tg_layout_t *l, int rank)
{
    int i;
    memset(c, 0, sizeof *c);
    *flags = HDF_CHUNK;
    for (i = 0; i < rank; i++) c->chunk_lengths[i] = l->chunk[i];
    if (l->comp != COMP_CODE_NONE) {
        *flags            = HDF_CHUNK | HDF_COMP;
        c->comp.comp_type = l->comp;
        if (l->comp == COMP_CODE_SKPHUFF) c->comp.cinfo.skphuff.skp_size = l->cparm;
        if (l->comp == COMP_CODE_DEFLATE) c->comp.cinfo.deflate.level = l->cparm;
    }
}
static void tg_set_cinfo(comp_info *ci, const tg_layout_t *l)
{
    memset(ci, 0, sizeof *ci);
    if (l->comp == COMP_CODE_SKPHUFF) ci->skphuff.skp_size = l->cparm;
    if (l->comp == COMP_CODE_DEFLATE) ci->deflate.level = l->cparm;
}

static int tg_nerr;
#define TGCK(x) do { if ((long)(x) == FAIL) { tg_nerr++; fprintf(stderr, "tg_write: %s failed (line %d)\n", #x, __LINE__); } } while (0)

static void tg_ann(int32 an_id, uint16 tag, uint16 ref, int label, const char *who, int salt)
{
    char  txt[120];
    int32 a = ANcreate(an_id, tag, ref, label ? AN_DATA_LABEL : AN_DATA_DESC);
    snprintf(txt, sizeof txt, "%s of %s #%d%s", label ? "label" : "description", who, salt, label ? "" : "\nsecond line");
    TGCK(a);
    if (a != FAIL) { TGCK(ANwriteann(a, txt, (int32)strlen(txt))); TGCK(ANendaccess(a)); }
}

static int tg_write(const char *path, tg_spec_t *s)
{
    int32 sd, fid, gr, an;
    int   i, j;
    int32 vgid[TG_MAXVG];
    tg_nerr    = 0;
    tg_special = (s->features & TG_F_SPECIAL) != 0;
    sd         = SDstart(path, DFACC_CREATE);
    if (sd == FAIL) return -1;
    for (i = 0; i < s->nsds; i++) {
        tg_sds_t *d = &s->sds[i];
        int32     cdims[TG_MAXRANK], start[TG_MAXRANK], id;
        long      n = tg_nelem(d->rank, d->dims);
        for (j = 0; j < d->rank; j++) { cdims[j] = d->dims[j]; start[j] = 0; }
        if (d->unlimited) cdims[0] = SD_UNLIMITED;
        id = SDcreate(sd, d->name, d->nt, d->rank, cdims);
        TGCK(id);
        if (id == FAIL) continue;
        if (d->fill) { uint8 fv[8] __attribute__((aligned(8))); tg_fill(fv, d->nt, 1, d->salt + 3); TGCK(SDsetfillvalue(id, fv)); }
        if (d->lay.chunked) {
            HDF_CHUNK_DEF c; int32 fl;
            tg_set_chunkdef(&c, &fl, &d->lay, d->rank);
            TGCK(SDsetchunk(id, c, fl));
        }
        else if (d->lay.comp != COMP_CODE_NONE) {
            comp_info ci; tg_set_cinfo(&ci, &d->lay);
            TGCK(SDsetcompress(id, (comp_coder_t)d->lay.comp, &ci));
        }
        for (j = 0; j < d->rank; j++) {
            int32 dim = SDgetdimid(id, j);
            if (d->dimnamed[j]) {
                TGCK(SDsetdimname(dim, d->dimname[j]));
                if (d->dimscale[j]) {
                    void *sc = calloc((size_t)d->dims[j] + 1, 8);
                    tg_fill(sc, d->dimscale[j], d->dims[j], d->salt + j);
                    TGCK(SDsetdimscale(dim, d->dims[j], d->dimscale[j], sc));
                    free(sc);
                }
                if (d->dimattr[j]) TGCK(SDsetdimstrs(dim, "dlabel", "dunit", "dformat"));
            }
        }
        if (!d->empty && n > 0) {
            void *buf = malloc((size_t)n * 8);
            tg_fill(buf, d->nt, n, d->salt);
            TGCK(SDwritedata(id, start, NULL, d->dims, buf));
            free(buf);
        }
        for (j = 0; j < d->nattr; j++) TGCK(SDsetattr(id, d->attr[j].name, d->attr[j].nt, d->attr[j].count, d->attr[j].data));
        if (d->strs) TGCK(SDsetdatastrs(id, "the label", "the unit", "F7.2", "cartesian"));
        d->ref = SDidtoref(id);
        TGCK(SDendaccess(id));
    }
    for (j = 0; j < s->nsdattr; j++) TGCK(SDsetattr(sd, s->sdattr[j].name, s->sdattr[j].nt, s->sdattr[j].count, s->sdattr[j].data));
    TGCK(SDend(sd));
    if (s->lonepal) {
        /* before any GR palette exists: DFPaddpal picks a reference number that is new for DFTAG_IP8 only and would
           replace a DFTAG_LUT of the same number written by GRwritelut */
        uint8 pal[768];
        tg_fill(pal, DFNT_UINT8, 768, 77);
        TGCK(DFPaddpal(path, pal));
    }

    fid = Hopen(path, DFACC_WRITE, 0);
    if (fid == FAIL) return -1;
    TGCK(Vstart(fid));
    if (s->ngr > 0 || s->ngrattr > 0) {
        gr = GRstart(fid);
        TGCK(gr);
        for (i = 0; i < s->ngr; i++) {
            tg_gr_t *g = &s->gr[i];
            int32    start[2] = {0, 0}, id;
            long     n = (long)g->dims[0] * g->dims[1] * g->ncomp;
            void    *buf;
            id = GRcreate(gr, g->name, g->ncomp, g->nt, g->il, g->dims);
            TGCK(id);
            if (id == FAIL) continue;
            if (g->lay.chunked) {
                HDF_CHUNK_DEF c; int32 fl;
                tg_set_chunkdef(&c, &fl, &g->lay, 2);
                TGCK(GRsetchunk(id, c, fl));
            }
            else if (g->lay.comp != COMP_CODE_NONE) {
                comp_info ci; tg_set_cinfo(&ci, &g->lay);
                TGCK(GRsetcompress(id, (comp_coder_t)g->lay.comp, &ci));
            }
            buf = malloc((size_t)n * 8);
            tg_fill(buf, g->nt, n, g->salt);
            TGCK(GRwriteimage(id, start, NULL, g->dims, buf));
            free(buf);
            for (j = 0; j < g->nattr; j++) TGCK(GRsetattr(id, g->attr[j].name, g->attr[j].nt, g->attr[j].count, g->attr[j].data));
            if (g->pal) {
                uint8 pal[768]; int32 pid = GRgetlutid(id, 0);
                tg_fill(pal, DFNT_UINT8, 768, g->salt + 1);
                TGCK(GRwritelut(pid, 3, DFNT_UINT8, 0, 256, pal));
            }
            g->ref = GRidtoref(id);
            TGCK(GRendaccess(id));
        }
        for (j = 0; j < s->ngrattr; j++) TGCK(GRsetattr(gr, s->grattr[j].name, s->grattr[j].nt, s->grattr[j].count, s->grattr[j].data));
        TGCK(GRend(gr));
    }
    for (i = 0; i < s->nvs; i++) {
        tg_vs_t *v = &s->vs[i];
        int32    id = VSattach(fid, -1, "w");
        char     flist[TG_MAXFLD * TG_NAME + 8] = "";
        int      recsz = 0;
        TGCK(id);
        if (id == FAIL) continue;
        TGCK(VSsetname(id, v->name));
        if (v->cls[0]) TGCK(VSsetclass(id, v->cls));
        for (j = 0; j < v->nfld; j++) {
            TGCK(VSfdefine(id, v->fname[j], v->ftype[j], v->forder[j]));
            if (j) strcat(flist, ",");
            strcat(flist, v->fname[j]);
            recsz += tg_ntsize(v->ftype[j]) * v->forder[j];
        }
        TGCK(VSsetfields(id, flist));
        TGCK(VSsetinterlace(id, v->il));
        if (v->nrec > 0) {
            /* build the buffer field by field in the requested interlace */
            uint8 *buf = calloc((size_t)recsz * v->nrec + 8, 1);
            uint8 *p   = buf;
            if (v->il == FULL_INTERLACE) {
                int r;
                for (r = 0; r < v->nrec; r++)
                    for (j = 0; j < v->nfld; j++) {
                        uint8 tmp[64] __attribute__((aligned(8)));
                        int   sz = tg_ntsize(v->ftype[j]) * v->forder[j];
                        tg_fill(tmp, v->ftype[j], v->forder[j], v->salt + r * 5 + j);
                        memcpy(p, tmp, (size_t)sz); p += sz;
                    }
            }
            else {
                for (j = 0; j < v->nfld; j++) {
                    int r;
                    for (r = 0; r < v->nrec; r++) {
                        uint8 tmp[64] __attribute__((aligned(8)));
                        int   sz = tg_ntsize(v->ftype[j]) * v->forder[j];
                        tg_fill(tmp, v->ftype[j], v->forder[j], v->salt + r * 5 + j);
                        memcpy(p, tmp, (size_t)sz); p += sz;
                    }
                }
            }
            TGCK(VSwrite(id, buf, v->nrec, v->il));
            free(buf);
        }
        for (j = 0; j < v->nattr; j++) TGCK(VSsetattr(id, _HDF_VDATA, v->attr[j].name, v->attr[j].nt, v->attr[j].count, v->attr[j].data));
        for (j = 0; j < v->nfld; j++)
            if (v->fattr[j]) { int32 val = 1000 + j; TGCK(VSsetattr(id, j, "fieldatt", DFNT_INT32, 1, &val)); }
        v->ref = VSQueryref(id);
        TGCK(VSdetach(id));
    }
    for (i = 0; i < s->nvg; i++) {
        tg_vg_t *g = &s->vg[i];
        vgid[i]    = Vattach(fid, -1, "w");
        TGCK(vgid[i]);
        TGCK(Vsetname(vgid[i], g->name));
        if (g->cls[0]) TGCK(Vsetclass(vgid[i], g->cls));
        for (j = 0; j < g->nattr; j++) TGCK(Vsetattr(vgid[i], g->attr[j].name, g->attr[j].nt, g->attr[j].count, g->attr[j].data));
        g->ref = VQueryref(vgid[i]);
    }
    for (i = 0; i < s->nvg; i++)
        if (s->vg[i].parent >= 0) TGCK(Vinsert(vgid[s->vg[i].parent], vgid[i]));
    for (i = 0; i < s->nsds; i++)
        if (s->sds[i].parent >= 0) TGCK(Vaddtagref(vgid[s->sds[i].parent], DFTAG_NDG, s->sds[i].ref));
    for (i = 0; i < s->ngr; i++)
        if (s->gr[i].parent >= 0) TGCK(Vaddtagref(vgid[s->gr[i].parent], DFTAG_RIG, s->gr[i].ref));
    for (i = 0; i < s->nvs; i++)
        if (s->vs[i].parent >= 0) TGCK(Vaddtagref(vgid[s->vs[i].parent], DFTAG_VH, s->vs[i].ref));
    for (i = 0; i < s->nvg; i++) TGCK(Vdetach(vgid[i]));

    an = ANstart(fid);
    TGCK(an);
    for (i = 0; i < s->nflabel; i++) {
        char txt[64]; int32 a = ANcreatef(an, AN_FILE_LABEL);
        snprintf(txt, sizeof txt, "file label %d", i);
        TGCK(a); TGCK(ANwriteann(a, txt, (int32)strlen(txt))); TGCK(ANendaccess(a));
    }
    for (i = 0; i < s->nfdesc; i++) {
        char txt[64]; int32 a = ANcreatef(an, AN_FILE_DESC);
        snprintf(txt, sizeof txt, "file description %d\nline two", i);
        TGCK(a); TGCK(ANwriteann(a, txt, (int32)strlen(txt))); TGCK(ANendaccess(a));
    }
    for (i = 0; i < s->nsds; i++) {
        if (s->sds[i].label) tg_ann(an, DFTAG_NDG, (uint16)s->sds[i].ref, 1, s->sds[i].name, i);
        if (s->sds[i].desc) tg_ann(an, DFTAG_NDG, (uint16)s->sds[i].ref, 0, s->sds[i].name, i);
    }
    for (i = 0; i < s->ngr; i++) {
        if (s->gr[i].label) tg_ann(an, DFTAG_RIG, (uint16)s->gr[i].ref, 1, s->gr[i].name, i);
        if (s->gr[i].desc) tg_ann(an, DFTAG_RIG, (uint16)s->gr[i].ref, 0, s->gr[i].name, i);
    }
    for (i = 0; i < s->nvs; i++) {
        if (s->vs[i].label) tg_ann(an, DFTAG_VH, (uint16)s->vs[i].ref, 1, s->vs[i].name, i);
        if (s->vs[i].desc) tg_ann(an, DFTAG_VH, (uint16)s->vs[i].ref, 0, s->vs[i].name, i);
    }
    for (i = 0; i < s->nvg; i++) {
        if (s->vg[i].label) tg_ann(an, DFTAG_VG, (uint16)s->vg[i].ref, 1, s->vg[i].name, i);
        if (s->vg[i].desc) tg_ann(an, DFTAG_VG, (uint16)s->vg[i].ref, 0, s->vg[i].name, i);
    }
    TGCK(ANend(an));
    TGCK(Vend(fid));
    TGCK(Hclose(fid));
    return tg_nerr ? -1 : 0;
}

/* ------------------------------------------------------------------------------------------------ comparator */

static void tg_diff(const char *key, const char *fmt, ...) __attribute__((format(printf, 2, 3)));
static long tg_ndiff;
static char tg_first[400];
static char tg_firstkey[64];
static int  tg_report = 1; /* 1: call hk_fail for every difference; 0: only count (e_tools uses the count) */
static void tg_diff(const char *key, const char *fmt, ...)
{
    char    msg[360];
    va_list ap;
    va_start(ap, fmt); vsnprintf(msg, sizeof msg, fmt, ap); va_end(ap);
    if (tg_ndiff == 0) { snprintf(tg_first, sizeof tg_first, "%s", msg); snprintf(tg_firstkey, sizeof tg_firstkey, "%s", key); }
    tg_ndiff++;
    if (tg_report) hk_fail(key, "%s", msg);
}

static int tg_attr_same_sd(int32 a, int32 b, int32 na, const char *who, const char *key)
{
    int32 i;
    int   same = 1;
    for (i = 0; i < na; i++) {
        char  n1[H4_MAX_NC_NAME + 1], n2[H4_MAX_NC_NAME + 1];
        int32 t1, t2, c1, c2;
        if (SDattrinfo(a, i, n1, &t1, &c1) == FAIL || SDattrinfo(b, i, n2, &t2, &c2) == FAIL) { tg_diff(key, "%s: attribute %d unreadable", who, (int)i); same = 0; continue; }
        if (strcmp(n1, n2) || t1 != t2 || c1 != c2) { tg_diff(key, "%s: attribute %d is %s/%d/%d vs %s/%d/%d", who, (int)i, n1, (int)t1, (int)c1, n2, (int)t2, (int)c2); same = 0; continue; }
        {
            size_t sz = (size_t)c1 * (size_t)tg_ntsize(t1);
            void  *v1 = calloc(sz + 1, 1), *v2 = calloc(sz + 1, 1);
            if (SDreadattr(a, i, v1) == FAIL || SDreadattr(b, i, v2) == FAIL || memcmp(v1, v2, sz)) { tg_diff(key, "%s: attribute %s values differ", who, n1); same = 0; }
            free(v1); free(v2);
        }
    }
    return same;
}

static void tg_cmp_sd(const char *fa, const char *fb)
{
    int32 a = SDstart(fa, DFACC_READ), b = SDstart(fb, DFACC_READ);
    int32 nda, ndb, naa, nab, i;
    int   nreal_a = 0, nreal_b = 0;
    if (a == FAIL || b == FAIL) { tg_diff("sd-open", "SDstart failed (%d,%d)", (int)a, (int)b); if (a != FAIL) SDend(a); if (b != FAIL) SDend(b); return; }
    SDfileinfo(a, &nda, &naa);
    SDfileinfo(b, &ndb, &nab);
    if (naa != nab) tg_diff("sd-globattr", "SD global attribute count %d vs %d", (int)naa, (int)nab);
    else tg_attr_same_sd(a, b, naa, "SD file", "sd-globattr");
    for (i = 0; i < ndb; i++) { int32 id = SDselect(b, i); if (!SDiscoordvar(id)) nreal_b++; SDendaccess(id); }
    for (i = 0; i < nda; i++) {
        int32 ia = SDselect(a, i), ib, idx;
        char  name[H4_MAX_NC_NAME + 1], name2[H4_MAX_NC_NAME + 1];
        int32 ra, rb, da[H4_MAX_VAR_DIMS], db[H4_MAX_VAR_DIMS], ta, tb, nata, natb;
        int   j, ea = 0, eb = 0;
        SDgetinfo(ia, name, &ra, da, &ta, &nata);
        if (SDiscoordvar(ia)) { SDendaccess(ia); continue; }
        nreal_a++;
        idx = SDnametoindex(b, name);
        if (idx == FAIL) { tg_diff("sds-missing", "SDS %s missing in second file", name); SDendaccess(ia); continue; }
        ib = SDselect(b, idx);
        SDgetinfo(ib, name2, &rb, db, &tb, &natb);
        if (ra != rb || ta != tb) { tg_diff("sds-type", "SDS %s rank/type %d/%d vs %d/%d", name, (int)ra, (int)ta, (int)rb, (int)tb); goto next; }
        for (j = 0; j < ra; j++)
            if (da[j] != db[j]) { tg_diff("sds-dims", "SDS %s dim %d: %d vs %d", name, j, (int)da[j], (int)db[j]); goto next; }
        if (SDisrecord(ia) != SDisrecord(ib)) tg_diff("sds-unlimited-lost", "SDS %s unlimited %d vs %d", name, (int)SDisrecord(ia), (int)SDisrecord(ib));
        if (nata != natb) tg_diff("sds-attr", "SDS %s attribute count %d vs %d", name, (int)nata, (int)natb);
        else tg_attr_same_sd(ia, ib, nata, name, "sds-attr");
        SDcheckempty(ia, &ea); SDcheckempty(ib, &eb);
        if (ea != eb) tg_diff("sds-empty", "SDS %s empty %d vs %d", name, ea, eb);
        {
            long n = tg_nelem(ra, da);
            if (n > 0) {
                size_t sz = (size_t)n * (size_t)tg_ntsize(ta);
                void  *v1 = calloc(sz + 1, 1), *v2 = calloc(sz + 1, 1);
                int32  st[H4_MAX_VAR_DIMS] = {0};
                intn   r1 = SDreaddata(ia, st, NULL, da, v1), r2 = SDreaddata(ib, st, NULL, da, v2);
                if (r1 == FAIL || r2 == FAIL) tg_diff("sds-read", "SDS %s SDreaddata %d vs %d", name, r1, r2);
                else if (memcmp(v1, v2, sz)) {
                    size_t k = 0; while (k < sz && ((uint8 *)v1)[k] == ((uint8 *)v2)[k]) k++;
                    tg_diff("sds-data", "SDS %s data differ at byte %lu of %lu", name, (unsigned long)k, (unsigned long)sz);
                }
                free(v1); free(v2);
            }
        }
        for (j = 0; j < ra; j++) {
            int32 d1 = SDgetdimid(ia, j), d2 = SDgetdimid(ib, j), s1, s2, t1, t2, n1, n2;
            char  dn1[H4_MAX_NC_NAME + 1], dn2[H4_MAX_NC_NAME + 1];
            if (SDdiminfo(d1, dn1, &s1, &t1, &n1) == FAIL || SDdiminfo(d2, dn2, &s2, &t2, &n2) == FAIL) { tg_diff("sds-dim", "SDS %s SDdiminfo failed dim %d", name, j); continue; }
            /* "fakeDim<n>" are the library's default names (numbered in creation order): not content */
            if (strcmp(dn1, dn2) && !(strncmp(dn1, "fakeDim", 7) == 0 && strncmp(dn2, "fakeDim", 7) == 0))
                tg_diff((strncmp(dn1, "fakeDim", 7) == 0 || strncmp(dn2, "fakeDim", 7) == 0) ? "fakedim-rename-collision" : "sds-dimname", "SDS %s dim %d name %s vs %s", name, j, dn1, dn2);
            if (s1 != s2) tg_diff("sds-dimsize", "SDS %s dim %d size %d vs %d", name, j, (int)s1, (int)s2);
            if (t1 != t2) tg_diff("sds-dimscale", "SDS %s dim %d (%s) scale type %d vs %d", name, j, dn1, (int)t1, (int)t2);
            else if (t1 != 0) {
                size_t sz = (size_t)da[j] * (size_t)tg_ntsize(t1);
                void  *v1 = calloc(sz + 8, 1), *v2 = calloc(sz + 8, 1);
                intn   r1 = SDgetdimscale(d1, v1), r2 = SDgetdimscale(d2, v2);
                if (r1 != r2 || (r1 != FAIL && memcmp(v1, v2, sz))) tg_diff("sds-dimscale", "SDS %s dim %d scale values differ (%d,%d)", name, j, r1, r2);
                free(v1); free(v2);
            }
            if (n1 != n2) tg_diff("sds-dimattr", "SDS %s dim %d attribute count %d vs %d", name, j, (int)n1, (int)n2);
            else if (n1 > 0) { char who[300]; snprintf(who, sizeof who, "%s.dim%d", name, j); tg_attr_same_sd(d1, d2, n1, who, "sds-dimattr"); }
        }
    next:
        SDendaccess(ia); SDendaccess(ib);
    }
    if (nreal_a != nreal_b) tg_diff("sds-count", "number of datasets %d vs %d", nreal_a, nreal_b);
    SDend(a); SDend(b);
}

static void tg_cmp_gr(int32 fa, int32 fb)
{
    int32 a = GRstart(fa), b = GRstart(fb), na, nb, ga, gb, i;
    if (a == FAIL || b == FAIL) { tg_diff("gr-open", "GRstart failed"); return; }
    GRfileinfo(a, &na, &ga); GRfileinfo(b, &nb, &gb);
    if (na != nb) tg_diff("gr-count", "number of images %d vs %d", (int)na, (int)nb);
    if (ga != gb) tg_diff("gr-globattr", "GR global attribute count %d vs %d", (int)ga, (int)gb);
    else
        for (i = 0; i < ga; i++) {
            char n1[H4_MAX_GR_NAME + 1], n2[H4_MAX_GR_NAME + 1]; int32 t1, t2, c1, c2;
            GRattrinfo(a, i, n1, &t1, &c1); GRattrinfo(b, i, n2, &t2, &c2);
            if (strcmp(n1, n2) || t1 != t2 || c1 != c2) tg_diff("gr-globattr", "GR global attribute %d: %s/%d/%d vs %s/%d/%d", (int)i, n1, (int)t1, (int)c1, n2, (int)t2, (int)c2);
            else { size_t sz = (size_t)c1 * tg_ntsize(t1); void *v1 = calloc(sz + 1, 1), *v2 = calloc(sz + 1, 1);
                   if (GRgetattr(a, i, v1) == FAIL || GRgetattr(b, i, v2) == FAIL || memcmp(v1, v2, sz)) tg_diff("gr-globattr", "GR global attribute %s values differ", n1);
                   free(v1); free(v2); }
        }
    for (i = 0; i < na; i++) {
        int32 ia = GRselect(a, i), ib, idx, c1, c2, t1, t2, l1, l2, d1[2], d2[2], n1, n2, j;
        char  name[H4_MAX_GR_NAME + 1], name2[H4_MAX_GR_NAME + 1];
        GRgetiminfo(ia, name, &c1, &t1, &l1, d1, &n1);
        idx = GRnametoindex(b, name);
        if (idx == FAIL) { tg_diff("gr-missing", "image %s missing in second file", name); GRendaccess(ia); continue; }
        ib = GRselect(b, idx);
        GRgetiminfo(ib, name2, &c2, &t2, &l2, d2, &n2);
        if (c1 != c2 || t1 != t2 || l1 != l2 || d1[0] != d2[0] || d1[1] != d2[1]) {
            tg_diff("gr-info", "image %s ncomp/type/il/dims %d/%d/%d/%dx%d vs %d/%d/%d/%dx%d", name, (int)c1, (int)t1, (int)l1, (int)d1[0], (int)d1[1], (int)c2, (int)t2, (int)l2, (int)d2[0], (int)d2[1]);
        }
        else {
            size_t sz = (size_t)d1[0] * d1[1] * c1 * tg_ntsize(t1);
            void  *v1 = calloc(sz + 1, 1), *v2 = calloc(sz + 1, 1);
            int32  st[2] = {0, 0};
            intn   r1 = GRreadimage(ia, st, NULL, d1, v1), r2 = GRreadimage(ib, st, NULL, d1, v2);
            if (r1 == FAIL || r2 == FAIL) tg_diff("gr-read", "image %s GRreadimage %d vs %d", name, r1, r2);
            else if (memcmp(v1, v2, sz)) tg_diff("gr-data", "image %s data differ", name);
            free(v1); free(v2);
        }
        if (n1 != n2) tg_diff("gr-attr", "image %s attribute count %d vs %d", name, (int)n1, (int)n2);
        else
            for (j = 0; j < n1; j++) {
                char an1[H4_MAX_GR_NAME + 1], an2[H4_MAX_GR_NAME + 1]; int32 at1, at2, ac1, ac2;
                GRattrinfo(ia, j, an1, &at1, &ac1); GRattrinfo(ib, j, an2, &at2, &ac2);
                if (strcmp(an1, an2) || at1 != at2 || ac1 != ac2) tg_diff("gr-attr", "image %s attribute %d: %s/%d/%d vs %s/%d/%d", name, (int)j, an1, (int)at1, (int)ac1, an2, (int)at2, (int)ac2);
                else { size_t sz = (size_t)ac1 * tg_ntsize(at1); void *v1 = calloc(sz + 1, 1), *v2 = calloc(sz + 1, 1);
                       if (GRgetattr(ia, j, v1) == FAIL || GRgetattr(ib, j, v2) == FAIL || memcmp(v1, v2, sz)) tg_diff("gr-attr", "image %s attribute %s values differ", name, an1);
                       free(v1); free(v2); }
            }
        {
            int32 p1 = GRgetlutid(ia, 0), p2 = GRgetlutid(ib, 0), pc1 = 0, pt1 = 0, pi1 = 0, pn1 = 0, pc2 = 0, pt2 = 0, pi2 = 0, pn2 = 0;
            intn  r1 = GRgetlutinfo(p1, &pc1, &pt1, &pi1, &pn1), r2 = GRgetlutinfo(p2, &pc2, &pt2, &pi2, &pn2);
            int   h1 = (r1 != FAIL && pc1 > 0 && pn1 > 0), h2 = (r2 != FAIL && pc2 > 0 && pn2 > 0);
            if (h1 != h2) tg_diff("gr-palette", "image %s has palette %d vs %d", name, h1, h2);
            else if (h1) {
                if (pc1 != pc2 || pt1 != pt2 || pn1 != pn2) tg_diff("gr-palette", "image %s palette info differs", name);
                else { uint8 q1[256 * 4 * 8] = {0}, q2[256 * 4 * 8] = {0};
                       if (GRreadlut(p1, q1) == FAIL || GRreadlut(p2, q2) == FAIL || memcmp(q1, q2, (size_t)pc1 * pn1 * tg_ntsize(pt1))) tg_diff("gr-palette", "image %s palette data differ", name); }
            }
        }
        GRendaccess(ia); GRendaccess(ib);
    }
    GRend(a); GRend(b);
}

/* is this vdata / vgroup created by the library for its own bookkeeping? */
static int tg_internal_class(const char *c)
{
    static const char *R[] = {_HDF_ATTRIBUTE, _HDF_VARIABLE, _HDF_DIMENSION, _HDF_UDIMENSION, DIM_VALS, DIM_VALS01, _HDF_CDF, GR_NAME, RI_NAME, RIGATTRNAME, RIGATTRCLASS, _HDF_SDSVAR, _HDF_CRDVAR};
    unsigned i;
    for (i = 0; i < sizeof R / sizeof R[0]; i++)
        if (strcmp(c, R[i]) == 0) return 1;
    return strncmp(c, "_HDF_CHK_TBL_", 13) == 0;
}

typedef struct { int32 ref; char name[VSNAMELENMAX + 1]; char cls[VSNAMELENMAX + 1]; } tg_ent_t;

static int tg_list_vs(int32 f, tg_ent_t *e, int cap)
{
    int32 ref = -1; int n = 0;
    while ((ref = VSgetid(f, ref)) != FAIL && n < cap) {
        int32 id = VSattach(f, ref, "r");
        if (id == FAIL) continue;
        e[n].ref = ref; e[n].name[0] = e[n].cls[0] = 0;
        VSgetname(id, e[n].name); VSgetclass(id, e[n].cls);
        VSdetach(id);
        if (!tg_internal_class(e[n].cls)) n++;
    }
    return n;
}

/* number of vdatas of a given class (attribute vdatas: one per attribute of an SDS / vdata / vgroup / field) */
static int tg_count_class(int32 f, const char *cls)
{
    int32 ref = -1; int n = 0;
    while ((ref = VSgetid(f, ref)) != FAIL) {
        int32 id = VSattach(f, ref, "r"); char c[VSNAMELENMAX + 1] = "";
        if (id == FAIL) continue;
        VSgetclass(id, c); VSdetach(id);
        if (strcmp(c, cls) == 0) n++;
    }
    return n;
}

static int tg_list_vg(int32 f, tg_ent_t *e, int cap)
{
    int32 ref = -1; int n = 0;
    while ((ref = Vgetid(f, ref)) != FAIL && n < cap) {
        int32 id = Vattach(f, ref, "r");
        if (id == FAIL) continue;
        e[n].ref = ref; e[n].name[0] = e[n].cls[0] = 0;
        Vgetname(id, e[n].name); Vgetclass(id, e[n].cls);
        Vdetach(id);
        if (!tg_internal_class(e[n].cls) && strcmp(e[n].name, GR_NAME)) n++;
    }
    return n;
}

static void tg_cmp_vsattrs(int32 a, int32 b, int32 fld, const char *who)
{
    int n1 = VSfnattrs(a, fld), n2 = VSfnattrs(b, fld), j;
    if (n1 != n2) { tg_diff("vs-attr", "%s field %d attribute count %d vs %d", who, (int)fld, n1, n2); return; }
    for (j = 0; j < n1; j++) {
        char an1[H4_MAX_NC_NAME + 1], an2[H4_MAX_NC_NAME + 1]; int32 t1, t2, c1, c2, s1, s2;
        VSattrinfo(a, fld, j, an1, &t1, &c1, &s1); VSattrinfo(b, fld, j, an2, &t2, &c2, &s2);
        if (strcmp(an1, an2) || t1 != t2 || c1 != c2) tg_diff("vs-attr", "%s field %d attribute %d: %s/%d/%d vs %s/%d/%d", who, (int)fld, j, an1, (int)t1, (int)c1, an2, (int)t2, (int)c2);
        else { size_t sz = (size_t)c1 * tg_ntsize(t1); void *v1 = calloc(sz + 1, 1), *v2 = calloc(sz + 1, 1);
               if (VSgetattr(a, fld, j, v1) == FAIL || VSgetattr(b, fld, j, v2) == FAIL || memcmp(v1, v2, sz)) tg_diff("vs-attr", "%s attribute %s values differ", who, an1);
               free(v1); free(v2); }
    }
}

/* annotations of one object: count and texts, in order */
static void tg_cmp_ann_obj(int32 ana, int32 anb, uint16 tag, uint16 ra, uint16 rb, const char *who)
{
    int t;
    for (t = 0; t < 2; t++) {
        ann_type ty = t ? AN_DATA_DESC : AN_DATA_LABEL;
        intn     n1 = ANnumann(ana, ty, tag, ra), n2 = ANnumann(anb, ty, tag, rb);
        if (n1 < 0) n1 = 0;
        if (n2 < 0) n2 = 0;
        if (n1 != n2) { tg_diff(t ? "an-desc-count" : "an-label-count", "%s: %d vs %d data %s", who, n1, n2, t ? "descriptions" : "labels"); continue; }
        if (n1 > 0) {
            int32 l1[16], l2[16]; int k;
            if (n1 > 16) n1 = 16;
            ANannlist(ana, ty, tag, ra, l1); ANannlist(anb, ty, tag, rb, l2);
            for (k = 0; k < n1; k++) {
                int32 len1 = ANannlen(l1[k]), len2 = ANannlen(l2[k]);
                char *b1 = calloc((size_t)(len1 > 0 ? len1 : 0) + 2, 1), *b2 = calloc((size_t)(len2 > 0 ? len2 : 0) + 2, 1);
                ANreadann(l1[k], b1, len1 + 1); ANreadann(l2[k], b2, len2 + 1);
                if (len1 != len2) tg_diff(t ? "an-desc-len" : "an-label-len", "%s: data %s length %d vs %d", who, t ? "description" : "label", (int)len1, (int)len2);
                else if (memcmp(b1, b2, (size_t)len1)) tg_diff(t ? "an-desc-text" : "an-label-text", "%s: data %s text differs: <%.40s> vs <%.40s>", who, t ? "description" : "label", b1, b2);
                free(b1); free(b2);
                ANendaccess(l1[k]); ANendaccess(l2[k]);
            }
        }
    }
}

static void tg_member_names(int32 f, int32 vg, char out[][96], int *n, int cap)
{
    int32 nt = Vntagrefs(vg), k;
    *n = 0;
    for (k = 0; k < nt && *n < cap; k++) {
        int32 tag, ref;
        if (Vgettagref(vg, k, &tag, &ref) == FAIL) continue;
        if (tag == DFTAG_VG) {
            int32 id = Vattach(f, ref, "r"); char nm[VGNAMELENMAX + 1] = "", cl[VGNAMELENMAX + 1] = "";
            if (id == FAIL) { snprintf(out[(*n)++], 96, "VG:?dangling ref %d", (int)ref); continue; }
            Vgetname(id, nm); Vgetclass(id, cl); Vdetach(id);
            if (tg_internal_class(cl)) continue;
            snprintf(out[(*n)++], 96, "VG:%s", nm);
        }
        else if (tag == DFTAG_VH) {
            int32 id = VSattach(f, ref, "r"); char nm[VSNAMELENMAX + 1] = "", cl[VSNAMELENMAX + 1] = "";
            if (id == FAIL) { snprintf(out[(*n)++], 96, "VS:?dangling ref %d", (int)ref); continue; }
            VSgetname(id, nm); VSgetclass(id, cl); VSdetach(id);
            if (tg_internal_class(cl)) continue;
            snprintf(out[(*n)++], 96, "VS:%s", nm);
        }
        else if (tag == DFTAG_NDG || tag == DFTAG_SDG || tag == DFTAG_SD) snprintf(out[(*n)++], 96, "SD:%d", (int)ref);
        else if (tag == DFTAG_RIG || tag == DFTAG_RI || tag == DFTAG_CI) snprintf(out[(*n)++], 96, "GR:%d", (int)ref);
        else snprintf(out[(*n)++], 96, "T%d", (int)tag);
    }
}

/* SD:<ref> / GR:<ref> -> SD:<name> using the per-file ref->name tables */
typedef struct { int n; int32 ref[64]; char name[64][80]; } tg_refnames_t;
static void tg_resolve(char m[][96], int n, const tg_refnames_t *sd, const tg_refnames_t *gr)
{
    int k, q;
    for (k = 0; k < n; k++) {
        const tg_refnames_t *t = (strncmp(m[k], "SD:", 3) == 0) ? sd : (strncmp(m[k], "GR:", 3) == 0) ? gr : NULL;
        if (!t) continue;
        for (q = 0; q < t->n; q++)
            if (t->ref[q] == atoi(m[k] + 3)) { snprintf(m[k] + 3, 90, "%s", t->name[q]); break; }
        if (q == t->n) strcat(m[k], "?unknown-ref");
    }
}
static int tg_strcmp96(const void *a, const void *b) { return strcmp((const char *)a, (const char *)b); }

static void tg_refnames(const char *path, int32 fid, tg_refnames_t *sd, tg_refnames_t *gr)
{
    int32 s = SDstart(path, DFACC_READ), n, na, i, g;
    sd->n = gr->n = 0;
    if (s != FAIL) {
        SDfileinfo(s, &n, &na);
        for (i = 0; i < n && sd->n < 64; i++) {
            int32 id = SDselect(s, i), r, d[H4_MAX_VAR_DIMS], t, a; char nm[H4_MAX_NC_NAME + 1];
            SDgetinfo(id, nm, &r, d, &t, &a);
            sd->ref[sd->n] = SDidtoref(id); snprintf(sd->name[sd->n], 80, "%s", nm); sd->n++;
            SDendaccess(id);
        }
        SDend(s);
    }
    g = GRstart(fid);
    if (g != FAIL) {
        GRfileinfo(g, &n, &na);
        for (i = 0; i < n && gr->n < 64; i++) {
            int32 id = GRselect(g, i), c, t, l, d[2], a; char nm[H4_MAX_GR_NAME + 1];
            GRgetiminfo(id, nm, &c, &t, &l, d, &a);
            gr->ref[gr->n] = GRidtoref(id); snprintf(gr->name[gr->n], 80, "%s", nm); gr->n++;
            GRendaccess(id);
        }
        GRend(g);
    }
}

#define TG_CMP_NOAN 1 /* skip annotations */

static long tg_compare(const char *fa, const char *fb, int flags)
{
    int32         a, b, ana, anb;
    tg_ent_t      ea[64], eb[64];
    int           na, nb, i, j;
    tg_refnames_t sda, gra, sdb, grb;
    tg_ndiff = 0; tg_first[0] = 0; tg_firstkey[0] = 0;
    tg_cmp_sd(fa, fb);
    a = Hopen(fa, DFACC_READ, 0); b = Hopen(fb, DFACC_READ, 0);
    if (a == FAIL || b == FAIL) { tg_diff("h-open", "Hopen failed (%d,%d)", (int)a, (int)b); if (a != FAIL) Hclose(a); if (b != FAIL) Hclose(b); return tg_ndiff; }
    Vstart(a); Vstart(b);
    tg_cmp_gr(a, b);
    tg_refnames(fa, a, &sda, &gra); tg_refnames(fb, b, &sdb, &grb);
    ana = ANstart(a); anb = ANstart(b);
    /* vdatas */
    na = tg_list_vs(a, ea, 64); nb = tg_list_vs(b, eb, 64);
    if (na != nb) tg_diff("vs-count", "number of user vdatas %d vs %d", na, nb);
    for (i = 0; i < na; i++) {
        int32 ia, ib, n1, n2, l1, l2, s1, s2;
        char  f1[VSFIELDMAX * (FIELDNAMELENMAX + 1)] = "", f2[VSFIELDMAX * (FIELDNAMELENMAX + 1)] = "", nm[VSNAMELENMAX + 1];
        for (j = 0; j < nb; j++) if (strcmp(ea[i].name, eb[j].name) == 0) break;
        if (j == nb) { tg_diff("vs-missing", "vdata %s missing in second file", ea[i].name); continue; }
        if (strcmp(ea[i].cls, eb[j].cls)) tg_diff("vs-class", "vdata %s class <%s> vs <%s>", ea[i].name, ea[i].cls, eb[j].cls);
        ia = VSattach(a, ea[i].ref, "r"); ib = VSattach(b, eb[j].ref, "r");
        if (ia == FAIL || ib == FAIL) { tg_diff("vs-attach", "vdata %s cannot be attached", ea[i].name); continue; }
        VSinquire(ia, &n1, &l1, f1, &s1, nm); VSinquire(ib, &n2, &l2, f2, &s2, nm);
        if (n1 != n2 || strcmp(f1, f2) || s1 != s2) tg_diff("vs-info", "vdata %s nrec/fields/size %d/%s/%d vs %d/%s/%d", ea[i].name, (int)n1, f1, (int)s1, (int)n2, f2, (int)s2);
        else {
            int k, nf = VFnfields(ia), same = (nf == VFnfields(ib));
            for (k = 0; same && k < nf; k++)
                if (VFfieldtype(ia, k) != VFfieldtype(ib, k) || VFfieldorder(ia, k) != VFfieldorder(ib, k)) same = 0;
            if (!same) tg_diff("vs-fields", "vdata %s field types/orders differ", ea[i].name);
            else if (n1 > 0) {
                size_t sz = (size_t)n1 * (size_t)VSsizeof(ia, f1);
                uint8 *v1 = calloc(sz + 8, 1), *v2 = calloc(sz + 8, 1);
                VSsetfields(ia, f1); VSsetfields(ib, f2);
                if (VSread(ia, v1, n1, FULL_INTERLACE) == FAIL || VSread(ib, v2, n1, FULL_INTERLACE) == FAIL) tg_diff("vs-read", "vdata %s VSread failed", ea[i].name);
                else if (memcmp(v1, v2, sz)) tg_diff("vs-data", "vdata %s data differ", ea[i].name);
                free(v1); free(v2);
            }
            if (l1 != l2) tg_diff("vs-interlace", "vdata %s interlace %d vs %d", ea[i].name, (int)l1, (int)l2);
            if (same) {
                tg_cmp_vsattrs(ia, ib, _HDF_VDATA, ea[i].name);
                for (k = 0; k < nf; k++) tg_cmp_vsattrs(ia, ib, k, ea[i].name);
            }
        }
        if (!(flags & TG_CMP_NOAN)) { char who[96]; snprintf(who, sizeof who, "vdata %s", ea[i].name); tg_cmp_ann_obj(ana, anb, DFTAG_VH, (uint16)ea[i].ref, (uint16)eb[j].ref, who); }
        VSdetach(ia); VSdetach(ib);
    }
    {
        int c1 = tg_count_class(a, _HDF_ATTRIBUTE), c2 = tg_count_class(b, _HDF_ATTRIBUTE);
        if (c1 != c2) tg_diff("vs-attribute-vdata-duplicated", "number of attribute vdatas (class %s) %d vs %d", _HDF_ATTRIBUTE, c1, c2);
    }
    /* vgroups */
    na = tg_list_vg(a, ea, 64); nb = tg_list_vg(b, eb, 64);
    if (na != nb) tg_diff("vg-count", "number of user vgroups %d vs %d", na, nb);
    for (i = 0; i < na; i++) {
        int32 ia, ib;
        char  m1[64][96], m2[64][96];
        int   c1, c2, k;
        for (j = 0; j < nb; j++) if (strcmp(ea[i].name, eb[j].name) == 0) break;
        if (j == nb) { tg_diff("vg-missing", "vgroup %s missing in second file", ea[i].name); continue; }
        if (strcmp(ea[i].cls, eb[j].cls)) tg_diff("vg-class", "vgroup %s class <%s> vs <%s>", ea[i].name, ea[i].cls, eb[j].cls);
        ia = Vattach(a, ea[i].ref, "r"); ib = Vattach(b, eb[j].ref, "r");
        if (ia == FAIL || ib == FAIL) { tg_diff("vg-attach", "vgroup %s cannot be attached", ea[i].name); continue; }
        tg_member_names(a, ia, m1, &c1, 64); tg_member_names(b, ib, m2, &c2, 64);
        tg_resolve(m1, c1, &sda, &gra); tg_resolve(m2, c2, &sdb, &grb);
        qsort(m1, (size_t)c1, 96, tg_strcmp96); qsort(m2, (size_t)c2, 96, tg_strcmp96);
        if (c1 != c2) tg_diff("vg-members", "vgroup %s has %d vs %d members", ea[i].name, c1, c2);
        else
            for (k = 0; k < c1; k++)
                if (strcmp(m1[k], m2[k])) { tg_diff("vg-members", "vgroup %s member %s vs %s", ea[i].name, m1[k], m2[k]); break; }
        {
            int n1 = Vnattrs(ia), n2 = Vnattrs(ib);
            if (n1 != n2) tg_diff("vg-attr", "vgroup %s attribute count %d vs %d", ea[i].name, n1, n2);
            else
                for (k = 0; k < n1; k++) {
                    char an1[H4_MAX_NC_NAME + 1], an2[H4_MAX_NC_NAME + 1]; int32 t1, t2, cc1, cc2, s1, s2;
                    Vattrinfo(ia, k, an1, &t1, &cc1, &s1); Vattrinfo(ib, k, an2, &t2, &cc2, &s2);
                    if (strcmp(an1, an2) || t1 != t2 || cc1 != cc2) tg_diff("vg-attr", "vgroup %s attribute %d: %s/%d/%d vs %s/%d/%d", ea[i].name, k, an1, (int)t1, (int)cc1, an2, (int)t2, (int)cc2);
                    else { size_t sz = (size_t)cc1 * tg_ntsize(t1); void *v1 = calloc(sz + 1, 1), *v2 = calloc(sz + 1, 1);
                           if (Vgetattr(ia, k, v1) == FAIL || Vgetattr(ib, k, v2) == FAIL || memcmp(v1, v2, sz)) tg_diff("vg-attr", "vgroup %s attribute %s values differ", ea[i].name, an1);
                           free(v1); free(v2); }
                }
        }
        if (!(flags & TG_CMP_NOAN)) { char who[96]; snprintf(who, sizeof who, "vgroup %s", ea[i].name); tg_cmp_ann_obj(ana, anb, DFTAG_VG, (uint16)ea[i].ref, (uint16)eb[j].ref, who); }
        Vdetach(ia); Vdetach(ib);
    }
    if (!(flags & TG_CMP_NOAN)) {
        int32 fl1, fd1, dl1, dd1, fl2, fd2, dl2, dd2;
        int   t;
        ANfileinfo(ana, &fl1, &fd1, &dl1, &dd1); ANfileinfo(anb, &fl2, &fd2, &dl2, &dd2);
        if (fl1 != fl2 || fd1 != fd2) tg_diff("an-file-count", "file labels/descriptions %d/%d vs %d/%d", (int)fl1, (int)fd1, (int)fl2, (int)fd2);
        else
            for (t = 0; t < 2; t++) {
                /* compared as multisets (the order ANselect enumerates them in is not the creation order) */
                int32 n = t ? fd1 : fl1, k;
                char  (*t1)[96] = calloc((size_t)n + 1, 96), (*t2)[96] = calloc((size_t)n + 1, 96);
                for (k = 0; k < n; k++) {
                    int32 x = ANselect(ana, k, t ? AN_FILE_DESC : AN_FILE_LABEL), y = ANselect(anb, k, t ? AN_FILE_DESC : AN_FILE_LABEL);
                    int32 len1 = ANannlen(x), len2 = ANannlen(y);
                    char *b1 = calloc((size_t)(len1 > 0 ? len1 : 0) + 2, 1), *b2 = calloc((size_t)(len2 > 0 ? len2 : 0) + 2, 1);
                    ANreadann(x, b1, len1 + 1); ANreadann(y, b2, len2 + 1);
                    snprintf(t1[k], 96, "%d:%.80s", (int)len1, b1); snprintf(t2[k], 96, "%d:%.80s", (int)len2, b2);
                    free(b1); free(b2); ANendaccess(x); ANendaccess(y);
                }
                qsort(t1, (size_t)n, 96, tg_strcmp96); qsort(t2, (size_t)n, 96, tg_strcmp96);
                for (k = 0; k < n; k++)
                    if (strcmp(t1[k], t2[k])) { tg_diff("an-file-text", "file %s: <%.40s> vs <%.40s>", t ? "description" : "label", t1[k], t2[k]); break; }
                free(t1); free(t2);
            }
        if (dl1 != dl2 || dd1 != dd2) tg_diff("an-data-count", "data labels/descriptions in file %d/%d vs %d/%d", (int)dl1, (int)dd1, (int)dl2, (int)dd2);
        /* SDS and image annotations */
        for (i = 0; i < sda.n; i++)
            for (j = 0; j < sdb.n; j++)
                if (strcmp(sda.name[i], sdb.name[j]) == 0) { char who[96]; snprintf(who, sizeof who, "SDS %s", sda.name[i]); tg_cmp_ann_obj(ana, anb, DFTAG_NDG, (uint16)sda.ref[i], (uint16)sdb.ref[j], who); break; }
        for (i = 0; i < gra.n; i++)
            for (j = 0; j < grb.n; j++)
                if (strcmp(gra.name[i], grb.name[j]) == 0) { char who[96]; snprintf(who, sizeof who, "image %s", gra.name[i]); tg_cmp_ann_obj(ana, anb, DFTAG_RIG, (uint16)gra.ref[i], (uint16)grb.ref[j], who); break; }
    }
    ANend(ana); ANend(anb);
    Vend(a); Vend(b);
    Hclose(a); Hclose(b);
    /* lone palettes */
    {
        int p1, p2;
        DFPrestart(); p1 = DFPnpals(fa);
        DFPrestart(); p2 = DFPnpals(fb);
        if (p1 != p2) tg_diff("lone-palette-count", "number of palettes %d vs %d", p1, p2);
    }
    return tg_ndiff;
}
#endif
