/* e_bits - Tie-B engine for C05 parts: bit-granular element I/O (hbitio.c), n-bit coder (cnbit.c),
 * skipping-Huffman coder (cskphuff.c).  Every case picks one scenario:
 *
 *  (A) hbitio.c
 *   T bits pack  <w:v,...> => <hex>        fresh element, Hstartbitwrite+Hbitappendable, Hbitwrite per field,
 *                                          Hendbitaccess(id, 0); raw bytes fetched with Hgetelement
 *   T bits pack1 <w:v,...> => <hex>        same with Hendbitaccess(id, 1)
 *   T bits unpack <hex> <w,...> => <v,...> element stored with Hputelement, Hstartbitread, Hbitread per width
 *   T bits script <new|hex> <w|r> <ops> => <results> <hex>
 *                                          mixed Hbitwrite (wW:V) / Hbitread (rW) / Hbitseek (sB:b) on one bit id, then
 *                                          Hendbitaccess(id,0); results: wN | wfail | N:V | rfail | s0 | sfail
 *  (B) cnbit.c     T nbit enc/dec/proj ...   (see below)
 *  (C) cskphuff.c  T skphuff enc/dec ...
 *  (E) cskphuff.c, unit level   T skphuff splay <left> <right> <up> <plain> => <left'> <right'> <up'>   (HCIcskphuff_splay on one tree)
 *  (F) cnbit.c, unit level      T nbit finit/fenc/fdec/feof ...   the static HCIcnbit_init / HCIcnbit_encode / HCIcnbit_decode called
 *                               directly on a hand-built compinfo_t (any nt_size 1..16, any byte partition)
 *
 * Oracles (implementation side only, independent of the Lean model): an independent C bit packer/unpacker
 * (shadow bit array); n-bit read-back equals the documented projection computed arithmetically on the integer
 * value; skphuff read-back equals the data written; sizes reported equal sizes stored.
 */
#include "hdf.h"
#include "hfile_priv.h"
#include "hcomp.h"
#include "hk.h"
#include "skpgen.h"               /* independent replica of the code tree: steers the generators, measures code lengths, decodes */
#include "hdf/src/cskphuff.c" /* resolved through -I<REPO>: for the static HCIcskphuff_splay; the library's cskphuff.o is then not linked
                                 (every external symbol of it is defined here), so the whole engine runs this copy of the coder */

#include "hdf/src/cnbit.c"    /* for the static HCIcnbit_init / HCIcnbit_encode / HCIcnbit_decode (scenario F); as above, the library's
                                 cnbit.o is then not linked and the whole engine runs this copy of the n-bit coder */

#define MAXB 40000
static uint8_t raw[MAXB + 16], shadow[MAXB + 16], data[MAXB + 16], rbuf[MAXB + 16];
static long maxlen = 600;

/* T lines are assembled in a buffer and printed at the end of the scenario (ORACLE-FAIL lines must not split them) */
static char *sb; static size_t sbl, sbcap;
static void sb_reset(void) { sbl = 0; if (!sb) { sbcap = 1 << 20; sb = malloc(sbcap); } sb[0] = 0; }
static void sb_printf(const char *fmt, ...) __attribute__((format(printf, 1, 2)));
static void sb_printf(const char *fmt, ...)
{
    va_list ap;
    if (sbl + 4096 > sbcap) { sbcap *= 2; sb = realloc(sb, sbcap); }
    va_start(ap, fmt); sbl += (size_t)vsnprintf(sb + sbl, sbcap - sbl, fmt, ap); va_end(ap);
}
static void sb_hex(const void *p, size_t n)
{
    const uint8_t *b = (const uint8_t *)p;
    if (n == 0) { sb_printf("-"); return; }
    while (sbl + 2 * n + 16 > sbcap) { sbcap *= 2; sb = realloc(sb, sbcap); }
    for (size_t i = 0; i < n; i++) { static const char H[] = "0123456789abcdef"; sb[sbl++] = H[b[i] >> 4]; sb[sbl++] = H[b[i] & 15]; }
    sb[sbl] = 0;
}
static void sb_flush(void) { fputs(sb, stdout); fputc('\n', stdout); sbl = 0; sb[0] = 0; }

/* ------------------------------------------------------------------ shadow bit array (oracle) */
static int sh_get(const uint8_t *a, long bit) { return (a[bit >> 3] >> (7 - (bit & 7))) & 1; }
static void sh_set(uint8_t *a, long bit, int v)
{
    if (v) a[bit >> 3] |= (uint8_t)(0x80 >> (bit & 7));
    else a[bit >> 3] &= (uint8_t)~(0x80 >> (bit & 7));
}
static void sh_put(uint8_t *a, long *pos, int w, uint32_t v)
{
    for (int i = w - 1; i >= 0; i--) sh_set(a, (*pos)++, (int)((v >> i) & 1));
}
static uint32_t sh_take(const uint8_t *a, long *pos, int w)
{
    uint32_t v = 0;
    for (int i = 0; i < w; i++) v = (v << 1) | (uint32_t)sh_get(a, (*pos)++);
    return v;
}

static int pick_width(void)
{
    static const int W[] = {1, 1, 2, 3, 7, 8, 8, 9, 15, 16, 17, 24, 31, 32, 32};
    return hk_chance(50) ? HK_PICK(W) : (int)hk_range(1, 32);
}
static uint32_t pick_value(void)
{
    switch ((int)hk_range(0, 4)) {
        case 0: return 0;
        case 1: return 0xFFFFFFFFu;
        case 2: return 0xAAAAAAAAu;
        default: return (uint32_t)hk_next();
    }
}

static int32 fresh_file(const char **path)
{
    *path = hk_tmp("b.hdf");
    int32 fid = Hopen(*path, DFACC_CREATE, 0);
    if (fid == FAIL) hk_fail("bits-open", "Hopen create");
    return fid;
}

/* ------------------------------------------------------------------ (A1) pack */
static void case_pack(void)
{
    const char *path;
    int32 fid = fresh_file(&path);
    if (fid == FAIL) return;
    int flushbit = hk_chance(25) ? 1 : 0;
    long target_bits;
    switch ((int)hk_range(0, 9)) {
        case 0: target_bits = hk_range(0, 40); break;
        case 1: target_bits = 8 * 4096 + hk_range(-40, 40); break;   /* around the buffer size */
        case 2: target_bits = 8 * 8192 + hk_range(-40, 40); break;
        case 3: target_bits = hk_range(8 * 4000, 8 * 9000); break;
        default: target_bits = hk_range(0, 8 * maxlen); break;
    }
    if (target_bits < 0) target_bits = 0;
    int32 bid = Hstartbitwrite(fid, 1000, 1, 0);
    if (bid == FAIL) { hk_fail("bits-startwrite", "pack"); Hclose(fid); return; }
    if (Hbitappendable(bid) == FAIL) hk_fail("bits-appendable", "pack");
    memset(shadow, 0, sizeof shadow);
    long nbits = 0;
    int first = 1, big = target_bits > 8 * 3000, byteish = hk_chance(30);
    sb_reset(); sb_printf("T bits %s ", flushbit ? "pack1" : "pack");
    while (nbits < target_bits) {
        int w = big && byteish ? (hk_chance(90) ? 32 : pick_width()) : pick_width();
        uint32_t v = pick_value();
        if (nbits + w > 8L * (MAXB - 4200)) break;
        int r = Hbitwrite(bid, w, v);
        if (r != w) { hk_fail("bits-write", "Hbitwrite(%d)=%d", w, r); break; }
        sb_printf("%s%d:%u", first ? "" : ",", w, (unsigned)v);
        first = 0;
        sh_put(shadow, &nbits, w, v);
    }
    if (first) sb_printf("-");
    if (Hendbitaccess(bid, flushbit) == FAIL) hk_fail("bits-endaccess", "pack");
    long nbytes = (nbits + 7) / 8;
    int32 elen = Hlength(fid, 1000, 1);
    int32 g = 0;
    if (elen > 0) {
        if (elen > MAXB) { hk_fail("bits-pack-len", "element length %d", (int)elen); elen = 0; }
        else g = Hgetelement(fid, 1000, 1, raw);
    }
    if (elen < 0) { elen = 0; g = 0; } /* nothing written: no element */
    sb_printf(" => "); sb_hex(raw, (size_t)(g > 0 ? g : 0)); sb_flush();
    /* oracles */
    if (g != elen) hk_fail("bits-getelement", "Hgetelement=%d Hlength=%d", (int)g, (int)elen);
    if (g < nbytes) hk_fail("bits-pack-short", "stored %d bytes < %ld needed", (int)g, nbytes);
    else {
        long i;
        for (i = 0; i < nbits; i++) if (sh_get(raw, i) != sh_get(shadow, i)) break;
        if (i < nbits) hk_fail("bits-pack-prefix", "bit %ld of %ld differs", i, nbits);
        /* documented: leftover bits of the last byte are flushed with `flushbit` */
        for (i = nbits; i < 8 * nbytes; i++) if (sh_get(raw, i) != flushbit) break;
        if (i < 8 * nbytes) hk_fail(flushbit ? "bits-pad-flushbit1" : (nbits >= 8 * 4096 ? "bits-pad-stale" : "bits-pad-zero"),
                                    "padding bit %ld of an %ld-bit stream is %d, flushbit=%d", i, nbits, sh_get(raw, i), flushbit);
        if (g != nbytes) hk_fail(nbits >= 8 * 4096 ? "bits-len-tail" : "bits-len", "stored %d bytes for %ld bits (%ld bytes expected)", (int)g, nbits, nbytes);
    }
    hk_stat("pack_cases", 1); hk_stat("pack_bits", nbits);
    Hclose(fid);
}

/* ------------------------------------------------------------------ (A2) unpack */
static int gen_bytes(uint8_t *d, long cap)
{
    long n;
    switch ((int)hk_range(0, 9)) {
        case 0: n = hk_range(0, 5); break;
        case 1: n = 4096 + hk_range(-2, 2); break;
        case 2: n = 8192 + hk_range(-2, 2); break;
        case 3: n = hk_range(4000, 9000); break;
        default: n = hk_range(0, cap); break;
    }
    int kind = (int)hk_range(0, 3);
    for (long i = 0; i < n; i++) d[i] = kind == 0 ? hk_byte() : kind == 1 ? (uint8_t)(i * 7 + 1) : kind == 2 ? 0xFF : (uint8_t)(hk_chance(50) ? 0xAA : hk_byte());
    return (int)n;
}

static void case_unpack(void)
{
    const char *path;
    int32 fid = fresh_file(&path);
    if (fid == FAIL) return;
    int n = gen_bytes(data, maxlen);
    if (n == 0) n = 1, data[0] = hk_byte(); /* Hputelement of 0 bytes is not an element */
    if (Hputelement(fid, 1001, 2, data, n) != n) { hk_fail("bits-put", "Hputelement %d", n); Hclose(fid); return; }
    int32 bid = Hstartbitread(fid, 1001, 2);
    if (bid == FAIL) { hk_fail("bits-startread", "unpack"); Hclose(fid); return; }
    long total = 8L * n, pos = 0;
    long stop = hk_chance(70) ? total : hk_range(0, total);
    static uint32_t vals[MAXB * 8 / 1 > 400000 ? 400000 : MAXB * 8];
    static int ws[400000];
    int k = 0, byteish = n > 3000 && hk_chance(60);
    while (pos < stop && k < 400000) {
        int w = byteish ? (hk_chance(92) ? 32 : pick_width()) : pick_width();
        if (pos + w > total) { w = (int)(total - pos); if (w > 32) w = 32; }
        uint32 v = 0xDEADBEEF;
        int r = Hbitread(bid, w, &v);
        if (r != w) { hk_fail("bits-read", "Hbitread(%d)=%d at bit %ld of %ld", w, r, pos, total); break; }
        long p2 = pos;
        uint32_t e = sh_take(data, &p2, w);
        if (e != v) { hk_fail("bits-read-data", "Hbitread(%d) at bit %ld: got %u want %u", w, pos, (unsigned)v, (unsigned)e); }
        ws[k] = w; vals[k] = v; k++;
        pos += w;
    }
    printf("T bits unpack "); hk_hex(data, (size_t)n); printf(" ");
    if (k == 0) printf("-");
    for (int i = 0; i < k; i++) printf("%s%d", i ? "," : "", ws[i]);
    printf(" => ");
    if (k == 0) printf("-");
    for (int i = 0; i < k; i++) printf("%s%u", i ? "," : "", (unsigned)vals[i]);
    printf("\n");
    if (Hendbitaccess(bid, 0) == FAIL) hk_fail("bits-endaccess", "unpack");
    hk_stat("unpack_cases", 1); hk_stat("unpack_fields", k);
    Hclose(fid);
}

/* ------------------------------------------------------------------ (A3) scripts: seeks and read/write switches
 * The shadow holds the logical content; `def` = number of defined bits (written or pre-existing).
 * kind 0 (must be clean; single 4096-byte block): read access: reads+seeks; write access: writes+seeks, and at most one
 *        switch from writing to reading (after the first read no more writes).
 * kind 1 (read -> write switches allowed; single block)   oracle keys bits-r2w-*
 * kind 2 (several blocks, seeks between blocks)            oracle keys bits-multiblock-*           */
static void case_script(int kind)
{
    const char *path;
    int32 fid = fresh_file(&path);
    if (fid == FAIL) return;
    int multiblock = kind == 2;
    int existing = hk_chance(50);
    int wacc = existing ? hk_chance(70) : 1;
    long lim = multiblock ? 9000 : 3000;
    long n0 = 0;
    const char *kd = kind == 0 ? "bits-script-data" : kind == 1 ? "bits-r2w-data" : "bits-multiblock-data";
    const char *kf = kind == 0 ? "bits-script-final" : kind == 1 ? "bits-r2w-final" : "bits-multiblock-final";
    const char *kl = kind == 0 ? "bits-script-len" : kind == 1 ? "bits-r2w-len" : "bits-multiblock-len";
    const char *ko = kind == 0 ? "bits-script-op" : kind == 1 ? "bits-r2w-op" : "bits-multiblock-op";
    memset(shadow, 0, sizeof shadow);
    if (existing) {
        n0 = hk_range(1, multiblock ? lim : 200);
        for (long i = 0; i < n0; i++) shadow[i] = hk_byte();
        if (Hputelement(fid, 1002, 3, shadow, (int32)n0) != n0) { hk_fail("bits-put", "script"); Hclose(fid); return; }
    }
    int32 bid = wacc ? Hstartbitwrite(fid, 1002, 3, existing ? (int32)n0 : 0) : Hstartbitread(fid, 1002, 3);
    if (bid == FAIL) { hk_fail("bits-start", "script wacc=%d existing=%d", wacc, existing); Hclose(fid); return; }
    if (wacc && Hbitappendable(bid) == FAIL) hk_fail("bits-appendable", "script");
    sb_reset(); sb_printf("T bits script ");
    if (existing) sb_hex(shadow, (size_t)n0); else sb_printf("new");
    sb_printf(" %c ", wacc ? 'w' : 'r');
    static char res[400000];
    size_t rl = 0;
    long cur = 0, def = 8 * n0;   /* cursor and number of defined bits */
    int nops = (int)hk_range(0, multiblock ? 400 : 40), first = 1, have_read = 0;
    for (int i = 0; i < nops && rl < sizeof res - 100; i++) {
        int act = (int)hk_range(0, 9);
        if (act < 4 && wacc && !(kind != 1 && have_read)) { /* write */
            int w = pick_width(); uint32_t v = pick_value();
            if (multiblock && hk_chance(85)) w = 32;
            if (cur + w > 8 * lim) continue;
            int r = Hbitwrite(bid, w, v);
            sb_printf("%sw%d:%u", first ? "" : ",", w, (unsigned)v); first = 0;
            if (r == w) { rl += (size_t)sprintf(res + rl, "%sw%d", rl ? "," : "", r); sh_put(shadow, &cur, w, v); if (cur > def) def = cur; }
            else { rl += (size_t)sprintf(res + rl, "%swfail", rl ? "," : ""); hk_fail(ko, "Hbitwrite(%d)=%d", w, r); }
        }
        else if (act < 7) { /* read inside the defined bits (whole bytes defined: the partial last byte reads as stored) */
            int w = pick_width();
            long avail = ((def + 7) / 8) * 8 - cur;
            if (avail <= 0) continue;
            if (w > avail) w = (int)avail;
            uint32 v = 0xDEADBEEF;
            int r = Hbitread(bid, w, &v);
            have_read = 1;
            sb_printf("%sr%d", first ? "" : ",", w); first = 0;
            if (r == FAIL) { rl += (size_t)sprintf(res + rl, "%srfail", rl ? "," : ""); hk_fail(ko, "Hbitread(%d) FAIL at bit %ld def %ld", w, cur, def); }
            else {
                rl += (size_t)sprintf(res + rl, "%s%d:%u", rl ? "," : "", r, (unsigned)v);
                if (r != w) hk_fail(ko, "Hbitread(%d)=%d at bit %ld def %ld", w, r, cur, def);
                else {
                    long p2 = cur; uint32_t e = sh_take(shadow, &p2, w);
                    if (e != v) hk_fail(kd, "read %d bits at bit %ld: got %u want %u (def %ld)", w, cur, (unsigned)v, (unsigned)e, def);
                    cur += r;
                }
            }
        }
        else { /* seek to a byte:bit position inside the defined whole bytes */
            long nb = def / 8; /* whole bytes certainly counted by max_offset once flushed */
            long tb = hk_chance(20) ? 0 : hk_range(0, nb);
            int bo = hk_chance(50) ? 0 : (int)hk_range(0, 7);
            if (tb * 8 + bo > def) bo = 0;
            int r = Hbitseek(bid, (int32)tb, bo);
            sb_printf("%ss%ld:%d", first ? "" : ",", tb, bo); first = 0;
            if (r == FAIL) { rl += (size_t)sprintf(res + rl, "%ssfail", rl ? "," : ""); hk_fail(ko, "Hbitseek(%ld,%d) FAIL def %ld cur %ld", tb, bo, def, cur); }
            else { rl += (size_t)sprintf(res + rl, "%ss0", rl ? "," : ""); cur = tb * 8 + bo; }
        }
    }
    if (first) sb_printf("-");
    if (Hendbitaccess(bid, 0) == FAIL) hk_fail("bits-endaccess", "script");
    int32 elen = Hlength(fid, 1002, 3), g = 0;
    if (elen > MAXB) { hk_fail(kl, "element length %d", (int)elen); elen = 0; }
    if (elen > 0) g = Hgetelement(fid, 1002, 3, raw);
    if (elen < 0) elen = 0;
    sb_printf(" => %s ", rl ? res : "-"); sb_hex(raw, (size_t)(g > 0 ? g : 0)); sb_flush();
    /* final content: the defined bits must be there */
    long nbytes = (def + 7) / 8;
    if (g < nbytes) hk_fail(kl, "stored %d < %ld bytes", (int)g, nbytes);
    else {
        long i;
        for (i = 0; i < def; i++) if (sh_get(raw, i) != sh_get(shadow, i)) break;
        if (i < def) hk_fail(kf, "bit %ld of %ld differs after Hendbitaccess (wacc=%d existing=%d)", i, def, wacc, existing);
        if (!multiblock && g != nbytes) hk_fail(kl, "stored %d bytes, %ld expected", (int)g, nbytes);
    }
    hk_stat(kind == 0 ? "script_cases" : kind == 1 ? "script_r2w_cases" : "script_multi_cases", 1);
    Hclose(fid);
}

/* ------------------------------------------------------------------ (B) n-bit coder
 *   T nbit enc  <nt_size> <sign> <fill> <start> <len> <hex data> => <hex raw>     raw DFTAG_COMPRESSED bytes
 *   T nbit dec  <nt_size> <sign> <fill> <start> <len> <hex raw> <n,...> => <hex>  Hread partition from the start (whole values)
 *   T nbit proj <nt_size> <sign> <fill> <start> <len> <hex data> => <hex out>     whole path, one Hread
 *   T nbit spec <nt_size> <sign> <fill> <start> <len> <hex data> => <hex out>     compared with the Lean SPECIFICATION only
 * oracle: read-back == projection computed arithmetically on the integer values                                   */
static uint64_t nbit_expect(int nbits, int sign, int fill, int start, int len, uint64_t v)
{
    uint64_t all = nbits == 64 ? ~0ULL : ((1ULL << nbits) - 1);
    uint64_t upto = start == 63 ? ~0ULL : ((1ULL << (start + 1)) - 1);     /* bits start..0 */
    uint64_t low = (start - len + 1) == 0 ? 0 : ((1ULL << (start - len + 1)) - 1); /* bits below the field */
    uint64_t field = upto & ~low, high = all & ~upto;
    uint64_t out = v & field;
    if (fill) out |= low;
    int top = sign ? (int)((v >> start) & 1) : fill;
    if (top) out |= high;
    return out & all;
}

static void case_nbit(int k)
{
    static const int32 NT[] = {DFNT_INT8, DFNT_UINT8, DFNT_INT16, DFNT_UINT16, DFNT_INT32, DFNT_UINT32, DFNT_FLOAT32, DFNT_FLOAT64};
    const char *path;
    int32 fid = fresh_file(&path);
    if (fid == FAIL) return;
    int32 nt = HK_PICK(NT);
    int sz = DFKNTsize(nt), nbits = 8 * sz;
    int start, len;
    if (sz <= 2) { /* exhaustive sweep of (start,len) driven by the case number */
        int npairs = nbits * (nbits + 1) / 2, idx = k % npairs, s0 = 0;
        for (s0 = 0; idx >= s0 + 1; s0++) idx -= s0 + 1;
        start = s0; len = idx + 1;
    }
    else {
        start = hk_chance(30) ? nbits - 1 : (int)hk_range(0, nbits - 1);
        len = hk_chance(20) ? start + 1 : hk_chance(20) ? 1 : (int)hk_range(1, start + 1);
    }
    int sign = hk_chance(50), fill = hk_chance(50);
    int nvals;
    switch ((int)hk_range(0, 6)) {
        case 0: nvals = (int)hk_range(1, 3); break;
        case 1: nvals = 1024 / sz + (int)hk_range(-2, 2); break;      /* around NBIT_BUF_SIZE */
        case 2: nvals = (int)hk_range(1024 / sz, 3 * 1024 / sz); break;
        default: nvals = (int)hk_range(1, 80); break;
    }
    if (nvals < 1) nvals = 1;
    int n = nvals * sz;
    for (int i = 0; i < nvals; i++) {
        uint64_t v;
        switch ((int)hk_range(0, 5)) {
            case 0: v = 0; break;
            case 1: v = ~0ULL; break;
            case 2: v = 1ULL << hk_range(0, nbits - 1); break;
            case 3: v = ~(1ULL << hk_range(0, nbits - 1)); break;
            default: v = hk_next(); break;
        }
        for (int b = 0; b < sz; b++) data[i * sz + b] = (uint8_t)(v >> (8 * (sz - 1 - b))); /* file (big-endian) order */
        uint64_t e = nbit_expect(nbits, sign, fill, start, len, nbits == 64 ? v : (v & ((1ULL << nbits) - 1)));
        for (int b = 0; b < sz; b++) shadow[i * sz + b] = (uint8_t)(e >> (8 * (sz - 1 - b)));
    }
    comp_info ci; model_info mi; memset(&ci, 0, sizeof ci); memset(&mi, 0, sizeof mi);
    ci.nbit.nt = nt; ci.nbit.sign_ext = sign; ci.nbit.fill_one = fill; ci.nbit.start_bit = start; ci.nbit.bit_len = len;
    int32 aid = HCcreate(fid, 1003, 4, COMP_MODEL_STDIO, &mi, COMP_CODE_NBIT, &ci);
    if (aid == FAIL) { hk_fail("nbit-create", "HCcreate nt=%d start=%d len=%d", (int)nt, start, len); Hclose(fid); return; }
    { /* write: random partition (whole values mostly, sometimes arbitrary byte counts: the encoder is a per-byte fold) */
        int pos = 0, style = (int)hk_range(0, 3);
        while (pos < n) {
            int l = style == 0 ? n - pos : style == 1 ? sz * (int)hk_range(1, 5) : style == 2 ? sz * (int)hk_range(1, 400) : (int)hk_range(1, 3 * sz);
            if (l > n - pos) l = n - pos;
            int32 r = Hwrite(aid, l, data + pos);
            if (r != l) { hk_fail("nbit-write", "Hwrite(%d)=%d", l, (int)r); break; }
            pos += l;
        }
    }
    if (Hendaccess(aid) == FAIL) hk_fail("nbit-endaccess", "write");
    char cfg[64]; snprintf(cfg, sizeof cfg, "%d %d %d %d %d", sz, sign, fill, start, len);
    /* raw bytes */
    uint16 ft = 0, fr = 0; int32 foff = 0, flen = 0;
    int32 g = 0;
    if (Hfind(fid, DFTAG_COMPRESSED, DFREF_WILDCARD, &ft, &fr, &foff, &flen, DF_FORWARD) == FAIL) hk_fail("nbit-noraw", "no DFTAG_COMPRESSED");
    else {
        if (flen > MAXB) flen = 0;
        g = flen > 0 ? Hgetelement(fid, DFTAG_COMPRESSED, fr, raw) : 0;
        if (g != flen) hk_fail("nbit-getraw", "Hgetelement=%d len=%d", (int)g, (int)flen);
        sb_reset(); sb_printf("T nbit enc %s ", cfg); sb_hex(data, (size_t)n); sb_printf(" => "); sb_hex(raw, (size_t)g); sb_flush();
        long need = ((long)nvals * len + 7) / 8;
        if (g < need) hk_fail("nbit-raw-short", "raw %d bytes < %ld", (int)g, need);
        else if (g != need) hk_fail(need >= 4096 ? "bits-len-tail" : "nbit-raw-len", "raw %d bytes, %ld expected (%d values x %d bits)", (int)g, need, nvals, len);
        int32 csz = -1, osz = -1;
        if (HCPgetdatasize(fid, 1003, 4, &csz, &osz) == FAIL) hk_fail("nbit-getdatasize", "fail");
        else { if (osz != n) hk_fail("nbit-origsize", "orig=%d expected %d", (int)osz, n); if (csz != flen) hk_fail("nbit-compsize", "comp=%d stored=%d", (int)csz, (int)flen); }
    }
    /* read back */
    aid = Hstartread(fid, 1003, 4);
    if (aid == FAIL) { hk_fail("nbit-startread", "fail"); Hclose(fid); return; }
    int mode = (int)hk_range(0, 19); /* 0-5 one read; 6-10 equal chunks; 11-15 non-increasing; 16-18 equal chunks with seeks; 19 arbitrary whole-value partition */
    static char lens[200000]; size_t ll = 0; lens[0] = 0;
    int pos = 0, outn = 0, prev = 0, growing = 0, chunk = sz * (int)hk_range(1, 64);
    int bp = 1024, valid = 0; /* simulation of buf_pos / decoded bytes in the expansion buffer, to classify the partition */
    memset(rbuf, 0xA5, (size_t)n + 8);
    static uint8_t got[MAXB + 16], want[MAXB + 16];
    while (pos < n && ll < sizeof lens - 64) {
        int l;
        if (mode <= 5) l = n - pos;
        else if (mode <= 10 || (mode >= 16 && mode <= 18)) l = chunk;
        else if (mode <= 15) { l = prev ? sz * (int)hk_range(1, prev / sz) : sz * (int)hk_range(1, 1024 / sz); }
        else l = sz * (int)hk_range(1, hk_chance(30) ? 300 : 8);
        if (mode >= 16 && mode <= 18 && hk_chance(30)) { /* seek to a whole-value offset */
            int to = sz * (int)hk_range(0, nvals - 1);
            if (Hseek(aid, to, DF_START) == FAIL) { hk_fail("nbit-seek", "Hseek(%d)", to); break; }
            ll += (size_t)sprintf(lens + ll, "%ss%d", ll ? "," : "", to);
            pos = to; prev = 0; bp = 1024; valid = 0;
            continue;
        }
        if (l > n - pos) l = n - pos;
        { /* HCIcnbit_decode recomputes buf_size from every request: decoded bytes are dropped or stale bytes returned unless
             the requests fit its bookkeeping (equal or non-increasing sizes <= 1024, multiples of 1024, one single read) */
            int bs = l < 1024 ? l : 1024, items = bs / sz, rem = l;
            while (rem > 0) {
                if (bp >= bs) { if (bp < valid) growing = 1; valid = items * sz; bp = 0; }
                int cl = rem < bs - bp ? rem : bs - bp;
                if (bp + cl > valid) growing = 1;
                bp += cl; rem -= cl;
            }
        }
        int32 r = Hread(aid, l, rbuf);
        if (r != l) { hk_fail("nbit-read-count", "Hread(%d)=%d at %d of %d", l, (int)r, pos, n); break; }
        ll += (size_t)sprintf(lens + ll, "%s%d", ll ? "," : "", l);
        memcpy(got + outn, rbuf, (size_t)l); memcpy(want + outn, shadow + pos, (size_t)l); outn += l;
        pos += l; prev = l;
    }
    Hendaccess(aid);
    {
        int i; for (i = 0; i < outn && got[i] == want[i]; i++) {}
        if (i < outn) hk_fail(growing ? "nbit-read-partition" : "nbit-read-data",
                              "cfg(%s) %d values, reads %s: byte %d is %02x, projection says %02x", cfg, nvals, ll < 60 ? lens : "(long)", i, got[i], want[i]);
    }
    { /* every partition is compared with the model (before the repair of nbit-read-partition a growing read size returned
         uninitialised buffer bytes) */
        sb_reset(); sb_printf("T nbit dec %s ", cfg); sb_hex(raw, (size_t)g); sb_printf(" %s => ", ll ? lens : "-"); sb_hex(got, (size_t)outn); sb_flush();
    }
    if (mode <= 5) {
        sb_reset(); sb_printf("T nbit proj %s ", cfg); sb_hex(data, (size_t)n); sb_printf(" => "); sb_hex(got, (size_t)outn); sb_flush();
        sb_reset(); sb_printf("T nbit spec %s ", cfg); sb_hex(data, (size_t)n); sb_printf(" => "); sb_hex(got, (size_t)outn); sb_flush();
    }
    hk_stat("nbit_cases", 1); hk_stat(sz == 1 ? "nbit_sz1" : sz == 2 ? "nbit_sz2" : sz == 4 ? "nbit_sz4" : "nbit_sz8", 1);
    if (growing) hk_stat("nbit_unsafe_partitions", 1);
    Hclose(fid);
}

/* ------------------------------------------------------------------ (F) n-bit coder, unit level: the static functions of cnbit.c called
 * directly on a compinfo_t built by hand (its `aid` is a real bit id on element 1005/7), so that every nt_size 1..NBIT_MASK_SIZE and
 * every partition of a write / a read into calls - also calls that cut a value - is reached:
 *   T nbit finit <nt_size> <sign> <fill> <start> <len> => <offsets>;<lengths>;<masks>;<mask_buf>  the tables HCIcnbit_init builds
 *                                                         (mask_info[0..nt_size) as comma lists, mask_buf[0..nt_size))
 *   T nbit fenc  <cfg> <hex data> <n,...> => <hex raw>    HCIcnbit_encode called with these byte counts, Hendbitaccess(aid,0), raw bytes
 *   T nbit fdec  <cfg> <hex raw> <n,...> => <hex out>     HCIcnbit_init, then HCIcnbit_decode called with these byte counts (any sizes)
 *   T nbit feof  <cfg> <hex raw> <n> => ok|fail           one HCIcnbit_decode call that asks for more than the element holds
 * oracle: for whole values of the sizes 1,2,4,8 the bytes read back are the documented projection (computed on the integer value)   */
static void nbit_fn_setup(compinfo_t *info, accrec_t *rec, int32 bid, int sz, int sign, int fill, int start, int len)
{
    memset(info, 0, sizeof *info); memset(rec, 0, sizeof *rec);
    info->aid = bid;
    info->cinfo.coder_info.nbit_info.nt = DFNT_UINT8; info->cinfo.coder_info.nbit_info.nt_size = sz;
    info->cinfo.coder_info.nbit_info.sign_ext = sign; info->cinfo.coder_info.nbit_info.fill_one = fill;
    info->cinfo.coder_info.nbit_info.mask_off = start; info->cinfo.coder_info.nbit_info.mask_len = len;
    memset(info->cinfo.coder_info.nbit_info.buffer, 0xBE, NBIT_BUF_SIZE);   /* stale content of the expansion buffer */
    memset(info->cinfo.coder_info.nbit_info.mask_buf, 0x5A, NBIT_MASK_SIZE);
    memset(info->cinfo.coder_info.nbit_info.mask_info, 0x77, sizeof info->cinfo.coder_info.nbit_info.mask_info);
    info->cinfo.coder_info.nbit_info.buf_pos = 3; info->cinfo.coder_info.nbit_info.buf_len = 9;
    info->cinfo.coder_info.nbit_info.nt_pos = 1; info->cinfo.coder_info.nbit_info.offset = 77;
    rec->special_info = info;
}

static void case_nbit_fn(void)
{
    static compinfo_t info;
    accrec_t rec;
    const char *path;
    int32 fid = fresh_file(&path);
    if (fid == FAIL) return;
    int sz;
    switch ((int)hk_range(0, 9)) {
        case 0: sz = (int)hk_range(1, NBIT_MASK_SIZE); break;       /* any size the mask arrays can hold */
        case 1: sz = (int)hk_range(3, 7); break;
        default: { static const int S[] = {1, 2, 4, 8}; sz = HK_PICK(S); } break;
    }
    int nbits = 8 * sz;
    int start = hk_chance(25) ? nbits - 1 : (int)hk_range(0, nbits - 1);
    int len = hk_chance(20) ? start + 1 : hk_chance(20) ? 1 : (int)hk_range(1, start + 1);
    int sign = hk_chance(50), fill = hk_chance(50);
    int nvals;
    switch ((int)hk_range(0, 7)) {
        case 0: nvals = (int)hk_range(1, 3); break;
        case 1: nvals = 1024 / sz + (int)hk_range(-2, 2); break;      /* around NBIT_BUF_SIZE */
        case 2: nvals = (int)hk_range(1024 / sz, 3 * 1024 / sz); break;
        default: nvals = (int)hk_range(1, 60); break;
    }
    if (nvals < 1) nvals = 1;
    int n = nvals * sz;
    int cut = hk_chance(25) ? (int)hk_range(1, sz) - 1 : 0;            /* the last value may be written incompletely */
    for (int i = 0; i < n; i++) data[i] = hk_chance(10) ? 0 : hk_chance(10) ? 0xff : hk_byte();
    if (sz == 1 || sz == 2 || sz == 4 || sz == 8)
        for (int i = 0; i < nvals; i++) {
            uint64_t v = 0;
            for (int b = 0; b < sz; b++) v = (v << 8) | data[i * sz + b];
            uint64_t e = nbit_expect(nbits, sign, fill, start, len, v);
            for (int b = 0; b < sz; b++) shadow[i * sz + b] = (uint8_t)(e >> (8 * (sz - 1 - b)));
        }
    char cfg[64]; snprintf(cfg, sizeof cfg, "%d %d %d %d %d", sz, sign, fill, start, len);
    /* ---- write side */
    int32 bid = Hstartbitwrite(fid, 1005, 7, 0);
    if (bid == FAIL) { hk_fail("nbitfn-startwrite", "fail"); Hclose(fid); return; }
    if (Hbitappendable(bid) == FAIL) hk_fail("nbitfn-appendable", "fail");
    nbit_fn_setup(&info, &rec, bid, sz, sign, fill, start, len);
    if (HCIcnbit_init(&rec) != SUCCEED) { hk_fail("nbitfn-init", "write"); Hendbitaccess(bid, 0); Hclose(fid); return; }
    {
        comp_coder_nbit_info_t *nb = &info.cinfo.coder_info.nbit_info;
        sb_reset(); sb_printf("T nbit finit %s => ", cfg);
        for (int i = 0; i < sz; i++) sb_printf("%s%d", i ? "," : "", nb->mask_info[i].offset);
        sb_printf(";");
        for (int i = 0; i < sz; i++) sb_printf("%s%d", i ? "," : "", nb->mask_info[i].length);
        sb_printf(";");
        for (int i = 0; i < sz; i++) sb_printf("%s%d", i ? "," : "", (int)nb->mask_info[i].mask);
        sb_printf(";");
        for (int i = 0; i < sz; i++) sb_printf("%s%d", i ? "," : "", (int)nb->mask_buf[i]);
        sb_flush();
        if (nb->buf_pos != NBIT_BUF_SIZE || nb->buf_len != 0 || nb->nt_pos != 0 || nb->offset != 0) hk_fail("nbitfn-init-state", "buf_pos=%d buf_len=%d nt_pos=%d offset=%d", nb->buf_pos, nb->buf_len, nb->nt_pos, (int)nb->offset);
        int tot = 0;
        for (int i = 0; i < sz; i++) tot += nb->mask_info[i].length;
        if (tot != len) hk_fail("nbitfn-init-widths", "cfg(%s): the mask lengths add up to %d", cfg, tot);
    }
    int wn = n - cut;
    static char lens[200000]; size_t ll = 0; lens[0] = 0;
    {
        int pos = 0, style = (int)hk_range(0, 3);
        while (pos < wn && ll < sizeof lens - 64) {
            int l = style == 0 ? wn - pos : style == 1 ? (int)hk_range(0, 2 * sz + 1) : style == 2 ? (int)hk_range(1, 700) : sz * (int)hk_range(1, 5);
            if (l > wn - pos) l = wn - pos;
            if (HCIcnbit_encode(&info, l, data + pos) != SUCCEED) { hk_fail("nbitfn-encode", "HCIcnbit_encode(%d)", l); break; }
            ll += (size_t)sprintf(lens + ll, "%s%d", ll ? "," : "", l);
            pos += l;
        }
        if (info.cinfo.coder_info.nbit_info.offset != wn) hk_fail("nbitfn-encode-offset", "offset=%d after %d bytes", (int)info.cinfo.coder_info.nbit_info.offset, wn);
        if (info.cinfo.coder_info.nbit_info.nt_pos != wn % sz) hk_fail("nbitfn-encode-ntpos", "nt_pos=%d after %d bytes of size %d", info.cinfo.coder_info.nbit_info.nt_pos, wn, sz);
    }
    if (Hendbitaccess(bid, 0) == FAIL) hk_fail("nbitfn-endwrite", "fail");
    int32 g = Hlength(fid, 1005, 7);
    if (g < 0 || g > MAXB) g = 0;
    if (g > 0 && Hgetelement(fid, 1005, 7, raw) != g) hk_fail("nbitfn-getraw", "len=%d", (int)g);
    sb_reset(); sb_printf("T nbit fenc %s ", cfg); sb_hex(data, (size_t)wn); sb_printf(" %s => ", ll ? lens : "-"); sb_hex(raw, (size_t)g); sb_flush();
    if (g == 0) { hk_stat("nbitfn_empty", 1); Hclose(fid); return; }
    /* ---- read side: any byte counts, also ones that cut a value; never more than the whole values written */
    int whole = (wn / sz) * sz;
    bid = Hstartbitread(fid, 1005, 7);
    if (bid == FAIL) { hk_fail("nbitfn-startread", "fail"); Hclose(fid); return; }
    nbit_fn_setup(&info, &rec, bid, sz, sign, fill, start, len);
    if (HCIcnbit_init(&rec) != SUCCEED) hk_fail("nbitfn-init", "read");
    static uint8_t got[MAXB + 16];
    int pos = 0, outn = 0, style = (int)hk_range(0, 4);
    ll = 0; lens[0] = 0;
    while (pos < whole && ll < sizeof lens - 64) {
        int l = style == 0 ? whole - pos : style == 1 ? (int)hk_range(0, 2 * sz + 1) : style == 2 ? (int)hk_range(1, 1500) : style == 3 ? sz * (int)hk_range(1, 300) : (int)hk_range(1, 40);
        if (l > whole - pos) l = whole - pos;
        memset(rbuf, 0xA5, (size_t)l + 8);
        if (HCIcnbit_decode(&info, l, rbuf) != SUCCEED) { hk_fail("nbitfn-decode", "HCIcnbit_decode(%d) at %d of %d", l, pos, whole); break; }
        if (rbuf[l] != 0xA5) hk_fail("nbitfn-decode-overrun", "HCIcnbit_decode(%d) wrote behind the buffer", l);
        ll += (size_t)sprintf(lens + ll, "%s%d", ll ? "," : "", l);
        memcpy(got + outn, rbuf, (size_t)l); outn += l; pos += l;
    }
    if (info.cinfo.coder_info.nbit_info.offset != outn) hk_fail("nbitfn-decode-offset", "offset=%d after %d bytes", (int)info.cinfo.coder_info.nbit_info.offset, outn);
    Hendbitaccess(bid, 0);
    if (sz == 1 || sz == 2 || sz == 4 || sz == 8) {
        int i; for (i = 0; i < outn && got[i] == shadow[i]; i++) {}
        if (i < outn) hk_fail("nbitfn-read-data", "cfg(%s) reads %s: byte %d is %02x, projection says %02x", cfg, ll < 60 ? lens : "(long)", i, got[i], shadow[i]);
    }
    sb_reset(); sb_printf("T nbit fdec %s ", cfg); sb_hex(raw, (size_t)g); sb_printf(" %s => ", ll ? lens : "-"); sb_hex(got, (size_t)outn); sb_flush();
    /* ---- end of the data: one call that needs more items than the element holds (its padding bits included) */
    if (hk_chance(40) && g <= 64) {
        bid = Hstartbitread(fid, 1005, 7);
        if (bid != FAIL) {
            nbit_fn_setup(&info, &rec, bid, sz, sign, fill, start, len);
            if (HCIcnbit_init(&rec) != SUCCEED) hk_fail("nbitfn-init", "eof");
            int items = (int)((8L * g) / len) + (int)hk_range(1, 3);
            int l = items * sz;
            if (l <= MAXB) {
                int32 r = HCIcnbit_decode(&info, l, rbuf);
                sb_reset(); sb_printf("T nbit feof %s ", cfg); sb_hex(raw, (size_t)g); sb_printf(" %d => %s", l, r == SUCCEED ? "ok" : "fail"); sb_flush();
                if (!sign && r == SUCCEED) hk_fail("nbitfn-eof-accepted", "cfg(%s): %d bytes decoded from a %d-byte element", cfg, l, (int)g);
                hk_stat("nbitfn_eof", 1);
            }
            Hendbitaccess(bid, 0);
        }
    }
    hk_stat("nbitfn_cases", 1); hk_stat((sz == 1 || sz == 2 || sz == 4 || sz == 8) ? "nbitfn_std_size" : "nbitfn_odd_size", 1);
    if (cut) hk_stat("nbitfn_cut_value", 1);
    Hclose(fid);
}

/* exhaustive sweep of (start_bit, bit_len) for the 8- and 16-bit types: every pair, a few values each, one file */
static void case_nbit_sweep(void)
{
    static const int32 NT[] = {DFNT_INT8, DFNT_UINT8, DFNT_INT16, DFNT_UINT16};
    const char *path;
    int32 fid = fresh_file(&path);
    if (fid == FAIL) return;
    int32 nt = HK_PICK(NT);
    int sz = DFKNTsize(nt), nbits = 8 * sz, nvals = 4, n = nvals * sz;
    uint16 ref = 1;
    for (int start = 0; start < nbits; start++)
        for (int len = 1; len <= start + 1; len++, ref++) {
            int sign = hk_chance(50), fill = hk_chance(50);
            for (int i = 0; i < nvals; i++) {
                uint64_t v = i == 0 ? 0 : i == 1 ? ~0ULL : hk_next();
                v &= (1ULL << nbits) - 1;
                uint64_t e = nbit_expect(nbits, sign, fill, start, len, v);
                for (int b = 0; b < sz; b++) { data[i * sz + b] = (uint8_t)(v >> (8 * (sz - 1 - b))); shadow[i * sz + b] = (uint8_t)(e >> (8 * (sz - 1 - b))); }
            }
            comp_info ci; model_info mi; memset(&ci, 0, sizeof ci); memset(&mi, 0, sizeof mi);
            ci.nbit.nt = nt; ci.nbit.sign_ext = sign; ci.nbit.fill_one = fill; ci.nbit.start_bit = start; ci.nbit.bit_len = len;
            int32 aid = HCcreate(fid, 1010, ref, COMP_MODEL_STDIO, &mi, COMP_CODE_NBIT, &ci);
            if (aid == FAIL) { hk_fail("nbit-create", "sweep nt=%d start=%d len=%d", (int)nt, start, len); continue; }
            if (Hwrite(aid, n, data) != n) hk_fail("nbit-write", "sweep");
            Hendaccess(aid);
            aid = Hstartread(fid, 1010, ref);
            memset(rbuf, 0xA5, (size_t)n);
            int32 r = aid == FAIL ? FAIL : Hread(aid, n, rbuf);
            if (aid != FAIL) Hendaccess(aid);
            if (r != n) { hk_fail("nbit-read-count", "sweep Hread=%d", (int)r); continue; }
            if (memcmp(rbuf, shadow, (size_t)n) != 0) hk_fail("nbit-read-data", "sweep cfg(%d %d %d %d %d)", sz, sign, fill, start, len);
            sb_reset(); sb_printf("T nbit proj %d %d %d %d %d ", sz, sign, fill, start, len); sb_hex(data, (size_t)n); sb_printf(" => "); sb_hex(rbuf, (size_t)n); sb_flush();
            sb_reset(); sb_printf("T nbit spec %d %d %d %d %d ", sz, sign, fill, start, len); sb_hex(data, (size_t)n); sb_printf(" => "); sb_hex(rbuf, (size_t)n); sb_flush();
        }
    hk_stat(sz == 1 ? "nbit_sweeps_8bit" : "nbit_sweeps_16bit", 1);
    Hclose(fid);
}

/* ------------------------------------------------------------------ (C) skipping Huffman
 *   T skphuff enc <skip> <hex data> => <hex raw>
 *   T skphuff dec <skip> <n> <hex raw> => <hex data>        (model decoder through its bit-id state machine)
 *   T skphuff decb <skip> <n> <hex raw> => <hex data>       (model decoder on the plain bit list: the function of the theorem)
 *   T skphuff lens <skip> <hex data> => <maxbits> <maxwords> <totalbits>   longest code (bits, 32-bit words of the encoder's bit
 *                                                            stack) and length of the whole bit stream, as measured by the
 *                                                            replica of harness/skpgen.h; the model recomputes them from its
 *                                                            own Hbitwrite list (ties the STATs below to the model)
 * Inputs: random/short streams (gen_skp), and the structured families of skpgen.h (ramps, gapped ramps repeated, sorted and
 * reverse-sorted alphabets, hill-climbed adversaries, for every skip size) that drive the trees DEEP: codes of more than 32, 64
 * and 96 bits, i.e. 2, 3 and 4 words of the bit stack.  STAT max_skphuff_code_bits = longest code of the run (maximum, not a
 * sum), skphuff_codes_33_64 / _65_96 / _97_128 / _gt128 = bytes coded with that many bits.
 * Oracles besides the read-back: skp-raw-len (the stored stream has exactly the bits of the codes, rounded up to a byte) and
 * skp-raw-decode (an independent decoder gets the data back from the stored bytes). */
static int gen_skp(uint8_t *d, int cap)
{
    int kind = (int)hk_range(0, 7), n = 0, target;
    switch ((int)hk_range(0, 5)) {
        case 0: target = (int)hk_range(0, 8); break;
        case 1: target = (int)hk_range(250, 270); break;
        default: target = (int)hk_range(0, cap); break;
    }
    while (n < target) {
        uint8_t v = hk_byte();
        switch (kind) {
            case 0: d[n++] = v; break;                                   /* incompressible */
            case 1: d[n++] = (uint8_t)(v & 1); break;                    /* tiny alphabet */
            case 2: d[n++] = 0; break;
            case 3: d[n++] = (uint8_t)((n & 1) ? (n >> 4) : 0); break;   /* 16-bit lanes */
            case 4: d[n++] = (uint8_t)(n % 3 == 2 ? 9 : 7); break;
            case 5: d[n++] = (uint8_t)n; break;                          /* ramp: every symbol, deep trees */
            case 6: { int l = (int)hk_range(1, 300); while (l-- > 0 && n < target) d[n++] = v; break; }
            default: d[n++] = (uint8_t)(v & 0x0F); break;
        }
    }
    return n;
}

static void case_skphuff(void)
{
    const char *path;
    int32 fid = fresh_file(&path);
    if (fid == FAIL) return;
    int skip = hk_chance(85) ? (int)hk_range(1, 9) : (int)hk_range(10, 40);
    int n, structured = 0;
    if (hk_chance(15)) { /* deep trees: per lane a long two-symbol alternation, then a ramp over all symbols: codes longer than
                            32 bits (second stack word of the encoder, up to ~48 bits) */
        skip = (int)hk_range(1, 2);
        n = (int)maxlen < 400 * skip ? (int)maxlen : (int)hk_range(400 * skip, (int)maxlen);
        int a = (int)hk_range(100, 160);
        for (int i = 0; i < n; i++) { int q = i / skip; data[i] = (uint8_t)(q < a ? (q & 1) : q); }
        hk_stat("skphuff_deep_cases", 1);
    }
    else if (hk_chance(22)) { /* structured families of skpgen.h on every lane; half of these cases steered to the deep region */
        int fam = 0;
        n = (int)skp_gen_structured(data, 16000, skip, hk_chance(50), &fam);
        structured = 1;
        hk_stat("skphuff_struct_cases", 1);
        hk_stat(fam == SKF_RAMP ? "skphuff_fam_ramp" : fam == SKF_GAPRAMP ? "skphuff_fam_gapramp" : fam == SKF_SORTED ? "skphuff_fam_sorted" :
                fam == SKF_ADVERSARY ? "skphuff_fam_adversary" : "skphuff_fam_altramp", 1);
    }
    else n = gen_skp(data, (int)maxlen);
    skp_lens sl; static uint16_t clen[MAXB + 16];
    skp_measure(data, n, skip, &sl, clen);
    comp_info ci; model_info mi; memset(&ci, 0, sizeof ci); memset(&mi, 0, sizeof mi);
    ci.skphuff.skp_size = skip;
    int32 aid = HCcreate(fid, 1004, 5, COMP_MODEL_STDIO, &mi, COMP_CODE_SKPHUFF, &ci);
    if (aid == FAIL) { hk_fail("skp-create", "HCcreate skip=%d", skip); Hclose(fid); return; }
    {
        int pos = 0, style = (int)hk_range(0, 2);
        while (pos < n) {
            int l = style == 0 ? n - pos : style == 1 ? (int)hk_range(1, 7) : (int)hk_range(1, 300);
            if (l > n - pos) l = n - pos;
            int32 r = Hwrite(aid, l, data + pos);
            if (r != l) { hk_fail("skp-write", "Hwrite(%d)=%d", l, (int)r); break; }
            pos += l;
        }
    }
    if (Hendaccess(aid) == FAIL) hk_fail("skp-endaccess", "write");
    uint16 ft = 0, fr = 0; int32 foff = 0, flen = 0, g = 0;
    if (Hfind(fid, DFTAG_COMPRESSED, DFREF_WILDCARD, &ft, &fr, &foff, &flen, DF_FORWARD) == FAIL) {
        if (n > 0) hk_fail("skp-noraw", "no DFTAG_COMPRESSED n=%d", n);
    }
    else {
        int toolong = flen > MAXB;
        if (flen < 0 || flen > MAXB) flen = 0;
        g = flen > 0 ? Hgetelement(fid, DFTAG_COMPRESSED, fr, raw) : 0;
        if (g != flen) hk_fail("skp-getraw", "Hgetelement=%d len=%d", (int)g, (int)flen);
        int32 csz = -1, osz = -1;
        if (HCPgetdatasize(fid, 1004, 5, &csz, &osz) == FAIL) hk_fail("skp-getdatasize", "fail");
        else { if (osz != n) hk_fail("skp-origsize", "orig=%d expected %d", (int)osz, n); if (csz != -1 && csz != flen && !(n == 0)) hk_fail("skp-compsize", "comp=%d stored=%d", (int)csz, (int)flen); }
        if (n > 0 && !toolong && g == flen) {
            /* the stored stream is the concatenation of the codes (leaf depth bits each), padded to a byte ... */
            if (g != (sl.total_bits + 7) / 8)
                hk_fail("skp-raw-len", "skip=%d n=%d: %d bytes stored, the codes have %ld bits = %ld bytes (longest code %d bits)", skip, n, (int)g, sl.total_bits, (sl.total_bits + 7) / 8, sl.maxbits);
            /* ... and an independent decoder reads the data back from it */
            long dn = skp_decode(raw, g, skip, n, shadow), bad = 0;
            while (bad < dn && shadow[bad] == data[bad]) bad++;
            if (dn != n || bad < n)
                hk_fail("skp-raw-decode", "skip=%d n=%d: the stored bytes do not decode to the data written: %ld bytes decodable, first wrong byte %ld (lane %ld, its code has %d bits = %d words of the bit stack; longest code %d bits)",
                        skip, n, dn, bad, bad % skip, bad < n ? clen[bad] : 0, bad < n ? (clen[bad] + 31) / 32 : 0, sl.maxbits);
        }
    }
    sb_reset(); sb_printf("T skphuff enc %d ", skip); sb_hex(data, (size_t)n); sb_printf(" => "); sb_hex(raw, (size_t)g); sb_flush();
    if (structured || sl.maxbits > 32 || hk_chance(10)) {
        sb_reset(); sb_printf("T skphuff lens %d ", skip); sb_hex(data, (size_t)n); sb_printf(" => %d %d %ld", sl.maxbits, (sl.maxbits + 31) / 32, sl.total_bits); sb_flush();
    }
    /* read back: whole, then partition with seeks */
    if (n > 0) {
        aid = Hstartread(fid, 1004, 5);
        if (aid == FAIL) hk_fail("skp-startread", "fail");
        else {
            int32 r = Hread(aid, n, rbuf);
            if (r != n || memcmp(rbuf, data, (size_t)n) != 0) {
                int i = 0; while (r == n && i < n && rbuf[i] == data[i]) i++;
                hk_fail("skp-read-data", "whole read r=%d n=%d skip=%d: first wrong byte %d (lane %d, code of %d bits; longest code of the stream %d bits)", (int)r, n, skip, i, i % skip, i < n ? clen[i] : 0, sl.maxbits);
            }
            else {
                sb_reset(); sb_printf("T skphuff dec %d %d ", skip, n); sb_hex(raw, (size_t)g); sb_printf(" => "); sb_hex(rbuf, (size_t)n); sb_flush();
                sb_reset(); sb_printf("T skphuff decb %d %d ", skip, n); sb_hex(raw, (size_t)g); sb_printf(" => "); sb_hex(rbuf, (size_t)n); sb_flush();
            }
            int pos = n, steps = (int)hk_range(0, 8);
            for (int s = 0; s < steps; s++) {
                if (hk_chance(60)) { int to = (int)hk_range(0, n - 1); if (sl.first_long >= 0 && hk_chance(40)) to = (int)hk_range(sl.first_long > 20 ? sl.first_long - 20 : 0, sl.first_long);
                                     if (Hseek(aid, to, DF_START) == FAIL) { hk_fail("skp-seek", "to %d of %d", to, n); break; } pos = to; }
                int want = (int)hk_range(0, 60); if (want > n - pos) want = n - pos;
                if (want == 0) continue;
                r = Hread(aid, want, rbuf);
                if (r != want || memcmp(rbuf, data + pos, (size_t)want) != 0) { hk_fail("skp-read-data", "read %d at %d (r=%d) skip=%d n=%d (longest code %d bits)", want, pos, (int)r, skip, n, sl.maxbits); break; }
                pos += want;
            }
            Hendaccess(aid);
        }
    }
    hk_stat("max_skphuff_code_bits", sl.maxbits);
    if (sl.n33) hk_stat("skphuff_codes_33_64", sl.n33);
    if (sl.n65) hk_stat("skphuff_codes_65_96", sl.n65);
    if (sl.n97) hk_stat("skphuff_codes_97_128", sl.n97);
    if (sl.n129) hk_stat("skphuff_codes_gt128", sl.n129);
    if (sl.nwhole) hk_stat("skphuff_codes_64_96_128_exactly", sl.nwhole);
    if (sl.maxbits > 64) hk_stat("skphuff_cases_code_gt64", 1);
    if (sl.maxbits > 96) hk_stat("skphuff_cases_code_gt96", 1);
    hk_stat("skphuff_cases", 1); hk_stat("skphuff_bytes", n);
    Hclose(fid);
}

/* ------------------------------------------------------------------ (D) regression probes of repaired defects (each its own key)
 * bits-read-past-end, skp-prefix-rewrite, sanitizer:heap-buffer-overflow:Hbitwrite / bits-seek-end-append: all `fixed` in
 * known_findings.json (reproductions under repro/bits); if one of them returns the probe reports it as a violation. */
static void case_probe(void)
{
    const char *path;
    int which = (int)hk_range(0, 2);
    int32 fid = fresh_file(&path);
    if (fid == FAIL) return;
    if (which == 0) { /* reading past the end of an element must stop with a short count / FAIL */
        int n = (int)hk_range(1, 40);
        for (int i = 0; i < n; i++) data[i] = hk_byte();
        Hputelement(fid, 1005, 6, data, n);
        int32 bid = Hstartbitread(fid, 1005, 6);
        uint32 v;
        for (int i = 0; i < n; i++) Hbitread(bid, 8, &v);
        int r = Hbitread(bid, 8, &v);
        if (r == 8) hk_fail("bits-read-past-end", "Hbitread(8) after the last byte of a %d-byte element returned 8 (data %u): no EOF is ever reported", n, (unsigned)v);
        Hendbitaccess(bid, 0);
    }
    else if (which == 2) { /* append after seeking back to the end of the data, when the end lies in another 4096-byte block:
                              bytez is left at bytea+n with bytep == bytez, so the buffer is never flushed again and
                              Hbitwrite runs off the end of the 4096-byte buffer (ASan: heap-buffer-overflow WRITE, hbitio.c:333) */
        int nb = (int)hk_range(4200, 6000), more = 4096 - (nb - 4096) + (int)hk_range(1, 200);
        int32 bid = Hstartbitwrite(fid, 1007, 8, 0);
        Hbitappendable(bid);
        for (int i = 0; i < nb; i++) Hbitwrite(bid, 8, (uint32)((i * 7 + 1) & 0xff));
        if (Hbitseek(bid, 0, 0) == FAIL || Hbitseek(bid, nb, 0) == FAIL) hk_fail("bits-seek-end", "Hbitseek failed");
        else {
            for (int i = 0; i < more; i++) Hbitwrite(bid, 8, (uint32)(((nb + i) * 7 + 1) & 0xff));
            Hendbitaccess(bid, 0);
            int32 g = Hgetelement(fid, 1007, 8, raw);
            int bad = 0;
            for (int i = 0; i < nb + more && i < g; i++) if (raw[i] != (uint8_t)((i * 7 + 1) & 0xff)) bad++;
            if (g < nb + more || bad) hk_fail("bits-seek-end-append", "after seek-to-end + append: stored %d of %d bytes, %d wrong", (int)g, nb + more, bad);
        }
    }
    else { /* prefix rewrite of a skipping-Huffman element is accepted and must then keep the rest intact */
        int n = (int)hk_range(50, 400), m = (int)hk_range(1, 20);
        for (int i = 0; i < n; i++) data[i] = hk_byte();
        comp_info ci; model_info mi; memset(&ci, 0, sizeof ci); memset(&mi, 0, sizeof mi);
        ci.skphuff.skp_size = (int)hk_range(1, 4);
        int32 aid = HCcreate(fid, 1006, 7, COMP_MODEL_STDIO, &mi, COMP_CODE_SKPHUFF, &ci);
        Hwrite(aid, n, data); Hendaccess(aid);
        aid = Hstartwrite(fid, 1006, 7, n);
        for (int i = 0; i < m; i++) shadow[i] = hk_byte();
        int32 w = Hwrite(aid, m, shadow);
        Hendaccess(aid);
        if (w == m) {
            aid = Hstartread(fid, 1006, 7);
            int32 r = Hread(aid, n, rbuf);
            Hendaccess(aid);
            if (r != n || memcmp(rbuf, shadow, (size_t)m) != 0 || memcmp(rbuf + m, data + m, (size_t)(n - m)) != 0)
                hk_fail("skp-prefix-rewrite", "Hwrite of %d bytes at offset 0 of a %d-byte element was accepted, the element then reads back wrong", m, n);
        }
    }
    hk_stat("probe_cases", 1);
    Hclose(fid);
}

/* ------------------------------------------------------------------ (E) HCIcskphuff_splay, unit level (function-level Tie A cross-run)
 *   T skphuff splay <left> <right> <up> <plain> => <left'> <right'> <up'>
 * one tree (skip_size 1) initialised as HCIcskphuff_init does, warmed up by a random byte sequence of splays, then a few splays
 * each reported with the arrays before and after (decimal, comma separated: left[SUCCMAX], right[SUCCMAX], up[TWICEMAX]).
 * The arrays are malloc'ed at their exact sizes (ASan sees any index outside them).  Oracle (independent of the model): after every
 * splay the three arrays still describe one tree (up is the inverse of left/right on the nodes 0..511). */
static void sb_arr_u(const unsigned *a, int n) { for (int i = 0; i < n; i++) sb_printf(i ? ",%u" : "%u", a[i]); }
static void sb_arr_8(const uint8 *a, int n) { for (int i = 0; i < n; i++) sb_printf(i ? ",%u" : "%u", (unsigned)a[i]); }
static int splay_tree_ok(const unsigned *l, const unsigned *r, const uint8 *u)
{
    for (int j = 0; j < SUCCMAX; j++) {
        if (l[j] >= 2 * SUCCMAX || r[j] >= 2 * SUCCMAX || l[j] == r[j]) return 0;
        if (u[l[j]] != j || u[r[j]] != j) return 0;
    }
    for (int x = 0; x < 2 * SUCCMAX; x++)
        if (l[u[x]] != (unsigned)x && r[u[x]] != (unsigned)x) return 0;
    return 1;
}
static uint8_t splay_byte(int kind, int i)
{
    uint8_t v = hk_byte();
    switch (kind) {
        case 0: return v;                                  /* uniform */
        case 1: return (uint8_t)(v & 1);                   /* two symbols: one very deep tree */
        case 2: return (uint8_t)(v & 0x0F);
        case 3: return (uint8_t)i;                         /* ramp: every symbol */
        case 4: return (uint8_t)(i < 140 ? (i & 1) : i);   /* alternation then ramp: paths longer than 32 */
        case 5: return (uint8_t)(hk_chance(50) ? 255 : (hk_chance(50) ? 0 : v));
        default: return (uint8_t)(v % 3 == 0 ? 200 : v % 7);
    }
}
static void case_splay(void)
{
    comp_coder_skphuff_info_t si;
    unsigned *l = malloc(sizeof(unsigned) * SUCCMAX), *r = malloc(sizeof(unsigned) * SUCCMAX);
    uint8    *u = malloc(sizeof(uint8) * TWICEMAX);
    unsigned *lp[1], *rp[1]; uint8 *up[1];
    if (!l || !r || !u) { free(l); free(r); free(u); return; }
    lp[0] = l; rp[0] = r; up[0] = u;
    memset(&si, 0, sizeof si);
    si.skip_size = 1; si.left = lp; si.right = rp; si.up = up; si.skip_pos = 0; si.offset = 0;
    for (int i = 0; i < TWICEMAX; i++) u[i] = (uint8)(i >> 1);       /* as HCIcskphuff_init */
    for (int j = 0; j < SUCCMAX; j++) { l[j] = (unsigned)(j << 1); r[j] = (unsigned)((j << 1) + 1); }
    int kind = (int)hk_range(0, 6), warm, steps = (int)hk_range(1, 5), i = 0;
    switch ((int)hk_range(0, 3)) {
        case 0: warm = 0; break;
        case 1: warm = (int)hk_range(1, 20); break;
        default: warm = (int)hk_range(100, 3000); break;
    }
    for (; i < warm; i++) HCIcskphuff_splay(&si, splay_byte(kind, i));
    if (!splay_tree_ok(l, r, u)) hk_fail("splay-tree", "arrays are not a tree after %d warm-up splays (kind %d)", warm, kind);
    for (int s = 0; s < steps; s++, i++) {
        uint8_t p = hk_chance(30) ? hk_byte() : splay_byte(kind, i);
        sb_reset(); sb_printf("T skphuff splay "); sb_arr_u(l, SUCCMAX); sb_printf(" "); sb_arr_u(r, SUCCMAX); sb_printf(" "); sb_arr_8(u, TWICEMAX);
        sb_printf(" %u => ", (unsigned)p);
        HCIcskphuff_splay(&si, p);
        sb_arr_u(l, SUCCMAX); sb_printf(" "); sb_arr_u(r, SUCCMAX); sb_printf(" "); sb_arr_8(u, TWICEMAX); sb_flush();
        if (!splay_tree_ok(l, r, u)) hk_fail("splay-tree", "arrays are not a tree after splay(%u) (warm %d kind %d step %d)", (unsigned)p, warm, kind, s);
    }
    hk_stat("splay_cases", 1); hk_stat("splay_lines", steps);
    free(l); free(r); free(u);
}

/* scenario classes and their weights; argv[5] is a bit mask of enabled classes (default: all) */
static long enabled = 0xFFFF;
static void run_case(int k)
{
    static const struct { int bit, weight; } C[] = {{1, 14}, {2, 10}, {4, 20}, {8, 2}, {16, 3}, {32, 28}, {64, 19}, {128, 2}, {256, 2}, {512, 4}, {4096, 14}};
    int tot = 0, i;
    for (i = 0; i < (int)(sizeof C / sizeof C[0]); i++) if (enabled & C[i].bit) tot += C[i].weight;
    if (tot == 0) return;
    int pick = (int)hk_range(0, tot - 1);
    for (i = 0; i < (int)(sizeof C / sizeof C[0]); i++) {
        if (!(enabled & C[i].bit)) continue;
        if (pick < C[i].weight) break;
        pick -= C[i].weight;
    }
    switch (C[i].bit) {
        case 1: case_pack(); break;
        case 2: case_unpack(); break;
        case 4: case_script(0); break;
        case 8: case_script(1); break;
        case 16: case_script(2); break;
        case 32: case_nbit(k); break;
        case 64: case_skphuff(); break;
        case 128: case_probe(); break;
        case 256: case_nbit_sweep(); break;
        case 512: case_splay(); break;
        case 4096: case_nbit_fn(); break;
    }
}

int main(int argc, char **argv)
{
    if (argc > 4) maxlen = atol(argv[4]);
    if (maxlen > 9000) maxlen = 9000;
    if (argc > 5) enabled = atol(argv[5]);
    return hk_main(argc, argv, "bits");
}
